------------------------------ MODULE MCPipes ------------------------------
(* Bounded model of Pipes.tla: toggle bursts of at most MaxSrc source        *)
(* mutations over McStates, every delivery order.                            *)
(*                                                                            *)
(* Two uses:                                                                  *)
(*  - verification (Emit = FALSE, VIEW MCView): the property formulas as      *)
(*    invariants over ALL interleavings (SrcPriority = FALSE)                 *)
(*  - schedule generation (Emit = TRUE, SrcPriority = TRUE): every COMPLETE   *)
(*    behaviour is printed once as a JSON script that harness/pipesdrv        *)
(*    replays on the real machines (B3); SrcPriority removes only the         *)
(*    interleavings the harness cannot force (something happening BETWEEN     *)
(*    two handlers of one source transition, a delayed local inline call).    *)
EXTENDS Pipes, Json, TLC

CONSTANTS McMode, McStates, McMulti, McFlat, McLocal, McSlow, McAddOnly,
          McPipes,   \* "plain": one binding call, s -> s
                     \* "fan"  : two binding calls, s -> s and s -> s2 (Bind twice)
                     \* "err"  : target states named Err*: add {Exception, s}, remove {s}
          MaxSrc, MaxExt, MultiOps, SrcPriority, Emit

VARIABLES next,    \* external target mutations so far
          hist     \* script of the behaviour (schedule generation only)

mcvars == <<vars, next, hist>>

StatesA == {"A"}
StatesAB == {"A", "B"}
NoStates == {}

PipesOf(S) ==
  IF McMode = "any" THEN {}
  ELSE IF McPipes = "err"
  THEN {[b |-> 1, s |-> s, add |-> {"Exception", s}, rem |-> {s}] : s \in S}
  ELSE {[b |-> 1, s |-> s, add |-> {s}, rem |-> {s}] : s \in S}
       \cup IF McPipes = "fan"
            THEN {[b |-> 2, s |-> s, add |-> {s \o "2"}, rem |-> {s \o "2"}] : s \in S}
            ELSE {}

McCfg == [mode |-> McMode, states |-> McStates, multi |-> McMulti,
          tmulti |-> IF McPipes = "err" THEN McMulti \cup {"Exception"} ELSE McMulti,  \* built-in, Multi
          flat |-> McFlat, local |-> McLocal, addonly |-> McAddOnly, slow |-> McSlow,
          pipes |-> PipesOf(McStates)]

MCInit == InitWith(McCfg) /\ next = 0 /\ hist = <<>>

Log(x) == hist' = IF Emit THEN Append(hist, x) ELSE hist

OpSets == IF MultiOps THEN SUBSET McStates \ {{}} ELSE {{s} : s \in McStates}

InlinePending == \E e \in inflight : e.inl

MCSrc ==
  /\ nsrc < MaxSrc
  /\ \E op \in {"add", "remove"}, S \in OpSets :
       /\ SrcMutate(op, S, FALSE)
       /\ Log([k |-> "src", op |-> op, states |-> S])
  /\ UNCHANGED next

MCHandler ==
  /\ \E h \in srcPend : SrcHandler(h)
  /\ UNCHANGED <<next, hist>>

(* harness view: an inline call is delivered by the handler itself, at once   *)
(* (on a non-local target the driver notes that the source WAITED and opens   *)
(* the gate); a forked call is released by a `rel` command                    *)
MCDeliver ==
  \E e \in inflight :
    /\ SrcPriority => IF InlinePending THEN e.inl ELSE srcPend = {}
    /\ Deliver(e)
    /\ IF e.inl THEN UNCHANGED hist   \* the driver never holds an inline call back
       ELSE IF e.ext THEN UNCHANGED hist
       ELSE Log([k |-> "rel", src |-> e.sn - 1, op |-> e.op, states |-> e.sts])
    /\ UNCHANGED next

(* harness view (SrcPriority): one `step` command lets the parked transition  *)
(* run to its end and the queue loop pop the next mutation (or end)           *)
MCStep ==
  /\ SrcPriority
  /\ ~InlinePending /\ (srcPend = {} \/ procInl)
  /\ cur # None
  /\ tgt' = Apply(tgt, cur)
  /\ IF tq = <<>> THEN cur' = None /\ running' = FALSE /\ procInl' = FALSE /\ tq' = tq
     ELSE cur' = Head(tq) /\ tq' = Tail(tq) /\ UNCHANGED <<running, procInl>>
  /\ Log([k |-> "step"])
  /\ UNCHANGED <<cfg, src, srcPend, inflight, nid, nsrc, next>>

MCApply == ~SrcPriority /\ TgtApply /\ UNCHANGED <<next, hist>>
MCPop == ~SrcPriority /\ TgtPop /\ UNCHANGED <<next, hist>>

(* the external mutation is delivered at once (the harness goroutine calls    *)
(* the target directly)                                                       *)
MCExt ==
  /\ next < MaxExt /\ nsrc < MaxSrc
  /\ SrcPriority => (~InlinePending /\ srcPend = {})
  /\ cfg.slow
  /\ LET e == [id |-> nid, op |-> "add", sts |-> {ExtState}, inl |-> FALSE, args |-> TRUE,
               ext |-> TRUE, sn |-> 0]
         k == EnqKind(cfg, tgt, tq, running, e)
     IN /\ nid' = nid + 1
        /\ IF k = "queue" THEN tq' = Append(tq, e) /\ UNCHANGED <<cur, running, procInl>>
           ELSE cur' = e /\ running' = TRUE /\ procInl' = FALSE /\ UNCHANGED tq
  /\ next' = next + 1
  /\ Log([k |-> "ext"])
  /\ UNCHANGED <<cfg, src, srcPend, tgt, inflight, nsrc>>

MCNext == MCSrc \/ MCHandler \/ MCDeliver \/ MCStep \/ MCApply \/ MCPop \/ MCExt

MCSpec == MCInit /\ [][MCNext]_mcvars

MCView == <<vars, next>>

(* schedule emission: one line per complete behaviour                         *)
Complete == Quiescent /\ nsrc = MaxSrc

EmitSched ==
  (Emit /\ Complete) =>
     PrintT(<<"SCHED", ToJson([hist |-> hist,
                               src |-> SrcActive(src), tgt |-> tgt,
                               ok |-> IF cfg.mode = "pair"
                                      THEN FollowsOn(cfg, SrcActive(src), tgt)
                                      ELSE MirrorsOn(SrcActive(src), tgt)])>>)
=============================================================================
