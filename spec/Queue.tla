------------------------------- MODULE Queue -------------------------------
(* Several goroutines calling Add/Remove/Set on one machine: queueMutation    *)
(* (machine.go:1290-1374) and the drain loop processQueue                     *)
(* (machine.go:2028-2142) with its CAS on queueProcessing.                    *)
(*                                                                            *)
(* One action = the code a caller runs between two consecutive verif hook     *)
(* points (gates), so a behaviour of this spec is a schedule that the         *)
(* harness can force on the real machine and a recorded gate sequence of the  *)
(* real machine is a behaviour to validate:                                   *)
(*                                                                            *)
(*   start     --Append-->    qm.done      queue append under queueMx, tick   *)
(*   qm.done   --Enter-->     pq.enter     (or "end": queue empty)            *)
(*   pq.enter  --Cas-->       pq.casWon | pq.casLost                          *)
(*   pq.casLost --Lost-->     end          returns Queued(tick)               *)
(*   pq.casWon --Pop-->       pq.popped | pq.loopExit                         *)
(*   pq.popped --Run;Pop-->   pq.popped | pq.loopExit   transition + handlers *)
(*   pq.loopExit --Release--> pq.released  queueProcessing.Store(false)       *)
(*   pq.released --QEnd-->    pq.queueEnd  QueueEnd tracers, WhenQueueEnds    *)
(*   pq.queueEnd --Return-->  end | pq.enter (Recheck: queue not empty)       *)
(*                                                                            *)
(* A handler of a running transition may itself call Add (NestOf): the        *)
(* nested call runs on the handler goroutine inside the Run segment - it      *)
(* appends, enters, loses the CAS and returns Queued.                         *)
EXTENDS Naturals, Sequences, FiniteSets, TLC

CONSTANTS Callers,      \* set of caller ids (model values or numbers)
          MutsPer,      \* mutations issued by each caller, one after another
          NestCodes,    \* {10*caller + k}: that mutation's handler nests one Add
          PrepCodes,    \* {10*caller + k}: that operation is Eval / CanAdd: PrependMut, no queue tick
          Recheck       \* repaired code: re-check the queue after releasing the flag

VARIABLES pc,        \* caller -> gate it is parked at
          k,         \* caller -> index of the mutation it is issuing (1..MutsPer)
          queue,     \* sequence of [id, tick]
          qtick,     \* machine queue tick
          pending,   \* queueTicksPending
          qlen,      \* atomic queueLen
          processing,\* queueProcessing flag
          owner,     \* caller that holds the flag (0 = nobody) -- ghost
          popped,    \* ids in the order they were popped               -- history
          ticks,     \* id -> tick it was given                        -- history
          results,   \* id -> "queued" | "executed" | "none"            -- history
          wq         \* queue ticks whose WhenQueue(tick) channel is open (subs.whenQueue bindings)

vars == <<pc, k, queue, qtick, pending, qlen, processing, owner, popped, ticks, results, wq>>

(* What the popped transition turns out to be (processQueue, "parse wait      *)
(* chans", machine.go:2113-2131 has one branch per outcome):                   *)
(*   "changed"  accepted, some clock tick moved   -> processSubscriptions      *)
(*   "noop"     accepted, NO clock tick moved (add of an active non-Multi      *)
(*              state, remove of an inactive state) -> processSubscriptions    *)
(*   "canceled" vetoed by a negotiation handler   -> subs.ProcessWhenQueue     *)
(* Codes: 10*caller + k for mutation k of a caller, 100 + 10*caller + k for    *)
(* the Add nested by its handler.  These are definitions (not CONSTANTS) so    *)
(* that a model without them needs no cfg entry; a .cfg overrides them with    *)
(* `NoopCodes = {..}`.                                                          *)
NoopCodes == {}
VetoCodes == {}
(* the code as it is: an accepted transition that moved no clock still has its *)
(* queue-tick waiters matched (the queue tick HAS moved).  FALSE = "match      *)
(* subscriptions only when the clock moved" (predicts WhenQueueClosed false)   *)
SubsOnNoop == TRUE

NestOf == {<<c, i>> : c \in Callers, i \in 1..MutsPer} \cap
          {x \in Callers \X (1..MutsPer) : 10 * x[1] + x[2] \in NestCodes}

IsPrep(c, i) == 10 * c + i \in PrepCodes

Id(c, i) == <<c, i>>                \* mutation i of caller c
NestId(c, i) == <<c, i, "nested">>

Code(id) == IF Len(id) = 3 THEN 100 + 10 * id[1] + id[2] ELSE 10 * id[1] + id[2]
Outcome(id) == IF Code(id) \in VetoCodes THEN "canceled"
               ELSE IF Code(id) \in NoopCodes THEN "noop" ELSE "changed"
(* the WhenQueue bindings that the end of a transition with outcome o closes,  *)
(* the machine's queue tick being qt: all those at or below it                 *)
AfterTx(o, w, qt) ==
  IF o = "noop" /\ ~SubsOnNoop THEN w ELSE {t \in w : t > qt}

Init ==
  /\ pc = [c \in Callers |-> "start"]
  /\ k = [c \in Callers |-> 1]
  /\ queue = <<>> /\ qtick = 1 /\ pending = 0 /\ qlen = 0
  /\ processing = FALSE /\ owner = 0
  /\ popped = <<>>
  /\ ticks = <<>>      \* grows as a function id -> tick
  /\ results = <<>>
  /\ wq = {}

Assign(f, x, v) == [y \in DOMAIN f \cup {x} |-> IF y = x THEN v ELSE f[y]]

(* queueMutation: append under queueMx; the tick is pending + queueTick        *)
QAppend(c) ==
  /\ pc[c] = "start" /\ k[c] <= MutsPer /\ ~IsPrep(c, k[c])
  /\ LET id == Id(c, k[c])
         t == pending + 1 + qtick
     IN /\ queue' = Append(queue, [id |-> id, tick |-> t])
        /\ ticks' = Assign(ticks, id, t)
  /\ pending' = pending + 1
  /\ qlen' = qlen + 1
  /\ pc' = [pc EXCEPT ![c] = "qm.done"]
  /\ UNCHANGED <<k, qtick, processing, owner, popped, results, wq>>

(* Eval / CanAdd / CanRemove: PrependMut (machine.go:813-852) puts the entry  *)
(* at the FRONT without a queue tick and falls straight into processQueue;    *)
(* there is no hook between the prepend and pq.enter                          *)
Prepend(c) ==
  /\ pc[c] = "start" /\ k[c] <= MutsPer /\ IsPrep(c, k[c])
  /\ queue' = <<[id |-> Id(c, k[c]), tick |-> 0]>> \o queue
  /\ qlen' = qlen + 1
  /\ pc' = [pc EXCEPT ![c] = "pq.enter"]
  /\ UNCHANGED <<k, qtick, pending, processing, owner, popped, ticks, results, wq>>

(* processQueue entry: `if m.queueLen.Load() == 0 return Canceled`             *)
Enter(c) ==
  /\ pc[c] = "qm.done"
  /\ pc' = [pc EXCEPT ![c] = IF qlen = 0 THEN "return" ELSE "pq.enter"]
  /\ results' = IF qlen = 0 THEN Assign(results, Id(c, k[c]), "canceled-empty") ELSE results
  /\ UNCHANGED <<k, queue, qtick, pending, qlen, processing, owner, popped, ticks, wq>>

Cas(c) ==
  /\ pc[c] = "pq.enter"
  /\ IF processing
     THEN /\ pc' = [pc EXCEPT ![c] = "pq.casLost"]
          /\ UNCHANGED <<processing, owner>>
     ELSE /\ processing' = TRUE /\ owner' = c
          /\ pc' = [pc EXCEPT ![c] = "pq.casWon"]
  /\ UNCHANGED <<k, queue, qtick, pending, qlen, popped, ticks, results, wq>>

(* the public call returns the queue tick; the caller subscribes               *)
(* WhenQueue(tick) at once: `if m.queueTick >= tick` the channel is born       *)
(* closed, else a binding is kept (machine.go:696-711)                         *)
Lost(c) ==
  /\ pc[c] = "pq.casLost"
  /\ results' = Assign(results, Id(c, k[c]), "queued")
  /\ wq' = IF Id(c, k[c]) \in DOMAIN ticks /\ ticks[Id(c, k[c])] > qtick
            THEN wq \cup {ticks[Id(c, k[c])]} ELSE wq
  /\ pc' = [pc EXCEPT ![c] = "return"]
  /\ UNCHANGED <<k, queue, qtick, pending, qlen, processing, owner, popped, ticks>>

(* `for m.queueLen.Load() > 0 { pop ...`  -- the loop test and the pop          *)
PopOrExit(c, q, ql, pd, qt, pp) ==
  IF ql > 0
  THEN /\ queue' = Tail(q) /\ qlen' = ql - 1
       /\ pending' = IF Head(q).tick > 0 THEN pd - 1 ELSE pd
       /\ qtick' = IF Head(q).tick > 0 THEN qt + 1 ELSE qt
       /\ popped' = Append(pp, Head(q).id)
       /\ pc' = [pc EXCEPT ![c] = "pq.popped"]
  ELSE /\ queue' = q /\ qlen' = ql /\ pending' = pd /\ qtick' = qt /\ popped' = pp
       /\ pc' = [pc EXCEPT ![c] = "pq.loopExit"]

FirstPop(c) ==
  /\ pc[c] = "pq.casWon"
  /\ PopOrExit(c, queue, qlen, pending, qtick, popped)
  /\ UNCHANGED <<k, processing, owner, ticks, results, wq>>

(* run the popped transition (its State handler - which runs only when the    *)
(* transition really activates the state - may nest one Add: appended with a  *)
(* tick, CAS lost, Queued, WhenQueue subscribed), then the wait channels of    *)
(* the transition's outcome, then loop test and next pop.  An Eval / check     *)
(* (no queue tick) `continue`s before the wait channels.                       *)
RunThenPop(c) ==
  /\ pc[c] = "pq.popped"
  /\ LET id == IF popped = <<>> THEN <<0, 0>> ELSE popped[Len(popped)]
         nests == Len(id) = 2 /\ id \in NestOf /\ Outcome(id) = "changed"
         nid == NestId(id[1], id[2])
         t == pending + 1 + qtick
         q2 == IF nests THEN Append(queue, [id |-> nid, tick |-> t]) ELSE queue
         ql2 == IF nests THEN qlen + 1 ELSE qlen
         pd2 == IF nests THEN pending + 1 ELSE pending
         w2 == IF nests THEN wq \cup {t} ELSE wq
     IN /\ ticks' = IF nests THEN Assign(ticks, nid, t) ELSE ticks
        /\ results' = IF nests THEN Assign(results, nid, "queued") ELSE results
        /\ wq' = IF id \in DOMAIN ticks THEN AfterTx(Outcome(id), w2, qtick) ELSE w2
        /\ PopOrExit(c, q2, ql2, pd2, qtick, popped)
  /\ UNCHANGED <<k, processing, owner>>

Release(c) ==
  /\ pc[c] = "pq.loopExit"
  /\ processing' = FALSE /\ owner' = 0
  /\ pc' = [pc EXCEPT ![c] = "pq.released"]
  /\ UNCHANGED <<k, queue, qtick, pending, qlen, popped, ticks, results, wq>>

QEnd(c) ==
  /\ pc[c] = "pq.released"
  /\ pc' = [pc EXCEPT ![c] = "pq.queueEnd"]
  /\ UNCHANGED <<k, queue, qtick, pending, qlen, processing, owner, popped, ticks, results, wq>>

(* return of processQueue; the repaired code looks at the queue once more      *)
Finish(c) ==
  /\ pc[c] = "pq.queueEnd"
  /\ IF Recheck /\ qlen > 0
     THEN pc' = [pc EXCEPT ![c] = "pq.enter"]
     ELSE pc' = [pc EXCEPT ![c] = "return"]
  /\ results' = IF Id(c, k[c]) \in DOMAIN results THEN results
                ELSE Assign(results, Id(c, k[c]), "executed")
  /\ UNCHANGED <<k, queue, qtick, pending, qlen, processing, owner, popped, ticks, wq>>

(* the public call returns; the caller issues its next mutation                *)
Return(c) ==
  /\ pc[c] = "return"
  /\ k' = [k EXCEPT ![c] = @ + 1]
  /\ pc' = [pc EXCEPT ![c] = IF k[c] < MutsPer THEN "start" ELSE "end"]
  /\ UNCHANGED <<queue, qtick, pending, qlen, processing, owner, popped, ticks, results, wq>>

Step(c) ==
  \/ QAppend(c) \/ Prepend(c) \/ Enter(c) \/ Cas(c) \/ Lost(c) \/ FirstPop(c) \/ RunThenPop(c)
  \/ Release(c) \/ QEnd(c) \/ Finish(c) \/ Return(c)

Next == \E c \in Callers : Step(c)

Spec == Init /\ [][Next]_vars
FairSpec == Spec /\ \A c \in Callers : WF_vars(Step(c))

---------------------------------------------------------------------------
(* C04 *)
Draining == {c \in Callers : pc[c] \in {"pq.casWon", "pq.popped", "pq.loopExit"}}

(* one transition at a time: at most one caller is inside the drain loop       *)
Mutex == Cardinality(Draining) <= 1 /\ (Draining # {} => processing)

AllDone == \A c \in Callers : pc[c] = "end"

(* an idle machine never sits on a non-empty queue                             *)
NoStranding == AllDone => (queue = <<>> /\ qlen = 0)

(* every mutation that was given a tick has been popped once everybody is done *)
NoneLost == AllDone => \A id \in DOMAIN ticks : \E i \in 1..Len(popped) : popped[i] = id

(* queued mutations run in the order of their queue ticks                      *)
TickOrder ==
  \A i, j \in 1..Len(popped) :
     (i < j /\ popped[i] \in DOMAIN ticks /\ popped[j] \in DOMAIN ticks)
       => ticks[popped[i]] < ticks[popped[j]]

(* the machine's queue tick counts exactly the ticked mutations popped so far  *)
TickCount == qtick = 1 + Cardinality({i \in 1..Len(popped) : popped[i] \in DOMAIN ticks})

(* a mutation issued from inside a handler is queued, never run nested         *)
NoNesting == \A id \in DOMAIN results : (Len(id) = 3) => results[id] = "queued"

(* WhenQueue(tick) closes once the mutation of that tick has been processed,   *)
(* accepted (clock moved or not) or canceled: an open channel's tick is ahead  *)
(* of the machine's queue tick, or it is the tick of the transition that is    *)
(* running right now (the drain loop parked between the pop and the end of     *)
(* that transition); nothing is open once everybody is done                    *)
WqOk(w, qt, inTx) == \A t \in w : t > qt \/ (t = qt /\ inTx)
InTx == \E c \in Callers : pc[c] = "pq.popped" /\ popped # <<>>
                             /\ popped[Len(popped)] \in DOMAIN ticks
WhenQueueClosed == WqOk(wq, qtick, InTx) /\ (AllDone => wq = {})

(* liveness: every issued mutation is eventually popped                        *)
EventuallyProcessed ==
  \A c \in Callers : \A i \in 1..MutsPer :
     (Id(c, i) \in DOMAIN ticks) ~> (\E j \in 1..Len(popped) : popped[j] = Id(c, i))

(* a tick handed out counts the TICKED mutations only (prepended checks and    *)
(* evals waiting in the queue do not move it)                                  *)

=============================================================================
