package histdrv

import (
	"context"
	"encoding/binary"
	"encoding/json"
	"fmt"
	"io"
	"os"
	"path/filepath"
	"strings"
	"syscall"
	"time"

	badgerdb "github.com/dgraph-io/badger/v4"
	bboltdb "go.etcd.io/bbolt"

	amhist "github.com/pancsta/asyncmachine-go/pkg/history"
	hbadger "github.com/pancsta/asyncmachine-go/pkg/history/badger"
	hbbolt "github.com/pancsta/asyncmachine-go/pkg/history/bbolt"
	hgorm "github.com/pancsta/asyncmachine-go/pkg/history/gorm"
	am "github.com/pancsta/asyncmachine-go/pkg/machine"
)

var Backends = []string{"memory", "bbolt", "badger", "gorm"}

func onErr(err error) {}

func Open(backend, dir string, mach *am.Machine, cfg CfgJ) (Backend, error) {
	switch backend {
	case "memory":
		return openMemory(mach, cfg)
	case "bbolt":
		return openBbolt(filepath.Join(dir, "h"), mach, cfg)
	case "badger":
		return openBadger(filepath.Join(dir, "h"), mach, cfg)
	case "gorm":
		return openGorm(filepath.Join(dir, "h"), mach, cfg)
	}
	return nil, fmt.Errorf("unknown backend %s", backend)
}

func waitFor(f func() bool) bool {
	dl := time.Now().Add(3 * time.Second)
	for i := 0; ; i++ {
		if f() {
			return true
		}
		if time.Now().After(dl) {
			return false
		}
		if i < 50 {
			time.Sleep(100 * time.Microsecond)
		} else {
			time.Sleep(time.Millisecond)
		}
	}
}

// ---------------------------------------------------------------------------
// in-process

type memB struct {
	mem *amhist.Memory
}

func openMemory(mach *am.Machine, cfg CfgJ) (Backend, error) {
	mem, err := amhist.NewMemory(context.Background(), nil, mach, baseCfg(cfg), onErr)
	if err != nil {
		return nil, err
	}
	return &memB{mem}, nil
}

func (b *memB) Mem() amhist.MemoryApi { return b.mem }
func (b *memB) Counters() (int, int)  { return 0, 0 }
func (b *memB) Quiesce(int) bool      { return true }
func (b *memB) Close()                { _ = b.mem.Dispose() }
func (b *memB) Abandon()              { _ = b.mem.Dispose() }
func (b *memB) Crash(string, func() *am.Machine, CfgJ) ([]RawRec, int, error) {
	return nil, 0, nil
}

// Raw: the slice itself; the id of the newest record is NextId-1.
func (b *memB) Raw() ([]RawRec, error) {
	db := b.mem.Export()
	next := int(b.mem.MachineRecord().NextId)
	out := make([]RawRec, len(db))
	for i, r := range db {
		out[i] = rawOf(next-len(db)+i, r.Time)
	}
	return out, nil
}

// ---------------------------------------------------------------------------
// bbolt

type bboltB struct {
	mem  *hbbolt.Memory
	db   *bboltdb.DB
	path string
	id   string
}

func openBbolt(name string, mach *am.Machine, cfg CfgJ) (Backend, error) {
	db, err := hbbolt.NewDb(name)
	if err != nil {
		return nil, err
	}
	// the write-behind batches are flushed by bbolt's Batch(): keep its
	// coalescing delay short, nothing else is changed
	db.MaxBatchDelay = time.Millisecond
	mem, err := hbbolt.NewMemory(context.Background(), db, mach,
		hbbolt.Config{BaseConfig: baseCfg(cfg), QueueBatch: int32(cfg.Batch)}, onErr)
	if err != nil {
		db.Close()
		return nil, err
	}
	return &bboltB{mem, db, name + ".db", mach.Id()}, nil
}

func (b *bboltB) Mem() amhist.MemoryApi { return b.mem }
func (b *bboltB) Counters() (int, int) {
	return int(b.mem.Saved.Load()), int(b.mem.SavedGc.Load())
}
func (b *bboltB) Close()   { _ = b.mem.Dispose() }
func (b *bboltB) Abandon() { _ = b.db.Close() }

// Quiesce: Saved is incremented INSIDE the bbolt write transaction, before it
// commits; an empty write transaction afterwards is a barrier (single writer).
func (b *bboltB) Quiesce(created int) bool {
	ok := waitFor(func() bool {
		return int(b.mem.Saved.Load())+int(b.mem.SavePending.Load()) == created
	})
	if err := b.db.Update(func(tx *bboltdb.Tx) error { return nil }); err != nil {
		return false
	}
	return ok
}

func bboltRaw(db *bboltdb.DB, id string) ([]RawRec, error) {
	var out []RawRec
	err := db.View(func(tx *bboltdb.Tx) error {
		mb := tx.Bucket([]byte(id))
		if mb == nil {
			return nil
		}
		tb := mb.Bucket([]byte(hbbolt.BuckTimes))
		if tb == nil {
			return nil
		}
		c := tb.Cursor()
		for k, v := c.First(); k != nil; k, v = c.Next() {
			rid := binary.BigEndian.Uint64(k)
			t, err := hbbolt.DecTimeRecord(id, rid, v, false)
			if err != nil {
				return err
			}
			out = append(out, rawOf(int(rid), t))
		}
		return nil
	})
	return out, err
}

func (b *bboltB) Raw() ([]RawRec, error) { return bboltRaw(b.db, b.id) }

// copyFile copies the data extents only (badger preallocates sparse
// gigabyte files).
func copyFile(src, dst string) error {
	in, err := os.Open(src)
	if err != nil {
		return err
	}
	defer in.Close()
	st, err := in.Stat()
	if err != nil {
		return err
	}
	out, err := os.Create(dst)
	if err != nil {
		return err
	}
	defer out.Close()
	size := st.Size()
	const seekData, seekHole = 3, 4
	off := int64(0)
	for off < size {
		d, err := syscall.Seek(int(in.Fd()), off, seekData)
		if err != nil {
			if err == syscall.ENXIO {
				break // only a hole is left
			}
			// no SEEK_DATA support: plain copy
			if _, err := in.Seek(0, io.SeekStart); err != nil {
				return err
			}
			if _, err := out.Seek(0, io.SeekStart); err != nil {
				return err
			}
			_, err = io.Copy(out, in)
			return err
		}
		h, err := syscall.Seek(int(in.Fd()), d, seekHole)
		if err != nil {
			h = size
		}
		if _, err := in.Seek(d, io.SeekStart); err != nil {
			return err
		}
		if _, err := out.Seek(d, io.SeekStart); err != nil {
			return err
		}
		if _, err := io.CopyN(out, in, h-d); err != nil && err != io.EOF {
			return err
		}
		off = h
	}
	return out.Truncate(size)
}

func copyDir(src, dst string, skip func(string) bool) error {
	return filepath.Walk(src, func(p string, info os.FileInfo, err error) error {
		if err != nil {
			return err
		}
		rel, _ := filepath.Rel(src, p)
		if info.IsDir() {
			return os.MkdirAll(filepath.Join(dst, rel), 0o755)
		}
		if skip != nil && skip(rel) {
			return nil
		}
		return copyFile(p, filepath.Join(dst, rel))
	})
}

func (b *bboltB) Crash(dir string, mk func() *am.Machine, cfg CfgJ) ([]RawRec, int, error) {
	name := filepath.Join(dir, "h")
	if err := copyFile(b.path, name+".db"); err != nil {
		return nil, 0, err
	}
	db, err := hbbolt.NewDb(name)
	if err != nil {
		return nil, 0, err
	}
	raw, err := bboltRaw(db, b.id)
	if err != nil {
		db.Close()
		return nil, 0, err
	}
	// a restarted process tracks the same machine again
	m := mk()
	defer m.Dispose()
	mem, err := hbbolt.NewMemory(context.Background(), db, m,
		hbbolt.Config{BaseConfig: baseCfg(cfg), QueueBatch: int32(cfg.Batch)}, onErr)
	if err != nil {
		db.Close()
		return raw, 0, err
	}
	next := int(mem.MachineRecord().NextId)
	_ = mem.Dispose()
	return raw, next, nil
}

// ---------------------------------------------------------------------------
// badger

type badgerB struct {
	mem  *hbadger.Memory
	db   *badgerdb.DB
	path string
	id   string
}

func openBadger(name string, mach *am.Machine, cfg CfgJ) (Backend, error) {
	db, err := hbadger.NewDb(name)
	if err != nil {
		return nil, err
	}
	mem, err := hbadger.NewMemory(context.Background(), db, mach,
		hbadger.Config{BaseConfig: baseCfg(cfg), QueueBatch: int32(cfg.Batch)}, onErr)
	if err != nil {
		db.Close()
		return nil, err
	}
	return &badgerB{mem, db, name + ".badger", mach.Id()}, nil
}

func (b *badgerB) Mem() amhist.MemoryApi { return b.mem }
func (b *badgerB) Counters() (int, int) {
	return int(b.mem.Saved.Load()), int(b.mem.SavedGc.Load())
}
func (b *badgerB) Close()   { _ = b.mem.Dispose() }
func (b *badgerB) Abandon() { _ = b.db.Close() }

func (b *badgerB) Quiesce(created int) bool {
	return waitFor(func() bool {
		return int(b.mem.Saved.Load())+int(b.mem.SavePending.Load()) == created
	})
}

func badgerRaw(db *badgerdb.DB, id string) ([]RawRec, error) {
	var out []RawRec
	prefix := []byte(id + "/times/")
	err := db.View(func(txn *badgerdb.Txn) error {
		opts := badgerdb.DefaultIteratorOptions
		opts.Prefix = prefix
		it := txn.NewIterator(opts)
		defer it.Close()
		for it.Rewind(); it.ValidForPrefix(prefix); it.Next() {
			item := it.Item()
			k := item.KeyCopy(nil)
			rid := binary.BigEndian.Uint64(k[len(prefix):])
			v, err := item.ValueCopy(nil)
			if err != nil {
				return err
			}
			t, err := hbadger.DecTimeRecord(id, rid, v, false)
			if err != nil {
				return err
			}
			out = append(out, rawOf(int(rid), t))
		}
		return nil
	})
	return out, err
}

func (b *badgerB) Raw() ([]RawRec, error) { return badgerRaw(b.db, b.id) }

func (b *badgerB) Crash(dir string, mk func() *am.Machine, cfg CfgJ) ([]RawRec, int, error) {
	name := filepath.Join(dir, "h")
	if err := copyDir(b.path, name+".badger", func(rel string) bool { return rel == "LOCK" }); err != nil {
		return nil, 0, err
	}
	db, err := hbadger.NewDb(name)
	if err != nil {
		return nil, 0, err
	}
	raw, err := badgerRaw(db, b.id)
	if err != nil {
		db.Close()
		return nil, 0, err
	}
	m := mk()
	defer m.Dispose()
	mem, err := hbadger.NewMemory(context.Background(), db, m,
		hbadger.Config{BaseConfig: baseCfg(cfg), QueueBatch: int32(cfg.Batch)}, onErr)
	if err != nil {
		db.Close()
		return raw, 0, err
	}
	next := int(mem.MachineRecord().NextId)
	_ = mem.Dispose()
	return raw, next, nil
}

// ---------------------------------------------------------------------------
// gorm / sqlite

type gormB struct {
	mem  *hgorm.Memory
	path string
}

func openGorm(name string, mach *am.Machine, cfg CfgJ) (Backend, error) {
	db, _, err := hgorm.NewDb(name, false)
	if err != nil {
		return nil, err
	}
	mem, err := hgorm.NewMemory(context.Background(), db, mach,
		hgorm.Config{BaseConfig: baseCfg(cfg), QueueBatch: int32(cfg.Batch)}, onErr)
	if err != nil {
		return nil, err
	}
	return &gormB{mem, name + ".sqlite"}, nil
}

func (b *gormB) Mem() amhist.MemoryApi { return b.mem }
func (b *gormB) Counters() (int, int) {
	return int(b.mem.Saved.Load()), int(b.mem.SavedGc.Load())
}
func (b *gormB) Close()   { _ = b.mem.Dispose() }
func (b *gormB) Abandon() { _ = b.mem.Dispose() }

func gormRaw(mem *hgorm.Memory) ([]RawRec, error) {
	var rows []hgorm.Time
	if err := mem.Db.Model(&hgorm.Time{}).Order("id").Find(&rows).Error; err != nil {
		return nil, err
	}
	out := make([]RawRec, 0, len(rows))
	for _, r := range rows {
		t := &amhist.TimeRecord{MutType: r.MutType, MTimeSum: r.MTimeSum,
			MTimeTrackedSum: r.MTimeTrackedSum, MTimeDiffSum: r.MTimeDiffSum,
			MTimeTrackedDiffSum: r.MTimeTrackedDiffSum, MTimeRecordDiffSum: r.MTimeRecordDiffSum,
			HTime: r.HTime, MachTick: r.MachTick}
		if err := json.Unmarshal(r.MTimeTracked, &t.MTimeTracked); err != nil {
			return nil, err
		}
		if err := json.Unmarshal(r.MTimeTrackedDiff, &t.MTimeTrackedDiff); err != nil {
			return nil, err
		}
		out = append(out, rawOf(int(r.ID), t))
	}
	return out, nil
}

func (b *gormB) Raw() ([]RawRec, error) { return gormRaw(b.mem) }

// Quiesce: the write-behind goroutines have no public counter here (Saved is
// never updated): wait until the newest written id is the newest non-queued.
func (b *gormB) Quiesce(created int) bool {
	next := int(b.mem.MachineRecord().NextId)
	return waitFor(func() bool {
		want := next - 1 - int(b.mem.SavePending.Load())
		if want <= 0 || created == 0 {
			return true
		}
		var max *int
		if err := b.mem.Db.Model(&hgorm.Time{}).Select("max(id)").Scan(&max).Error; err != nil {
			return false
		}
		if max == nil || *max < want {
			return false
		}
		// the ticks of a batch are written after its times
		var n int64
		b.mem.Db.Model(&hgorm.Tick{}).Where("time_id = ?", want).Count(&n)
		return n > 0
	})
}

func (b *gormB) Crash(dir string, mk func() *am.Machine, cfg CfgJ) ([]RawRec, int, error) {
	name := filepath.Join(dir, "h")
	for _, suf := range []string{"", "-wal"} {
		src := b.path + suf
		if _, err := os.Stat(src); err != nil {
			continue
		}
		if err := copyFile(src, name+".sqlite"+suf); err != nil {
			return nil, 0, err
		}
	}
	db, sqlDb, err := hgorm.NewDb(name, false)
	if err != nil {
		return nil, 0, err
	}
	defer sqlDb.Close()
	m := mk()
	defer m.Dispose()
	mem, err := hgorm.NewMemory(context.Background(), db, m,
		hgorm.Config{BaseConfig: baseCfg(cfg), QueueBatch: int32(cfg.Batch)}, onErr)
	if err != nil {
		return nil, 0, err
	}
	raw, err := gormRaw(mem)
	next := 0
	if mr := mem.MachineRecord(); mr != nil {
		next = int(mr.NextId)
	}
	_ = mem.Dispose()
	if err != nil && strings.Contains(err.Error(), "closed") {
		err = nil
	}
	return raw, next, err
}
