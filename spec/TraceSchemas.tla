---------------------------- MODULE TraceSchemas ----------------------------
(* Property C19 decided on what the REAL code produced (harness/schemas).     *)
(*                                                                            *)
(* The trace is ndjson; per shipped schema it holds                           *)
(*   {"ev":"schema","d":{...}}   the dump record of the current tree          *)
(*        -> the static formulas of Schemas.tla  (viol)                       *)
(*        -> Schema.Parse of the specification against the code's (drift)     *)
(*   {"ev":"states","ps":[[..],..]}  active sets the real machine reached in  *)
(*        its own breadth-first search (positions in d.idx)                   *)
(*        -> RequireClosed / GroupExclusive on every one of them  (viol)      *)
(*   {"ev":"reset"} {"ev":"edge","a":[..],"op":..,"s":..,"d":[..]}           *)
(*        Add1 / Remove1 executed on a fresh machine from the empty set, the  *)
(*        real active ORDER before and after                                  *)
(*        -> the formulas on the logged successor                 (viol)      *)
(*        -> the specification's step (RunTx to quiescence) against the       *)
(*           logged successor SET                                 (drift)     *)
(* viol decides the property; drift only says spec # code.                    *)
EXTENDS Schemas, Json

CONSTANT TraceFile

Trace == ndJsonDeserialize(TraceFile)

VARIABLES l,        \* next line
          cur,      \* context of the current schema: [id, sch, idx, topo, groups]
          viol, drift,
          nstates, nedges,
          nviol,    \* number of (line, formula) failures; `viol` keeps the first ones
          static    \* one verdict record per schema line

tvars == <<l, cur, viol, drift, nstates, nedges, nviol, static>>

(* a broken resolver makes thousands of sets fail: keep the log small         *)
Keep(old, new) == IF Cardinality(old) >= 300 THEN old ELSE old \cup new

Line == Trace[l]

NoCtx == [id |-> "", sch |-> <<>>, idx |-> <<>>, topo |-> <<>>, groups |-> {}, req |-> <<>>]

CtxOf(d) == [id |-> d.id, sch |-> d.sch, idx |-> d.idx,
             topo |-> TopoOf(d.sch, d.sorted),
             groups |-> ExclusiveGroups(d.sch, d.groups),
             req |-> ReqMap(d.sch)]

Fails(v) == {f \in DOMAIN v : ~v[f]}

StateFails(c, act) ==
  (IF RequireClosedSet(c.req, act) THEN {} ELSE {"requireclosed"})
  \cup (IF GroupExclusiveSet(c.groups, act) THEN {} ELSE {"groupexclusive"})

TraceInit ==
  /\ l = 1 /\ cur = NoCtx /\ viol = {} /\ drift = {}
  /\ nstates = 0 /\ nedges = 0 /\ nviol = 0 /\ static = <<>>

EvSchema ==
  /\ Line.ev = "schema"
  /\ LET d == Line.d
         v == StaticVerdict(d)
     IN /\ cur' = CtxOf(d)
        /\ viol' = viol \cup {<<l, f, d.id>> : f \in Fails(v)}
        /\ nviol' = nviol + Cardinality(Fails(v))
        /\ drift' = drift \cup (IF ParseConforms(d) THEN {} ELSE {<<l, "schema.parse", d.id>>})
        /\ static' = Append(static,
                            [id |-> d.id, verdict |-> v,
                             undefined |-> UndefinedRefs(d), dropped |-> DroppedRefs(d),
                             conflicts |-> RequireRemoveConflicts(d),
                             cliques |-> MaxCliques(d.sch),
                             declared |-> DeclaredExclusive(d.sch, d.groups)])
  /\ UNCHANGED <<nstates, nedges>>

EvStates ==
  /\ Line.ev = "states"
  /\ LET ps == Line.ps
         bad == {k \in 1..Len(ps) :
                   StateFails(cur, NamesAt(cur.idx, SSet(ps[k]))) # {}}
     IN /\ viol' = Keep(viol,
                   UNION {{<<l, f, ps[k]>> :
                            f \in StateFails(cur, NamesAt(cur.idx, SSet(ps[k])))} : k \in bad})
        /\ nviol' = nviol + Cardinality(bad)
        /\ nstates' = nstates + Len(ps)
  /\ UNCHANGED <<cur, drift, nedges, static>>

EvReset ==
  /\ Line.ev = "reset"
  /\ UNCHANGED <<cur, viol, drift, nstates, nedges, nviol, static>>

EvEdge ==
  /\ Line.ev = "edge"
  /\ LET x == Line
         spec == {SSet(a) : a \in QuiesceSet(cur.sch, cur.idx, cur.topo, x.a, x.op, x.s)}
     IN /\ viol' = Keep(viol, {<<l, f, x.d>> : f \in StateFails(cur, SSet(x.d))})
        /\ nviol' = nviol + (IF StateFails(cur, SSet(x.d)) = {} THEN 0 ELSE 1)
        /\ drift' = Keep(drift, IF SSet(x.d) \in spec THEN {} ELSE {<<l, "edge", cur.id>>})
        /\ nedges' = nedges + 1
  /\ UNCHANGED <<cur, nstates, static>>

TraceNext ==
  /\ l <= Len(Trace)
  /\ l' = l + 1
  /\ (EvSchema \/ EvStates \/ EvReset \/ EvEdge)

Done ==
  /\ l = Len(Trace) + 1
  /\ PrintT(<<"RESULT", ToJson([lines |-> l - 1, viol |-> viol, drift |-> drift,
                                 nstates |-> nstates, nedges |-> nedges, nviol |-> nviol,
                                 static |-> static])>>)
  /\ UNCHANGED tvars

TraceSpec == TraceInit /\ [][TraceNext \/ Done]_tvars

TraceView == <<l>>
=============================================================================
