------------------------------- MODULE AmSeq -------------------------------
(* Sequence helpers that mirror the Go slice helpers used all over            *)
(* pkg/machine (mach_utils.go: slicesUniq, slicesReverse, slicesWithout,      *)
(* slicesFilter, StatesDiff, StatesShared ...).  Names are prefixed with "S"  *)
(* because CommunityModules already owns Contains/ToSet/FlattenSeq.           *)
EXTENDS Naturals, Integers, Sequences, FiniteSets

SHas(s, x) == \E i \in 1..Len(s) : s[i] = x

SSet(s) == {s[i] : i \in 1..Len(s)}

(* 1-based index of the first occurrence, 0 when missing (Go: -1).            *)
SIndex(s, x) ==
  IF SHas(s, x)
  THEN CHOOSE i \in 1..Len(s) : s[i] = x /\ \A j \in 1..(i - 1) : s[j] # x
  ELSE 0

(* StatesDiff(a, b): members of a that are not in b, order of a.              *)
SDiff(a, b) == SelectSeq(a, LAMBDA x : ~SHas(b, x))

(* StatesShared(a, b)                                                         *)
SShared(a, b) == SelectSeq(a, LAMBDA x : SHas(b, x))

(* slicesEvery(col1, col2): every element of col2 is in col1.                 *)
SEvery(col1, col2) == \A i \in 1..Len(col2) : SHas(col1, col2[i])

(* slicesNone(col1, col2): no element of col2 is in col1.                     *)
SNone(col1, col2) == \A i \in 1..Len(col2) : ~SHas(col1, col2[i])

(* slicesUniq: keeps first occurrences.                                       *)
RECURSIVE SUniq(_)
SUniq(s) ==
  IF s = <<>> THEN <<>>
  ELSE LET r == SUniq(SubSeq(s, 1, Len(s) - 1))
       IN IF SHas(r, s[Len(s)]) THEN r ELSE Append(r, s[Len(s)])

SIsUniq(s) == \A i, j \in 1..Len(s) : i # j => s[i] # s[j]

SRev(s) == [i \in 1..Len(s) |-> s[Len(s) + 1 - i]]

SDeleteAt(s, i) == SubSeq(s, 1, i - 1) \o SubSeq(s, i + 1, Len(s))

(* slicesWithout: removes the first occurrence only.                          *)
SWithout(s, x) == IF SHas(s, x) THEN SDeleteAt(s, SIndex(s, x)) ELSE s

RECURSIVE SFlatten(_)
SFlatten(ss) == IF ss = <<>> THEN <<>> ELSE Head(ss) \o SFlatten(Tail(ss))

SSwap(s, i, j) == [s EXCEPT ![i] = s[j], ![j] = s[i]]

(* Go's sort.insertionSort as used by sort.SliceStable for n <= 20:           *)
(*   for i := a+1; i < b; i++ {                                               *)
(*     for j := i; j > a && less(j, j-1); j-- { swap(j, j-1) } }              *)
(* Less is evaluated on the *elements* at the two positions.                  *)
InsertionSort(s, Less(_, _)) ==
  LET RECURSIVE Inner(_, _)
      Inner(t, j) == IF j > 1 /\ Less(t[j], t[j - 1])
                     THEN Inner(SSwap(t, j, j - 1), j - 1)
                     ELSE t
      RECURSIVE Outer(_, _)
      Outer(t, i) == IF i > Len(t) THEN t ELSE Outer(Inner(t, i), i + 1)
  IN Outer(s, 2)

(* All permutations of a finite set, as sequences.                            *)
RECURSIVE SPerms(_)
SPerms(S) ==
  IF S = {} THEN {<<>>}
  ELSE UNION {{<<x>> \o p : p \in SPerms(S \ {x})} : x \in S}

(* All sub-sequences of s (order preserved) -- used to enumerate lists.       *)
SSubsetSeqs(S) == UNION {SPerms(T) : T \in SUBSET S}

SSum(f, D) ==
  LET RECURSIVE Go(_)
      Go(R) == IF R = {} THEN 0
               ELSE LET x == CHOOSE y \in R : TRUE IN f[x] + Go(R \ {x})
  IN Go(D)
=============================================================================
