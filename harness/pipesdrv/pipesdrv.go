// Package pipesdrv drives REAL pkg/states/pipes bindings between two real
// machines and records what happens as ndjson for spec/TracePipes.tla (C18).
//
// No repository hook is used.  The TARGET handed to the pipes package is a
// Proxy: a struct embedding the real *am.Machine (so it implements am.Api by
// delegation) whose mutation methods (EvAdd, EvRemove1, Set, ...) are RECORD
// POINTS and GATES: every forwarded call is attributed to the source handler
// invocation that made it, classified as INLINE (made on the source machine's
// handler goroutine, between HandlerStart and HandlerEnd) or FORKED (made from
// a goroutine the pipe handler created with `go`), and - in gated mode - parks
// on a channel until the scheduler of the harness releases it.  Releasing the
// parked calls in a chosen order forces, on the unchanged code, exactly the
// delivery orders the Go scheduler is allowed to produce.
//
// A target-side tracer attributes every queue insertion (MutationQueued) and
// every processed transition (TransitionEnd) to the forwarded call it belongs
// to, and (slow mode) gates the target's transitions so that the target's
// queue can be made to accumulate like under load.
package pipesdrv

import (
	"context"
	"encoding/json"
	"errors"
	"fmt"
	"math/rand"
	"os"
	"reflect"
	"runtime"
	"sort"
	"strconv"
	"strings"
	"sync"
	"sync/atomic"
	"time"

	am "github.com/pancsta/asyncmachine-go/pkg/machine"
	ss "github.com/pancsta/asyncmachine-go/pkg/states"
	"github.com/pancsta/asyncmachine-go/pkg/states/pipes"
)

// ---------------------------------------------------------------------------
// case description

// Cmd is one step of a case script.
//
//	src    mutate the source (op add|remove|adderr, states, args)
//	rel    release the parked forwarded call identified by Ref (gated mode)
//	relany release a random parked call (gated random mode)
//	step   let the target process ONE transition (slow mode)
//	ext    mutate the unrelated target state X from a harness goroutine
//	sleep  sleep Us microseconds (free mode rhythm)
//	quiet  release everything and wait for joint quiescence
type Cmd struct {
	K      string   `json:"k"`
	Op     string   `json:"op,omitempty"`
	States []string `json:"states,omitempty"`
	Args   bool     `json:"args,omitempty"`
	Ref    *Ref     `json:"ref,omitempty"`
	Us     int      `json:"us,omitempty"`
}

// Ref names a forwarded call: the forward made with (Op, States) by the Src-th
// `src` command of the script (0-based); N-th such forward of that command.
type Ref struct {
	Src    int      `json:"src"`
	Op     string   `json:"op"`
	States []string `json:"states"`
}

type Case struct {
	Label string `json:"label"`
	// Bind | BindMany | BindReady | BindStart | BindErr | BindConnected |
	// BindAny | Manual (Add/Remove or AddFlat/RemoveFlat in a handler struct)
	Bind  string `json:"bind"`
	Flat  bool   `json:"flat"`
	Local bool   `json:"local"`
	// piped source states and their target names (same length): pipe i goes
	// from States[i] to TStates[i].  A source state may occur more than once
	// (one source state bound into several target states).
	States  []string `json:"states"`
	TStates []string `json:"tstates"`
	// Parts: sizes of the consecutive groups of pipes which are bound by ONE
	// binding call each (BindMany: one BindMany call per group, Manual: one
	// handler struct per group); empty = one call for all.  Bind always makes
	// one call per pipe.  Several calls of one kind between the same two
	// machines get binding ids from pipes.go which need not differ.
	Parts []int `json:"parts,omitempty"`
	Multi   []string `json:"multi"`
	Gated   bool     `json:"gated"`
	Slow    bool     `json:"slow"`
	// >0: the SOURCE machine's HandlerTimeout in ms (held-up family: a slow
	// target must not get the source transition canceled)
	SrcTimeoutMs int `json:"srcTimeoutMs,omitempty"`
	Seed    int64    `json:"seed"`
	Script  []Cmd    `json:"script"`
}

// Outcome of one executed case.
type Outcome struct {
	Label     string   `json:"label"`
	Lines     []string `json:"-"`
	Unreal    string   `json:"unreal,omitempty"` // the schedule is not admitted by the code's concurrency structure
	Stuck     string   `json:"stuck,omitempty"`  // bounded wait expired with gates parked: inconclusive
	MaxParked int      `json:"maxparked"`
	Inline    int      `json:"inline"`
	Forked    int      `json:"forked"`
}

// ---------------------------------------------------------------------------
// helpers

func goid() int64 {
	var buf [64]byte
	n := runtime.Stack(buf[:], false)
	// "goroutine 123 ["
	s := string(buf[:n])
	s = strings.TrimPrefix(s, "goroutine ")
	if i := strings.IndexByte(s, ' '); i > 0 {
		s = s[:i]
	}
	id, _ := strconv.ParseInt(s, 10, 64)
	return id
}

// onHandlerLoop reports whether the current goroutine is a machine's handler
// loop, i.e. the caller runs INSIDE a transition handler (inline call).
func onHandlerLoop() bool {
	var pcs [64]uintptr
	n := runtime.Callers(2, pcs[:])
	frames := runtime.CallersFrames(pcs[:n])
	for {
		f, more := frames.Next()
		if strings.HasSuffix(f.Function, "(*Machine).handlerLoop") ||
			strings.Contains(f.Function, "(*Machine).handlerLoop.") {
			return true
		}
		if !more {
			return false
		}
	}
}

func nz(s am.S) []string {
	if s == nil {
		return []string{}
	}
	return append([]string{}, s...)
}

func sorted(s []string) []string {
	o := append([]string{}, s...)
	sort.Strings(o)
	return o
}

func sameSet(a, b []string) bool {
	if len(a) != len(b) {
		return false
	}
	x, y := sorted(a), sorted(b)
	for i := range x {
		if x[i] != y[i] {
			return false
		}
	}
	return true
}

// ---------------------------------------------------------------------------
// recording

type rec map[string]any

// fwd is one forwarded call (or external target mutation).
type fwd struct {
	id      int
	op      string
	states  []string
	inline  bool
	ext     bool
	srcIdx  int // index of the `src` command whose transition forked it
	h       *rec
	arrived bool
	skipped bool          // the handler ended without forwarding
	parked  chan struct{} // non-nil while parked at the gate
	// progress of the real call
	enq      bool
	returned bool
	atStep   bool // its goroutine is the target's processor, parked at the step gate
}

// pipeRec is one pipe of the bindings under test: binding call B (1-based)
// pipes source state S; Add / Rem are the target states pipes.go add() /
// remove() mutate for it.
type pipeRec struct {
	B   int      `json:"b"`
	S   string   `json:"s"`
	Add []string `json:"add"`
	Rem []string `json:"rem"`
}

type Runner struct {
	c   *Case
	rng *rand.Rand

	src, tgt *am.Machine
	px       *Proxy
	bindIds  map[string]bool
	tmulti   []string
	pipes    []pipeRec

	mu      sync.Mutex
	recs    []*rec
	fwds    []*fwd          // by id-1
	byKey   map[string][]*fwd // txId/handler -> forwards expected from the handlers of that name
	curH    *rec
	curFwd  *fwd
	calls   map[int64]*fwd        // goroutine -> forwarded call being executed
	muts    map[*am.Mutation]*fwd // queued target mutation -> forwarded call
	unres   map[*am.Mutation]*rec // processed target mutation not attributed yet
	stepCh  chan struct{}         // non-nil: a goroutine is parked at the step gate
	stepInl bool                  // ... and it is the source handler goroutine
	slow    atomic.Bool
	gated   atomic.Bool
	notify  chan struct{}
	srcIdx  int
	nttx    int
	closed  bool
	pending chan am.Result // source mutation still running
	pendCmd Cmd
	blocked bool

	out Outcome
}

func (r *Runner) ping() {
	select {
	case r.notify <- struct{}{}:
	default:
	}
}

// log appends a record; mu must be held.
func (r *Runner) log(x rec) *rec {
	p := &x
	if r.closed {
		return p // after the final quiescence (disposal) nothing is recorded
	}
	r.recs = append(r.recs, p)
	return p
}

// waitFor polls pred (under mu) until true or the bound expires.
func (r *Runner) waitFor(bound time.Duration, pred func() bool) bool {
	deadline := time.Now().Add(bound)
	tick := time.NewTimer(50 * time.Microsecond)
	defer tick.Stop()
	for {
		r.mu.Lock()
		ok := pred()
		r.mu.Unlock()
		if ok {
			return true
		}
		if time.Now().After(deadline) {
			if bound >= waitQuiet {
				debugDump(r.c.Label)
			}
			return false
		}
		tick.Reset(200 * time.Microsecond)
		select {
		case <-r.notify:
		case <-tick.C:
		}
	}
}

// arrival waits that expired, process-wide: when the code under test simply
// does not forward (a handler that forks nothing), waiting the full bound for
// every handler would only make the run slow - the trace shows fwd = "none".
var arriveTimeouts atomic.Int32

func arriveBound() time.Duration {
	if arriveTimeouts.Load() >= 3 {
		return 30 * time.Millisecond
	}
	return waitArrive
}

var dumped atomic.Bool

// debugDump writes all goroutine stacks once when PIPES_DEBUG names a file.
func debugDump(label string) {
	path := os.Getenv("PIPES_DEBUG")
	if path == "" || !dumped.CompareAndSwap(false, true) {
		return
	}
	buf := make([]byte, 64<<20)
	n := runtime.Stack(buf, true)
	os.WriteFile(path, append([]byte("timeout in case "+label+"\n"), buf[:n]...), 0o644)
}

// ---------------------------------------------------------------------------
// the target proxy

// Proxy implements am.Api by delegation to the embedded real machine; the
// methods pipes.go calls on its target are overridden.
type Proxy struct {
	*am.Machine
	r     *Runner
	local bool
}

func (p *Proxy) IsLocal() bool { return p.local }

func (p *Proxy) check(kind string, states am.S, res bool) bool {
	r := p.r
	if !onHandlerLoop() {
		return res
	}
	r.mu.Lock()
	if h := r.curH; h != nil {
		// the handler's decision is taken NOW: move its record here
		for i := len(r.recs) - 1; i >= 0; i-- {
			if r.recs[i] == h {
				r.recs[i] = nil
				break
			}
		}
		(*h)["chk"] = map[bool]string{true: "true", false: "false"}[res]
		(*h)["chkkind"] = kind
		(*h)["sts"] = nz(states)
		r.recs = append(r.recs, h)
	}
	r.mu.Unlock()
	return res
}

// ActiveStates is what BindAny's guard reads since 4d48d95.
func (p *Proxy) ActiveStates(states am.S) am.S {
	res := p.Machine.ActiveStates(states)
	r := p.r
	if !onHandlerLoop() {
		return res
	}
	r.mu.Lock()
	if h := r.curH; h != nil {
		for i := len(r.recs) - 1; i >= 0; i-- {
			if r.recs[i] == h {
				r.recs[i] = nil
				break
			}
		}
		(*h)["chk"] = "read"
		(*h)["chkkind"] = "active"
		(*h)["read"] = nz(res)
		r.recs = append(r.recs, h)
	}
	r.mu.Unlock()
	return res
}

func (p *Proxy) Is(states am.S) bool   { return p.check("is", states, p.Machine.Is(states)) }
func (p *Proxy) Is1(state string) bool { return p.check("is", am.S{state}, p.Machine.Is1(state)) }
func (p *Proxy) Not(states am.S) bool  { return p.check("not", states, p.Machine.Not(states)) }
func (p *Proxy) Not1(state string) bool {
	return p.check("not", am.S{state}, p.Machine.Not1(state))
}

// forward is the gate and record point of every mutation call on the target.
func (p *Proxy) forward(op string, e *am.Event, states am.S, args am.A, real func() am.Result) am.Result {
	r := p.r
	inline := onHandlerLoop()
	gid := goid()

	r.mu.Lock()
	var f *fwd
	if inline && r.curFwd != nil {
		f = r.curFwd
	} else if e != nil {
		// several bindings may have a handler of this name: the calls they fork
		// are attributed in arrival order (the record carries what was forwarded)
		for _, c := range r.byKey[e.TransitionId+"/"+e.Name] {
			if !c.arrived {
				f = c
				break
			}
		}
	}
	if f == nil || f.arrived {
		// a call the harness cannot attribute to a pipe handler invocation
		f = r.newFwd(nil, r.srcIdx-1)
		r.log(rec{"ev": "stray", "id": f.id, "op": op, "sts": nz(states)})
	}
	f.arrived = true
	f.op, f.states, f.inline = op, nz(states), inline
	if f.h != nil {
		(*f.h)["fwd"] = map[bool]string{true: "inline", false: "fork"}[inline]
		(*f.h)["op"] = op
		(*f.h)["sts"] = nz(states)
		(*f.h)["fargs"] = len(args) > 0
	}
	if inline {
		r.out.Inline++
	} else {
		r.out.Forked++
	}
	// local inline calls are never delayed: a local machine queues or runs the
	// mutation at once.  Everything else (forked goroutines, calls on a
	// non-local target) can take arbitrarily long to reach the target.
	var park chan struct{}
	if r.gated.Load() && (!inline || !p.local) {
		park = make(chan struct{})
		f.parked = park
		n := 0
		for _, o := range r.fwds {
			if o.parked != nil {
				n++
			}
		}
		if n > r.out.MaxParked {
			r.out.MaxParked = n
		}
	}
	r.mu.Unlock()
	r.ping()
	if park != nil {
		<-park
	}

	r.mu.Lock()
	r.calls[gid] = f
	r.mu.Unlock()

	res := real()

	r.mu.Lock()
	delete(r.calls, gid)
	if !f.enq {
		// returned without a queue insertion: dropped by the duplicate detection
		r.log(rec{"ev": "drop", "id": f.id, "res": res.String()})
	}
	f.returned = true
	r.mu.Unlock()
	r.ping()
	return res
}

func (p *Proxy) EvAdd(e *am.Event, states am.S, args am.A) am.Result {
	return p.forward("add", e, states, args, func() am.Result { return p.Machine.EvAdd(e, states, args) })
}
func (p *Proxy) EvAdd1(e *am.Event, state string, args am.A) am.Result {
	return p.forward("add", e, am.S{state}, args, func() am.Result { return p.Machine.EvAdd1(e, state, args) })
}
func (p *Proxy) EvRemove(e *am.Event, states am.S, args am.A) am.Result {
	return p.forward("remove", e, states, args, func() am.Result { return p.Machine.EvRemove(e, states, args) })
}
func (p *Proxy) EvRemove1(e *am.Event, state string, args am.A) am.Result {
	return p.forward("remove", e, am.S{state}, args, func() am.Result { return p.Machine.EvRemove1(e, state, args) })
}
func (p *Proxy) Add(states am.S, args am.A) am.Result {
	return p.forward("add", nil, states, args, func() am.Result { return p.Machine.Add(states, args) })
}
func (p *Proxy) Add1(state string, args am.A) am.Result {
	return p.forward("add", nil, am.S{state}, args, func() am.Result { return p.Machine.Add1(state, args) })
}
func (p *Proxy) Remove(states am.S, args am.A) am.Result {
	return p.forward("remove", nil, states, args, func() am.Result { return p.Machine.Remove(states, args) })
}
func (p *Proxy) Remove1(state string, args am.A) am.Result {
	return p.forward("remove", nil, am.S{state}, args, func() am.Result { return p.Machine.Remove1(state, args) })
}
func (p *Proxy) Set(states am.S, args am.A) am.Result {
	return p.forward("set", nil, states, args, func() am.Result { return p.Machine.Set(states, args) })
}

var _ am.Api = &Proxy{}

// newFwd registers a forward slot; mu must be held.
func (r *Runner) newFwd(h *rec, srcIdx int) *fwd {
	f := &fwd{id: len(r.fwds) + 1, h: h, srcIdx: srcIdx}
	r.fwds = append(r.fwds, f)
	return f
}

// ---------------------------------------------------------------------------
// tracers

type srcTracer struct {
	*am.TracerNoOp
	r *Runner
}

func (t *srcTracer) TransitionFinals(tx *am.Transition) {
	r := t.r
	r.mu.Lock()
	defer r.mu.Unlock()
	m := tx.Machine
	ticks := map[string]uint64{}
	for _, s := range r.c.States {
		ticks[s] = m.Tick(s)
	}
	r.log(rec{"ev": "src", "tx": tx.Id, "op": tx.Mutation.Type.String(),
		"called": nz(tx.CalledStates()), "before": nz(tx.StatesBefore()),
		"after": nz(tx.TargetStates()), "enters": nz(tx.Enters), "exits": nz(tx.Exits),
		"auto": tx.Mutation.IsAuto, "args": len(tx.Mutation.Args) > 0, "ticks": ticks})
}

func (t *srcTracer) HandlerStart(tx *am.Transition, emitter string, handler string) {
	r := t.r
	if !r.bindIds[emitter] {
		return
	}
	r.mu.Lock()
	defer r.mu.Unlock()
	f := r.newFwd(nil, r.srcIdx-1)
	h := r.log(rec{"ev": "h", "tx": tx.Id, "h": handler, "id": f.id, "chk": "none",
		"fwd": "none", "op": "none", "sts": []string{}, "fargs": false, "read": []string{}})
	f.h = h
	r.curH, r.curFwd = h, f
	r.byKey[tx.Id+"/"+handler] = append(r.byKey[tx.Id+"/"+handler], f)
}

func (t *srcTracer) HandlerEnd(tx *am.Transition, emitter string, handler string) {
	r := t.r
	if !r.bindIds[emitter] {
		return
	}
	r.mu.Lock()
	if f := r.curFwd; f != nil && !f.arrived && r.curH != nil && (*r.curH)["chk"] == "read" {
		// the guard read the target's set and the handler ended without a call
		f.skipped = true
	}
	r.curH, r.curFwd = nil, nil
	r.mu.Unlock()
	r.ping()
}

type tgtTracer struct {
	*am.TracerNoOp
	r *Runner
}

func (t *tgtTracer) MutationQueued(_ am.Api, mut *am.Mutation) {
	r := t.r
	gid := goid()
	r.mu.Lock()
	defer r.mu.Unlock()
	f := r.calls[gid]
	if f == nil {
		r.log(rec{"ev": "strayq", "op": mut.Type.String()})
		return
	}
	f.enq = true
	e := rec{"ev": "enq", "id": f.id, "qlen": int(mut.QueueLen)}
	if x := r.unres[mut]; x != nil {
		// the tracer callback of the insertion trails the insertion itself: the
		// queue loop of another goroutine has already run the mutation.  Restore
		// the real order (queued, then run) in the record.
		delete(r.unres, mut)
		(*x)["id"] = f.id
		if !r.closed {
			for i, y := range r.recs {
				if y == x {
					r.recs = append(r.recs[:i], append([]*rec{&e}, r.recs[i:]...)...)
					break
				}
			}
		}
		return
	}
	r.muts[mut] = f
	r.log(e)
}

func (t *tgtTracer) TransitionInit(tx *am.Transition) {
	r := t.r
	if !r.slow.Load() {
		return
	}
	inl := onHandlerLoop()
	ch := make(chan struct{})
	r.mu.Lock()
	r.stepCh, r.stepInl = ch, inl
	if f := r.calls[goid()]; f != nil {
		f.atStep = true
	}
	r.mu.Unlock()
	r.ping()
	<-ch
}

func (t *tgtTracer) TransitionEnd(tx *am.Transition) {
	r := t.r
	r.mu.Lock()
	defer r.mu.Unlock()
	id := 0
	if f := r.muts[tx.Mutation]; f != nil {
		id = f.id
		delete(r.muts, tx.Mutation)
	}
	r.nttx++
	x := r.log(rec{"ev": "ttx", "id": id, "op": tx.Mutation.Type.String(),
		"called": nz(tx.CalledStates()), "accepted": tx.IsAccepted.Load(),
		"auto": tx.Mutation.IsAuto, "active": nz(tx.Machine.ActiveStates(nil))})
	if id == 0 {
		r.unres[tx.Mutation] = x
	}
}

// ---------------------------------------------------------------------------
// set-up

const ExtState = "X"

func (r *Runner) setup() error {
	c := r.c
	ctx := context.Background()
	multi := map[string]bool{}
	for _, s := range c.Multi {
		multi[s] = true
	}
	opts := func(id string) *am.Opts {
		return &am.Opts{Id: id, HandlerTimeout: 30 * time.Second, HandlerDeadline: 30 * time.Second}
	}

	// source
	var sschema am.Schema
	switch c.Bind {
	case "BindConnected":
		sschema = am.SchemaMerge(ss.BasicSchema, ss.ConnectedSchema)
	case "BindErr":
		sschema = am.Schema{"Other": {}}
	default:
		sschema = am.Schema{}
		for _, s := range c.States {
			sschema[s] = am.State{Multi: multi[s]}
		}
		// BindAny requires the target to know every source state
		if c.Bind != "BindAny" {
			sschema["Other"] = am.State{}
		}
	}
	sopts := opts("src-" + c.Label)
	if c.SrcTimeoutMs > 0 {
		sopts.HandlerTimeout = time.Duration(c.SrcTimeoutMs) * time.Millisecond
	}
	r.src = am.New(ctx, sschema, sopts)

	// target: plain states, no relations -> it never vetoes
	tschema := am.Schema{ExtState: {}}
	for i, t := range c.TStates {
		if t == am.StateException {
			continue
		}
		tschema[t] = am.State{Multi: multi[c.States[i]]}
		// the customary definition of an error state; Exception is only ever
		// added together with it (pipes.go add), so the target still never vetoes
		if strings.HasPrefix(t, am.PrefixErr) {
			tschema[t] = am.State{Multi: multi[c.States[i]], Require: am.S{am.StateException}}
		}
	}
	if c.Bind == "BindAny" {
		for s, st := range sschema {
			if s != am.StateException {
				tschema[s] = am.State{Multi: st.Multi}
			}
		}
	}
	r.tmulti = []string{}
	for t, st := range tschema {
		if st.Multi {
			r.tmulti = append(r.tmulti, t)
		}
	}
	r.tmulti = append(r.tmulti, am.StateException) // built-in, Multi
	sort.Strings(r.tmulti)
	// the binding calls: groups of consecutive pipes
	var groups [][]int
	switch {
	case c.Bind == "Bind":
		for i := range c.States {
			groups = append(groups, []int{i})
		}
	case len(c.Parts) > 0 && (c.Bind == "BindMany" || c.Bind == "Manual"):
		i := 0
		for _, n := range c.Parts {
			var g []int
			for ; n > 0 && i < len(c.States); n-- {
				g = append(g, i)
				i++
			}
			groups = append(groups, g)
		}
		if i != len(c.States) {
			return fmt.Errorf("parts %v do not cover %d pipes", c.Parts, len(c.States))
		}
	default:
		var g []int
		for i := range c.States {
			g = append(g, i)
		}
		groups = append(groups, g)
	}
	r.pipes = []pipeRec{}
	for b, g := range groups {
		for _, i := range g {
			t := c.TStates[i]
			p := pipeRec{B: b + 1, S: c.States[i], Add: []string{t}, Rem: []string{t}}
			// pipes.add: a target state named Err* is added together with Exception;
			// pipes.remove takes back the state alone
			if strings.HasPrefix(t, am.PrefixErr) {
				p.Add = []string{am.StateException, t}
			}
			if c.Bind != "BindAny" {
				r.pipes = append(r.pipes, p)
			}
		}
	}
	r.tgt = am.New(ctx, tschema, opts("tgt-"+c.Label))
	r.px = &Proxy{Machine: r.tgt, r: r, local: c.Local}

	if _, err := r.src.BindTracer(&srcTracer{TracerNoOp: &am.TracerNoOp{Id: "pipes-src"}, r: r}); err != nil {
		return err
	}
	if _, err := r.tgt.BindTracer(&tgtTracer{TracerNoOp: &am.TracerNoOp{Id: "pipes-tgt"}, r: r}); err != nil {
		return err
	}

	// the binding under test
	var ids []string
	add := func(id string, err error) error {
		ids = append(ids, id)
		return err
	}
	var err error
	one := func() (string, string) { return c.States[0], c.TStates[0] }
	switch c.Bind {
	case "Bind":
		for i, s := range c.States {
			if err = add(pipes.Bind(r.src, r.px, s, c.TStates[i], "")); err != nil {
				return err
			}
		}
	case "BindMany":
		for _, g := range groups {
			var ss_, ts am.S
			for _, i := range g {
				ss_ = append(ss_, c.States[i])
				ts = append(ts, c.TStates[i])
			}
			if err = add(pipes.BindMany(r.src, r.px, ss_, ts)); err != nil {
				return err
			}
		}
	case "BindReady":
		_, t := one()
		err = add(pipes.BindReady(r.src, r.px, t, ""))
	case "BindStart":
		_, t := one()
		err = add(pipes.BindStart(r.src, r.px, t, ""))
	case "BindErr":
		t := c.TStates[0]
		if t == am.StateException {
			t = ""
		}
		err = add(pipes.BindErr(r.src, r.px, t))
	case "BindConnected":
		// States order: Disconnected, Connecting, Connected, Disconnecting
		err = add(pipes.BindConnected(r.src, r.px, c.TStates[0], c.TStates[1], c.TStates[2], c.TStates[3]))
	case "BindAny":
		err = add(pipes.BindAny(r.src, r.px))
	case "Manual":
		// "Piping Manually" of pkg/states/README.md, optionally with the flat
		// variants
		for b, g := range groups {
			finals := map[string]am.HandlerFinal{}
			for _, i := range g {
				s := c.States[i]
				if c.Flat {
					finals[s+am.SuffixState] = pipes.AddFlat(r.src, r.px, s, c.TStates[i])
					finals[s+am.SuffixEnd] = pipes.RemoveFlat(r.src, r.px, s, c.TStates[i])
				} else {
					finals[s+am.SuffixState] = pipes.Add(r.src, r.px, s, c.TStates[i])
					finals[s+am.SuffixEnd] = pipes.Remove(r.src, r.px, s, c.TStates[i])
				}
			}
			id := "Manual-" + c.Label
			if b > 0 {
				id += "-" + strconv.Itoa(b+1)
			}
			if err = add(r.src.HandlersBind(structOf(finals), am.BindOpts{Id: id})); err != nil {
				return err
			}
		}
	default:
		return fmt.Errorf("unknown bind %q", c.Bind)
	}
	if err != nil {
		return fmt.Errorf("binding failed: %w", err)
	}
	for _, id := range ids {
		r.bindIds[id] = true
	}
	return nil
}

// structOf builds &struct{ AState am.HandlerFinal; AEnd am.HandlerFinal ... }.
func structOf(finals map[string]am.HandlerFinal) any {
	var names []string
	for n := range finals {
		names = append(names, n)
	}
	sort.Strings(names)
	var fields []reflect.StructField
	for _, n := range names {
		fields = append(fields, reflect.StructField{Name: n, Type: reflect.TypeOf(finals[n])})
	}
	val := reflect.New(reflect.StructOf(fields)).Elem()
	for i, n := range names {
		val.Field(i).Set(reflect.ValueOf(finals[n]))
	}
	return val.Addr().Interface()
}

// ---------------------------------------------------------------------------
// execution

const (
	// bounds of the condition waits; they only expire when something is wrong
	// (or the host is starved), never on the normal path
	waitArrive = 1 * time.Second
	waitQuiet  = 20 * time.Second
)

func (r *Runner) idle(m *am.Machine) bool {
	return m.QueueLen() == 0 && !am.VerifQueueProcessing(m)
}

// settle finishes a pending source mutation if it has returned.
func (r *Runner) settle(wait time.Duration) bool {
	if r.pending == nil {
		return true
	}
	var res am.Result
	select {
	case res = <-r.pending:
	default:
		if wait == 0 {
			return false
		}
		select {
		case res = <-r.pending:
		case <-time.After(wait):
			return false
		}
	}
	r.pending = nil
	// every pipe handler invocation of this mutation that is going to forward
	// has been seen by now for inline forwards; forked ones arrive at the proxy
	// a little later: wait for them (bounded) so that ids/gates are complete
	if r.gated.Load() {
		if !r.waitFor(arriveBound(), func() bool {
			for _, f := range r.fwds {
				if r.needsArrival(f) {
					return false
				}
			}
			return true
		}) {
			arriveTimeouts.Add(1)
		}
	}
	r.mu.Lock()
	r.log(rec{"ev": "sret", "op": r.pendCmd.Op, "states": nz(r.pendCmd.States),
		"res": res.String(), "blocked": r.blocked})
	r.blocked = false
	r.mu.Unlock()
	return true
}

// needsArrival: a pipe handler ran whose forwarded call has not reached the
// proxy yet.  A flat handler whose check already held ("true") forwards nothing.
func (r *Runner) needsArrival(f *fwd) bool {
	return f.h != nil && !f.arrived && !f.skipped && (*f.h)["chk"] != "true"
}

func (r *Runner) parkedList() []*fwd {
	var out []*fwd
	for _, f := range r.fwds {
		if f.parked != nil {
			out = append(out, f)
		}
	}
	return out
}

// release lets a parked call proceed and waits until the real call has had
// its effect: returned, or became the target's processor parked at the step gate.
func (r *Runner) release(f *fwd) bool {
	r.mu.Lock()
	ch := f.parked
	f.parked = nil
	r.log(rec{"ev": "rel", "id": f.id})
	r.mu.Unlock()
	if ch != nil {
		close(ch)
	}
	return r.waitFor(waitQuiet, func() bool { return f.returned || f.atStep })
}

// outstanding: something forwarded is still on its way; mu must be held.
func (r *Runner) outstanding() bool {
	for _, f := range r.fwds {
		if (f.arrived && !f.returned) || r.needsArrival(f) {
			return true
		}
	}
	return r.stepCh != nil
}

// observeQuiet logs a quiescence point when nothing is outstanding anywhere.
func (r *Runner) observeQuiet() {
	r.mu.Lock()
	out := r.outstanding()
	r.mu.Unlock()
	if out || r.pending != nil || !r.idle(r.src) || !r.idle(r.tgt) {
		return
	}
	r.logQuiet(false)
}

func (r *Runner) logQuiet(final bool) {
	r.mu.Lock()
	r.log(rec{"ev": "quiet", "src": nz(r.src.ActiveStates(nil)), "tgt": nz(r.tgt.ActiveStates(nil)),
		"sq": int(r.src.QueueLen()), "tq": int(r.tgt.QueueLen()), "final": final})
	r.mu.Unlock()
}

// find returns the parked forward named by ref; mu must be held.
func (r *Runner) find(ref *Ref) *fwd {
	for _, f := range r.fwds {
		if f.srcIdx == ref.Src && f.arrived && f.op == ref.Op && sameSet(f.states, ref.States) &&
			f.parked != nil {
			return f
		}
	}
	return nil
}

func (r *Runner) exec(cmd Cmd) {
	switch cmd.K {
	case "src":
		// a source held up by a slow local target (its handler goroutine runs the
		// target's queue) is freed by stepping the target
		for i := 0; i < 64 && !r.settle(0); i++ {
			r.mu.Lock()
			held := r.stepCh != nil && r.stepInl
			r.mu.Unlock()
			if held {
				r.step()
			} else if r.settle(arriveBound()) {
				break
			}
		}
		if !r.settle(0) {
			r.out.Unreal = "source still blocked at next src command"
			return
		}
		var args am.A
		if cmd.Args {
			args = am.A{"k": 1}
		}
		done := make(chan am.Result, 1)
		r.mu.Lock()
		r.srcIdx++
		r.pending, r.pendCmd = done, cmd
		r.mu.Unlock()
		go func() {
			switch cmd.Op {
			case "add":
				done <- r.src.Add(am.S(cmd.States), args)
			case "remove":
				done <- r.src.Remove(am.S(cmd.States), args)
			case "adderr":
				done <- r.src.AddErr(errors.New("verif"), args)
			}
		}()
		// wait for the mutation to return, or for it to be held up by the target
		for {
			ok := r.waitFor(waitQuiet, func() bool {
				if len(done) > 0 {
					return true
				}
				for _, f := range r.fwds {
					if f.inline && f.parked != nil {
						return true
					}
				}
				return r.stepCh != nil && r.stepInl
			})
			if !ok {
				r.out.Stuck = "source mutation neither returned nor parked"
				return
			}
			if len(done) > 0 {
				r.settle(0)
				return
			}
			r.mu.Lock()
			var inl *fwd
			for _, f := range r.fwds {
				if f.inline && f.parked != nil {
					inl = f
				}
			}
			r.mu.Unlock()
			if inl != nil {
				// the source transition WAITS for a non-local target call
				r.blocked = true
				r.release(inl)
				continue
			}
			// the source handler goroutine runs the (slow) local target's queue:
			// by design for flat local pipes; the script steps the target
			return
		}
	case "rel":
		var f *fwd
		r.waitFor(arriveBound(), func() bool { f = r.find(cmd.Ref); return f != nil })
		if f == nil {
			arriveTimeouts.Add(1)
			r.out.Unreal = fmt.Sprintf("forward %v of src#%d never parked", cmd.Ref.States, cmd.Ref.Src)
			return
		}
		if !r.release(f) {
			r.out.Stuck = "released call did not progress"
		}
	case "relany":
		r.mu.Lock()
		p := r.parkedList()
		r.mu.Unlock()
		if len(p) == 0 {
			return
		}
		if !r.release(p[r.rng.Intn(len(p))]) {
			r.out.Stuck = "released call did not progress"
		}
	case "step":
		if !r.waitFor(arriveBound(), func() bool { return r.stepCh != nil }) {
			arriveTimeouts.Add(1)
			r.out.Unreal = "no target transition to step"
			return
		}
		r.step()
	case "stepany":
		r.mu.Lock()
		held := r.stepCh != nil
		r.mu.Unlock()
		if held {
			r.step()
		}
	case "ext":
		r.mu.Lock()
		f := r.newFwd(nil, -1)
		f.ext, f.arrived, f.op, f.states = true, true, "add", []string{ExtState}
		r.log(rec{"ev": "ext", "id": f.id, "op": "add", "sts": []string{ExtState}})
		r.mu.Unlock()
		op := cmd.Op
		go func() {
			gid := goid()
			r.mu.Lock()
			r.calls[gid] = f
			r.mu.Unlock()
			var res am.Result
			if op == "remove" {
				res = r.tgt.Remove1(ExtState, nil)
			} else {
				res = r.tgt.Add1(ExtState, am.A{"ext": 1})
			}
			r.mu.Lock()
			delete(r.calls, gid)
			if !f.enq {
				r.log(rec{"ev": "drop", "id": f.id, "res": res.String()})
			}
			f.returned = true
			r.mu.Unlock()
			r.ping()
		}()
		r.waitFor(waitQuiet, func() bool { return f.returned || f.atStep })
	case "sleep":
		if cmd.Us > 0 {
			time.Sleep(time.Duration(cmd.Us) * time.Microsecond)
		} else {
			runtime.Gosched()
		}
	case "quiet":
		r.quiesce()
	}
}

// step lets the target finish the transition parked at the step gate; then
// either the next queued one parks or the queue ends.
func (r *Runner) step() {
	r.mu.Lock()
	ch := r.stepCh
	r.stepCh = nil
	n := r.nttx
	r.mu.Unlock()
	if ch == nil {
		return
	}
	close(ch)
	r.waitFor(waitQuiet, func() bool { return r.nttx > n })
	r.waitFor(waitQuiet, func() bool { return r.stepCh != nil || !am.VerifQueueProcessing(r.tgt) })
}

// quiesce releases everything and waits (bounded) for joint quiescence: every
// gate open, every forwarded call returned, both queues ended.
func (r *Runner) quiesce() {
	r.slow.Store(false)
	r.gated.Store(false)
	r.mu.Lock()
	r.log(rec{"ev": "free"})
	r.mu.Unlock()
	start := time.Now()
	for {
		r.mu.Lock()
		if ch := r.stepCh; ch != nil {
			r.stepCh = nil
			close(ch)
		}
		p := r.parkedList()
		r.mu.Unlock()
		for _, f := range p { // arrival order of the handlers
			r.mu.Lock()
			ch := f.parked
			f.parked = nil
			r.log(rec{"ev": "rel", "id": f.id})
			r.mu.Unlock()
			close(ch)
			r.waitFor(waitQuiet, func() bool { return f.returned })
		}
		r.settle(0)
		late := time.Since(start) > arriveBound()
		r.mu.Lock()
		busy := r.stepCh != nil
		for _, f := range r.fwds {
			if f.arrived && !f.returned {
				busy = true
			}
			// a handler that forwards nothing at all is not waited for forever:
			// the trace shows it (fwd = "none")
			if r.needsArrival(f) && !late {
				busy = true
			}
		}
		r.mu.Unlock()
		if !busy && r.pending == nil && r.idle(r.src) && r.idle(r.tgt) {
			break
		}
		if time.Since(start) > waitQuiet {
			r.mu.Lock()
			parked := len(r.parkedList())
			r.mu.Unlock()
			if parked > 0 || busy || r.pending != nil {
				r.out.Stuck = fmt.Sprintf("quiescence bound expired (%d gates parked)", parked)
			}
			// otherwise a mutation is stranded in a queue: logged, the formulas decide
			break
		}
		time.Sleep(50 * time.Microsecond)
	}
	r.logQuiet(true)
}

// Run executes one case on fresh machines.
func Run(c *Case) *Outcome {
	r := &Runner{c: c, rng: rand.New(rand.NewSource(c.Seed)),
		bindIds: map[string]bool{}, byKey: map[string][]*fwd{}, calls: map[int64]*fwd{},
		muts: map[*am.Mutation]*fwd{}, unres: map[*am.Mutation]*rec{}, notify: make(chan struct{}, 1)}
	r.out.Label = c.Label
	r.gated.Store(c.Gated)
	if err := r.setup(); err != nil {
		r.out.Stuck = "setup: " + err.Error()
		return &r.out
	}
	r.mu.Lock()
	r.log(rec{"ev": "init", "label": c.Label, "bind": c.Bind, "flat": c.Flat, "local": c.Local,
		"states": nz(c.States), "tstates": nz(c.TStates), "multi": nz(c.Multi),
		"gated": c.Gated, "slow": c.Slow, "mode": modeOf(c), "addonly": c.Bind == "BindErr",
		"plain":  c.Bind != "BindConnected" && c.Bind != "BindErr",
		"tmulti": r.tmulti, "pipes": r.pipes, "parts": append([]int{}, c.Parts...)})
	r.mu.Unlock()
	r.slow.Store(c.Slow)
	for _, cmd := range c.Script {
		if r.out.Unreal != "" || r.out.Stuck != "" {
			break
		}
		r.exec(cmd)
		if cmd.K != "quiet" && cmd.K != "sleep" && r.c.Gated {
			r.settle(0)
			r.observeQuiet()
		}
	}
	if len(c.Script) == 0 || c.Script[len(c.Script)-1].K != "quiet" {
		r.quiesce()
	}
	r.mu.Lock()
	r.closed = true
	r.mu.Unlock()
	go func() {
		r.src.Dispose()
		r.tgt.Dispose()
	}()

	r.mu.Lock()
	for _, x := range r.recs {
		if x == nil {
			continue
		}
		b, _ := json.Marshal(*x)
		r.out.Lines = append(r.out.Lines, string(b))
	}
	r.mu.Unlock()
	return &r.out
}

func modeOf(c *Case) string {
	if c.Bind == "BindAny" {
		return "any"
	}
	return "pair"
}
