--------------------------- MODULE MCRpcSyncLive ---------------------------
(* Liveness configuration of RpcSync.tla: no history variable, no VIEW, no    *)
(* state constraint; the bounds are guards of the environment actions, so     *)
(* FairSpec (weak fairness of the protocol steps) is checked on the           *)
(* unconstrained specification.                                               *)
EXTENDS RpcSync

TrackedAB == {"A", "B"}
TrackedA == {"A"}
SkippedC == {"C"}
NoStates == {}
=============================================================================
