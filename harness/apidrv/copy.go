package apidrv

import (
	"context"
	"encoding/json"
	"sort"
	"time"

	am "github.com/pancsta/asyncmachine-go/pkg/machine"
)

// MachSnap is the abstract machine state of ApiAlgebra.tla's copy-semantics
// part, read through the public API.
type MachSnap struct {
	Names   am.S     `json:"names"`
	Active  am.S     `json:"active"`
	Time    []uint64 `json:"time"`
	Clock   [][]any  `json:"clock"`
	Tags    []string `json:"tags"`
	Queue   []QMut   `json:"queue"`
	Tracers []string `json:"tracers"`
	Schema  string   `json:"schema"`
}

type SnapLine struct {
	Ev   string   `json:"ev"`
	Mach MachSnap `json:"mach"`
}

type MutRetLine struct {
	Ev     string   `json:"ev"`
	Getter string   `json:"getter"`
	How    string   `json:"how"`
	Phase  string   `json:"phase"`
	Deep   bool     `json:"deep"`
	Mach   MachSnap `json:"mach"`
}

type namedTracer struct {
	am.TracerNoOp
	name string
}

func snapMach(m *am.Machine, names am.S) MachSnap {
	s := MachSnap{Names: append(am.S{}, names...)}
	s.Active = append(am.S{}, m.ActiveStates(nil)...)
	s.Time = append([]uint64{}, m.Time(names)...)
	clock := m.Clock(names)
	keys := make([]string, 0, len(clock))
	for k := range clock {
		keys = append(keys, k)
	}
	sort.Strings(keys)
	s.Clock = [][]any{}
	for _, k := range keys {
		s.Clock = append(s.Clock, []any{k, clock[k]})
	}
	s.Tags = append([]string{}, m.Tags()...)
	s.Queue = readQueueNames(m, names)
	s.Tracers = []string{}
	for _, t := range m.Tracers() {
		if nt, ok := t.(*namedTracer); ok {
			s.Tracers = append(s.Tracers, nt.name)
		} else if t == nil {
			s.Tracers = append(s.Tracers, "<nil>")
		} else {
			s.Tracers = append(s.Tracers, "other")
		}
	}
	b, _ := json.Marshal(m.Schema()) // maps are marshalled with sorted keys
	s.Schema = string(b)
	return s
}

func readQueueNames(m *am.Machine, names am.S) []QMut {
	out := []QMut{}
	for _, mu := range m.Queue() {
		if mu == nil {
			out = append(out, QMut{Type: "<nil>", Called: am.S{}})
			continue
		}
		out = append(out, QMut{
			Type: mu.Type.String(), Called: am.IndexToStates(names, mu.Called),
			Check: mu.IsCheck, Args: len(mu.Args) > 0, Tick: int(mu.QueueTick),
		})
	}
	return out
}

type copyHandlers struct{ fn func(e *am.Event) }

func (h *copyHandlers) GateState(e *am.Event) { h.fn(e) }

// the mutations a caller may apply to a returned value, per getter
type copyCase struct {
	getter, how string
	deep        bool
	do          func(m *am.Machine)
}

func copyCases() []copyCase {
	return []copyCase{
		{"ActiveStates", "overwrite elements", false, func(m *am.Machine) {
			v := m.ActiveStates(nil)
			for i := range v {
				v[i] = "ZZZ"
			}
		}},
		{"ActiveStates", "append within capacity and truncate", false, func(m *am.Machine) {
			v := m.ActiveStates(nil)
			if len(v) > 0 {
				v = v[:len(v)-1]
			}
			v = append(v, "ZZZ")
			_ = v
		}},
		{"ActiveStates", "subset form, overwrite", false, func(m *am.Machine) {
			v := m.ActiveStates(am.S{"A", "B"})
			for i := range v {
				v[i] = "ZZZ"
			}
			_ = append(v[:0], "Q1", "Q2")
		}},
		{"Schema", "delete and add states", false, func(m *am.Machine) {
			s := m.Schema()
			delete(s, "A")
			s["New"] = am.State{Auto: true}
			s["B"] = am.State{Multi: true, Remove: am.S{"A"}}
		}},
		{"Schema", "overwrite relation slices in place", false, func(m *am.Machine) {
			s := m.Schema()
			for _, st := range s {
				for _, rel := range []am.S{st.Require, st.Add, st.Remove, st.After, st.Tags} {
					for i := range rel {
						rel[i] = "ZZZ"
					}
				}
			}
		}},
		{"Clock", "overwrite, delete, add keys", false, func(m *am.Machine) {
			c := m.Clock(nil)
			for k := range c {
				c[k] = 999
			}
			delete(c, "A")
			c["New"] = 5
		}},
		{"Clock", "subset form, overwrite", false, func(m *am.Machine) {
			c := m.Clock(am.S{"A", "B"})
			c["A"] = 999
			c["B"] = 999
		}},
		{"Time", "overwrite ticks", false, func(m *am.Machine) {
			t := m.Time(nil)
			for i := range t {
				t[i] = 999
			}
			_ = append(t[:0], 7, 7)
		}},
		{"Time", "subset form, overwrite", false, func(m *am.Machine) {
			t := m.Time(am.S{"A", "B"})
			for i := range t {
				t[i] = 999
			}
		}},
		{"Tags", "overwrite and append", false, func(m *am.Machine) {
			t := m.Tags()
			for i := range t {
				t[i] = "ZZZ"
			}
			_ = append(t[:0], "q")
		}},
		{"Queue", "overwrite and truncate the slice", false, func(m *am.Machine) {
			q := m.Queue()
			for i := range q {
				q[i] = nil
			}
			_ = append(q[:0], &am.Mutation{Type: am.MutationSet})
		}},
		{"Tracers", "overwrite and truncate the slice", false, func(m *am.Machine) {
			t := m.Tracers()
			for i := range t {
				t[i] = nil
			}
			_ = append(t[:0], &namedTracer{TracerNoOp: am.TracerNoOp{Id: "intruder"}, name: "intruder"})
		}},
		// not demanded by the property (weak reading): the Mutation objects the
		// copied slice points to, and StateNames (documented as SHARED)
		{"Queue", "write through the *Mutation pointers", true, func(m *am.Machine) {
			for _, mu := range m.Queue() {
				mu.Type = am.MutationSet
				for i := range mu.Called {
					mu.Called[i] = 0
				}
			}
		}},
		{"StateNames", "overwrite elements", false, func(m *am.Machine) {
			n := m.StateNames()
			for i := range n {
				n[i] = "ZZZ"
			}
		}},
	}
}

// RunCopy: for every getter, phase (idle machine / inside a handler with a
// non-empty queue) and mutation: snapshot, mutate the returned value,
// snapshot again.
func RunCopy(o *Out) {
	schema := am.Schema{
		"A":    {},
		"B":    {Require: am.S{"A"}, Tags: am.S{"tagB"}},
		"C":    {Remove: am.S{"D"}, After: am.S{"A"}},
		"D":    {Add: am.S{"A"}},
		"Gate": {},
	}
	for _, phase := range []string{"idle", "inhandler"} {
		// reference: the same run with a caller that leaves the returned value
		// alone; what the machine ends up as once its queue has drained
		var refFinal *MachSnap
		cases := append([]copyCase{{"", "reference", false, func(m *am.Machine) {}}}, copyCases()...)
		for _, cc := range cases {
			m := am.New(context.Background(), schema, &am.Opts{HandlerTimeout: time.Hour})
			names := append(am.S{}, m.StateNames()...) // private copy of the index
			m.SetTags([]string{"t1", "t2"})
			m.TracerBind(&namedTracer{TracerNoOp: am.TracerNoOp{Id: "tr1"}, name: "tr1"})
			m.TracerBind(&namedTracer{TracerNoOp: am.TracerNoOp{Id: "tr2"}, name: "tr2"})
			h := &copyHandlers{}
			m.HandlersBind(h)
			m.Add(am.S{"A", "B"}, nil)
			run := func() {
				before := snapMach(m, names)
				cc.do(m)
				after := snapMach(m, names)
				if cc.getter == "" {
					return
				}
				o.EmitGroup(SnapLine{"snap", before},
					MutRetLine{"mutret", cc.getter, cc.how, phase, cc.deep, after})
				o.mx.Lock()
				o.Stats["copy:"+cc.getter]++
				o.mx.Unlock()
			}
			if phase == "idle" {
				h.fn = func(e *am.Event) {}
				run()
			} else {
				done := make(chan struct{})
				h.fn = func(e *am.Event) {
					defer close(done)
					m.Add1("C", am.A{"k": 1})
					m.Remove1("B", nil)
					m.Add(am.S{"D", "C"}, nil)
					run()
				}
				func() {
					// a machine that was altered through the "copy" may well crash
					// while it drains the queue: that is an observation, not the
					// driver's end
					defer func() { _ = recover() }()
					m.Add1("Gate", nil)
				}()
				<-done
			}
			// ... and the machine goes on exactly as it would have: same final
			// state once the queue has drained (judged like a second snapshot)
			// (a machine altered through the "copy" may also be wedged for good - the
			// crash above can leave its locks held: the snapshot gets a deadline and
			// a wedged machine is logged as such, which no untouched run equals)
			var final MachSnap
			fch := make(chan MachSnap, 1)
			go func() { fch <- snapMach(m, names) }()
			wedged := false
			select {
			case final = <-fch:
			case <-time.After(5 * time.Second):
				wedged = true
				final = MachSnap{Names: append(am.S{}, names...), Active: am.S{"<machine wedged>"},
					Time: []uint64{}, Clock: [][]any{}, Tags: []string{}, Queue: []QMut{}, Tracers: []string{}}
			}
			if cc.getter == "" {
				refFinal = &final
			} else if !cc.deep && cc.getter != "StateNames" && refFinal != nil {
				o.EmitGroup(SnapLine{"snap", *refFinal},
					MutRetLine{"mutret", cc.getter, cc.how + " (after the queue drained)", phase, cc.deep, final})
			}
			if wedged {
				continue
			}
			m.Dispose()
		}
	}
}
