------------------------------ MODULE Resolver ------------------------------
(* Transcription of pkg/machine/relations.go (DefaultRelationsResolver) and   *)
(* Schema.Parse (mach_utils.go) into pure TLA+ operators.                     *)
(*                                                                            *)
(* A schema `sch` is a function  name -> [auto, multi, require, add, remove,  *)
(* after]  with the four relations as SEQUENCES (the resolver is order        *)
(* sensitive).  `topo` is the resolver's Require topology (a sequence).       *)
(* Every operator follows the Go control flow statement by statement; the     *)
(* comments name the Go lines they mirror.                                    *)
EXTENDS AmSeq

Rel(sch, n, r) ==
  CASE r = "require" -> sch[n].require
    [] r = "add"     -> sch[n].add
    [] r = "remove"  -> sch[n].remove
    [] r = "after"   -> sch[n].after

---------------------------------------------------------------------------
(* graph.TopologicalSort (relations.go:499-533).  `starts` is the order in    *)
(* which `for node := range g.vertices` yields the nodes that own at least    *)
(* one Require edge -- a Go map, hence any permutation (see TopoChoices).      *)

TopoSources(sch, idx) == {idx[i] : i \in {k \in 1..Len(idx) : sch[idx[k]].require # <<>>}}

RECURSIVE TopoVisit(_, _, _, _)
TopoVisit(sch, node, path, acc) ==
  IF acc.err THEN acc
  ELSE IF node \in path THEN [acc EXCEPT !.err = TRUE]
  ELSE IF node \in acc.vis THEN acc
  ELSE LET reqs == sch[node].require
           RECURSIVE Kids(_, _)
           Kids(i, a) == IF i > Len(reqs) \/ a.err THEN a
                         ELSE Kids(i + 1, TopoVisit(sch, reqs[i], path \cup {node}, a))
           a2 == Kids(1, acc)
       IN IF a2.err THEN a2
          ELSE [a2 EXCEPT !.vis = @ \cup {node}, !.stack = Append(@, node)]

TopoFrom(sch, starts) ==
  LET RECURSIVE Go(_, _)
      Go(i, a) == IF i > Len(starts) \/ a.err THEN a
                  ELSE Go(i + 1, TopoVisit(sch, starts[i], {}, a))
      r == Go(1, [err |-> FALSE, vis |-> {}, stack |-> <<>>])
  IN IF r.err THEN <<>> ELSE r.stack   \* cycle: topology stays nil

HasRequireCycle(sch, idx) ==
  LET srcs == TopoSources(sch, idx)
      RECURSIVE Go(_, _)
      Go(R, a) == IF R = {} \/ a.err THEN a
                  ELSE LET x == CHOOSE y \in R : TRUE
                       IN Go(R \ {x}, TopoVisit(sch, x, {}, a))
  IN Go(srcs, [err |-> FALSE, vis |-> {}, stack |-> <<>>]).err

(* Every topology the pinned code may compute (map iteration order).          *)
TopoChoices(sch, idx) == {TopoFrom(sch, p) : p \in SPerms(TopoSources(sch, idx))}

(* The topology when the sources are visited in index order (the order the    *)
(* repaired code uses, see findings: C11).                                     *)
TopoIndexOrder(sch, idx) ==
  TopoFrom(sch, SelectSeq(idx, LAMBDA n : sch[n].require # <<>>))

---------------------------------------------------------------------------
(* parseAdd (relations.go:242-287).  The loop ranges over the *input* list;   *)
(* `visited` makes the second pass of `for changed` a no-op, so the function  *)
(* appends, for every distinct eligible input name in order of first          *)
(* occurrence, its (filtered) Add list -- ONE level only.                     *)
(* With Transitive = TRUE the loop ranges over the growing result instead     *)
(* (the repaired behaviour: Add chains of any depth).                         *)

AddsOf(sch, n, isRemove, called) ==
  SelectSeq(sch[n].add, LAMBDA a : ~(isRemove /\ SHas(called, a)))

ParseAddOneLevel(sch, states, before, isRemove, called) ==
  LET names == SUniq(states)
      Eligible(n) == ~(SHas(before, n) /\ ~sch[n].multi)
      RECURSIVE Go(_, _)
      Go(i, acc) ==
        IF i > Len(names) THEN acc
        ELSE LET n == names[i]
                 adds == AddsOf(sch, n, isRemove, called)
             IN IF Eligible(n) /\ adds # <<>> THEN Go(i + 1, acc \o adds)
                ELSE Go(i + 1, acc)
  IN Go(1, states)

ParseAddTransitive(sch, states, before, isRemove, called) ==
  LET Eligible(n) == ~(SHas(before, n) /\ ~sch[n].multi)
      \* index walk over the growing list, each distinct name expanded once
      RECURSIVE Go(_, _, _)
      Go(i, acc, visited) ==
        IF i > Len(acc) THEN acc
        ELSE LET n == acc[i]
                 adds == AddsOf(sch, n, isRemove, called)
             IN IF n \notin visited /\ Eligible(n) /\ adds # <<>>
                THEN Go(i + 1, acc \o adds, visited \cup {n})
                ELSE Go(i + 1, acc, visited)
  IN Go(1, states, {})

ParseAdd(transitive, sch, states, before, isRemove, called) ==
  IF transitive THEN ParseAddTransitive(sch, states, before, isRemove, called)
  ELSE ParseAddOneLevel(sch, states, before, isRemove, called)

(* parseRequire (relations.go:315-346): repeated filter until stable.         *)
RECURSIVE ParseRequire(_, _)
ParseRequire(sch, states) ==
  LET next == SelectSeq(states, LAMBDA n : SEvery(states, sch[n].require))
  IN IF Len(next) = Len(states) THEN states ELSE ParseRequire(sch, next)

(* The blocked-states filter (relations.go:95-135): reverse scan with the     *)
(* alreadyBlocked memo; blockers come from the un-reversed full list.         *)
BlockScan(sch, statesToSet) ==
  LET rev == SRev(statesToSet)
      RECURSIVE Go(_, _, _)
      Go(i, kept, blocked) ==
        IF i > Len(rev) THEN [kept |-> kept, blocked |-> blocked]
        ELSE LET n == rev[i]
                 by == SelectSeq(statesToSet,
                         LAMBDA b : SHas(sch[b].remove, n) /\ b \notin blocked)
             IN IF by = <<>> THEN Go(i + 1, Append(kept, n), blocked)
                ELSE Go(i + 1, kept, blocked \cup {n})
  IN Go(1, <<>>, {})

BlockFilter(sch, statesToSet) == BlockScan(sch, statesToSet).kept

(* SortStates (relations.go:200-239) for n <= 20 (pure insertion sort).       *)
SortRequire(topo, states) ==
  InsertionSort(states, LAMBDA a, b : SIndex(topo, a) < SIndex(topo, b))

AfterLess(sch, a, b) ==   \* less(i, j) with a = states[i], b = states[j]
  IF SHas(sch[a].after, b) THEN FALSE
  ELSE SHas(sch[b].after, a)

(* The repaired After pass (fix: C05): repeatedly take the first remaining     *)
(* state that lists none of the other remaining states in After or Require;   *)
(* when there is none (a cycle) the first remaining state is taken.           *)
TopoPick(sch, states) ==
  LET RECURSIVE Go(_, _)
      Go(rest, out) ==
        IF rest = <<>> THEN out
        ELSE LET Ready(k) == \A j \in 1..Len(rest) :
                               (j # k /\ rest[j] # rest[k]) =>
                                 /\ ~SHas(sch[rest[k]].after, rest[j])
                                 /\ ~SHas(sch[rest[k]].require, rest[j])
                 cands == {k \in 1..Len(rest) : Ready(k)}
                 pick == IF cands = {} THEN 1
                         ELSE CHOOSE k \in cands : \A k2 \in cands : k <= k2
             IN Go(SDeleteAt(rest, pick), Append(out, rest[pick]))
  IN Go(states, <<>>)

SortStates(fx, sch, topo, states) ==
  IF fx.toposort THEN TopoPick(sch, SortRequire(topo, states))
  ELSE InsertionSort(SortRequire(topo, states), LAMBDA a, b : AfterLess(sch, a, b))

(* TargetStates (relations.go:79-157).  `transitive` selects the repaired     *)
(* resolver (fix: C02): Add relations are followed to any depth and states    *)
(* blocked by the reverse scan are not brought back by the second parseAdd.   *)
TargetStates(fx, sch, topo, toSet, before, isRemove, called) ==
  LET s0   == SUniq(toSet)                                   \* mustParseStates
      s1   == ParseRequire(sch,
                SUniq(ParseAdd(fx.transitive, sch, s0, before, isRemove, called)))
      scan == BlockScan(sch, s1)
      res  == scan.kept
      toRm == SFlatten([i \in 1..Len(res) |-> sch[res[i]].remove])
      res2 == SUniq(SelectSeq(
                ParseAdd(fx.transitive, sch, res, before, isRemove, called),
                LAMBDA n : ~(fx.transitive /\ n \in scan.blocked) /\ ~SHas(toRm, n)))
      tgt  == ParseRequire(sch, SRev(res2))
  IN SortStates(fx, sch, topo, tgt)

---------------------------------------------------------------------------
(* NewAutoMutation (relations.go:160-197): the candidate SET; the order of    *)
(* the called list comes from a Go map in the pinned code.                    *)
AutoCandidates(sch, idx, active) ==
  {idx[i] : i \in {k \in 1..Len(idx) :
      /\ sch[idx[k]].auto
      /\ ~SHas(active, idx[k])
      /\ \A j \in 1..Len(active) : ~SHas(sch[active[j]].remove, idx[k])}}

AutoCalledIndexOrder(sch, idx, active) ==
  SelectSeq(idx, LAMBDA n : n \in AutoCandidates(sch, idx, active))

---------------------------------------------------------------------------
(* Schema.Parse (mach_utils.go:606-667) on one state.  `names` = all keys.    *)
ParseState(names, name, st) ==
  LET rm1 == IF SHas(st.remove, name) THEN SWithout(st.remove, name) ELSE st.remove
      \* for _, add := range state.Add  (ranges over the ORIGINAL Add slice)
      RECURSIVE AddLoop(_, _, _)
      AddLoop(i, rm, ad) ==
        IF i > Len(st.add) THEN [rm |-> rm, ad |-> ad]
        ELSE LET a == st.add[i]
             IN IF SHas(rm, a) THEN AddLoop(i + 1, SWithout(rm, a), ad)
                ELSE IF a \notin names THEN AddLoop(i + 1, rm, SWithout(ad, a))
                ELSE AddLoop(i + 1, rm, ad)
      r1 == AddLoop(1, rm1, st.add)
      af1 == IF SHas(st.after, name) THEN SWithout(st.after, name) ELSE st.after
      conflict == \E i \in 1..Len(st.require) : SHas(r1.rm, st.require[i])
      \* for _, n := range state.Remove { if unknown: Remove = without(n) }
      \* (slicesWithout removes one occurrence per unknown element visited)
      RECURSIVE DropUnknown(_, _, _)
      DropUnknown(orig, i, cur) ==
        IF i > Len(orig) THEN cur
        ELSE IF orig[i] \notin names THEN DropUnknown(orig, i + 1, SWithout(cur, orig[i]))
        ELSE DropUnknown(orig, i + 1, cur)
      rm2 == DropUnknown(r1.rm, 1, r1.rm)
      af2 == DropUnknown(af1, 1, af1)
      rm3 == DropUnknown(rm2, 1, rm2)
  IN [st |-> [st EXCEPT !.remove = rm3, !.add = r1.ad, !.after = af2],
      conflict |-> conflict]

---------------------------------------------------------------------------
(* Consistency formulas of property C02, evaluated on                         *)
(* (schema, active-before, mutation, target/active-after).                    *)

RequireClosed(sch, act) ==
  \A i \in 1..Len(act) : SEvery(act, sch[act[i]].require)

NoRemoveConflict(sch, act) ==
  \A i, j \in 1..Len(act) : i # j => ~SHas(sch[act[i]].remove, act[j])

(* Add-reachability closure from a set of roots.                              *)
RECURSIVE AddClosure(_, _)
AddClosure(sch, R) ==
  LET nxt == R \cup UNION {SSet(sch[n].add) : n \in R}
  IN IF nxt = R THEN R ELSE AddClosure(sch, nxt)

(* s is "excluded": a state taking part in the resolution (the result, the    *)
(* states before, anything Add-reachable from the called states) lists it in  *)
(* Remove, or s itself Removes a state of the result (they cannot both be     *)
(* active), or s cannot satisfy its own Require inside the result, or         *)
(* (Remove mutations) it was called for removal.  This is the permissive      *)
(* reading of "excluded by a Remove relation or misses a Require".            *)
AddExcused(sch, before, act, s, isRemove, called) ==
  LET cand == AddClosure(sch, SSet(called) \cup SSet(act) \cup SSet(before))
  IN \/ \E b \in cand : b # s /\ SHas(sch[b].remove, s)
     \/ \E j \in 1..Len(act) : SHas(sch[s].remove, act[j])
     \/ ~SEvery(act, sch[s].require)
     \/ (isRemove /\ SHas(called, s))

AddSatisfied(sch, before, act, isRemove, called) ==
  \A i \in 1..Len(act) :
     LET n == act[i] IN
     (~SHas(before, n)) =>
        \A k \in 1..Len(sch[n].add) :
           LET a == sch[n].add[k] IN
           SHas(act, a) \/ AddExcused(sch, before, act, a, isRemove, called)

ActivationJustified(sch, before, act, mtype, called) ==
  LET roots == IF mtype = "remove" THEN {} ELSE SSet(called)
      \* Multi states that are active may re-run their Add relation
      multiActive == {n \in SSet(before) : sch[n].multi}
      reach == AddClosure(sch, roots \cup multiActive)
  IN \A i \in 1..Len(act) : ~SHas(before, act[i]) => act[i] \in reach

(* A state may leave the active set when: called for removal, left out of a   *)
(* Set, listed in Remove of a state that is called / in the result / added    *)
(* on the way, or it (transitively) lost a Require.                           *)
RECURSIVE LostRequire(_, _, _)
LostRequire(sch, before, gone) ==
  LET more == {n \in SSet(before) :
                 \E k \in 1..Len(sch[n].require) : sch[n].require[k] \in gone}
      g2 == gone \cup more
  IN IF g2 = gone THEN gone ELSE LostRequire(sch, before, g2)

DeactivationJustified(sch, before, act, mtype, called) ==
  LET goneSet == {n \in SSet(before) : ~SHas(act, n)}
      roots == IF mtype = "remove" THEN {} ELSE SSet(called)
      multiActive == {n \in SSet(before) : sch[n].multi}
      involved == AddClosure(sch, roots \cup multiActive) \cup SSet(act) \cup SSet(before)
      direct == {n \in goneSet :
                   \/ ~SEvery(before, sch[n].require)   \* was already missing a Require
                   \/ (mtype = "remove" /\ SHas(called, n))
                   \/ (mtype = "set" /\ ~SHas(called, n))
                   \/ \E b \in involved : b # n /\ SHas(sch[b].remove, n)}
  IN goneSet \subseteq LostRequire(sch, before, direct)

=============================================================================
