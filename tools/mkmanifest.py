#!/usr/bin/env python3
"""Writes MANIFEST.json from the table below (single source of truth)."""
import json, os
ROOT = os.path.abspath(os.path.join(os.path.dirname(os.path.abspath(__file__)), ".."))

SEQ_NOTE = ("Assumes: TLC's exhaustive result holds within the stated constants only; the Go "
            "harness observes the machine through the public API, the am.Tracer interface and "
            "generated handler maps; the TLA+ formulas in spec/Props.tla are the reading of the "
            "property; trusted base = TLC, the Go toolchain, the harness recorder.")

CHECKS = {
 "C01": dict(level="model_checking", design_ref="DESIGN.md §4 C01",
   text="Exhaustive TLC exploration of spec/MCMachine.tla (every 2-state schema with Auto/Multi flags, every call history of 2 calls, every single veto) with tick-parity, monotonicity, documented-step, cancel-frozen and view-agreement formulas as invariants; the same formulas are evaluated by TLC on every transition the real machine executed (spec/TraceMachine.tla) and every public view (Is/Not/Any/ActiveStates/Tick/Time/Clock/String/StringAll/transition times) is sampled after every call.",
   technique="TLA+ spec + TLC exhaustive small scope; trace validation of recorded real executions against the spec"),
 "C02": dict(level="model_checking", design_ref="DESIGN.md §4 C02",
   text="The relation resolver is transcribed statement by statement into spec/Resolver.tla; TLC checks Require-closure, no Remove conflict, Add satisfaction and activation/deactivation justification on every transition of the bounded model, and on every logged transition of the real machine over the enumerated 2-state schema space and random 3..6-state relation graphs (cycles, Add chains).",
   technique="TLA+ transcription of the resolver, TLC invariants; trace validation (strict spec-vs-code comparison + property formulas on the code's output)"),
 "C03": dict(level="model_checking", design_ref="DESIGN.md §4 C03",
   text="All-or-nothing and truthful-Result formulas over whole public calls (call/transition/return events) are invariants of the bounded model with every veto position, and are evaluated by TLC on each recorded call of the real machine (result, state and ticks before/after, queue tick).",
   technique="TLA+ spec + TLC; trace validation of call/return events"),
 "C04": dict(level="model_checking", design_ref="DESIGN.md §4 C04", engine="queue",
   text="spec/Queue.tla models N callers racing on the CAS of processQueue at hook-point granularity (append, enter, CAS won/lost, pop, run with nested handler mutations, loop exit, release, queue end, re-check); TLC checks Mutex, NoStranding, NoneLost, TickOrder, TickCount, NoNesting exhaustively for 2-4 callers and EventuallyProcessed under fairness. The same hook points are gates on the real machine: every schedule of 2 callers x 1 mutation is forced (stateless depth-first enumeration, thorough tier) and larger scenarios are sampled; each recorded gate sequence is validated by TLC against Queue.tla and the C04 formulas are evaluated on the logged end state (queue empty, every returned tick processed, WhenQueue closed whether accepted or canceled, tick order, no two handlers/evals at once); free-running 8-16 goroutine workloads are judged on their end state.",
   note="Interleavings are enumerated at verif-hook granularity; the Go scheduler between two hook points is not enumerated. Trusted base: TLC, the gate scheduler of harness/gate, the verif hooks in processQueue/queueMutation.",
   technique="TLA+ spec of the queue race + TLC; schedule enumeration forced on the real code through gate hooks; trace validation"),
 "C05": dict(level="model_checking", design_ref="DESIGN.md §4 C05",
   text="Handler phase order, After/Require order (acyclic demands), negotiation-sees-before / final-sees-after, veto-stops and finals-once-per-change are TLA+ formulas over the handler log; checked exhaustively on the bounded model (After relations included) and on the handler log recorded from generated handler maps bound to the real machine.",
   technique="TLA+ spec + TLC; trace validation of recorded handler logs"),
 "C06": dict(level="model_checking", design_ref="DESIGN.md §4 C06", engine="subs",
   text="spec/Subs.tla models the subscription manager's bookkeeping literally (States map, Matched/Total, Completed, shared-vs-copied clock, channel reuse, state-context index) with a transition split into setActiveStates and processSubscriptions; TLC checks ClosedIff (no lost, no spurious wake-up), StateCtxIff and NeverPanics exhaustively for every subscription kind, context cancellation point, Multi re-activation, canceled transition, SetSchema and Dispose. On the real machine a mutator is parked at the verif hooks tx.applied / pq.beforeSubs while a subscriber acts inside the window; all channels and contexts are probed after every operation and TLC judges every probe against a ghost that depends only on the logged machine history.",
   note="WhenArgs is not modelled; 'a transition has run since' = an accepted transition was processed; inside the window a wake-up due at the end of the running transition is neither lost nor spurious. Trusted base: TLC, harness/gate, the probe (non-blocking receive on every channel).",
   technique="TLA+ spec of the subscription bookkeeping + TLC; window-placed scenarios forced through gate hooks; trace validation with probes after every step"),
 "C07": dict(level="model_checking", design_ref="DESIGN.md §4 C07",
   text="Auto-follows / only-when-demanded / judged-individually formulas over consecutive transitions, including the partial-acceptance code paths transcribed step by step (slice aliasing included); exhaustive on the bounded model with every veto of the auto states' handlers, and evaluated on recorded real executions.",
   technique="TLA+ spec + TLC; trace validation"),
 "C08": dict(level="fault_enumeration", design_ref="DESIGN.md §4 C08", engine="seq-machine",
   text="Every handler call of the faulty call (learned from a fault-free dry run: each Exit/Enter/self/state-state/AnyEnter/End/State/AnyState call of each binding, including the auto and Exception transitions it triggers) gets each fault kind - panic(string), panic(error), stall beyond HandlerTimeout - singly and paired with a second fault inside the Exception handlers, each followed by a probe call. spec/Faults.tla models recoverToErr / recoverFinalPhase / Event.IsValid step by step; TLC validates every recorded run against it and evaluates parity, negotiation-fault-frozen, exact final rollback, Exception-carries-message, timeout-reported and no-escape/no-hang on what the real machine did; the same formulas are invariants of the bounded FaultMode model.",
   technique="fault enumeration over handler positions on the real machine; TLA+ fault model (TLC bounded model + trace validation)"),
 "C11": dict(level="model_checking", design_ref="DESIGN.md §4 C11",
   text="The spec models map-order nondeterminism explicitly (auto-candidate order, topology DFS start order) behind flags; with the ordered variants TLC shows one behaviour per history. The binding re-executes every generated case >= 64 times on fresh machines and requires byte-identical recorded behaviour, and validates the reference executions against the ordered spec (auto order and topology are compared strictly).",
   technique="TLA+ spec with explicit map-order nondeterminism + TLC; repeated re-execution of the real code; trace validation"),
 "C13": dict(level="model_checking", design_ref="DESIGN.md §4 C13", engine="dispose",
   text="spec/Dispose.tla models any number of Dispose/DisposeForce/context attempts racing through the stages of doDispose (SingleWinner, DisposeHandlersOnce, AllWaitersReleased, Completes under fairness). On the real machine disposal is landed on an idle machine, a short and a long running queue, inside a negotiation handler, a final handler, Eval, and from inside a handler, by Dispose, DisposeForce, parent-context cancel, two Disposes and Dispose+DisposeForce, with and without handlers and with one outstanding waiter of every kind; the dd.* stage hooks are validated against the spec and the end state is judged: every waiter released, contexts cancelled, dispose handlers exactly once, handler loop exited, callers neither panicked nor blocked, ~75 later API calls return promptly with a neutral value.",
   note="Landing points are reached by blocking handlers / timing, not by gates inside doDispose; DisposeForce is documented to cause panics in concurrent callers (not counted). Trusted base: TLC, the dd.* and hl.exit hooks.",
   technique="TLA+ spec of the disposal stages + TLC; disposal scenarios on the real code; trace validation of stage hooks and end state"),
 "C14": dict(level="model_checking", design_ref="DESIGN.md §4 C14",
   text="Callback order per transition, no interleaving, time chain (before = previous after), after = actual machine time, canceled = no change, last report = final time are formulas over the recording tracer's log; invariants of the bounded model and evaluated on every recorded transition.",
   technique="TLA+ spec + TLC; trace validation of tracer callbacks"),
}

NOT_YET = {
 "C12": "data-race freedom in the sense of the Go memory model is not expressible at the abstraction a TLA+ specification of this system works at: deciding it needs the Go race detector (a different technique), and instrumenting every shared access so that a lock-set specification could be trace-validated would amount to re-implementing that detector. The interleaving-level consequences the specs can see (atomic snapshots stay parity-consistent under concurrent readers, one transition at a time, no lost wake-ups) are covered by C01, C04 and C06.",
}

def main():
    props = [json.loads(l)["id"] for l in open(os.path.join(ROOT, "properties.jsonl"))]
    checks = []
    for pid in props:
        if pid not in CHECKS:
            continue
        c = CHECKS[pid]
        checks.append(dict(
            property_id=pid,
            quick_cmd="./check %s --tier quick" % pid,
            thorough_cmd="./check %s --tier thorough" % pid,
            evidence_file="evidence/%s.json" % pid,
            replay_cmd_template="./check %s --replay {path}" % pid,
            engine=c.get("engine", "seq-machine"),
            level_claimed=dict(category=c["level"], text=c["text"], design_ref=c["design_ref"]),
            level_note=c.get("note", SEQ_NOTE),
            technique=c["technique"]))
    na = [dict(property_id=p, reason=NOT_YET.get(p, "check not built yet in this round (work in progress; see DESIGN.md)"))
          for p in props if p not in CHECKS]
    man = dict(
        version=1,
        setup_cmd="./setup.sh",
        hooks=dict(guard="verif", enable="go build -tags verif (harness/ builds /repo with the tag)",
                   baseline_off_cmd="python3 tools/baseline.py /repo",
                   source_commits=[l.strip() for l in open(os.path.join(ROOT, "hooks_commits.txt")) if l.strip()]
                   if os.path.exists(os.path.join(ROOT, "hooks_commits.txt")) else [],
                   add_only=True),
        engines=[dict(name="queue", path="spec/Queue.tla spec/TraceQueue.tla harness/gate harness/queuedrv tools/queuecheck.py", serves_properties=["C04"], kind_free_text="TLA+ spec of the processQueue race; schedules forced on the real machine through verif gate hooks; trace validation"),
                 dict(name="subs", path="spec/Subs.tla spec/MCSubs.tla spec/TraceSubs.tla harness/subsdrv tools/subscheck.py", serves_properties=["C06"], kind_free_text="TLA+ spec of the subscription manager; window-placed scenarios; trace validation with probes"),
                 dict(name="dispose", path="spec/Dispose.tla spec/TraceDispose.tla harness/dispdrv tools/disposecheck.py", serves_properties=["C13"], kind_free_text="TLA+ spec of doDispose stages; disposal scenarios; trace validation"),
                 dict(name="seq-machine", path="spec/Machine.tla spec/Faults.tla spec/Transition.tla spec/Resolver.tla spec/Props.tla spec/MCMachine.tla spec/TraceMachine.tla harness/seqdrv tools/seqcheck.py",
                      serves_properties=["C01", "C02", "C03", "C05", "C07", "C08", "C11", "C14"],
                      kind_free_text="TLA+ specification of the sequential machine checked by TLC; bound to the Go code by trace validation of recorded executions")],
        checks=checks,
        not_applicable=na,
        notes="Every check rebuilds harness/ against /repo's working tree with -tags verif. exit 2 = inconclusive.")
    json.dump(man, open(os.path.join(ROOT, "MANIFEST.json"), "w"), indent=1)

if __name__ == "__main__":
    main()
