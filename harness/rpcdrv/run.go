package rpcdrv

import (
	"context"
	"fmt"
	"slices"
	"time"

	am "github.com/pancsta/asyncmachine-go/pkg/machine"
	"github.com/pancsta/asyncmachine-go/pkg/rpc"
)

// Step is one command of a schedule.
//
//	src      local mutation of the source machine (op add|remove|set, states)
//	cli      mutation through the network machine, ASYNC (op, states, id)
//	cliwait  wait (bounded, ms) for client call id to return
//	clisync  Client.Sync(), ASYNC (id)
//	arm      arm a gate at hook point p
//	await    wait (bounded) until a goroutine is parked at gate p
//	release  release gate p
//	push     run Server.pushClient (the ticker's role); async: do not wait
//	hold / unhold   stop / resume delivery in direction d (c2s|s2c)
//	cut      break the connection (bytes in flight are lost)
//	connect  provide a fresh connection (listener + Client.Conn)
//	autoconn provide a fresh connection whenever the client gets Disconnected
//	waitready / waitdisc   wait (bounded) for Ready / for the client to notice
//	stepmode hold both directions: from now on messages move only by `act`
//	act      one abstract action of spec/RpcSync.tla (see act.go)
//	free     open every gate, resume free delivery
//	sleep    sleep us microseconds
//	settle   wait (bounded) until nothing happened for idle ms
//	probe    log source clock vs mirror (the convergence observation)
type Step struct {
	K      string   `json:"k"`
	Op     string   `json:"op,omitempty"`
	States []string `json:"states,omitempty"`
	Id     int      `json:"id,omitempty"`
	P      string   `json:"p,omitempty"`
	D      string   `json:"d,omitempty"`
	Ms     int      `json:"ms,omitempty"`
	Us     int      `json:"us,omitempty"`
	Async  bool     `json:"async,omitempty"`
	// abstract action of spec/RpcSync.tla (k = "act") and its parameter
	A string `json:"a,omitempty"`
	S string `json:"s,omitempty"`
	// Opt: a failed wait of this step does not make the schedule incomplete
	Opt bool `json:"opt,omitempty"`
}

// Case is a schedule with its configuration.
type Case struct {
	Label string `json:"label"`
	Cfg   Cfg    `json:"cfg"`
	Steps []Step `json:"steps"`
	// Forced: a B3 schedule (completion matters); else a free run (B1)
	Forced bool  `json:"forced"`
	Seed   int64 `json:"seed"`
}

// Outcome of one case.
type Outcome struct {
	Label string `json:"label"`
	// Completed: every step of the schedule did what it was meant to do (all
	// gates were reached, all bounded waits of non-optional steps succeeded).
	Completed bool   `json:"completed"`
	Why       string `json:"why,omitempty"`
	// Blocked: ids of client calls that had not returned when the case ended
	Blocked []int    `json:"blocked,omitempty"`
	Points  []string `json:"points"`
	Lines   []string `json:"-"` // for TLC
	Debug   []string `json:"-"` // the raw event log
	WallMs  int64    `json:"wall_ms"`
}

func (w *World) mutate(m am.Api, op string, states am.S) am.Result {
	switch op {
	case "add":
		return m.Add(states, nil)
	case "remove":
		return m.Remove(states, nil)
	case "set":
		return m.Set(states, nil)
	}
	panic("bad op " + op)
}

func (w *World) settle(idle, max time.Duration) bool {
	deadline := time.Now().Add(max)
	last := w.activity.Load()
	lastChange := time.Now()
	for time.Now().Before(deadline) {
		time.Sleep(idle / 8)
		cur := w.activity.Load()
		if cur != last {
			last = cur
			lastChange = time.Now()
			continue
		}
		if time.Since(lastChange) >= idle {
			return true
		}
	}
	return false
}

func (w *World) inFlight() int {
	w.mu.Lock()
	defer w.mu.Unlock()
	n := 0
	for _, call := range w.calls {
		select {
		case <-call.done:
		default:
			n++
		}
	}
	return n
}

func (w *World) syncOpen() int {
	return w.count("rpc.client.sync.enter") - w.count("rpc.client.sync.exit")
}

func (w *World) probe(note string) {
	if note == "quiescent" && (w.inFlight() > 0 || w.syncOpen() > 0) {
		// something is still open: give it the time the client's own failsafe
		// parameters allow before calling it blocked
		deadline := time.Now().Add(w.Cfg.BlockBound())
		for time.Now().Before(deadline) && (w.inFlight() > 0 || w.syncOpen() > 0) {
			time.Sleep(5 * time.Millisecond)
		}
		if w.inFlight() == 0 && w.syncOpen() == 0 {
			w.settle(60*time.Millisecond, 2*time.Second)
		}
	}
	mir, names := w.MirrorSnap()
	e := Event{Ev: "probe", Who: "drv", From: w.SrcSnap(), To: mir,
		Names: names, Note: note, Call: w.inFlight(), Open: w.syncOpen()}
	e.States = w.Cli.Mach.ActiveStates(nil)
	e.Tracked = w.Srv.Mach.ActiveStates(nil)
	if nm := w.Cli.NetMach; nm != nil {
		e.MAct = nm.ActiveStates(nil)
		// the per-state views: Tick() and the Clock() map (a state on which the two
		// differ is logged with the Clock value)
		clock := nm.Clock(nil)
		for _, n := range names {
			tk := nm.Tick(n)
			if c, ok := clock[n]; ok && c != tk {
				tk = c
			}
			e.MTk = append(e.MTk, tk)
		}
	}
	e.SAct = w.Src.ActiveStates(nil)
	w.log(e)
}

// Run executes a case on a fresh world.
func Run(parent context.Context, c *Case) *Outcome {
	t0 := time.Now()
	out := &Outcome{Label: c.Label, Completed: true}
	fail := func(f string, a ...any) {
		if out.Completed {
			out.Completed = false
			out.Why = fmt.Sprintf(f, a...)
		}
	}
	var w *World
	var err error
	for attempt := 0; ; attempt++ {
		w, err = NewWorld(parent, c.Label, c.Cfg)
		if err != nil {
			fail("new world: %v", err)
			return out
		}
		err = w.Start(5 * time.Second)
		// a forced schedule starts from the specification's initial state: when
		// the free-running start lost the OnConnect / handshake race (client
		// Ready, server not), start over
		if err != nil && c.Forced && attempt < 3 && w.Cli.Mach.Is1(ssC.Ready) {
			w.Dispose()
			continue
		}
		break
	}
	defer w.Dispose()
	if err != nil {
		if w.Cli.Mach.Not1(ssC.Ready) || c.Forced {
			// (forced schedules start from the specification's initial state)
			fail("start: %v", err)
			w.log(Event{Ev: "end", Who: "drv", Ok: bp(false), Note: out.Why})
			out.Lines = w.TlaLines(c.Forced, c.Label)
			out.Debug = w.Lines()
			return out
		}
		// the client is Ready, the server is not: the run goes on and is judged
		w.log(Event{Ev: "startrace", Who: "drv", Note: err.Error()})
	}
	w.log(Event{Ev: "ready", Who: "drv"})

	armed := map[string]*gate{}
	settled := false
	st := &stepper{w: w, armed: map[string]*gate{}}
	ms := func(s *Step, def int) time.Duration {
		if s.Ms > 0 {
			return time.Duration(s.Ms) * time.Millisecond
		}
		return time.Duration(def) * time.Millisecond
	}

steps:
	for i := range c.Steps {
		s := &c.Steps[i]
		switch s.K {

		case "src":
			res := w.mutate(w.Src, s.Op, s.States)
			if res != am.Executed && res != am.Canceled {
				// queued behind a running transition: wait for it
				select {
				case <-w.Src.WhenQueue(res):
				case <-time.After(2 * time.Second):
					fail("step %d: source queue stuck", i)
				}
			}
			w.log(Event{Ev: "src", Who: "drv", Op: s.Op, States: s.States,
				Res: resName(res), To: w.SrcSnap()})

		case "cli":
			call := &cliCall{done: make(chan struct{})}
			w.mu.Lock()
			w.calls[s.Id] = call
			w.mu.Unlock()
			w.log(Event{Ev: "cli.call", Who: "drv", Op: s.Op, States: s.States,
				Call: s.Id})
			go func(s *Step) {
				defer w.recoverCall(call)
				res := w.mutate(w.Cli.NetMach, s.Op, s.States)
				call.res = res
				// read-your-write observation: the mirror as the caller sees it
				mir, _ := w.MirrorSnap()
				w.log(Event{Ev: "cli.ret", Who: "drv", Op: s.Op, States: s.States,
					Call: s.Id, Res: resName(res), To: mir,
					States2: w.Cli.Mach.ActiveStates(nil)})
				close(call.done)
			}(s)
			if !s.Async {
				select {
				case <-call.done:
				case <-time.After(ms(s, 2000)):
					if !s.Opt {
						fail("step %d: client call %d did not return", i, s.Id)
					}
				}
			}

		case "clisync":
			call := &cliCall{done: make(chan struct{})}
			w.mu.Lock()
			w.calls[s.Id] = call
			w.mu.Unlock()
			w.log(Event{Ev: "cli.sync", Who: "drv", Call: s.Id})
			go func(s *Step) {
				defer w.recoverCall(call)
				t := w.Cli.Sync()
				mir, _ := w.MirrorSnap()
				w.log(Event{Ev: "cli.syncret", Who: "drv", Call: s.Id,
					Ok: bp(t != nil), To: mir})
				close(call.done)
			}(s)
			if !s.Async {
				select {
				case <-call.done:
				case <-time.After(ms(s, 2000)):
					if !s.Opt {
						fail("step %d: Sync %d did not return", i, s.Id)
					}
				}
			}

		case "cliwait":
			w.mu.Lock()
			call := w.calls[s.Id]
			w.mu.Unlock()
			if call == nil {
				fail("step %d: no call %d", i, s.Id)
				break
			}
			select {
			case <-call.done:
			case <-time.After(ms(s, 2000)):
				w.log(Event{Ev: "cli.blocked", Who: "drv", Call: s.Id})
				if !s.Opt {
					fail("step %d: client call %d did not return", i, s.Id)
				}
			}

		case "arm":
			g := &gate{arrived: make(chan struct{}), release: make(chan struct{})}
			w.mu.Lock()
			w.gates[s.P] = g
			w.mu.Unlock()
			armed[s.P] = g

		case "await":
			g := armed[s.P]
			if g == nil {
				fail("step %d: gate %s not armed", i, s.P)
				break steps
			}
			select {
			case <-g.arrived:
			case <-time.After(ms(s, 2000)):
				fail("step %d: nobody reached gate %s", i, s.P)
				break steps
			}

		case "release":
			if g := armed[s.P]; g != nil {
				g.once.Do(func() { close(g.release) })
				delete(armed, s.P)
				w.mu.Lock()
				if w.gates[s.P] == g {
					delete(w.gates, s.P)
				}
				w.mu.Unlock()
			}

		case "push":
			do := func() {
				if w.Cfg.PushUs < 0 {
					ns := time.Nanosecond
					w.Srv.PushInterval.Store(&ns)
				}
				rpc.VerifSyncPush(w.Srv)
				if w.Cfg.PushUs < 0 {
					day := 24 * time.Hour
					w.Srv.PushInterval.Store(&day)
				}
			}
			w.log(Event{Ev: "push.try", Who: "drv"})
			if s.Async {
				go do()
			} else {
				do()
			}

		case "hold":
			w.Link().Hold(s.D)
			w.log(Event{Ev: "hold", Who: "drv", Note: s.D})
		case "unhold":
			w.Link().Release(s.D)
			w.log(Event{Ev: "unhold", Who: "drv", Note: s.D})
		case "cut":
			w.log(Event{Ev: "cut", Who: "drv", Note: s.D})
			switch s.D {
			case "cli":
				w.Link().CutCli()
			case "srv":
				w.Link().CutSrv()
			case "oldsrv":
				// the server side of the PREVIOUS link
				w.mu.Lock()
				var old *Link
				if n := len(w.links); n >= 2 {
					old = w.links[n-2]
				}
				w.mu.Unlock()
				if old != nil {
					old.CutSrv()
				}
			default:
				w.Link().Cut()
			}
		case "connect":
			w.Connect()
		case "autoconn":
			if !w.autoConn.Load() {
				w.autoConn.Store(true)
				w.autoDone = make(chan struct{})
				go w.autoConnLoop()
			}

		case "waitready":
			if err := w.WaitReady(ms(s, 3000)); err != nil && !s.Opt {
				fail("step %d: %v", i, err)
			}
			w.log(Event{Ev: "ready", Who: "drv"})
		case "waitdisc":
			if err := waitNotState(w.ctx, w.Cli.Mach, ssC.Connected,
				ms(s, 3000)); err != nil && !s.Opt {
				fail("step %d: %v", i, err)
			}

		case "stepmode":
			w.Link().Hold("c2s")
			w.Link().Hold("s2c")
			w.log(Event{Ev: "stepmode", Who: "drv"})

		case "act":
			if err := st.act(s.A, s.S); err != nil {
				w.log(Event{Ev: "act.fail", Who: "drv", Note: fmt.Sprintf(
					"%d %s:%s: %v", i, s.A, s.S, err)})
				fail("step %d (%s:%s): %v", i, s.A, s.S, err)
				break steps
			}

		case "free":
			st.openAll()
			w.Link().Release("c2s")
			w.Link().Release("s2c")
			w.log(Event{Ev: "free", Who: "drv"})

		case "sleep":
			time.Sleep(time.Duration(s.Us) * time.Microsecond)

		case "settle":
			idle := 60 * time.Millisecond
			if s.Us > 0 {
				idle = time.Duration(s.Us) * time.Microsecond
			}
			settled = w.settle(idle, ms(s, 3000))
			if !settled && !s.Opt {
				fail("step %d: no quiescence", i)
			}

		case "probe":
			note := s.P
			if note == "quiescent" && !(settled && out.Completed) {
				// not an observation AT quiescence: the formulas do not judge it
				note = "unsettled"
			}
			w.probe(note)

		default:
			fail("step %d: unknown step %q", i, s.K)
			break steps
		}
	}

	st.openAll()
	// calls still blocked?
	w.mu.Lock()
	for id, call := range w.calls {
		select {
		case <-call.done:
		default:
			out.Blocked = append(out.Blocked, id)
		}
	}
	w.mu.Unlock()
	slices.Sort(out.Blocked)
	w.log(Event{Ev: "end", Who: "drv", Ok: bp(out.Completed), Note: out.Why,
		Call: len(out.Blocked)})
	out.Lines = w.TlaLines(c.Forced, c.Label)
	out.Debug = w.Lines()
	seen := map[string]bool{}
	for _, e := range w.Events() {
		if !seen[e.Ev] {
			seen[e.Ev] = true
			out.Points = append(out.Points, e.Ev)
		}
	}
	slices.Sort(out.Points)
	out.WallMs = time.Since(t0).Milliseconds()
	return out
}

// autoConnLoop provides a new link each time the client loses its connection.
func (w *World) autoConnLoop() {
	// (Machine.When on a machine that is being disposed may panic)
	defer func() { _ = recover() }()
	defer close(w.autoDone)
	for w.autoConn.Load() && w.ctx.Err() == nil {
		select {
		case <-w.Cli.Mach.When1(ssC.Disconnected, w.ctx):
		case <-w.ctx.Done():
			return
		}
		if !w.autoConn.Load() {
			return
		}
		w.Connect()
		select {
		case <-w.Cli.Mach.WhenNot1(ssC.Disconnected, w.ctx):
		case <-w.ctx.Done():
			return
		}
	}
}
