import seqcheck

SEQ = {"C01", "C02", "C03", "C05", "C07", "C14"}


def run(prop, tier, replay):
    if prop in SEQ or prop == "C11":
        if replay:
            return seqcheck.replay(prop, replay)
        if prop == "C11":
            return seqcheck.check_c11(tier)
        return seqcheck.check(prop, tier)
    print("unknown property", prop)
    return 2
