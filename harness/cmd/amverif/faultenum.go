package main

import (
	"bufio"
	"encoding/json"
	"flag"
	"fmt"
	"math/rand"
	"os"
	"sync"
	"time"

	"verifharness/gen"
	"verifharness/rec"
	"verifharness/seqdrv"
)

func init() { commands["faultenum"] = cmdFaultEnum }

// cmdFaultEnum: fault enumeration. For every generated base case the last
// call is first executed fault-free to learn which handler calls it makes
// (every Exit/Enter/self/state-state/AnyEnter/End/State/AnyState call of every
// binding, including those of the auto and Exception transitions it triggers);
// then the case is re-executed once per (handler call, fault kind) with a
// panic(string), panic(error) or a stall longer than HandlerTimeout injected
// there, followed by a fault-free probe call. With -pairs a second fault is
// added inside the Exception handlers.
func cmdFaultEnum(args []string) int {
	fs := flag.NewFlagSet("faultenum", flag.ExitOnError)
	mode := fs.String("mode", "s2", "s2|rnd")
	seed := fs.Int64("seed", 1, "seed")
	n := fs.Int("n", 50, "base cases")
	calls := fs.Int("calls", 2, "fault-free calls before the faulty one")
	out := fs.String("out", "faults", "output prefix")
	shards := fs.Int("shards", 16, "shards")
	pairs := fs.Bool("pairs", false, "also inject a second fault inside the Exception handlers")
	maxStates := fs.Int("maxstates", 5, "rnd: max user states")
	fs.Parse(args)
	r := rand.New(rand.NewSource(*seed))

	type job struct {
		c *gen.Case
	}
	var jobs []job
	positions := 0
	bases := 0
	for i := 0; i < *n; i++ {
		c := &gen.Case{}
		switch *mode {
		case "s2":
			for {
				k := r.Intn(gen.S2Count(false))
				c.Names, c.Schema = gen.S2Schema(k, false)
				c.Label = fmt.Sprintf("fe-s2#%d", k)
				if !gen.HasRequireRemoveConflict(c.Schema) {
					break
				}
			}
		default:
			ns := 3 + r.Intn(*maxStates-2)
			c.Names, c.Schema = gen.RandSchema(r, ns, 0.15+0.25*r.Float64(), true, true)
			c.Label = fmt.Sprintf("fe-rnd#%d", i)
		}
		index := gen.Index(c)
		c.On = true
		if r.Intn(3) == 0 {
			c.Binds = []rec.Binding{gen.RandBinding(r, index, 0.7), gen.RandBinding(r, index, 0.5)}
		} else {
			c.Binds = []rec.Binding{gen.FullBinding(index)}
		}
		c.Calls = gen.RandCalls(r, c, *calls+1, 0, 1)
		for k := range c.Calls {
			c.Calls[k].Check = false
		}
		// dry run: which handlers does the last call invoke?
		lines, err := seqdrv.Run(c, seqdrv.Opts{})
		if err != nil {
			fmt.Fprintln(os.Stderr, err)
			return 2
		}
		lastCall := -1
		for k, l := range lines {
			if _, ok := l.(*gen.Call); ok {
				lastCall = k
			}
		}
		type pos struct {
			b int
			h rec.HName
		}
		var ps []pos
		seen := map[string]bool{}
		for _, l := range lines[lastCall+1:] {
			if tx, ok := l.(*rec.TxJ); ok {
				for _, hc := range tx.Hlog {
					key := rec.SKey(hc.B, hc.H)
					if !seen[key] {
						seen[key] = true
						ps = append(ps, pos{hc.B, hc.H})
					}
				}
			}
		}
		if len(ps) == 0 {
			continue
		}
		bases++
		probe := gen.RandCalls(r, c, 1, 0, 1)[0]
		probe.Check = false
		probe.Probe = true
		for _, p := range ps {
			for kind := 0; kind < 4; kind++ {
				v := *c
				v.Calls = append([]gen.Call{}, c.Calls...)
				last := v.Calls[len(v.Calls)-1]
				last.Panic, last.Stall, last.Dead = nil, nil, nil
				switch kind {
				case 0:
					last.Panic = [][]any{{p.b, p.h, "boom"}}
				case 1:
					last.Panic = [][]any{{p.b, p.h, "err:bang"}}
				case 2:
					last.Stall = [][]any{{p.b, p.h}}
				case 3:
					// the handler outlives HandlerDeadline as well
					last.Stall = [][]any{{p.b, p.h}}
					last.Dead = [][]any{{p.b, p.h}}
				}
				if *pairs && kind < 2 && !(len(p.h) > 1 && p.h[1] == "Exception") {
					// second fault inside an Exception handler of binding 1
					exc := []rec.HName{{"enter", "Exception"}, {"state", "Exception"}}[r.Intn(2)]
					if r.Intn(2) == 0 {
						last.Panic = append(last.Panic, []any{1, exc, "boom2"})
					} else {
						last.Stall = append(last.Stall, []any{1, exc})
					}
				}
				v.Calls[len(v.Calls)-1] = last
				v.Calls = append(v.Calls, probe)
				if kind == 3 {
					// the probe above meets the backoff; then the backoff ends, the
					// probe is issued again, and at last the handler returns
					none := gen.Call{Called: []string{}, Veto: [][]any{}, Nest: []gen.NestAt{}}
					off, rel := none, none
					off.Ev, off.Backoff = "env", false
					rel.Ev = "release"
					v.Calls = append(v.Calls, off, probe, rel)
				}
				v.Label = fmt.Sprintf("%s@%d|%s/%d", c.Label, p.b, p.h.Key(), kind)
				jobs = append(jobs, job{&v})
				positions++
			}
		}
	}

	files := make([]*bufio.Writer, *shards)
	var fhs []*os.File
	for k := 0; k < *shards; k++ {
		f, err := os.Create(fmt.Sprintf("%s.%d.ndjson", *out, k))
		if err != nil {
			fmt.Fprintln(os.Stderr, err)
			return 2
		}
		fhs = append(fhs, f)
		files[k] = bufio.NewWriterSize(f, 1<<20)
	}
	results := make([][]any, len(jobs))
	var wg sync.WaitGroup
	sem := make(chan struct{}, 16)
	for i, j := range jobs {
		wg.Add(1)
		sem <- struct{}{}
		go func(i int, c *gen.Case) {
			defer wg.Done()
			defer func() { <-sem }()
			o := seqdrv.Opts{Views: false, HandlerTimeout: 150 * time.Millisecond}
			for _, cl := range c.Calls {
				if len(cl.Dead) > 0 {
					o.HandlerDeadline = 120 * time.Millisecond
				}
			}
			lines, err := seqdrv.Run(c, o)
			if err != nil {
				fmt.Fprintln(os.Stderr, err)
				os.Exit(2)
			}
			results[i] = lines
		}(i, j.c)
	}
	wg.Wait()
	total := 0
	for i, ls := range results {
		enc := json.NewEncoder(files[i%*shards])
		for _, l := range ls {
			enc.Encode(l)
			total++
		}
	}
	for k := range files {
		files[k].Flush()
		fhs[k].Close()
	}
	fmt.Printf("{\"cases\":%d,\"lines\":%d,\"bases\":%d,\"injections\":%d}\n", len(jobs), total, bases, positions)
	return 0
}
