---------------------------- MODULE TraceDebugger ----------------------------
(* Validation of what the REAL headless am-dbg did (harness/dbgdrv) against   *)
(* Debugger.tla.  The state follows the log: every line carries the values    *)
(* the real debugger held (records, parsed records, error index, filtered     *)
(* view, cursor, filter states); the specification's step is computed from    *)
(* the PREVIOUS logged values and compared with the logged ones.              *)
(*                                                                            *)
(*   drift  the specification, fed with the logged inputs, computes something *)
(*          else than the code did (spec # code; not a verdict)               *)
(*   viol   a property formula is FALSE on the LOGGED values (the verdict)    *)
(*                                                                            *)
(* events                                                                     *)
(*   open    a client was connected and selected: schema + initial view       *)
(*   ingest  k records were appended through ClientMsg: all records, parsed,  *)
(*           error index, view afterwards                                     *)
(*   cmd     one command through the debugger machine's states + view after   *)
(*           (the Result of the Add call is logged but not used: with the     *)
(*           debugger's background goroutines feeding the same queue it may   *)
(*           be the result of somebody else's mutation)                       *)
(*   final   end of a stream: records, parsed, errors, what the recording     *)
(*           tracer of the SOURCE machine saw, results of the real look-ups   *)
(*   import  a client before export and after import into a fresh debugger    *)
(*   lookup  function-level: the real look-ups over a generated record list   *)
(*   txseq   function-level: one server.Client whose store GROWS: steps        *)
(*           grow / TxIndex(id) / ClearCache / TxAtQueueTick / TxAtMachTime     *)
(*           with the real answers; ids are asked before their record is        *)
(*           appended, afterwards, and again                                    *)
(* a cmd with op "scrollid" is a jump by transition id (ScrollToTx{TxId}); the  *)
(* id may belong to a record that has not been ingested yet; the line carries   *)
(* what Client.TxIndex answers right after the command, and whether the         *)
(* ScrollToTx handler ran (a refused jump is judged by that answer alone)        *)
EXTENDS Debugger, Json

CONSTANT TraceFile

Trace == ndJsonDeserialize(TraceFile)

VARIABLES l, viol, drift, ctx, cnt

tvars == <<l, viol, drift, ctx, cnt>>

Sch(x) == [n |-> x.n, err |-> DRange(x.err), health |-> DRange(x.health)]
ViewOf(x) == [cursor |-> x.cursor, tail |-> x.tail, F |-> DRange(x.filters), filtered |-> x.filtered]
DiffsOf(parsed) == [i \in 1..Len(parsed) |-> parsed[i].diff]
SumsOf(parsed) == [i \in 1..Len(parsed) |-> parsed[i].sum]

NoCtx == [sch |-> [n |-> 0, err |-> {}, health |-> {}], recs |-> <<>>, diffs |-> <<>>,
          v |-> [cursor |-> 0, tail |-> FALSE, F |-> {}, filtered |-> <<>>],
          last |-> [op |-> "none"],
          txc |-> {}]   \* the specification's copy of the client's txCache

B(cond, name) == IF cond THEN {} ELSE {name}

(* ----- RecordFaithful: the N-th non-queued record carries the ticks and the *)
(* active states the source machine had after its N-th traced transition      *)
NonQueued(recs) == SelectSeq(recs, LAMBDA r : ~r.queued)
RecordFaithful(recs, src) ==
  LET nq == NonQueued(recs)
  IN  /\ Len(nq) = Len(src)
      /\ \A i \in 1..Len(nq) :
           /\ nq[i].clocks = src[i].mtime
           /\ ActiveSet(nq[i].clocks) = DRange(src[i].active)
(* flags travel with it (reported as drift, the property speaks of ticks / states) *)
FlagsFaithful(recs, src) ==
  LET nq == NonQueued(recs)
  IN  Len(nq) = Len(src) =>
        \A i \in 1..Len(nq) :
           /\ nq[i].check = src[i].check /\ nq[i].auto = src[i].auto /\ nq[i].acc = src[i].acc
           /\ nq[i].type = src[i].type /\ DRange(nq[i].called) = DRange(src[i].called)
(* a queued record repeats the clocks of the last transition record before it *)
QueuedCarriesLast(recs) ==
  \A i \in 1..Len(recs) :
     recs[i].queued =>
        LET P == {j \in 1..(i - 1) : ~recs[j].queued}
        IN  P # {} => recs[i].clocks = recs[Max(P)].clocks

(* ----- LookupEqualsScan on logged look-up results ----- *)
LookupViol(qts, sums, hts, ids, errors, filtered, recs, lk, mono) ==
  LET qv == \A k \in 1..Len(lk.qtick) : lk.qtick[k][2] = ScanTxAtQueueTick(qts, lk.qtick[k][1])
      mv == \A k \in 1..Len(lk.mtime) : lk.mtime[k][2] = ScanTxAtMachTime(sums, lk.mtime[k][1])
      iv == \A k \in 1..Len(lk.txindex) :
               lk.txindex[k][2] = (IF lk.txindex[k][1] = -1 THEN -1
                                   ELSE ScanTxIndex(ids, lk.ids[lk.txindex[k][1] + 1]))
      hv == \A k \in 1..Len(lk.htime) : lk.htime[k][2] = ScanTxAtHTime(hts, lk.htime[k][1])
      ev == \A k \in 1..Len(lk.haderr) :
               (lk.haderr[k][3] = 1) = ScanHadErrSinceTx(errors, lk.haderr[k][1], lk.haderr[k][2])
      fv == \A k \in 1..Len(lk.fidx) : lk.fidx[k][2] = SpecFilterIndex(filtered, lk.fidx[k][1])
      xv == \A k \in 1..Len(lk.execby) : lk.execby[k][2] = ExecutedBy(recs, lk.execby[k][1])
  IN  UNION {
        B(~(mono.qt) \/ qv, "LookupEqualsScan.queuetick"),
        B(~(mono.sum) \/ mv, "LookupEqualsScan.machtime"),
        B(iv, "LookupEqualsScan.txid"),
        B(~(mono.ht) \/ hv, "LookupEqualsScan.htime"),
        B(~(mono.err) \/ ev, "LookupEqualsScan.haderr"),
        B(fv, "LookupEqualsScan.filterindex"),
        B(xv, "LookupEqualsScan.executedby")}
LookupDrift(qts, sums, hts, errors, lk) ==
  UNION {
    B(\A k \in 1..Len(lk.qtick) : lk.qtick[k][2] = CodeTxAtQueueTick(qts, lk.qtick[k][1]), "lookup.queuetick"),
    B(\A k \in 1..Len(lk.mtime) : lk.mtime[k][2] = CodeTxAtMachTime(sums, lk.mtime[k][1]), "lookup.machtime"),
    B(\A k \in 1..Len(lk.htime) : lk.htime[k][2] = CodeTxAtHTime(hts, lk.htime[k][1]), "lookup.htime"),
    B(\A k \in 1..Len(lk.haderr) :
        (lk.haderr[k][3] = 1) = CodeHadErrSinceTx(errors, lk.haderr[k][1], lk.haderr[k][2]), "lookup.haderr")}

Field(recs, f) == [i \in 1..Len(recs) |-> recs[i][f]]

(* ----- per event ----- *)
EvOpen(x) ==
  [d |-> {}, v |-> B(x.view.n = 0, "open.nonempty"),
   c |-> [NoCtx EXCEPT !.sch = Sch(x.sch), !.v = ViewOf(x.view)], k |-> "open"]

EvIngest(x) ==
  LET sch == ctx.sch
      diffs == DiffsOf(x.parsed)
      lv == ViewOf(x.view)
      sv == DoIngest(ctx.v, sch, x.recs, diffs, x.k)
      ing == Ingested(sch, x.recs)
      sp == [i \in 1..Len(ing.parsed) |->
               [added |-> ing.parsed[i].added, removed |-> ing.parsed[i].removed,
                touched |-> ing.parsed[i].touched, sum |-> ing.parsed[i].sum,
                diff |-> ing.parsed[i].diff]]
  IN  [d |-> UNION {B(SubSeq(x.recs, 1, Len(ctx.recs)) = ctx.recs, "ingest.prefix"),
                    B(Len(x.recs) = Len(ctx.recs) + x.k, "ingest.count"),
                    B(sp = x.parsed, "ingest.parsed"),
                    B(ing.errors = x.errors, "ingest.errors"),
                    B(sv.cursor = lv.cursor, "ingest.cursor"),
                    B(sv.filtered = lv.filtered, "ingest.filtered"),
                    B(sv.F = lv.F /\ sv.tail = lv.tail, "ingest.flags")},
       v |-> UNION {B(DerivedConsistent(sch, x.recs, x.parsed, x.errors), "DerivedConsistent"),
                    B(Selects("ingest", ctx.v, lv) => FilterSound(lv, sch, x.recs, diffs), "FilterSound"),
                    B(FilteredSoundPrefix(lv, sch, x.recs, diffs), "FilteredSound")},
       c |-> [ctx EXCEPT !.recs = x.recs, !.diffs = diffs, !.v = lv, !.last = [op |-> "none"]],
       k |-> "ingest"]

CmdEnabledT(c, w, n) ==
  CASE c.op = "fwd" -> FwdEnabled(w, n, c.k)
    [] c.op = "scrollid" -> TRUE
    [] c.op = "back" -> BackEnabled(w, n, c.k)
    [] c.op = "scroll" -> ScrollEnabled(w, n, c.k)
    [] OTHER -> TRUE
CmdApplyT(c, w, sch, recs, diffs) ==
  LET n == Len(recs)
  IN  CASE c.op = "fwd" -> DoFwd(w, n, c.k)
        [] c.op = "back" -> DoBack(w, n, c.k)
        [] c.op = "scroll" -> DoScroll(w, n, c.k)
        [] c.op = "tail" -> DoTail(w, n)
        [] c.op = "toggle" -> DoToggle(w, sch, recs, diffs, c.tool)

EvCmd(x) ==
  LET c == x.cmd
      sch == ctx.sch
      recs == ctx.recs
      diffs == ctx.diffs
      n == Len(recs)
      lv == ViewOf(x.view)
      byid == c.op = "scrollid"
      ids == Field(recs, "id")
      jump == IF byid THEN DoScrollId(ctx.v, n, ctx.txc, ids, c.id)
              ELSE [v |-> ctx.v, cache |-> ctx.txc, res |-> -1]
      \* the driver asks Client.TxIndex once more after the command (x.txidx)
      probe == IF byid THEN CodeTxIndex(jump.cache, ids, c.id) ELSE [res |-> -1, cache |-> ctx.txc]
      en == CmdEnabledT(c, ctx.v, n)
      sv == IF byid THEN jump.v ELSE IF en THEN CmdApplyT(c, ctx.v, sch, recs, diffs) ELSE ctx.v
      (* FwdBackIdentity on two consecutive logged commands *)
      fb == (ctx.last.op = "fwd" /\ c.op = "back" /\ c.k = ctx.last.k /\ ctx.last.shown
             /\ ctx.last.to # ctx.last.from /\ (c.k = 1 \/ ~CodeFiltersActive(ctx.v.F)))
               => lv.cursor = ctx.last.from
      last == IF c.op = "fwd"
              THEN [op |-> "fwd", k |-> c.k, from |-> ctx.v.cursor, to |-> lv.cursor,
                    shown |-> Shown(ctx.v, sch, recs, diffs)]
              ELSE [op |-> c.op]
  IN  [d |-> UNION {B(x.view.n = n, "cmd.count"),
                    B(sv.cursor = lv.cursor, "cmd.cursor." \o c.op),
                    B(sv.filtered = lv.filtered, "cmd.filtered." \o c.op),
                    B(sv.F = lv.F, "cmd.filters." \o c.op),
                    B(sv.tail = lv.tail, "cmd.tail." \o c.op),
                    B(~byid \/ x.txidx = probe.res, "cmd.txindex")},
       v |-> UNION {B(Selects(c.op, ctx.v, lv) => FilterSound(lv, sch, recs, diffs), "FilterSound"),
                    B(lv.cursor \in 0..n, "CursorRange"),
                    B(fb, "FwdBackIdentity"),
                    \* what the filtered view lists matches the filters: judged on all the records
                    \* right after a re-filter (a toggle that took effect: the filter states
                    \* changed), on the records up to the listed one at any time
                    B(IF c.op = "toggle" /\ lv.F # ctx.v.F THEN FilteredSound(lv, sch, recs, diffs)
                      ELSE FilteredSoundPrefix(lv, sch, recs, diffs), "FilteredSound"),
                    \* the look-up by transition id answers what a scan over the records held
                    \* NOW answers, and the jump shows that transition
                    B(~byid \/ x.txidx = ScanTxIndex(ids, c.id), "LookupEqualsScan.txid"),
                    B(~byid \/ ~x.ran \/ JumpLands(lv, ids, c.id), "LookupEqualsScan.txid")},
       c |-> [ctx EXCEPT !.v = lv, !.last = last, !.txc = probe.cache],
       k |-> IF ctx.last.op = "fwd" /\ c.op = "back" /\ ctx.last.to # ctx.last.from THEN "fwdback" ELSE "cmd"]

EvFinal(x) ==
  LET sch == Sch(x.sch)
      recs == x.recs
      sums == SumsOf(x.parsed)
      qts == Field(recs, "qt")
      hts == Field(recs, "ht")
      ids == Field(recs, "id")
      mono == [qt |-> TRUE, sum |-> TRUE, ht |-> TRUE, err |-> TRUE]
      real == x.via # "kinds"   \* synthetic record kinds have no source machine
  IN  [d |-> UNION {B(~real \/ FlagsFaithful(recs, x.src), "final.flags"),
                    B(~real \/ QueuedCarriesLast(recs), "final.queuedclocks"),
                    B(Monotone(qts), "final.queuetick.monotone"),
                    B(Monotone(sums) /\ TicksMonotone(recs), "final.time.monotone"),
                    B(NoDup(ids), "final.ids.unique"),
                    LookupDrift(qts, sums, hts, x.errors, x.lk)},
       v |-> UNION {B(~real \/ RecordFaithful(recs, x.src), "RecordFaithful"),
                    B(DerivedConsistent(sch, recs, x.parsed, x.errors), "DerivedConsistent"),
                    LookupViol(qts, sums, hts, ids, x.errors, x.filtered, recs, x.lk, mono)},
       c |-> ctx, k |-> "final"]

(* the imported client holds the same records and the same derived data;    *)
(* StatesTouched is compared as the set of STATES (the live path marks the    *)
(* global Any handlers with a -1 entry, the import path does not: counted by  *)
(* the check as an observation)                                               *)
NormParsed(ps) == [i \in 1..Len(ps) |-> [ps[i] EXCEPT !.touched = RealStates(ps[i].touched)]]
NoSteps(rs) == [i \in 1..Len(rs) |-> [rs[i] EXCEPT !.steps = <<>>]]
StepStates(rs) == [i \in 1..Len(rs) |-> SpecTouched(rs[i].steps)]
EvImport(x) ==
  [d |-> {},
   v |-> B(/\ NoSteps(x.a.recs) = NoSteps(x.b.recs) /\ StepStates(x.a.recs) = StepStates(x.b.recs)
           /\ NormParsed(x.a.parsed) = NormParsed(x.b.parsed)
           /\ x.a.errors = x.b.errors /\ x.a.index = x.b.index, "ExportImportIdentity"),
   c |-> ctx, k |-> "import"]

EvLookup(x) ==
  LET recs == x.recs
      qts == Field(recs, "qt")
      hts == Field(recs, "ht")
      ids == Field(recs, "id")
      mono == [qt |-> Monotone(qts), sum |-> Monotone(x.sums), ht |-> Monotone(hts),
               err |-> Descending(x.errors)]
  IN  [d |-> LookupDrift(qts, x.sums, hts, x.errors, x.lk),
       v |-> LookupViol(qts, x.sums, hts, ids, x.errors, x.filtered, recs, x.lk, mono),
       c |-> ctx,
       k |-> IF mono.qt /\ mono.sum /\ mono.ht /\ mono.err THEN "lookup" ELSE "lookup.nonmono"]

(* ----- a growing store at function level ----- *)
(* steps: <<0, n, 0>> grow to n records; <<1, key, res>> TxIndex(keys[key+1]);   *)
(* <<2, 0, 0>> ClearCache; <<3, q, res>> TxAtQueueTick(q); <<4, s, res>>          *)
(* TxAtMachTime(s)                                                               *)
LenAt(steps, j) == Max({0} \cup {steps[i][2] : i \in {k \in 1..(j - 1) : steps[k][1] = 0}})
RECURSIVE TxSeqDrift(_, _, _, _, _)
TxSeqDrift(x, j, cache, n, acc) ==
  IF j > Len(x.steps) THEN acc
  ELSE LET st == x.steps[j]
       IN  CASE st[1] = 0 -> TxSeqDrift(x, j + 1, cache, st[2], acc)
             [] st[1] = 2 -> TxSeqDrift(x, j + 1, {}, n, acc)
             [] st[1] = 1 ->
                  LET r == CodeTxIndex(cache, SubSeq(x.ids, 1, n), x.keys[st[2] + 1])
                  IN  TxSeqDrift(x, j + 1, r.cache, n, IF r.res = st[3] THEN acc ELSE acc \cup {j})
             [] OTHER -> TxSeqDrift(x, j + 1, cache, n, acc)
EvTxSeq(x) ==
  LET S == x.steps
      at(j) == LenAt(S, j)
      iv == \A j \in 1..Len(S) :
               S[j][1] = 1 => S[j][3] = ScanTxIndex(SubSeq(x.ids, 1, at(j)), x.keys[S[j][2] + 1])
      qv == \A j \in 1..Len(S) :
               S[j][1] = 3 => S[j][3] = ScanTxAtQueueTick(SubSeq(x.qts, 1, at(j)), S[j][2])
      mv == \A j \in 1..Len(S) :
               S[j][1] = 4 => S[j][3] = ScanTxAtMachTime(SubSeq(x.sums, 1, at(j)), S[j][2])
  IN  [d |-> UNION {B(TxSeqDrift(x, 1, {}, 0, {}) = {}, "txseq.txindex"),
                    B(NoDup(x.ids) /\ Monotone(x.qts) /\ Monotone(x.sums), "txseq.generator")},
       v |-> UNION {B(iv, "LookupEqualsScan.txid"),
                    B(qv, "LookupEqualsScan.queuetick"),
                    B(mv, "LookupEqualsScan.machtime")},
       c |-> ctx, k |-> "txseq"]

(* a handler of the debugger machine panicked (Exception) or its queue never  *)
(* came to rest during this command: nothing else on the line is meaningful   *)
EvBroken(x) == [d |-> {}, v |-> {"NoPanic"}, c |-> ctx, k |-> "broken"]

Eval(x) ==
  CASE x.ev \in {"ingest", "cmd"} /\ x.view.iserr -> EvBroken(x)
    [] x.ev = "open" -> EvOpen(x)
    [] x.ev = "ingest" -> EvIngest(x)
    [] x.ev = "cmd" -> EvCmd(x)
    [] x.ev = "final" -> EvFinal(x)
    [] x.ev = "import" -> EvImport(x)
    [] x.ev = "lookup" -> EvLookup(x)
    [] x.ev = "txseq" -> EvTxSeq(x)

Kinds == {"open", "ingest", "cmd", "fwdback", "final", "import", "lookup", "lookup.nonmono", "broken",
          "txseq"}

TraceInit ==
  /\ l = 1 /\ viol = {} /\ drift = {} /\ ctx = NoCtx
  /\ cnt = [k \in Kinds |-> 0]

Step ==
  /\ l <= Len(Trace)
  /\ LET r == Eval(Trace[l])
     IN  /\ viol' = viol \cup {<<l, f>> : f \in r.v}
         /\ drift' = drift \cup {<<l, f>> : f \in r.d}
         /\ ctx' = r.c
         /\ cnt' = [cnt EXCEPT ![r.k] = @ + 1]
  /\ l' = l + 1

Done ==
  /\ l = Len(Trace) + 1
  /\ PrintT(<<"RESULT", ToJson([lines |-> Len(Trace), cnt |-> cnt, viol |-> viol, drift |-> drift])>>)
  /\ l' = l + 1
  /\ UNCHANGED <<viol, drift, ctx, cnt>>

TraceNext == Step \/ Done

TraceSpec == TraceInit /\ [][TraceNext]_tvars

TraceView == <<l>>
=============================================================================
