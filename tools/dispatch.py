"""Maps a property id to the module that checks it.  A module exposes
check(tier) -> exit code and replay(path) -> exit code."""
import importlib

import seqcheck

SEQ = {"C01", "C02", "C03", "C05", "C07", "C14"}

# property id -> module name in tools/
MODULES = {
    "C04": "queuecheck", "C06": "subscheck", "C08": "faultcheck", "C09": "rpcsynccheck",
    "C10": "rpcdiffcheck", "C12": "racecheck", "C13": "disposecheck", "C15": "supervisorcheck",
    "C16": "debuggercheck", "C17": "historycheck", "C18": "pipescheck", "C19": "schemascheck",
    "C20": "apicheck",
}


def run(prop, tier, replay):
    if prop in SEQ or prop == "C11":
        if replay:
            return seqcheck.replay(prop, replay)
        if prop == "C11":
            return seqcheck.check_c11(tier)
        return seqcheck.check(prop, tier)
    if prop in MODULES:
        try:
            mod = importlib.import_module(MODULES[prop])
        except ModuleNotFoundError:
            print("check for %s is not built yet" % prop)
            return 2
        if replay:
            return mod.replay(replay)
        return mod.check(tier)
    print("unknown property", prop)
    return 2
