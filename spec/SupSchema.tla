----------------------------- MODULE SupSchema -----------------------------
(* GENERATED from the node schemas of the checked-out tree by                 *)
(* `amverif sup -schema` (tools/supervisorcheck.py: render_schema).  The      *)
(* check regenerates this module into TLC's scratch directory on every run,  *)
(* so the specification always follows the CURRENT pkg/node/states; the copy *)
(* in spec/ is the pinned tree's.  What a machine really uses: the schema    *)
(* after Schema.Parse, in state-index order.                                 *)
EXTENDS TLC

SupIndex == <<"Exception", "ErrWorker", "ErrPool", "LocalRpcReady", "PublicRpcReady", "Ready", "Heartbeat", "PoolStarting", "NormalizingPool", "PoolNormalized", "PoolReady", "WorkersAvailable", "ListWorkers", "SetWorker", "ForkWorker", "ForkingWorker", "WorkerConnected", "WorkerForked", "KillWorker", "KillingWorker", "WorkerKilled", "WorkerReady", "WorkerGone", "ClientConnected", "ClientDisconnected", "ProvideWorker", "WorkerIssues", "ClientSendPayload", "SuperConnected", "SuperDisconnected", "SuperSendPayload", "ErrNetwork", "ErrHandlerTimeout", "Start", "Healthcheck", "ErrOnClient">>

SupSchemaDef ==
  "Exception" :> [auto |-> FALSE, multi |-> TRUE, require |-> <<>>, add |-> <<>>, remove |-> <<>>, after |-> <<>>] @@
  "ErrWorker" :> [auto |-> FALSE, multi |-> FALSE, require |-> <<"Exception">>, add |-> <<"NormalizingPool", "Heartbeat">>, remove |-> <<>>, after |-> <<>>] @@
  "ErrPool" :> [auto |-> FALSE, multi |-> FALSE, require |-> <<"Exception">>, add |-> <<"NormalizingPool">>, remove |-> <<"PoolNormalized">>, after |-> <<>>] @@
  "LocalRpcReady" :> [auto |-> FALSE, multi |-> FALSE, require |-> <<"Start">>, add |-> <<>>, remove |-> <<>>, after |-> <<>>] @@
  "PublicRpcReady" :> [auto |-> FALSE, multi |-> FALSE, require |-> <<"Start">>, add |-> <<>>, remove |-> <<>>, after |-> <<>>] @@
  "Ready" :> [auto |-> FALSE, multi |-> FALSE, require |-> <<"LocalRpcReady", "PublicRpcReady", "PoolReady">>, add |-> <<>>, remove |-> <<>>, after |-> <<>>] @@
  "Heartbeat" :> [auto |-> FALSE, multi |-> FALSE, require |-> <<"Start">>, add |-> <<>>, remove |-> <<>>, after |-> <<>>] @@
  "PoolStarting" :> [auto |-> FALSE, multi |-> FALSE, require |-> <<>>, add |-> <<"NormalizingPool">>, remove |-> <<"PoolReady">>, after |-> <<>>] @@
  "NormalizingPool" :> [auto |-> FALSE, multi |-> FALSE, require |-> <<"Start">>, add |-> <<>>, remove |-> <<"PoolNormalized">>, after |-> <<"ErrWorker">>] @@
  "PoolNormalized" :> [auto |-> FALSE, multi |-> FALSE, require |-> <<"Start">>, add |-> <<"Heartbeat">>, remove |-> <<"NormalizingPool">>, after |-> <<>>] @@
  "PoolReady" :> [auto |-> FALSE, multi |-> FALSE, require |-> <<"Start">>, add |-> <<"Heartbeat">>, remove |-> <<"PoolStarting">>, after |-> <<>>] @@
  "WorkersAvailable" :> [auto |-> FALSE, multi |-> FALSE, require |-> <<"PoolReady">>, add |-> <<>>, remove |-> <<>>, after |-> <<>>] @@
  "ListWorkers" :> [auto |-> FALSE, multi |-> TRUE, require |-> <<"Start">>, add |-> <<>>, remove |-> <<>>, after |-> <<>>] @@
  "SetWorker" :> [auto |-> FALSE, multi |-> TRUE, require |-> <<"Start">>, add |-> <<>>, remove |-> <<>>, after |-> <<>>] @@
  "ForkWorker" :> [auto |-> FALSE, multi |-> TRUE, require |-> <<"Start">>, add |-> <<>>, remove |-> <<>>, after |-> <<>>] @@
  "ForkingWorker" :> [auto |-> FALSE, multi |-> TRUE, require |-> <<"Start">>, add |-> <<>>, remove |-> <<>>, after |-> <<>>] @@
  "WorkerConnected" :> [auto |-> FALSE, multi |-> TRUE, require |-> <<"Start">>, add |-> <<>>, remove |-> <<>>, after |-> <<>>] @@
  "WorkerForked" :> [auto |-> FALSE, multi |-> TRUE, require |-> <<"Start">>, add |-> <<"Heartbeat">>, remove |-> <<>>, after |-> <<>>] @@
  "KillWorker" :> [auto |-> FALSE, multi |-> TRUE, require |-> <<>>, add |-> <<>>, remove |-> <<>>, after |-> <<>>] @@
  "KillingWorker" :> [auto |-> FALSE, multi |-> TRUE, require |-> <<>>, add |-> <<>>, remove |-> <<>>, after |-> <<>>] @@
  "WorkerKilled" :> [auto |-> FALSE, multi |-> TRUE, require |-> <<>>, add |-> <<"NormalizingPool", "Heartbeat">>, remove |-> <<>>, after |-> <<>>] @@
  "WorkerReady" :> [auto |-> FALSE, multi |-> TRUE, require |-> <<"Start">>, add |-> <<"PoolReady">>, remove |-> <<>>, after |-> <<>>] @@
  "WorkerGone" :> [auto |-> FALSE, multi |-> TRUE, require |-> <<"Start">>, add |-> <<>>, remove |-> <<"PoolReady">>, after |-> <<>>] @@
  "ClientConnected" :> [auto |-> FALSE, multi |-> TRUE, require |-> <<>>, add |-> <<>>, remove |-> <<>>, after |-> <<>>] @@
  "ClientDisconnected" :> [auto |-> FALSE, multi |-> TRUE, require |-> <<>>, add |-> <<>>, remove |-> <<>>, after |-> <<>>] @@
  "ProvideWorker" :> [auto |-> FALSE, multi |-> TRUE, require |-> <<"WorkersAvailable">>, add |-> <<>>, remove |-> <<>>, after |-> <<>>] @@
  "WorkerIssues" :> [auto |-> FALSE, multi |-> TRUE, require |-> <<>>, add |-> <<>>, remove |-> <<>>, after |-> <<>>] @@
  "ClientSendPayload" :> [auto |-> FALSE, multi |-> TRUE, require |-> <<>>, add |-> <<>>, remove |-> <<>>, after |-> <<>>] @@
  "SuperConnected" :> [auto |-> FALSE, multi |-> TRUE, require |-> <<>>, add |-> <<>>, remove |-> <<>>, after |-> <<>>] @@
  "SuperDisconnected" :> [auto |-> FALSE, multi |-> TRUE, require |-> <<>>, add |-> <<>>, remove |-> <<>>, after |-> <<>>] @@
  "SuperSendPayload" :> [auto |-> FALSE, multi |-> TRUE, require |-> <<>>, add |-> <<>>, remove |-> <<>>, after |-> <<>>] @@
  "ErrNetwork" :> [auto |-> FALSE, multi |-> TRUE, require |-> <<"Exception">>, add |-> <<"Exception">>, remove |-> <<>>, after |-> <<>>] @@
  "ErrHandlerTimeout" :> [auto |-> FALSE, multi |-> TRUE, require |-> <<"Exception">>, add |-> <<"Exception">>, remove |-> <<>>, after |-> <<>>] @@
  "Start" :> [auto |-> FALSE, multi |-> FALSE, require |-> <<>>, add |-> <<"PoolStarting">>, remove |-> <<>>, after |-> <<>>] @@
  "Healthcheck" :> [auto |-> FALSE, multi |-> TRUE, require |-> <<>>, add |-> <<>>, remove |-> <<>>, after |-> <<>>] @@
  "ErrOnClient" :> [auto |-> FALSE, multi |-> FALSE, require |-> <<"Exception">>, add |-> <<>>, remove |-> <<>>, after |-> <<>>]

(* negotiation / final handlers the Supervisor struct binds (reflection)      *)
SupNeg == {<<"enter", "ClientDisconnected">>, <<"enter", "ForkWorker">>, <<"enter", "ForkingWorker">>, <<"enter", "KillingWorker">>, <<"enter", "ListWorkers">>, <<"enter", "PoolReady">>, <<"exit", "PoolReady">>, <<"enter", "ProvideWorker">>, <<"enter", "SetWorker">>, <<"enter", "Start">>, <<"enter", "WorkerConnected">>, <<"enter", "WorkerForked">>, <<"enter", "WorkerKilled">>}
SupFin == {<<"state", "ClientConnected">>, <<"state", "ClientDisconnected">>, <<"state", "ErrWorker">>, <<"state", "Exception">>, <<"state", "ForkWorker">>, <<"state", "ForkingWorker">>, <<"state", "Heartbeat">>, <<"state", "KillingWorker">>, <<"state", "ListWorkers">>, <<"state", "NormalizingPool">>, <<"state", "ProvideWorker">>, <<"state", "SetWorker">>, <<"end", "Start">>, <<"state", "Start">>, <<"state", "WorkerConnected">>, <<"state", "WorkerForked">>, <<"state", "WorkerKilled">>, <<"state", "WorkerReady">>, <<"state", "WorkerGone">>, <<"state", "KillWorker">>, <<"state", "Healthcheck">>}

GroupPoolStatus == {"PoolStarting", "PoolReady"}
GroupPoolNormalized == {"PoolNormalized", "NormalizingPool"}
GroupWorkStatus == {"WorkRequested", "Working", "WorkReady", "Idle"}
=============================================================================
