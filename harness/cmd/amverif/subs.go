package main

import (
	"bufio"
	"encoding/json"
	"flag"
	"fmt"
	"math/rand"
	"os"
	"sync"
	"time"

	"verifharness/subsdrv"
)

func init() { commands["subs"] = cmdSubs }

func cmdSubs(args []string) int {
	fs := flag.NewFlagSet("subs", flag.ExitOnError)
	n := fs.Int("n", 100, "scenarios")
	ops := fs.Int("ops", 10, "ops per scenario")
	seed := fs.Int64("seed", 1, "seed")
	out := fs.String("out", "subs", "output prefix")
	shards := fs.Int("shards", 16, "shards")
	in := fs.String("in", "", "JSON file with scenarios to run instead of random ones")
	schema := fs.Bool("setschema", true, "include SetSchema steps")
	fs.Parse(args)
	var scs []subsdrv.Scenario
	if *in != "" {
		data, err := os.ReadFile(*in)
		if err != nil {
			fmt.Fprintln(os.Stderr, err)
			return 2
		}
		if err := json.Unmarshal(data, &scs); err != nil {
			fmt.Fprintln(os.Stderr, err)
			return 2
		}
	} else {
		r := rand.New(rand.NewSource(*seed))
		for i := 0; i < *n; i++ {
			// every fifth scenario: waits that share one context
			subsdrv.SharedCtx = i%5 == 2
			scs = append(scs, subsdrv.RandScenario(r, *ops, *schema && i%3 == 0, i%4 == 0))
			subsdrv.SharedCtx = false
		}
	}
	res := make([][]any, len(scs))
	var wg sync.WaitGroup
	sem := make(chan struct{}, 16)
	for i := range scs {
		wg.Add(1)
		sem <- struct{}{}
		go func(i int) {
			defer wg.Done()
			defer func() { <-sem }()
			res[i] = subsdrv.RunWatched(scs[i], 90*time.Second)
		}(i)
	}
	wg.Wait()
	total := 0
	var ws []*bufio.Writer
	var fhs []*os.File
	for k := 0; k < *shards; k++ {
		f, _ := os.Create(fmt.Sprintf("%s.%d.ndjson", *out, k))
		fhs = append(fhs, f)
		ws = append(ws, bufio.NewWriterSize(f, 1<<20))
	}
	for i, ls := range res {
		enc := json.NewEncoder(ws[i%*shards])
		sj, _ := json.Marshal(scs[i])
		enc.Encode(map[string]any{"ev": "scenario", "scenario": json.RawMessage(sj)})
		total++
		for _, l := range ls {
			enc.Encode(l)
			total++
		}
	}
	for k := range ws {
		ws[k].Flush()
		fhs[k].Close()
	}
	fmt.Printf("{\"scenarios\":%d,\"lines\":%d}\n", len(scs), total)
	return 0
}
