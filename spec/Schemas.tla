------------------------------ MODULE Schemas ------------------------------
(* Property C19: the state schemas the repository ships.                      *)
(*                                                                            *)
(* Part 1 -- static formulas over ONE dump record `d` (what the generated     *)
(* dump program evaluated in the current tree):                               *)
(*   d.raw        the exported variable as it is (after Merge / Extend)       *)
(*   d.parsed     Schema.Parse() of it,   d.parse_err  its error text         *)
(*   d.names      Names() of the typed ...States value (d.has_names)          *)
(*   d.verify_err what Machine.VerifyStates(names) (NewCommon) answered       *)
(*   d.predefined the state names pkg/machine itself predefines               *)
(*   d.sch, d.idx the schema / index of the machine am.New built              *)
(*   d.groups     the declared ...Groups value                                *)
(*                                                                            *)
(* Part 2 -- the reachability graph of one schema: from the empty machine,    *)
(* Add1(s) / Remove1(s) run to quiescence (the mutation's transition and the  *)
(* auto mutation that follows it; handlers unbound), as a pure function built *)
(* from Transition!RunTx, and the two state formulas RequireClosed and        *)
(* GroupExclusive.                                                            *)
EXTENDS Transition, TLC

CONSTANTS Transitive, TopoSort, ExitFix, OrderedAuto, OrderedTopo

Fx == [transitive |-> Transitive, toposort |-> TopoSort, exitfix |-> ExitFix,
       selffix |-> ExitFix]   \* both repairs of auto partial acceptance (fix: C07)

NoHandlers == [on |-> FALSE, binds |-> <<>>]

RelNames == {"require", "add", "remove", "after"}

---------------------------------------------------------------------------
(* Part 1: static well-formedness                                             *)

(* every reference of a schema as <<owner, relation, target>>                 *)
RefsOf(s) ==
  UNION {UNION {{<<n, r, x>> : x \in SSet(Rel(s, n, r))} : r \in RelNames} : n \in DOMAIN s}

(* References point at states the schema defines.  Weaker reading (mixins):   *)
(* pkg/states documents ConnectedSchema / DisposedSchema ... as fragments     *)
(* with "Required states: Start", to be merged into a schema that has the     *)
(* predefined states of pkg/machine (Exception, Start, Ready, ...); a         *)
(* reference to one of THOSE names is not a typo and is accepted.             *)
UndefinedRefs(d) ==
  {x \in RefsOf(d.raw) : x[3] \notin DOMAIN d.raw /\ x[3] \notin SSet(d.predefined)}

(* ... and Schema.Parse did not silently drop a reference because its target  *)
(* is unknown (Parse legitimately drops a self Remove / self After and a      *)
(* Remove that is also in Add).                                               *)
DroppedRefs(d) ==
  {x \in RefsOf(d.raw) \ RefsOf(d.parsed) :
     x[3] \notin DOMAIN d.raw /\ x[3] \notin SSet(d.predefined)}

RefsDefined(d) == UndefinedRefs(d) = {} /\ DroppedRefs(d) = {}

ParsesClean(d) == d.parse_err = "" /\ d.mach_err = ""

(* A Require target that is not defined (a typo) is a vertex of the           *)
(* resolver's Require graph all the same (relations.go: g.AddEdge(name, req)) *)
(* -- a plain state as far as the topology goes.                              *)
PlainState == [auto |-> FALSE, multi |-> FALSE, require |-> <<>>, add |-> <<>>,
               remove |-> <<>>, after |-> <<>>]

TotalReq(s) ==
  LET extra == (UNION {SSet(s[n].require) : n \in DOMAIN s}) \ DOMAIN s
  IN [n \in DOMAIN s \cup extra |-> IF n \in DOMAIN s THEN s[n] ELSE PlainState]

(* Require cycle, on the schema the machine runs (the dump adds the           *)
(* predefined states a fragment refers to).                                   *)
NoRequireCycle(d) == ~HasRequireCycle(TotalReq(d.sch), d.idx)

(* Require-Remove conflict as Schema.Parse defines it (mach_utils.go): a     *)
(* state Requires a state that is (still, after the Add/self clean-up) in    *)
(* its own Remove.  Evaluated by the specification's Parse on the raw value; *)
(* the code's own verdict is d.parse_err (ParsesClean).                      *)
RequireRemoveConflicts(d) ==
  {n \in DOMAIN d.raw : ParseState(DOMAIN d.raw, n, d.raw[n]).conflict}

NoRequireRemoveConflict(d) == RequireRemoveConflicts(d) = {}

(* the name list and the schema describe the same states (Exception is in     *)
(* every typed list via am.StatesBase and in every machine), the list has no  *)
(* duplicates, and VerifyStates -- what NewCommon runs -- accepted it.  The    *)
(* list is Names() of the typed ...States value or, for the older convention  *)
(* `var States = am.Schema{..}; var Names = S{..}`, that plain list (it is    *)
(* what the owning example hands to VerifyStates).                            *)
NamesAgree(d) ==
  d.has_names =>
    /\ SSet(d.names) \cup {"Exception"} = DOMAIN d.raw \cup {"Exception"}
    /\ SIsUniq(d.names)
    /\ d.verify_err = ""

(* conformance of the specification's Schema.Parse to the code's              *)
ParseConforms(d) ==
  \A n \in DOMAIN d.raw : ParseState(DOMAIN d.raw, n, d.raw[n]).st = d.parsed[n]

StaticVerdict(d) ==
  [parses    |-> ParsesClean(d),
   refs      |-> RefsDefined(d),
   reqcycle  |-> NoRequireCycle(d),
   reqremove |-> NoRequireRemoveConflict(d),
   names     |-> NamesAgree(d)]

---------------------------------------------------------------------------
(* Part 1b: the BUILDERS the shipped schemas are assembled with               *)
(* (mach_utils.go State.Extend = StateAdd, State.Set / SetRels = StateSet,    *)
(* Schema.Merge / SchemaMerge).  A state is                                   *)
(*   [auto, multi, require, add, remove, after], a relation [nil, v]          *)
(* (nil = the Go slice is nil: "not mentioned").                              *)
BRels == {"require", "add", "remove", "after"}
BRel(st, r) == CASE r = "require" -> st.require [] r = "add" -> st.add
                 [] r = "remove" -> st.remove [] r = "after" -> st.after

(* Extend: the overlay's relations are ADDED to the source's (SAdd: unique,   *)
(* source order first), only TRUE flags are applied                           *)
ExtendRel(src, ov) ==
  IF ov.nil THEN src ELSE [nil |-> FALSE, v |-> SUniq(src.v \o ov.v)]
ExtendSpec(src, ov) ==
  [auto |-> src.auto \/ ov.auto, multi |-> src.multi \/ ov.multi,
   require |-> ExtendRel(src.require, ov.require), add |-> ExtendRel(src.add, ov.add),
   remove |-> ExtendRel(src.remove, ov.remove), after |-> ExtendRel(src.after, ov.after)]

(* Set: a relation the overlay mentions REPLACES the source's, the rest is    *)
(* preserved; the flags are the arguments                                     *)
SetRel(src, ov) == IF ov.nil THEN src ELSE ov
SetSpec(src, auto, multi, ov) ==
  [auto |-> auto, multi |-> multi,
   require |-> SetRel(src.require, ov.require), add |-> SetRel(src.add, ov.add),
   remove |-> SetRel(src.remove, ov.remove), after |-> SetRel(src.after, ov.after)]

(* Merge: state-level override, the last schema that defines a name wins      *)
RECURSIVE MergeSpec(_)
MergeSpec(ins) ==
  IF Len(ins) = 1 THEN ins[1]
  ELSE LET a == MergeSpec(SubSeq(ins, 1, Len(ins) - 1))
           b == ins[Len(ins)]
       IN [n \in DOMAIN a \cup DOMAIN b |-> IF n \in DOMAIN b THEN b[n] ELSE a[n]]

(* the list builders relation lists are written with: SAdd(l1, ..., ln) and    *)
(* recv.Add(l1, ..., ln) are the union of their operands, in order, without   *)
(* duplicates (recv.Add() with nothing to add is recv itself)                 *)
RECURSIVE ConcatAll(_)
ConcatAll(ls) == IF ls = <<>> THEN <<>> ELSE ls[1].v \o ConcatAll(Tail(ls))
SAddSpec(ls) == SUniq(ConcatAll(ls))
SAddRecvSpec(recv, ls) == IF ls = <<>> THEN recv.v ELSE SUniq(recv.v \o ConcatAll(ls))

(* what the PROPERTY needs of a built state: its relation targets and flags   *)
(* (order and nil-ness are conformance detail)                                *)
SameMeaning(x, y) ==
  /\ x.auto = y.auto /\ x.multi = y.multi
  /\ \A r \in BRels : SSet(BRel(x, r).v) = SSet(BRel(y, r).v)
SameExactly(x, y) ==
  /\ x.auto = y.auto /\ x.multi = y.multi
  /\ \A r \in BRels : BRel(x, r).v = BRel(y, r).v

---------------------------------------------------------------------------
(* Part 2: groups                                                             *)

Mutual(s, a, b) == a # b /\ SHas(s[a].remove, b) /\ SHas(s[b].remove, a)

MutualNbrs(s, a) == {b \in DOMAIN s : Mutual(s, a, b)}

(* maximal cliques of the mutual-Remove graph (Bron-Kerbosch)                 *)
RECURSIVE BK(_, _, _, _)
BK(s, R, P, X) ==
  IF P = {} THEN (IF X = {} THEN {R} ELSE {})
  ELSE LET v == CHOOSE w \in P : TRUE
           N == MutualNbrs(s, v)
       IN BK(s, R \cup {v}, P \cap N, X \cap N) \cup BK(s, R, P \ {v}, X \cup {v})

MaxCliques(s) ==
  LET nodes == {a \in DOMAIN s : MutualNbrs(s, a) # {}}
  IN {G \in BK(s, {}, nodes, {}) : Cardinality(G) >= 2}

(* a declared group (a field of ...Groups) is meant to be exclusive when its  *)
(* members Remove one another.  The INTENT has to survive the edits this      *)
(* property is about (a member that loses a Remove, an inherited state whose  *)
(* relations were mis-merged), so a declared group is under test when         *)
(*  (a) every two members are related by Remove in at least one direction, or *)
(*  (b) at least two members, and at least half of them, Remove every other   *)
(*      member ("Remove: group" written on each member, some of them edited). *)
(* Plain lists such as the debugger's "Mcp" satisfy neither.  (Inheriting the *)
(* intent by member NAMES from another schema was tried and is unsound: the   *)
(* REPL schema takes Connecting / Connected from the connection-POOL schema,  *)
(* where they coexist by design.  Mis-merged inherited states are caught by   *)
(* the builder conformance of Part 1b instead.)                               *)
PairwiseRemoving(s, G) ==
  /\ Cardinality(G) >= 2
  /\ G \subseteq DOMAIN s
  /\ \A a, b \in G : a # b => SHas(s[a].remove, b) \/ SHas(s[b].remove, a)

MajorityRemoveAll(s, G) ==
  /\ Cardinality(G) >= 2
  /\ G \subseteq DOMAIN s
  /\ LET full == {a \in G : (G \ {a}) \subseteq SSet(s[a].remove)}
     IN Cardinality(full) >= 2 /\ 2 * Cardinality(full) >= Cardinality(G)

DeclaredExclusive(s, groups) ==
  {SSet(groups[i].members) : i \in {k \in 1..Len(groups) :
      LET G == SSet(groups[k].members) IN
      \/ PairwiseRemoving(s, G)
      \/ MajorityRemoveAll(s, G)}}

ExclusiveGroups(s, groups) == MaxCliques(s) \cup DeclaredExclusive(s, groups)

(* the two state formulas; `act` is a SET of state names, `req` the Require    *)
(* relation as sets (ReqMap, computed once per schema)                        *)
ReqMap(s) == [n \in DOMAIN s |-> SSet(s[n].require)]

RequireClosedSet(req, act) == \A n \in act : req[n] \subseteq act

BrokenGroups(G, act) == {g \in G : Cardinality(g \cap act) >= 2}

GroupExclusiveSet(G, act) == BrokenGroups(G, act) = {}

---------------------------------------------------------------------------
(* Part 2: one mutation run to quiescence                                     *)

TopoOf(s, i) == TopoIndexOrder(TotalReq(s), i)

InOrder(i, S) == SelectSeq(i, LAMBDA n : n \in S)

AutoOrdersOf(i, S) == IF OrderedAuto THEN {InOrder(i, S)} ELSE SPerms(S)

(* The machine is idle, its active states are `act` (a sequence); the caller  *)
(* runs Add1(s) / Remove1(s): queueMutation + processQueue drain the          *)
(* mutation and then the auto mutation the resolver prepends (an auto         *)
(* mutation is never followed by another one).  Activity is all the resolver  *)
(* looks at, so the clock is taken as 1 / 0.                                  *)
QuiesceSet(s, i, t, act, type, st) ==
  LET clk == [n \in SSet(i) |-> IF SHas(act, n) THEN 1 ELSE 0]
      r1 == RunTx(Fx, s, i, t, NoHandlers, [active |-> act, clock |-> clk],
                  [type |-> type, called |-> <<st>>, auto |-> FALSE, check |-> FALSE], {})
  IN IF r1.autoSet = {} THEN {r1.active}
     ELSE {RunTx(Fx, s, i, t, NoHandlers, [active |-> r1.active, clock |-> r1.clock],
                 [type |-> "add", called |-> o, auto |-> TRUE, check |-> FALSE], {}).active
           : o \in AutoOrdersOf(i, r1.autoSet)}

(* 1-based positions in the index, the compact form of the edge log           *)
PosSet(i, S) == {p \in 1..Len(i) : i[p] \in S}
NamesAt(i, P) == {i[p] : p \in P}
=============================================================================
