---------------------------- MODULE TraceDispose ----------------------------
(* Validation of disposal scenarios recorded from the REAL machine            *)
(* (harness/dispdrv): the dd.* stage events of every goroutine that ran       *)
(* doDispose must be a behaviour of Dispose.tla (drift), and the C13          *)
(* formulas are evaluated on the logged end state (viol).                     *)
EXTENDS Dispose, Json

CONSTANT TraceFile
Trace == ndJsonDeserialize(TraceFile)

VARIABLES l, viol, drift, nsc, sc
tvars == <<vars, l, viol, drift, nsc, sc>>
Line == Trace[l]
SetOf(s) == {s[i] : i \in 1..Len(s)}

TraceInit == Init /\ l = 1 /\ viol = {} /\ drift = {} /\ nsc = 0 /\ sc = [how |-> "none"]

EvInit ==
  /\ Line.ev = "dinit"
  /\ pc' = [a \in Attempts |-> "none"]
  /\ disposing' = FALSE /\ disposed' = FALSE /\ subsClosed' = FALSE
  /\ dhRuns' = 0 /\ ctxCancelled' = FALSE /\ whenDisposed' = FALSE
  /\ qpc' = "none" /\ wIndexed' = Waiters /\ wHeld' = {} /\ wClosed' = {}
  /\ sc' = Line.scenario /\ nsc' = nsc + 1
  /\ UNCHANGED <<viol, drift>>

EvStage ==
  /\ Line.ev = "stage"
  /\ LET a == Line.g
         M == a \in Attempts /\ Step(a) /\ pc'[a] = Line.point
     IN \/ (M /\ drift' = drift /\ l' = l + 1)
        \/ /\ ~ENABLED M
           \* a goroutine that bails out logs nothing more: let it bail, then retry
           /\ IF a \in Attempts /\ ENABLED (Step(a) /\ pc'[a] = "bailed")
              THEN Step(a) /\ pc'[a] = "bailed" /\ drift' = drift /\ l' = l
              ELSE /\ drift' = drift \cup {<<l, "stage:" \o Line.point>>}
                   /\ UNCHANGED vars /\ l' = l + 1
  /\ UNCHANGED <<viol, nsc, sc>>

(* the queue goroutine reached a point of processSubscriptions                *)
EvQ ==
  /\ Line.ev = "q"
  /\ LET M == QStep /\ qpc' = Line.point
     IN \/ (M /\ drift' = drift)
        \/ (~ENABLED M /\ drift' = drift \cup {<<l, "q:" \o Line.point>>} /\ UNCHANGED vars)
  /\ UNCHANGED <<viol, nsc, sc>>

Forceful == sc.how \in {"force", "disposeThenForce"}

EvEnd ==
  /\ Line.ev = "dend"
  /\ LET x == Line
         v == UNION {
           IF x.completed THEN {} ELSE {<<l, "not-completed">>},
           IF ~x.completed \/ x.open = <<>> THEN {} ELSE {<<l, "waiter-open">>},
           \* CollectedWaitersReleased on the logged values: the waiters matched by
           \* the in-flight transition (out of the indexes when the disposal landed)
           IF ~x.completed \/ ~QueueQuiet \/ x.openMatched = <<>> THEN {}
           ELSE {<<l, "collected-waiter-open">>},
           IF ~x.completed \/ x.ctxAlive = <<>> THEN {} ELSE {<<l, "statectx-alive">>},
           IF ~x.completed \/ ~x.machCtxAlive THEN {} ELSE {<<l, "machine-ctx-alive">>},
           IF ~x.completed \/ \A i \in 1..Len(x.disposeRuns) : x.disposeRuns[i] = 1
           THEN {} ELSE {<<l, "dispose-handlers-not-once">>},
           IF ~x.completed \/ x.loopExits = x.loopExpected THEN {} ELSE {<<l, "handler-loop-alive">>},
           \* DisposeForce is documented to cause panics in concurrent callers
           IF x.callerPanic = "" \/ Forceful THEN {} ELSE {<<l, "caller-panic">>},
           IF ~x.callerBlocked THEN {} ELSE {<<l, "caller-blocked">>},
           {<<l, "post-" \o x.post[i].outcome \o ":" \o x.post[i].fn>> :
               i \in {k \in 1..Len(x.post) : x.post[k].outcome # "ok"}},
           {<<l, "post-not-neutral:" \o x.post[i].fn>> :
               i \in {k \in 1..Len(x.post) : x.post[k].outcome = "ok" /\ ~x.post[k].neutral}}}
         d == UNION {
           IF x.completed = whenDisposed THEN {} ELSE {<<l, "whenDisposed">>},
           IF ~x.completed \/ (subsClosed /\ ctxCancelled /\ dhRuns = 1) THEN {} ELSE {<<l, "end-state">>},
           IF ~x.completed \/ ~QueueQuiet \/ ((x.openMatched = <<>>) = (Matched \subseteq wClosed)) THEN {}
           ELSE {<<l, "matched-waiters">>}}
     IN viol' = viol \cup v /\ drift' = drift \cup d
  /\ UNCHANGED <<vars, nsc, sc>>

Done ==
  /\ l = Len(Trace) + 1
  /\ PrintT(<<"RESULT", ToJson([lines |-> Len(Trace), ntx |-> nsc, viol |-> viol, drift |-> drift])>>)
  /\ UNCHANGED <<vars, viol, drift, nsc, sc>>

TraceNext ==
  \/ (l <= Len(Trace) /\ EvInit /\ l' = l + 1)
  \/ (l <= Len(Trace) /\ EvStage)
  \/ (l <= Len(Trace) /\ EvEnd /\ l' = l + 1)
  \/ (l <= Len(Trace) /\ EvQ /\ l' = l + 1)
  \/ (Done /\ l' = l + 1)

TraceSpec == TraceInit /\ [][TraceNext]_tvars
TraceView == <<l, pc, qpc>>
=============================================================================
