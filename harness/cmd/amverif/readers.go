package main

import (
	"bufio"
	"encoding/json"
	"flag"
	"fmt"
	"math/rand"
	"os"
	"sync"

	"verifharness/gen"
	"verifharness/readdrv"
)

func init() { commands["readers"] = cmdReaders }

func cmdReaders(args []string) int {
	fs := flag.NewFlagSet("readers", flag.ExitOnError)
	n := fs.Int("n", 100, "cases")
	calls := fs.Int("calls", 8, "calls per case")
	seed := fs.Int64("seed", 1, "seed")
	out := fs.String("out", "readers", "output prefix")
	shards := fs.Int("shards", 16, "shards")
	fs.Parse(args)
	r := rand.New(rand.NewSource(*seed))
	var cases []*gen.Case
	for i := 0; i < *n; i++ {
		c := &gen.Case{}
		ns := 3 + r.Intn(3)
		c.Names, c.Schema = gen.RandSchema(r, ns, 0.15+0.2*r.Float64(), true, false)
		c.Label = fmt.Sprintf("rd#%d", i)
		c.Calls = gen.RandCalls(r, c, *calls, 0, 1)
		cases = append(cases, c)
	}
	res := make([][]any, len(cases))
	var wg sync.WaitGroup
	sem := make(chan struct{}, 8)
	for i, c := range cases {
		wg.Add(1)
		sem <- struct{}{}
		go func(i int, c *gen.Case) {
			defer wg.Done()
			defer func() { <-sem }()
			res[i] = readdrv.Run(c, rand.New(rand.NewSource(*seed*7919+int64(i))))
		}(i, c)
	}
	wg.Wait()
	total := 0
	var ws []*bufio.Writer
	var fhs []*os.File
	for k := 0; k < *shards; k++ {
		f, _ := os.Create(fmt.Sprintf("%s.%d.ndjson", *out, k))
		fhs = append(fhs, f)
		ws = append(ws, bufio.NewWriterSize(f, 1<<20))
	}
	for i, ls := range res {
		enc := json.NewEncoder(ws[i%*shards])
		for _, l := range ls {
			enc.Encode(l)
			total++
		}
	}
	for k := range ws {
		ws[k].Flush()
		fhs[k].Close()
	}
	fmt.Printf("{\"cases\":%d,\"lines\":%d}\n", len(cases), total)
	return 0
}
