package apidrv

import (
	"context"

	amhelp "github.com/pancsta/asyncmachine-go/pkg/helpers"
	am "github.com/pancsta/asyncmachine-go/pkg/machine"
)

// Generic functions cannot be listed by apigen without type arguments; the
// sweep calls these instantiations.  A generic function that appears in
// GenericFuncs without an entry here is reported as skipped (so additions
// are visible in the evidence).
type genericFn struct {
	fn     any
	params []string
}

type sweepGroups struct {
	Main am.S
}

type sweepStatesDef struct {
	*am.StatesBase
	A string
	B string
}

var genericInst = map[string]genericFn{
	"machine.AMerge":         {am.AMerge[string, int], []string{"maps"}},
	"machine.ParseArgs":      {am.ParseArgs[am.ACheck], []string{"args"}},
	"machine.ParseArgsCheck": {am.ParseArgsCheck[am.ACheck], []string{"args"}},
	"machine.NewStates": {func() sweepStatesDef { return am.NewStates(sweepStatesDef{}) },
		[]string{}},
	"machine.NewStateGroups": {func(mixins ...any) sweepGroups {
		return am.NewStateGroups(sweepGroups{Main: am.S{"A"}}, mixins...)
	}, []string{"mixins"}},
	"helpers.ArgsUnmarshal": {func(args am.A) am.A { return amhelp.ArgsUnmarshal(args, am.ACheck{}) },
		[]string{"args"}},
	"helpers.EvalGetter": {func(ctx context.Context, source string, maxTries int, mach *am.Machine,
		eval func() (int, error)) (int, error) {
		return amhelp.EvalGetter(ctx, source, maxTries, mach, eval)
	}, []string{"ctx", "source", "maxTries", "mach", "eval"}},
}
