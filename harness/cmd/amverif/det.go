package main

import (
	"bytes"
	"encoding/json"
	"flag"
	"fmt"
	"math/rand"
	"os"
	"sync"

	am "github.com/pancsta/asyncmachine-go/pkg/machine"

	"verifharness/gen"
	"verifharness/rec"
	"verifharness/seqdrv"
)

// detCases builds cases aimed at map-order dependence: several Auto states,
// mutually removing states, Add fans, several Require components.
func detCases(r *rand.Rand, n int, maxStates int) []*gen.Case {
	var cases []*gen.Case
	for i := 0; i < n; i++ {
		c := &gen.Case{}
		wide := i%6 == 5
		switch {
		case wide:
			// a WIDE machine: size-dependent code paths (set algebra over long lists)
			k := 9 + r.Intn(6)
			c.Names = am.S{}
			c.Schema = am.Schema{}
			for j := 0; j < k; j++ {
				nm := fmt.Sprintf("S%02d", j)
				c.Names = append(c.Names, nm)
				c.Schema[nm] = am.State{Multi: r.Intn(5) == 0}
			}
		}
		switch i % 4 {
		case 0: // k auto states, no relations
			if wide {
				break
			}
			k := 2 + r.Intn(3)
			c.Names = am.S{}
			c.Schema = am.Schema{}
			for j := 0; j < k; j++ {
				nm := string(rune('A' + j))
				c.Names = append(c.Names, nm)
				c.Schema[nm] = am.State{Auto: true}
			}
			c.Names = append(c.Names, "T")
			c.Schema["T"] = am.State{}
		case 1: // several Require components
			if wide {
				break
			}
			c.Names = am.S{"A", "B", "C", "D", "E", "F"}
			c.Schema = am.Schema{
				"A": {Require: am.S{"B"}}, "B": {},
				"C": {Require: am.S{"D"}}, "D": {},
				"E": {Require: am.S{"F"}}, "F": {},
			}
		default:
			if wide {
				break
			}
			ns := 3 + r.Intn(maxStates-2)
			c.Names, c.Schema = gen.RandSchema(r, ns, 0.15+0.25*r.Float64(), true, true)
		}
		c.Label = fmt.Sprintf("det#%d", i)
		index := gen.Index(c)
		c.On = r.Intn(3) > 0
		if c.On {
			c.Binds = []rec.Binding{gen.FullBinding(index)}
		}
		if wide {
			// Add all, Remove several, Add a few, Set a few, Remove most
			pick := func(n int) am.S {
				p := r.Perm(len(c.Names))
				out := am.S{}
				for _, x := range p[:n] {
					out = append(out, c.Names[x])
				}
				return out
			}
			mk := func(t string, called am.S) gen.Call {
				return gen.Call{Ev: "call", Type: t, Called: called, Veto: [][]any{}, Nest: []gen.NestAt{}}
			}
			c.Calls = []gen.Call{mk("add", append(am.S{}, c.Names...)), mk("remove", pick(2+r.Intn(4))),
				mk("add", pick(2+r.Intn(3))), mk("set", pick(1+r.Intn(3))), mk("add", pick(len(c.Names)-1)),
				mk("remove", pick(len(c.Names)-2))}
		} else {
			c.Calls = gen.RandCalls(r, c, 4, 0.3, 1)
		}
		cases = append(cases, c)
	}
	return cases
}

// cmdDet re-executes every case `reps` times on fresh machines and reports
// the cases whose recorded behaviour (results, times, handler sequence,
// active-state order) differs between executions.
func cmdDet(args []string) int {
	fs := flag.NewFlagSet("det", flag.ExitOnError)
	seed := fs.Int64("seed", 1, "seed")
	n := fs.Int("n", 100, "cases")
	reps := fs.Int("reps", 64, "re-executions per case")
	maxStates := fs.Int("maxstates", 6, "max user states")
	out := fs.String("out", "det", "output prefix")
	fs.Parse(args)
	r := rand.New(rand.NewSource(*seed))
	cases := detCases(r, *n, *maxStates)

	type diff struct {
		Case  string `json:"case"`
		Rep   int    `json:"rep"`
		Line  int    `json:"line"`
		A     any    `json:"a"`
		B     any    `json:"b"`
		Index am.S   `json:"index"`
		Schema any   `json:"schema"`
		Calls any    `json:"calls"`
	}
	var mu sync.Mutex
	var diffs []diff
	var wg sync.WaitGroup
	sem := make(chan struct{}, 16)
	total := 0
	ref := make([][]any, len(cases))
	for i, c := range cases {
		wg.Add(1)
		sem <- struct{}{}
		go func(i int, c *gen.Case) {
			defer wg.Done()
			defer func() { <-sem }()
			var first [][]byte
			for k := 0; k < *reps; k++ {
				lines, err := seqdrv.Run(c, seqdrv.Opts{Views: false})
				if err != nil {
					fmt.Fprintln(os.Stderr, err)
					os.Exit(2)
				}
				ser := make([][]byte, len(lines))
				for j, l := range lines {
					ser[j], _ = json.Marshal(l)
				}
				if k == 0 {
					first = ser
					ref[i] = lines
					continue
				}
				for j := 0; j < len(ser) || j < len(first); j++ {
					var a, b []byte
					if j < len(first) {
						a = first[j]
					}
					if j < len(ser) {
						b = ser[j]
					}
					if !bytes.Equal(a, b) {
						mu.Lock()
						diffs = append(diffs, diff{c.Label, k, j + 1, json.RawMessage(a), json.RawMessage(b),
							gen.Index(c), seqdrv.SchemaJ(c.Schema), c.Calls})
						mu.Unlock()
						return
					}
				}
			}
		}(i, c)
	}
	wg.Wait()
	total = len(cases) * *reps
	// reference traces (first execution of every case) for TLC validation
	f, _ := os.Create(*out + ".0.ndjson")
	enc := json.NewEncoder(f)
	for _, ls := range ref {
		for _, l := range ls {
			enc.Encode(l)
		}
	}
	f.Close()
	df, _ := os.Create(*out + ".diffs.json")
	json.NewEncoder(df).Encode(diffs)
	df.Close()
	fmt.Printf("{\"cases\":%d,\"executions\":%d,\"diffs\":%d}\n", len(cases), total, len(diffs))
	return 0
}

func init() { commands["det"] = cmdDet }
