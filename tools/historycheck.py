#!/usr/bin/env python3
"""C17 -- History is a faithful, bounded log; queries and Export/Import mean
what they say.

design half : TLC explores spec/MCHistory.tla (bounded model of the tracer's
              TransitionEnd, rotation / write-behind queue / GC, FindLatest,
              Export/Import) -- with the repaired flags the formulas of the
              property are invariants (else the run is inconclusive); with the
              as-is flags TLC must find the modelled defects (predictions).
binding half: harness/histdrv runs generated workloads on REAL memories
              (in-process, bbolt; thorough: + badger, gorm/sqlite, crash points
              after every Sync), scans the stores directly and issues generated
              queries; "restart" workloads go on across process restarts on
              the SAME store (stop after Sync, new machine + new memory, 2-4
              processes, each short or long enough to rotate); TLC
              (spec/TraceHistory.tla) evaluates
              (a) the property formulas on what the backend stored/returned
                  -> verdict (one violation per signature
                  {formula, backend, fn, cond})
              (b) the as-is model's own prediction against it -> SPEC-DRIFT
"""
import glob, json, os, shutil, sys, concurrent.futures as cf
from collections import Counter

sys.path.insert(0, os.path.dirname(os.path.abspath(__file__)))
import tlcrun
from common import *

PROP = "C17"

FLAG_NAMES = ["FilterNoop", "InactiveMachIdx", "AllowInverted", "SkipOldest", "GcKeepsLess",
              "GormNoGc", "GormBadColumns", "KvNoResume", "KvMTimeMachIdx"]
# the specification models the tree AS IT IS: a flag is TRUE while the defect it
# models is in /repo (known finding), FALSE once the fix has landed.
#   repaired (fix: commits, C17 follow-up): FilterNoop, InactiveMachIdx,
#   AllowInverted, SkipOldest, GcKeepsLess, KvNoResume, KvMTimeMachIdx
#   GormBadColumns (optional patch 07)
#   still in the tree (known findings): GormNoGc
ASIS = {f: False for f in FLAG_NAMES}
ASIS.update(GormNoGc=True)
# the tree before the follow-up fixes (kept for the record / for bisecting)
PINNED = {f: True for f in FLAG_NAMES}
FIXED = {f: False for f in FLAG_NAMES}

INVS = ["Inv_OneRecordPerMatch", "Inv_Bounded", "Inv_KeepsNewest", "Inv_QueryExact",
        "Inv_NewestFirst", "Inv_ImportRestores", "Inv_RotationTrims"]


def mc_consts(flags, backend, steps, lists=False, queries=False, mm=2, mb=2, mc=1, restarts=0,
              gc_from_saved=False, ns=2):
    c = dict(flags)
    c.update(Backend=backend, NS=ns, MaxSteps=steps, UseLists=lists, CheckQueries=queries,
             MaxMax=mm, MaxBatch=mb, MaxConds=mc, MaxRestarts=restarts, GcFromSaved=gc_from_saved)
    return c


def mc_plan(tier):
    """(label, consts, invariants, expect_violation, timeout)"""
    holds = []
    preds = []
    if tier == "quick":
        holds += [
            ("memory: all list configurations, 3 transitions",
             mc_consts(FIXED, "memory", 3, lists=True, mb=1)),
            ("memory: every query (<=1 state condition) after every history of 3",
             mc_consts(FIXED, "memory", 3, queries=True, mb=1)),
            ("bbolt: all list configurations, 2 transitions",
             mc_consts(FIXED, "bbolt", 2, lists=True, mm=1, mb=1)),
            ("bbolt: queue/flush/GC race, Max 1..2, batch 1..2, 4 steps",
             mc_consts(FIXED, "bbolt", 4)),
            ("bbolt: every query (<=1 state condition) after every history of 3",
             mc_consts(FIXED, "bbolt", 3, queries=True, mb=1)),
            ("bbolt: <=2 process restarts on one store (Reopen), Max 1..2, batch 1..2, 5 steps",
             mc_consts(FIXED, "bbolt", 5, restarts=2, ns=1)),
        ]
    else:
        holds += [
            ("memory: all list configurations, 4 transitions",
             mc_consts(FIXED, "memory", 4, lists=True, mb=1)),
            ("memory: every query (<=2 state conditions) after every history of 4",
             mc_consts(FIXED, "memory", 4, queries=True, mb=1, mc=2)),
            ("bbolt: all list configurations, 3 transitions",
             mc_consts(FIXED, "bbolt", 3, lists=True, mm=2, mb=2)),
            ("bbolt: queue/flush/GC race, Max 1..2, batch 1..2, 6 steps",
             mc_consts(FIXED, "bbolt", 6)),
            ("gorm: queue/flush/GC, Max 1..2, batch 1..2, 5 steps",
             mc_consts(FIXED, "gorm", 5)),
            ("gorm: all list configurations, 3 transitions",
             mc_consts(FIXED, "gorm", 3, lists=True, mm=1, mb=1)),
            ("bbolt: every query (<=2 state conditions) after every history of 3",
             mc_consts(FIXED, "bbolt", 3, queries=True, mb=1, mc=2)),
            ("gorm: every query (<=1 state condition) after every history of 3",
             mc_consts(FIXED, "gorm", 3, queries=True, mb=1)),
            ("bbolt: <=2 process restarts on one store (Reopen), Max 1..2, batch 1..2, 7 steps",
             mc_consts(FIXED, "bbolt", 7, restarts=2, ns=1)),
            ("bbolt: <=2 process restarts, two states, Max 1..2, batch 1..2, 5 steps",
             mc_consts(FIXED, "bbolt", 5, restarts=2)),
            ("gorm: <=2 process restarts on one store (Reopen), Max 1..2, batch 1..2, 6 steps",
             mc_consts(FIXED, "gorm", 6, restarts=2, ns=1)),
        ]
    # predictions of the as-is model for the defects still in the tree: one
    # invariant each, TLC stops at the first counterexample
    cand = [
        ("FilterNoop", "memory FindLatest state filters are no-ops",
         mc_consts(ASIS, "memory", 3, queries=True, mb=1), "Inv_QueryExact", True),
        ("AllowInverted", "bbolt/badger allow-lists inverted",
         mc_consts(ASIS, "bbolt", 2, lists=True, mm=1, mb=1), "Inv_OneRecordPerMatch", True),
        ("GcKeepsLess", "bbolt/badger GC keeps MaxRecords-1",
         mc_consts(ASIS, "bbolt", 5, mm=1, mb=1), "Inv_KeepsNewest", True),
        ("SkipOldest", "bbolt/badger FindLatest: oldest record skipped",
         mc_consts(ASIS, "bbolt", 3, queries=True, mb=1), "Inv_QueryExact", False),
        ("GormNoGc", "gorm never garbage-collects",
         mc_consts(ASIS, "gorm", 6, mm=1, mb=1), "Inv_Bounded", True),
        ("AllowInverted", "gorm Called allow-list inverted",
         mc_consts(ASIS, "gorm", 2, lists=True, mm=1, mb=1), "Inv_OneRecordPerMatch", False),
        ("GormBadColumns", "gorm FindLatest: missing columns",
         mc_consts(ASIS, "gorm", 3, queries=True, mb=1), "Inv_QueryExact", True),
    ]
    for flag, label, consts, inv, in_quick in cand:
        if ASIS[flag] and (in_quick or tier != "quick"):
            preds.append((label, consts, inv))
    # the formulas added for restarts have teeth in the model: a rotation that
    # trims below the per-process Saved counter (NOT the code) must break them
    tests = [("model self-test: rotation below the per-process Saved counter breaks RotationTrims",
              mc_consts(FIXED, "bbolt", 5, restarts=2, ns=1, gc_from_saved=True), "Inv_RotationTrims")]
    return holds, preds, tests


def run_mc(tier, rep):
    holds, preds, tests = mc_plan(tier)
    to = 900 if tier == "quick" else 3000
    jobs = [(l, c, INVS, False) for l, c in holds] + [(l, c, [inv], True) for l, c, inv in preds] + \
           [(l, c, [inv], "selftest") for l, c, inv in tests]
    workers = 4 if tier == "quick" else 8

    def one(j):
        label, consts, invs, expect = j
        r = tlcrun.run_tlc("MCHistory", dict(spec="MCSpec", consts=consts, view="MCView",
                                             invariants=invs), workers=workers, timeout=to)
        return j, r
    with cf.ThreadPoolExecutor(max_workers=4 if tier == "quick" else 3) as ex:
        results = list(ex.map(one, jobs))
    states = trans = 0
    runs = []
    predicted = []
    for (label, consts, invs, expect), r in results:
        runs.append(dict(config=label, backend=consts["Backend"], expect_violation=bool(expect),
                         states_generated=r["states"], distinct=r["distinct"],
                         wall_s=round(r["wall"], 1), violated=r["violated"],
                         timed_out=r["timed_out"]))
        if r["errors"] and not r["timed_out"] and not (expect and r["violated"]):
            raise Inconclusive("TLC error in '%s': %s\n%s" % (label, r["errors"][:3], r["out"][-2000:]))
        if expect == "selftest":
            if not r["violated"]:
                raise Inconclusive("'%s': TLC found no counterexample:\n%s" % (label, r["out"][-1500:]))
            rep.coverage.setdefault("mc_selftests", []).append(
                dict(test=label, invariant=invs[0], counterexample_found=True))
            continue
        if expect:
            # a prediction of the as-is model; the verdict comes from the binding half
            predicted.append(dict(defect=label, invariant=invs[0],
                                  counterexample_found=bool(r["violated"])))
            if not r["violated"] and not r["timed_out"]:
                rep.notes.append("as-is model does not predict '%s' within the bound" % label)
            continue
        if r["violated"]:
            raise Inconclusive("the REPAIRED specification violates %s in '%s':\n%s" % (
                list(r["violated"]), label, r["out"][-3000:]))
        if r["timed_out"] or not r["completed"]:
            raise Inconclusive("TLC did not finish '%s' (rc=%s, timed_out=%s, limit %ds):\n%s" % (
                label, r["rc"], r["timed_out"], to, r["out"][-1500:]))
        states += r["distinct"]
        trans += r["states"]
    rep.coverage["mc_runs"] = runs
    rep.coverage["mc_predicted_defects"] = predicted
    rep.coverage["states"] = states
    rep.coverage["transitions"] = trans


# ---------------------------------------------------------------------------
# binding half

PLANS = {
    # (cases, max mutations, backends, crash points, restart cases, max processes per store)
    # restart cases: the workload goes on across process restarts on the same
    # store (persistent backends only; the memory backend skips them)
    "quick": [(200, 8, "memory,bbolt", False, 64, 3)],
    "thorough": [(2500, 8, "memory,bbolt", False, 1200, 4),
                 (500, 8, "memory,bbolt,badger,gorm", True, 240, 4)],
}


def generate(binary, plan, outdir, sd):
    files, ncases = [], 0
    cases = {}
    for k, (n, maxm, backends, crash, nrestart, maxprocs) in enumerate(plan):
        pref = os.path.join(outdir, "h%d" % k)
        cmd = [binary, "history", "-n", str(n), "-maxmuts", str(maxm), "-backends", backends,
               "-seed", str(sd * 1000 + k), "-out", pref, "-shards", "16", "-tmp", outdir,
               "-restarts", str(nrestart), "-maxprocs", str(maxprocs)]
        if crash:
            cmd.append("-crash")
        rc, out = run(cmd, timeout=3000)
        if rc != 0:
            raise Inconclusive("history driver failed: " + out[-2000:])
        st = json.loads(out.strip().splitlines()[-1])
        ncases += st["blocks"]
        for f in sorted(glob.glob(pref + ".*.ndjson")):
            if os.path.getsize(f) > 0:
                files.append(f)
                cases[f] = {c["id"]: c for c in json.load(open(pref + ".cases.json"))}
    return files, ncases, cases


def names_of(idx, names):
    return [names[i - 1] for i in idx]


def signature(v, ev, backend):
    """viol tuple <<line, formula, class, detail>> + the logged event -> signature"""
    _, formula, cls, detail = v
    if ev["ev"] == "q":
        if formula == "BackendsAgree":
            cond = "vs-%s" % cls
        elif formula == "NewestFirst":
            cond = cls
        elif cls == "includes":
            cond = detail
        elif cls == "omits" and detail not in ("oldest", "mtime", "tdiff"):
            # which condition kinds the query carried is in the text; the
            # signature only separates the modelled causes
            cond = "omits"
        else:
            cond = "%s:%s" % (cls, detail)
        return dict(formula=formula, backend=backend, fn=ev["fn"], cond=cond)
    return dict(formula=formula, backend=backend, fn=detail, cond=cls)


def scan(path):
    """per line: (block start line, backend, cid, names); ambiguous blocks; stats"""
    blocks = []      # (start, end, backend, cid, names, ambig)
    cur = None
    with open(path) as f:
        for i, l in enumerate(f, 1):
            if l.startswith('{"ev":"case"'):
                x = json.loads(l)
                cur = [i, None, x["backend"], x["cid"], x["names"], False]
            elif l.startswith('{"ev":"end"'):
                cur[1] = i
                cur[5] = json.loads(l)["ambig"]
                blocks.append(tuple(cur))
    return blocks


def block_of(blocks, line):
    lo, hi = 0, len(blocks) - 1
    while lo < hi:
        mid = (lo + hi + 1) // 2
        if blocks[mid][0] <= line:
            lo = mid
        else:
            hi = mid - 1
    return blocks[lo]


def replay_case(case, ev, names):
    """the generated case reduced to the one query of the violating event"""
    c = dict(case)
    if ev["ev"] == "q":
        c["queries"] = [dict(fn=ev["fn"], act=names_of(ev["act"], names),
                             actd=names_of(ev["actd"], names), inact=names_of(ev["inact"], names),
                             deact=names_of(ev["deact"], names), tk=ev["tk"], lo=ev["lo"],
                             hi=ev["hi"], mts=names_of(ev["mts"], names), limit=ev["limit"])]
    return c


def validate(files, cases, rep, want=None):
    """TLC trace validation; returns stats.  want: only this signature (replay)."""
    res = tlcrun.validate_traces("TraceHistory", ASIS, files, timeout=3000)
    tot = Counter()
    seen = {}
    nviol = Counter()
    ambig = 0
    for r in res:
        if r["result"] is None:
            raise Inconclusive("trace validation did not finish for %s (rc=%s):\n%s" % (
                r["file"], r["rc"], r["out"][-3000:]))
        nl = sum(1 for _ in open(r["file"]))
        if r["result"]["lines"] != nl:
            raise Inconclusive("trace %s not fully consumed" % r["file"])
        for k, v in r["result"]["stats"].items():
            tot[k] += v
        tot["lines"] += nl
        blocks = scan(r["file"])
        lines = None
        for v in sorted(r["result"]["viol"]):
            b = block_of(blocks, v[0])
            ev = tlcrun.line_of(r["file"], v[0])
            if b[5] and ev["ev"] == "q":
                ambig += 1      # human times tied: record ids in answers unreliable
                continue
            sig = signature(v, ev, b[2])
            key = json.dumps(sig, sort_keys=True)
            nviol[key] += 1
            if key in seen:
                continue
            seen[key] = True
            if want is not None and sig != want:
                continue
            case = replay_case(cases[r["file"]][b[3]], ev, b[4])
            bks = [b[2]] if sig["formula"] != "BackendsAgree" else [sig["cond"][3:], b[2]]
            rep.violation(sig, dict(kind="history", property=PROP, signature=sig, case=case,
                                    backends=bks),
                          "%s is FALSE on the real %s backend: %s %s (case %s); logged event: %s" % (
                              sig["formula"], b[2], sig["fn"], sig["cond"], case["label"],
                              json.dumps(ev)[:260]))
        for l, what in r["result"]["drift"]:
            b = block_of(blocks, l)
            rep.drift.append("%s line %d (%s): %s" % (os.path.basename(r["file"]), l, b[2], what))
    return tot, nviol, ambig


def shape_stats(files, limit_samples=4):
    """distinct non-trivial evaluations: a query shape (backend, fn, which of the
    four state conditions are present, time-range kind, limited?) judged against
    a NON-EMPTY stored log, or a transition judged under a configuration with
    lists / a rejected or check transition."""
    keys = set()
    samples = []
    for fn in files:
        backend = None
        cfg = None
        nlog = 0
        nproc, gc = 1, 0
        for l in open(fn):
            if l.startswith('{"ev":"case"'):
                x = json.loads(l)
                backend, cfg, nlog = x["backend"], x["cfg"], 0
                nproc, gc = 1, 0
            elif l.startswith('{"ev":"log"'):
                nlog = l.count('"id":')
                x = json.loads(l)
                if x["savedGc"] != gc:
                    gc = x["savedGc"]
                    keys.add(("rotation", backend, min(nproc, 4), cfg["max"], cfg["batch"]))
            elif l.startswith('{"ev":"restart"'):
                x = json.loads(l)
                nproc += 1
                keys.add(("restart", backend, x["kind"], min(nproc, 4), cfg["max"], cfg["batch"], gc > 0,
                          min(len(x["reopened"]), 4)))
                gc = 0
            elif l.startswith('{"ev":"tx"'):
                x = json.loads(l)
                lists = (bool(cfg["called"]), cfg["calledEx"], bool(cfg["changed"]), cfg["changedEx"])
                if any(lists) or not x["accepted"] or x["check"]:
                    keys.add(("tx", backend) + lists + (cfg["rejected"], x["accepted"], x["check"],
                                                        x["ta"] != x["tb"]))
            elif l.startswith('{"ev":"q"') and nlog > 0:
                x = json.loads(l)
                keys.add(("q", backend, x["fn"], bool(x["act"]), bool(x["actd"]), bool(x["inact"]),
                          bool(x["deact"]), x["tk"], x["limit"] > 0))
                if len(samples) < limit_samples and x["act"] and x["deact"] and x["tk"] != "none":
                    samples.append(dict(backend=backend, cfg=cfg, stored_records=nlog,
                                        query={k: x[k] for k in ("fn", "act", "actd", "inact", "deact",
                                                                 "tk", "lo", "hi", "limit")},
                                        answer=dict(status=x["status"], res=x["res"])))
    return len(keys), samples


def check(tier):
    rep = Report(PROP, tier, "model_checking")
    sd = seed()
    binary = build_harness()
    d = scratch(PROP)
    try:
        with cf.ThreadPoolExecutor(max_workers=2) as ex:
            mc = ex.submit(run_mc, tier, rep)
            files, nblocks, cases = generate(binary, PLANS[tier], d, sd)
            tot, nviol, ambig = validate(files, cases, rep)
            mc.result()
        distinct, samples = shape_stats(files)
        rep.coverage.update(
            traces_validated_against_impl=nblocks,
            evaluations=tot["tx"] + tot["logs"] + tot["q"] + tot["imports"] + tot["crashes"] +
            tot["restarts"],
            distinct_nontrivial=distinct, trace_lines=tot["lines"],
            transitions_judged=tot["tx"], records_created=tot["rec"], store_scans=tot["logs"],
            queries_judged=tot["q"], overlapping_queries_judged=tot.get("overlaps", 0), imports_judged=tot["imports"], crash_points=tot["crashes"],
            process_restarts_judged=tot["restarts"],
            rotations_judged=dict(total=tot["rotations"], in_a_reopened_store=tot["rotationsReopened"]),
            scans_over_pbound_only_because_of_restarts=tot["grownByRestarts"],
            match_classes=dict(must=tot["must"], must_not=tot["mustnot"], either_reading=tot["either"]),
            violations_by_signature={k: v for k, v in sorted(nviol.items())},
            skipped_ambiguous_human_time=ambig,
            rule="case = (schema of 3-4 states with Require/Remove/Add/Multi/Auto, history of <= 8 "
                 "(rotation runs <= 12) add/remove/set/check mutations incl. rejected and "
                 "handler-canceled ones, Sync points, configuration: Called/Changed allow or block "
                 "lists, TrackRejected, tracked subset, MaxRecords 1..3, batch 1..3, optional "
                 "pre-imported MachineTick), run on every backend of the tier; restart cases "
                 "(persistent backends): the same configurations, 2-3 (thorough 2-4) processes on one "
                 "store, each short (1-4 mutations) or long (past its rotation threshold 1.5*Max + "
                 "2*batch), stopped after Sync, the next machine resuming from an Export or fresh, "
                 "settled (writes and rotation done) after every mutation; per block every "
                 "transition, every store scan, every query (empty query with limits, every single "
                 "state condition, all 16 presence combinations of the 4 state conditions x a "
                 "rotating time-range kind, every time-range kind alone, the 4 *Between helpers per "
                 "state), one Export/Import, every process restart and (thorough) one crash point per "
                 "Sync is one evaluation; distinct = distinct (backend, query shape) judged against a non-empty "
                 "store + distinct (backend, list configuration shape, transition outcome) + distinct "
                 "(backend, restart kind, process number, Max, batch, had the stopped process rotated, "
                 "records found) + distinct (backend, rotation in process number, Max, batch)",
            samples=samples or [dict(note="no combined-condition sample in this run")],
            formulas=["OneRecordPerMatch", "Bounded (BoundedExact / BoundedLoose(R) / KeepsNewest / "
                      "RotationTrims)", "QueryExact", "NewestFirst", "BackendsAgree", "ImportRestores",
                      "Durable (crash copy; restart: kept, same meaning by state name, NextId resumed)"],
            exhaustive=False)
        rep.assumptions += [
            "TLC explores the bounded model completely only within the stated constants",
            "stores are scanned directly (slice export, bbolt cursor, badger iterator, SQL select) "
            "after the write-behind goroutines were seen to finish (Saved/SavePending counters, an "
            "empty bbolt write transaction as commit barrier); Sync() itself is documented as "
            "asynchronous",
            "human-time conditions are expressed as mutation indexes (wall clock taken right before "
            "each mutation); blocks whose record times are not strictly increasing are not judged",
            "a crash point is a copy of the store's files taken when Sync's writes are done",
            "a process restart = Sync, writes seen to finish, Memory.Dispose + Machine.Dispose, a new "
            "machine with the same id (Import of the Export, or fresh) and NewMemory on the same store; "
            "Dispose does not flush, a stop with queued records is not modelled",
            "Bounded across restarts takes the per-process reading (the rotation threshold counts the "
            "records written by the current memory object): until its first rotation a process may add "
            "PBound records to what it found; how often only this reading held is counted in "
            "scans_over_pbound_only_because_of_restarts",
            "where the property text admits several readings (combination of the four lists, "
            "Activated/Deactivated relative to the transition, the previous stored record or the "
            "previous created record) a violation is raised only when every reading is contradicted",
            "spec flags model the tree as it is: " + json.dumps(ASIS)]
    finally:
        shutil.rmtree(d, ignore_errors=True)
    return rep.finish()


def replay(path):
    obj = json.load(open(path))
    rep = Report(PROP, os.environ.get("VERIF_TIER", "quick"), "model_checking")
    binary = build_harness()
    d = scratch(PROP + "-replay")
    try:
        inp = os.path.join(d, "cases.json")
        with open(inp, "w") as f:
            json.dump([obj["case"]], f)
        pref = os.path.join(d, "r")
        cmd = [binary, "history", "-in", inp, "-backends", ",".join(obj["backends"]),
               "-out", pref, "-shards", "1", "-tmp", d]
        if obj["signature"]["formula"] == "Durable":
            cmd.append("-crash")
        rc, out = run(cmd, timeout=600)
        if rc != 0:
            raise Inconclusive("history driver failed: " + out[-2000:])
        f = pref + ".0.ndjson"
        tot, nviol, ambig = validate([f], {f: {obj["case"]["id"]: obj["case"]}}, rep,
                                     want=obj["signature"])
        rep.coverage.update(evaluations=max(1, tot["tx"] + tot["q"]), distinct_nontrivial=2,
                            rule="replay", samples=[obj["case"]["label"]], states=1, transitions=1,
                            traces_validated_against_impl=1)
    finally:
        shutil.rmtree(d, ignore_errors=True)
    return rep.finish()
