#!/usr/bin/env python3
"""Run TLC (model checking or trace validation) in scratch directories.

Nothing is left in /verif/spec: every run copies the modules it needs into a
fresh directory under $TMPDIR (default /tmp), runs `tlc` under `timeout`
with its own -metadir, parses the output and removes the directory.
"""
import json, os, re, shutil, subprocess, tempfile, time, concurrent.futures as cf

SPEC = os.path.join(os.path.dirname(os.path.abspath(__file__)), "..", "spec")
TMP = os.environ.get("TMPDIR", "/tmp")


def _scratch(prefix):
    d = tempfile.mkdtemp(prefix="verif-" + prefix + "-", dir=TMP)
    for f in os.listdir(SPEC):
        if f.endswith(".tla"):
            shutil.copy(os.path.join(SPEC, f), d)
    return d


def write_cfg(path, spec, consts, invariants=(), properties=(), view=None,
              constraint=None, extra=""):
    with open(path, "w") as f:
        f.write("SPECIFICATION %s\n" % spec)
        if consts:
            f.write("CONSTANTS\n")
            for k, v in consts.items():
                if isinstance(v, bool):
                    v = "TRUE" if v else "FALSE"
                elif isinstance(v, str) and v.startswith("<-"):
                    f.write("  %s %s\n" % (k, v))
                    continue
                elif isinstance(v, str) and v.startswith("{"):
                    pass    # a set literal, written as is
                elif isinstance(v, str):
                    v = '"%s"' % v
                f.write("  %s = %s\n" % (k, v))
        if view:
            f.write("VIEW %s\n" % view)
        if constraint:
            f.write("CONSTRAINT %s\n" % constraint)
        if invariants:
            f.write("INVARIANTS\n" + "".join("  %s\n" % i for i in invariants))
        if properties:
            f.write("PROPERTIES\n" + "".join("  %s\n" % i for i in properties))
        f.write("CHECK_DEADLOCK FALSE\n" + extra)


RE_STATES = re.compile(r"(\d+) states generated, (\d+) distinct states found, (\d+) states left")
RE_VIOL = re.compile(r"Error: (?:Invariant|Action property) (\S+) is violated")


def run_tlc(module, cfg_kwargs, workers=4, timeout=600, files=None, continue_=False,
            simulate=None, keep=False, coverage=False, java_opts=None):
    """Returns dict(rc, states, distinct, left, violated{name:count}, out, wall, timed_out)."""
    d = _scratch(module)
    try:
        for src, dst in (files or {}).items():
            dstp = os.path.join(d, dst)
            try:
                os.symlink(os.path.abspath(src), dstp)
            except OSError:
                shutil.copy(src, dstp)
        cfg = os.path.join(d, module + ".cfg")
        write_cfg(cfg, **cfg_kwargs)
        cmd = ["timeout", str(timeout), "tlc", "-workers", str(workers),
               "-metadir", os.path.join(d, "meta"), "-config", module + ".cfg"]
        if continue_:
            cmd.append("-continue")
        if coverage:
            cmd += ["-coverage", "1"]
        if simulate:
            cmd += ["-simulate", simulate]
        cmd.append(module + ".tla")
        env = dict(os.environ)
        if java_opts:
            env["JAVA_TOOL_OPTIONS"] = java_opts
        t0 = time.time()
        p = subprocess.run(cmd, cwd=d, stdout=subprocess.PIPE, stderr=subprocess.STDOUT,
                           text=True, env=env)
        wall = time.time() - t0
        out = p.stdout
        res = dict(rc=p.returncode, out=out, wall=wall, timed_out=(p.returncode == 124),
                   states=0, distinct=0, left=0, violated={})
        m = None
        for m in RE_STATES.finditer(out):
            pass
        if m:
            res.update(states=int(m.group(1)), distinct=int(m.group(2)), left=int(m.group(3)))
        for v in RE_VIOL.findall(out):
            res["violated"][v] = res["violated"].get(v, 0) + 1
        res["completed"] = "Model checking completed" in out or "Finished in" in out
        res["errors"] = [l for l in out.splitlines()
                         if l.startswith("Error:") and "is violated" not in l
                         and "behavior up to this point" not in l]
        if keep:
            res["dir"] = d
        return res
    finally:
        if not keep:
            shutil.rmtree(d, ignore_errors=True)


RE_RESULT = re.compile(r'^<<"RESULT", "(.*)">>$', re.M)


def parse_result(out):
    m = RE_RESULT.search(out)
    if not m:
        return None
    s = m.group(1)
    # TLA string -> JSON text (TLC prints the string with \" and \\ escapes)
    s = s.replace('\\\\', '\x00').replace('\\"', '"').replace('\x00', '\\')
    return json.loads(s)


def _validator_heap(parallel):
    """Heap cap per validating JVM: the tlc wrapper's default (25% of RAM each) lets
    16 parallel validators of large shards outgrow the machine (OOM killer, rc=-9)."""
    try:
        kb = int(next(l for l in open("/proc/meminfo") if l.startswith("MemTotal")).split()[1])
    except Exception:
        kb = 16 * 1024 * 1024
    mb = max(1024, int(kb / 1024 * 0.6 / max(1, parallel)))
    # -Xss: RunTx on a 14-state machine recurses deeper than the default 1 MB stack allows
    # (a StackOverflowError is a tooling limit, not a verdict)
    return "-Xmx%dm -Xss64m" % mb


def validate_traces(module, consts, trace_files, timeout=900, parallel=14):
    """Validate each ndjson shard with its own TLC process.
    Returns list of dict(file, result|None, out, rc, wall)."""
    heap = _validator_heap(parallel)

    def one(tf):
        c = dict(consts)
        c["TraceFile"] = "trace.ndjson"
        r = run_tlc(module, dict(spec="TraceSpec", consts=c, view="TraceView"),
                    workers=1, timeout=timeout, files={tf: "trace.ndjson"}, java_opts=heap)
        return dict(file=tf, result=parse_result(r["out"]), out=r["out"], rc=r["rc"],
                    wall=r["wall"], timed_out=r["timed_out"])
    with cf.ThreadPoolExecutor(max_workers=parallel) as ex:
        return list(ex.map(one, trace_files))


def line_of(path, n):
    with open(path) as f:
        for i, l in enumerate(f, 1):
            if i == n:
                return json.loads(l)
    return None


def context_of(path, n):
    """The init line, the call line and the line n of a trace shard."""
    init = call = None
    with open(path) as f:
        for i, l in enumerate(f, 1):
            if i > n:
                break
            if '"ev":"init"' in l[:40]:
                init = (i, l)
                call = None
            elif '"ev":"call"' in l[:40]:
                call = (i, l)
            if i == n:
                return init, call, (i, l)
    return init, call, None
