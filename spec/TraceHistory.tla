---------------------------- MODULE TraceHistory ----------------------------
(* Trace validation of REAL pkg/history executions (harness/histdrv) against  *)
(* History.tla.  One spec, four backends: every backend's block of a case is  *)
(* validated against the same operators.                                      *)
(*                                                                            *)
(*  viol   <<line, formula, class, detail>> : a formula of property C17 is    *)
(*         FALSE on what the real backend did / returned  -> the verdict      *)
(*  drift  <<line, what>> : the as-is model (flags of History.tla) predicts   *)
(*         something else than the code did               -> SPEC-DRIFT       *)
(* The specification state follows the log (the stored records the harness    *)
(* scanned are the log the queries are judged against).                       *)
EXTENDS History, Json, TLC

CONSTANT TraceFile

Trace == ndJsonDeserialize(TraceFile)

VARIABLES l,        \* next line
          cid,      \* current case id
          backend, cfg, open,
          made,     \* records created so far by this memory (index = id)
          olog,     \* the stored records last scanned (with mi / txn attached)
          quiet,    \* ... and the scan saw every write-behind goroutine finish
          ntxs,     \* transitions seen in this block
          hist,     \* ... and what they were (same workload <=> same history)
          ref,      \* answers of the first backend of the case, by query index
          proc,     \* the PROCESS that has the store open (a block may go through
                    \* several: EvRestart):
                    \*   start   records created before it opened the store
                    \*   opened  records it found in the store
                    \*   next    NextId at the last scan (at the opening)
                    \*   gc      its SavedGc counter at the last scan
                    \*   settled the last scan saw no write / rotation in flight
                    \*   n       how many processes the block has seen
          viol, drift, stats

tvars == <<l, cid, backend, cfg, open, made, olog, quiet, ntxs, hist, ref, proc, viol, drift, stats>>

Line == Trace[l]

Persist == backend \in Persistent

CfgOf(x) ==
  [called |-> x.cfg.called, calledEx |-> x.cfg.calledEx,
   changed |-> x.cfg.changed, changedEx |-> x.cfg.changedEx,
   rejected |-> x.cfg.rejected, max |-> x.cfg.max, batch |-> x.cfg.batch,
   tracked |-> x.tracked, qtracked |-> x.qtracked, utracked |-> x.utracked]

NoStats == [cases |-> 0, tx |-> 0, rec |-> 0, logs |-> 0, q |-> 0, overlaps |-> 0, imports |-> 0,
            crashes |-> 0, must |-> 0, mustnot |-> 0, either |-> 0,
            restarts |-> 0, rotations |-> 0, rotationsReopened |-> 0, grownByRestarts |-> 0]

Proc0 == [start |-> 0, opened |-> 0, next |-> 1, gc |-> 0, settled |-> TRUE, n |-> 1]

TraceInit ==
  /\ l = 1 /\ cid = 0 /\ backend = "" /\ cfg = None /\ open = FALSE
  /\ made = <<>> /\ olog = <<>> /\ quiet = TRUE /\ ntxs = 0 /\ hist = <<>>
  /\ ref = [qs |-> <<>>, b |-> "", hist |-> <<>>]
  /\ proc = Proc0
  /\ viol = {} /\ drift = {} /\ stats = NoStats

---------------------------------------------------------------------------
EvCase ==
  /\ Line.ev = "case"
  /\ LET x == Line IN
     /\ cid' = x.cid
     /\ backend' = x.backend
     /\ cfg' = CfgOf(x)
     /\ open' = (x.err = "")
     /\ made' = <<>> /\ olog' = <<>> /\ quiet' = TRUE /\ ntxs' = 0 /\ hist' = <<>>
     /\ ref' = IF x.cid = cid THEN ref ELSE [qs |-> <<>>, b |-> x.backend, hist |-> <<>>]
     /\ proc' = Proc0
     /\ drift' = drift \cup
          (IF x.err # "" THEN {<<l, "case.err">>} ELSE {}) \cup
          (IF x.err = "" /\ ~(SSet(x.utracked) \subseteq SSet(x.tracked))
             THEN {<<l, "case.tracked">>} ELSE {})
     /\ stats' = [stats EXCEPT !.cases = @ + 1]
     /\ UNCHANGED viol

TxOf(x) ==
  [called |-> x.called, tb |-> x.tb, ta |-> x.ta, accepted |-> x.accepted,
   check |-> x.check, mtype |-> x.mtype, machTick |-> x.machTick, mi |-> x.mi]

(* OneRecordPerMatch, first half: the transition yields exactly one record    *)
(* iff it matches (NextId is read right after the history tracer ran)         *)
EvTx ==
  /\ Line.ev = "tx"
  /\ LET x == Line
         tx == TxOf(x)
         created == x.nextId - (Len(made) + 1)
         must == MustMatch(cfg, tx)
         mustnot == MustNotMatch(cfg, tx)
         \* m.lastRec lives in the memory object: the first record of a process
         \* has no predecessor, also on a re-opened store
         prev == IF Len(made) = proc.start THEN None ELSE made[Len(made)]
         r == [MkRec(cfg, tx, prev, Len(made) + 1) EXCEPT !.mi = x.mi]
         rr == [id |-> r.id, sum |-> r.sum, tsum |-> r.tsum, dsum |-> r.dsum,
                tdsum |-> r.tdsum, rdsum |-> r.rdsum, mt |-> r.mt, mtd |-> r.mtd,
                machTick |-> r.machTick, mtype |-> r.mtype, mi |-> r.mi,
                pf |-> r.pf, txn |-> ntxs + 1]
         v == UNION {
                IF created \in {0, 1} THEN {} ELSE {<<l, "OneRecordPerMatch", "count", "not-0-or-1">>},
                IF must /\ created < 1 THEN {<<l, "OneRecordPerMatch", "missing", "TransitionEnd">>} ELSE {},
                IF mustnot /\ created > 0 THEN {<<l, "OneRecordPerMatch", "spurious", "TransitionEnd">>} ELSE {}}
         d == IF MatchImpl(backend, cfg, tx) = (created >= 1) THEN {} ELSE {<<l, "tx.match">>}
     IN
     /\ open
     /\ made' = IF created >= 1 THEN Append(made, rr) ELSE made
     /\ ntxs' = ntxs + 1
     /\ hist' = Append(hist, <<x.mi, x.called, x.tb, x.ta, x.accepted, x.check>>)
     /\ viol' = viol \cup v
     /\ drift' = drift \cup d
     /\ stats' = [stats EXCEPT !.tx = @ + 1,
                               !.rec = @ + (IF created >= 1 THEN 1 ELSE 0),
                               !.must = @ + (IF must THEN 1 ELSE 0),
                               !.mustnot = @ + (IF mustnot THEN 1 ELSE 0),
                               !.either = @ + (IF ~must /\ ~mustnot THEN 1 ELSE 0)]
     /\ UNCHANGED <<cid, backend, cfg, open, olog, quiet, ref, proc>>

(* OneRecordPerMatch, second half (stored records are the created ones, in     *)
(* execution order, times = machine time after the transition) and Bounded     *)
EvLog ==
  /\ Line.ev = "log"
  /\ LET x == Line
         raw == x.raw
         ids == [i \in 1..Len(raw) |-> raw[i].id]
         \* a rotation ran to completion since the last scan, and neither scan
         \* saw one in flight: it started after proc.next was read
         rotated == Persist /\ x.quiet /\ x.settled /\ proc.settled /\ x.savedGc # proc.gc
         known(i) == raw[i].id >= 1 /\ raw[i].id <= Len(made)
         ext == [i \in 1..Len(raw) |->
                   [id |-> raw[i].id, sum |-> raw[i].sum, tsum |-> raw[i].tsum,
                    dsum |-> raw[i].dsum, tdsum |-> raw[i].tdsum, rdsum |-> raw[i].rdsum,
                    mt |-> raw[i].mt, mtd |-> raw[i].mtd, machTick |-> raw[i].machTick,
                    mtype |-> raw[i].mtype,
                    mi |-> IF known(i) THEN made[raw[i].id].mi ELSE 0,
                    txn |-> IF known(i) THEN made[raw[i].id].txn ELSE 0]]
         v == UNION {
                IF \A i \in 1..Len(raw) : known(i) THEN {}
                  ELSE {<<l, "OneRecordPerMatch", "unknown-record", "store">>},
                IF \A i \in 1..Len(raw) : known(i) => Faithful(raw[i], made[raw[i].id]) THEN {}
                  ELSE {<<l, "OneRecordPerMatch", "times", "store">>},
                IF InOrder(ids) THEN {} ELSE {<<l, "OneRecordPerMatch", "order", "store">>},
                IF backend = "memory" /\ ~BoundedExact(cfg.max, Len(made), ids)
                  THEN {<<l, "Bounded", "memory-exact", "rotation">>} ELSE {},
                IF Persist /\ x.quiet /\ ~BoundedLooseR(cfg.max, cfg.batch, ids, proc.opened, x.savedGc > 0)
                  THEN {<<l, "Bounded", "exceeds", "checkGc">>} ELSE {},
                IF Persist /\ x.quiet /\ x.synced /\ ~KeepsNewest(cfg.max, Len(made), ids)
                  THEN {<<l, "Bounded", "drops-retained", "checkGc">>} ELSE {},
                IF rotated /\ ~RotationTrims(cfg.max, cfg.batch, proc.next, ids)
                  THEN {<<l, "Bounded", "rotation-leaves-older", "checkGc">>} ELSE {}}
         d == UNION {
                IF \A i \in 1..Len(raw) : known(i) => SameDerived(raw[i], made[raw[i].id]) THEN {}
                  ELSE {<<l, "log.derived">>},
                IF x.nextId = Len(made) + 1 THEN {} ELSE {<<l, "log.nextId">>},
                IF x.quiet THEN {} ELSE {<<l, "log.not-quiet">>},
                IF x.err = "" THEN {} ELSE {<<l, "log.scan-error">>},
                \* the as-is model of retention
                IF backend = "gorm" /\ GormNoGc /\ x.quiet /\ x.synced /\ Len(raw) # Len(made)
                  THEN {<<l, "log.gorm-gc">>} ELSE {}}
     IN
     /\ open
     /\ olog' = ext
     /\ quiet' = x.quiet
     /\ viol' = viol \cup v
     /\ drift' = drift \cup d
     /\ proc' = [proc EXCEPT !.next = x.nextId, !.gc = x.savedGc, !.settled = x.quiet /\ x.settled]
     /\ stats' = [stats EXCEPT !.logs = @ + 1,
                               !.rotations = @ + (IF rotated THEN 1 ELSE 0),
                               !.rotationsReopened = @ + (IF rotated /\ proc.n > 1 THEN 1 ELSE 0),
                               \* the per-process reading was needed (see BoundedLooseR)
                               !.grownByRestarts = @ + (IF Persist /\ x.quiet
                                   /\ ~BoundedLoose(cfg.max, cfg.batch, ids) 
                                   /\ BoundedLooseR(cfg.max, cfg.batch, ids, proc.opened, x.savedGc > 0)
                                 THEN 1 ELSE 0)]
     /\ UNCHANGED <<cid, backend, cfg, open, made, ntxs, hist, ref>>

QOf(x) ==
  [fn |-> x.fn, act |-> x.act, actd |-> x.actd, inact |-> x.inact, deact |-> x.deact,
   tk |-> x.tk, lo |-> x.lo, hi |-> x.hi, mts |-> x.mts, limit |-> x.limit]

QKind(q) ==
  IF q.act # <<>> THEN "Active" ELSE IF q.actd # <<>> THEN "Activated"
  ELSE IF q.inact # <<>> THEN "Inactive" ELSE IF q.deact # <<>> THEN "Deactivated"
  ELSE q.tk

TxnOf(L, id) == IF PosOf(L, id) = 0 THEN 0 ELSE L[PosOf(L, id)].txn
TxnSeq(L, res) == [i \in 1..Len(res) |-> TxnOf(L, res[i])]
TxnSet(L) == {L[i].txn : i \in 1..Len(L)}

(* BackendsAgree: same workload, same query -> same status and, on the         *)
(* records both stores retain, the same answer (retention legitimately         *)
(* differs: exact for the slice, loose for the write-behind stores)            *)
Agree(q, a, b) ==
  /\ a.status = b.status
  /\ (a.status = "ok" /\ q.fn = "FindLatest" /\ q.limit = 0) =>
       \* Activated / Deactivated may be read relative to the previous STORED
       \* record (history.go): the oldest record of either store has a different
       \* predecessor in the other one, it is not compared
       LET edge == IF q.actd = <<>> /\ q.deact = <<>> THEN {}
                   ELSE {t \in a.txns : \A u \in a.txns : t <= u}
                        \cup {t \in b.txns : \A u \in b.txns : t <= u}
           common == (a.txns \cap b.txns) \ edge
       IN SelectSeq(a.res, LAMBDA t : t \in common) = SelectSeq(b.res, LAMBDA t : t \in common)
  /\ (a.status = "ok" /\ q.fn # "FindLatest" /\ a.txns = b.txns) => a.bres = b.bres

EvQ ==
  /\ Line.ev = "q"
  /\ LET x == Line
         q == QOf(x)
         L == olog
         isFind == q.fn = "FindLatest"
         inLog(id) == PosOf(L, id) # 0
         May == {p \in 1..Len(L) : CondMay(cfg, made, L, p, q)}
         In == {p \in 1..Len(L) : CondIn(cfg, made, L, p, q)}
         wrongIn == {id \in SSet(x.res) : inLog(id) /\ PosOf(L, id) \notin May}
         want == FindSpec(cfg, made, L, q)
         missing == (IF q.limit = 0 THEN IdsOf(L, In) ELSE SSet(want)) \ SSet(x.res)
         exact == IF isFind THEN QueryExact(cfg, made, L, q, x.res)
                  ELSE BetweenExact(cfg, made, L, q, x.bres)
         v == IF x.status = "err" THEN {<<l, "QueryExact", "error", x.errk>>}
              ELSE IF x.status = "panic" THEN {<<l, "QueryExact", "status", "panic">>}
              ELSE UNION {
                IF isFind /\ \E id \in SSet(x.res) : ~inLog(id)
                  THEN {<<l, "QueryExact", "unknown-record", "result">>} ELSE {},
                IF isFind /\ ~NewestFirst(x.res) THEN {<<l, "NewestFirst", "order", QKind(q)>>} ELSE {},
                IF exact THEN {}
                ELSE IF ~isFind THEN {<<l, "QueryExact", IF x.bres THEN "includes" ELSE "omits", QKind(q)>>}
                ELSE IF wrongIn # {}
                  THEN {<<l, "QueryExact", "includes", k>> :
                          k \in UNION {FailKinds(cfg, made, L, PosOf(L, id), q) : id \in wrongIn}}
                ELSE IF missing # {}
                  THEN {<<l, "QueryExact", "omits",
                          IF Len(L) >= 2 /\ missing = {L[1].id} THEN "oldest"
                          ELSE IF q.tk # "none" THEN q.tk ELSE QKind(q)>>}
                ELSE {<<l, "QueryExact", "limit", QKind(q)>>}}
         impl == FindImpl(backend, cfg, made, L, Len(made) + 1,
                          IF isFind THEN q ELSE [q EXCEPT !.limit = 1])
         implStatus == IF isFind \/ impl.status = "panic" THEN impl.status ELSE "ok"
         d == UNION {
                IF implStatus = x.status THEN {} ELSE {<<l, "q.status">>},
                IF isFind /\ impl.status = x.status /\ x.status = "err" /\ impl.errk # x.errk
                  THEN {<<l, "q.errk">>} ELSE {},
                IF impl.status = "ok" /\ x.status = "ok" /\ isFind /\ impl.res # x.res
                  THEN {<<l, "q.res">>} ELSE {},
                IF implStatus = "ok" /\ x.status = "ok" /\ ~isFind
                   /\ (impl.status = "ok" /\ impl.res # <<>>) # x.bres
                  THEN {<<l, "q.bres">>} ELSE {}}
         ans == [status |-> x.status, res |-> TxnSeq(L, x.res), bres |-> x.bres,
                 txns |-> TxnSet(L)]
         first == ref.b = backend
         \* "the same workload": the machines of the two blocks went through
         \* the same transitions (else the comparison is void -> drift)
         same == ref.hist = hist
         ag == IF first \/ x.qi > Len(ref.qs) \/ ~same THEN {}
               ELSE IF Agree(q, ref.qs[x.qi], ans) THEN {}
               ELSE {<<l, "BackendsAgree", ref.b, QKind(q)>>}
     IN
     /\ open
     /\ ref' = IF first THEN [ref EXCEPT !.qs = Append(@, ans), !.hist = hist] ELSE ref
     \* a scan that did not see the writes finish is no log to judge against
     /\ viol' = IF quiet THEN viol \cup v \cup ag ELSE viol
     \* (a reference block that ended before its queries - a restart that did
     \* not resume - left nothing to compare with)
     /\ drift' = drift \cup d \cup (IF first \/ same \/ x.qi > Len(ref.qs) THEN {}
                                    ELSE {<<l, "q.history-differs">>})
     /\ stats' = [stats EXCEPT !.q = @ + 1]
     /\ UNCHANGED <<cid, backend, cfg, open, made, olog, quiet, ntxs, hist, proc>>

(* Queries that OVERLAP transitions (in-process slice): a query answers from  *)
(* ONE log - the log as it was at some moment between its call and its      *)
(* return - however many records are created and rotated meanwhile.         *)
(* LogAt(n) = the slice when n records had been created.                    *)
LogAt(n) == LET k == MinOf(n, cfg.max) IN SubSeq(made, n - k + 1, n)
SumsOf(L) == [i \in 1..Len(L) |-> L[i].sum]
RevSeq(s) == [i \in 1..Len(s) |-> s[Len(s) + 1 - i]]

EvOverlap ==
  /\ Line.ev = "qo"
  /\ LET x == Line
         cand == {n \in x.lo..x.hi : n >= 0 /\ n <= Len(made)}
         okMatch == \E n \in cand : x.seen1 = SumsOf(LogAt(n)) /\ x.seen2 = x.seen1
         okFind == \E n \in cand : x.res = RevSeq(SumsOf(LogAt(n)))
         v == IF x.status # "ok" THEN {<<l, "QueryExact", "overlap-" \o x.status, x.mode>>}
              ELSE IF x.mode = "match" /\ ~okMatch
                THEN {<<l, "QueryExact", IF x.seen2 # x.seen1 THEN "overlap-snapshot-changed"
                                          ELSE "overlap-snapshot", "Match">>}
              ELSE IF x.mode = "find" /\ ~okFind
                THEN {<<l, "QueryExact", "overlap", "FindLatest">>}
              ELSE {}
     IN
     /\ open
     /\ viol' = viol \cup v
     /\ drift' = drift \cup (IF cand = {} THEN {<<l, "qo.window">>} ELSE {})
     /\ stats' = [stats EXCEPT !.overlaps = @ + 1]
  /\ UNCHANGED <<cid, backend, cfg, open, made, olog, quiet, ntxs, hist, ref, proc>>

EvImport ==
  /\ Line.ev = "import"
  /\ LET x == Line IN
     /\ viol' = viol \cup (IF ImportRestores(x) THEN {} ELSE {<<l, "ImportRestores", "import", "Machine.Import">>})
     /\ stats' = [stats EXCEPT !.imports = @ + 1]
  /\ UNCHANGED <<cid, backend, cfg, open, made, olog, quiet, ntxs, hist, ref, proc, drift>>

SameRec(a, b) ==
  /\ a.id = b.id /\ a.sum = b.sum /\ a.tsum = b.tsum /\ a.mt = b.mt /\ a.mtd = b.mtd
  /\ a.dsum = b.dsum /\ a.tdsum = b.tdsum /\ a.rdsum = b.rdsum
  /\ a.machTick = b.machTick /\ a.mtype = b.mtype

(* Durable: what was stored when Sync had returned and its writes were done    *)
(* is in the reopened copy; a restarted memory resumes the id sequence         *)
EvCrash ==
  /\ Line.ev = "crash"
  /\ LET x == Line
         kept == \A i \in 1..Len(x.live) : \E j \in 1..Len(x.reopened) : SameRec(x.live[i], x.reopened[j])
         v == UNION {
                IF x.err = "" THEN {} ELSE {<<l, "Durable", "reopen-error", "reopen">>},
                IF x.err # "" \/ kept THEN {} ELSE {<<l, "Durable", "lost", "reopen">>},
                IF x.err # "" \/ x.reNextId = x.nextId THEN {}
                  ELSE {<<l, "Durable", "NextId-not-resumed", "GetMachine">>}}
         d == IF x.err = "" /\ backend = "bbolt" /\ KvNoResume /\ x.reNextId # 1
              THEN {<<l, "crash.resume">>} ELSE {}
     IN
     /\ viol' = viol \cup v
     /\ drift' = drift \cup d
     /\ stats' = [stats EXCEPT !.crashes = @ + 1]
  /\ UNCHANGED <<cid, backend, cfg, open, made, olog, quiet, ntxs, hist, ref, proc>>

(* The process stops after Sync (its writes were seen to finish) and a NEW     *)
(* process - new machine, new memory, same configuration - opens the SAME      *)
(* store and goes on with the workload.  `made` keeps on growing: the ids, the *)
(* retention formulas (Bounded / KeepsNewest / RotationTrims) and              *)
(* OneRecordPerMatch of EvTx / EvLog speak about the store, not the process.   *)
(*   Durable            every stored record is found again, unchanged          *)
(*   Durable (by name)  ... and means the same: the new memory reads the       *)
(*                      tracked times of an old record for the same STATES     *)
(*                      (a record is a bare slice in the memory's tracked      *)
(*                      order)                                                 *)
(*   NextId continuity  the new memory resumes the id sequence                 *)
NamedSame(a, ta, tb) ==
  /\ Len(ta) = Len(tb) /\ Len(a.mt) = Len(ta)
  /\ \A k \in 1..Len(ta) : SIndex(tb, ta[k]) # 0 /\ a.mt[k] = a.mt[SIndex(tb, ta[k])]

EvRestart ==
  /\ Line.ev = "restart"
  /\ LET x == Line
         kept == \A i \in 1..Len(x.live) : \E j \in 1..Len(x.reopened) : SameRec(x.live[i], x.reopened[j])
         extra == \E j \in 1..Len(x.reopened) : \A i \in 1..Len(x.live) : x.live[i].id # x.reopened[j].id
         named == \A j \in 1..Len(x.reopened) : NamedSame(x.reopened[j], x.tracked0, x.tracked1)
         v == IF x.err # "" THEN {<<l, "Durable", "reopen-error", "reopen">>}
              ELSE UNION {
                IF kept THEN {} ELSE {<<l, "Durable", "lost", "reopen">>},
                IF named THEN {} ELSE {<<l, "Durable", "tracked-order-changed", "NewMemory">>},
                IF x.reNextId = x.nextId THEN {}
                  ELSE {<<l, "Durable", "NextId-not-resumed", "GetMachine">>}}
         d == UNION {
                IF x.err = "" /\ extra THEN {<<l, "restart.extra-records">>} ELSE {},
                IF x.err = "" /\ x.nextId # Len(made) + 1 THEN {<<l, "restart.nextId">>} ELSE {},
                IF x.err = "" /\ backend = "bbolt" /\ KvNoResume /\ x.reNextId # 1
                  THEN {<<l, "restart.resume">>} ELSE {}}
     IN
     /\ open
     /\ proc' = [start |-> Len(made), opened |-> Len(x.reopened), next |-> x.reNextId, gc |-> 0,
                 settled |-> TRUE, n |-> proc.n + 1]
     /\ viol' = viol \cup v
     /\ drift' = drift \cup d
     /\ stats' = [stats EXCEPT !.restarts = @ + 1]
  /\ UNCHANGED <<cid, backend, cfg, open, made, olog, quiet, ntxs, hist, ref>>

EvEnd ==
  /\ Line.ev = "end"
  /\ open' = FALSE
  /\ UNCHANGED <<cid, backend, cfg, made, olog, quiet, ntxs, hist, ref, proc, viol, drift, stats>>

Done ==
  /\ l = Len(Trace) + 1
  /\ PrintT(<<"RESULT", ToJson([lines |-> Len(Trace), stats |-> stats,
                                viol |-> viol, drift |-> drift])>>)
  /\ UNCHANGED <<cid, backend, cfg, open, made, olog, quiet, ntxs, hist, ref, proc, viol, drift, stats>>

TraceNext ==
  \/ /\ l <= Len(Trace)
     /\ (EvCase \/ EvTx \/ EvLog \/ EvQ \/ EvOverlap \/ EvImport \/ EvCrash \/ EvRestart \/ EvEnd)
     /\ l' = l + 1
  \/ (Done /\ l' = l + 1)

TraceSpec == TraceInit /\ [][TraceNext]_tvars

TraceView == <<l>>
=============================================================================
