package dbgdrv

import (
	"errors"
	"fmt"
	"math/rand"
	"os"
	"path/filepath"
	"runtime"
	"sort"
	"strconv"
	"strings"
	"time"

	am "github.com/pancsta/asyncmachine-go/pkg/machine"
	"github.com/pancsta/asyncmachine-go/pkg/telemetry/dbg"
	"github.com/pancsta/asyncmachine-go/tools/debugger"
	"github.com/pancsta/asyncmachine-go/tools/debugger/types"
)

// SchJ is the part of the schema the specification needs.
type SchJ struct {
	N      int   `json:"n"`
	Err    []int `json:"err"`
	Health []int `json:"health"`
}

func SchOf(index am.S) SchJ {
	s := SchJ{N: len(index), Err: []int{}, Health: []int{}}
	for i, n := range index {
		if n == am.StateException || strings.HasPrefix(n, am.PrefixErr) {
			s.Err = append(s.Err, i)
		}
		if n == "Healthcheck" || n == "Heartbeat" {
			s.Health = append(s.Health, i)
		}
	}
	return s
}

// Cmd is one navigation / filter command.
type Cmd struct {
	Op   string `json:"op"` // fwd back scroll scrollid toggle tail
	K    int    `json:"k"`
	Tool string `json:"tool,omitempty"`
	// ById: scroll by transition id instead of cursor position (the id of the
	// K-th record HELD by the debugger)
	ById bool `json:"byid,omitempty"`
	// Id (op scrollid): jump to this transition id, whether its record has been
	// ingested already or not; K is the 1-based position of the id in the whole
	// stream of the source (0: the id never arrives)
	Id string `json:"id,omitempty"`
}

var toolOf = map[string]types.ToolName{
	"canceled": types.ToolFilterCanceledTx, "queued": types.ToolFilterQueuedTx,
	"auto": types.ToolFilterAutoTx, "empty": types.ToolFilterEmptyTx,
	"health": types.ToolFilterHealth, "outgroup": types.ToolFilterOutGroup,
	"checks": types.ToolFilterChecks,
}

// Session drives one debugger; one client is open at a time.
type Session struct {
	H      *Headless
	Lines  []any
	connId string
	id     string
	index  am.S
	nrec   int
	nconn  int
	// InitF: filter states every opened client starts with
	InitF am.S
	// raw: the steps of every message BEFORE hParseMsg rewrites them (names ->
	// indexes; the name of the global Any handlers is lost in that rewrite)
	raw map[string][][]int
	// Broken: see ErrBroken
	Broken   bool
	lastView *View
}

// ErrBroken: the debugger machine entered Exception (a handler panicked) or
// does not come to rest any more; the line that shows it is logged, the
// session must be replaced.
var ErrBroken = errors.New("debugger broken")

// CmdDeadline bounds one command.
var CmdDeadline = 4 * time.Second

// guarded runs fn.  A command that has not returned after CmdDeadline while
// the debugger machine sits in Exception is abandoned (its queue spins: a
// handler panics, Exception re-triggers the handler ...).  Without Exception a
// slow command is only slow (loaded host): it is awaited up to HangDeadline and
// then reported as a driver error (inconclusive, never a verdict).
func (s *Session) guarded(fn func() error) (err error, hung bool) {
	ch := make(chan error, 1)
	go func() { ch <- fn() }()
	t0 := time.Now()
	if os.Getenv("DBGDRV_SLOWDUMP") != "" {
		// development aid: where is a command that takes more than 1.5s?
		done := make(chan struct{})
		defer close(done)
		go func() {
			select {
			case <-done:
			case <-time.After(1500 * time.Millisecond):
				buf := make([]byte, 1<<22)
				buf = buf[:runtime.Stack(buf, true)]
				os.Stderr.Write(buf)
			}
		}()
	}
	for {
		select {
		case err := <-ch:
			return err, false
		case <-time.After(CmdDeadline):
			if s.H.D.Mach.IsErr() {
				return nil, true
			}
			if time.Since(t0) > HangDeadline {
				if os.Getenv("DBGDRV_DUMP") != "" {
					buf := make([]byte, 1<<22)
					buf = buf[:runtime.Stack(buf, true)]
					os.Stderr.Write(buf)
				}
				return fmt.Errorf("command did not return within %v (no Exception)", HangDeadline), false
			}
		}
	}
}

// HangDeadline bounds a slow command that is not in Exception.
var HangDeadline = 90 * time.Second

func init() {
	if v, err := strconv.Atoi(os.Getenv("DBGDRV_HANG")); err == nil && v > 0 {
		HangDeadline = time.Duration(v) * time.Second
	}
}

// broken logs the line of a command that broke the debugger.
func (s *Session) broken(line map[string]any, hung bool) error {
	v := View{Filters: []string{}, Filtered: []int{}}
	if s.lastView != nil {
		v = *s.lastView
	}
	errTxt := ""
	if e := s.H.D.Mach.Err(); e != nil {
		errTxt = e.Error()
	}
	// only a PANIC of a handler is a verdict; a handler/eval deadline that fired
	// on a loaded host is a driver failure (inconclusive)
	if !strings.Contains(errTxt, "runtime error") && !strings.Contains(errTxt, "panic") {
		return fmt.Errorf("debugger machine in Exception without a panic: %q", errTxt)
	}
	v.IsErr = true
	line["view"] = &v
	line["hung"] = hung
	line["err"] = errTxt
	s.Lines = append(s.Lines, line)
	s.Broken = true
	return ErrBroken
}

func NewSession(dir, id string, initF am.S) (*Session, error) {
	h, err := NewHeadless(dir, id, "")
	if err != nil {
		return nil, err
	}
	return &Session{H: h, InitF: initF}, nil
}

func (s *Session) Close() { s.H.Close() }

func resStr(r am.Result) string {
	switch r {
	case am.Executed:
		return "executed"
	case am.Canceled:
		return "canceled"
	}
	return "queued"
}

// Open disconnects the previous client, connects a new one (cleaned on connect,
// selected, tail mode) and resets the filter states.
func (s *Session) Open(label string, msg *dbg.DbgMsgStruct) error {
	d := s.H.D
	tOpen := time.Now()
	var tConn, tSel time.Time
	defer func() {
		if os.Getenv("DBGDRV_TIME") != "" {
			fmt.Fprintf(os.Stderr, "open pre=%v connect=%v selected=%v rest=%v\n", tConn.Sub(tOpen), tSel.Sub(tConn), time.Since(tSel), time.Since(tOpen))
		}
	}()
	if s.connId != "" {
		res := d.Mach.Add1(ss.DisconnectEvent, debugger.Pass(&types.A{ConnId: s.connId}))
		if err := s.H.wait(res); err != nil {
			return err
		}
	}
	// filter states as after Start
	var add, rm am.S
	for _, f := range filterStates {
		want := false
		for _, x := range s.InitF {
			if x == f {
				want = true
			}
		}
		if want && d.Mach.Not1(f) {
			add = append(add, f)
		} else if !want && d.Mach.Is1(f) {
			rm = append(rm, f)
		}
	}
	if len(rm) > 0 {
		if err := s.H.wait(d.Mach.Remove(rm, nil)); err != nil {
			return err
		}
	}
	for _, f := range add {
		if err := s.H.wait(d.Mach.Add1(f, nil)); err != nil {
			return err
		}
	}
	s.nconn++
	s.connId = fmt.Sprintf("conn%d", s.nconn)
	s.id = msg.ID
	s.index = msg.StatesIndex
	s.nrec = 0
	s.raw = map[string][][]int{}
	tConn = time.Now()
	if err := s.H.Connect(msg, s.connId); err != nil {
		return err
	}
	if err := s.H.WaitSelected(msg.ID); err != nil {
		return err
	}
	tSel = time.Now()
	// a first client gets TailMode; make it so for every client
	if d.Mach.Not1(ss.TailMode) {
		if err := s.H.wait(d.Mach.Add1(ss.TailMode, nil)); err != nil {
			return err
		}
	}
	if err := s.H.Quiesce(); err != nil {
		return err
	}
	v, err := s.H.SnapView()
	if err != nil {
		return err
	}
	if v.Sel != msg.ID {
		return fmt.Errorf("open: selected %q, want %q", v.Sel, msg.ID)
	}
	s.lastView = v
	s.Lines = append(s.Lines, map[string]any{"ev": "open", "case": label, "sch": SchOf(msg.StatesIndex), "view": v})
	return nil
}

// Ingest appends a batch through ClientMsg and logs the store afterwards.
func (s *Session) Ingest(batch []*dbg.DbgMsgTx) error {
	if s.raw == nil {
		s.raw = map[string][][]int{}
	}
	for _, m := range batch {
		s.raw[m.ID] = RecOf(s.index, m, 0).Steps
	}
	var v *View
	err, hung := s.guarded(func() error {
		if err := s.H.Ingest(batch, s.connId); err != nil {
			return err
		}
		if err := s.H.Quiesce(); err != nil {
			return err
		}
		var err error
		v, err = s.H.SnapView()
		return err
	})
	if hung || s.H.D.Mach.IsErr() {
		return s.broken(map[string]any{"ev": "ingest", "k": len(batch), "recs": []any{}, "parsed": []any{},
			"errors": []int{}}, hung)
	}
	if err != nil {
		return err
	}
	s.lastView = v
	var cs *ClientSnap
	if err := s.H.Eval("snapc", func() {
		if c := s.H.D.Clients[s.id]; c != nil {
			cs = SnapClient(c)
		}
	}); err != nil {
		return err
	}
	if cs == nil {
		return fmt.Errorf("client %s vanished", s.id)
	}
	if len(cs.Recs) != s.nrec+len(batch) {
		return fmt.Errorf("client %s holds %d records after a batch of %d on top of %d", s.id, len(cs.Recs), len(batch), s.nrec)
	}
	s.nrec = len(cs.Recs)
	for i := range cs.Recs {
		if st, ok := s.raw[cs.Recs[i].Id]; ok {
			cs.Recs[i].Steps = st
		}
	}
	s.Lines = append(s.Lines, map[string]any{"ev": "ingest", "k": len(batch), "recs": cs.Recs,
		"parsed": cs.Parsed, "errors": cs.Errors, "view": v})
	return nil
}

// Do executes one command through the debugger machine's states.
func (s *Session) Do(c Cmd) error {
	d := s.H.D
	var res am.Result
	var v *View
	// did the ScrollToTx handler run during this command? (a jump is only judged
	// when the debugger machine executed it)
	scrollTick := d.Mach.Tick(ss.ScrollToTx)
	err, hung := s.guarded(func() error {
		t0 := time.Now()
		switch c.Op {
		case "fwd":
			res = d.Mach.Add1(ss.Fwd, debugger.Pass(&types.A{Amount: c.K}))
		case "back":
			res = d.Mach.Add1(ss.Back, debugger.Pass(&types.A{Amount: c.K}))
		case "scroll":
			a := &types.A{CursorTx1: c.K}
			if c.ById {
				var id string
				_ = s.H.Eval("id", func() {
					if cl := d.Clients[s.id]; cl != nil && c.K >= 1 && c.K <= len(cl.MsgTxs) {
						id = cl.MsgTxs[c.K-1].ID
					}
				})
				if id != "" {
					a = &types.A{TxId: id}
				}
			}
			res = d.Mach.Add1(ss.ScrollToTx, debugger.Pass(a))
		case "scrollid":
			if c.Id == "" {
				return fmt.Errorf("scrollid without an id")
			}
			res = d.Mach.Add1(ss.ScrollToTx, debugger.Pass(&types.A{TxId: c.Id}))
		case "toggle":
			res = d.Mach.Add1(ss.ToggleTool, debugger.Pass(&types.A{ToolName: toolOf[c.Tool]}))
		case "tail":
			res = d.Mach.Add1(ss.ToggleTool, debugger.Pass(&types.A{ToolName: types.ToolTail}))
		default:
			return fmt.Errorf("unknown command %q", c.Op)
		}
		t1 := time.Now()
		if err := s.H.wait(res); err != nil {
			return err
		}
		t2 := time.Now()
		if err := s.H.Quiesce(); err != nil {
			return err
		}
		t3 := time.Now()
		var err error
		v, err = s.H.SnapView()
		if os.Getenv("DBGDRV_TIME") != "" {
			fmt.Fprintf(os.Stderr, "cmd %s add=%v wait=%v quiesce=%v snap=%v\n", c.Op, t1.Sub(t0), t2.Sub(t1), t3.Sub(t2), time.Since(t3))
		}
		return err
	})
	if hung || d.Mach.IsErr() {
		return s.broken(map[string]any{"ev": "cmd", "cmd": c, "res": resStr(res)}, hung)
	}
	if err != nil {
		return err
	}
	s.lastView = v
	line := map[string]any{"ev": "cmd", "cmd": c, "res": resStr(res), "view": v}
	if c.Op == "scrollid" {
		// what the look-up by transition id answers now (on the handler goroutine)
		txidx := -2
		if err := s.H.Eval("txidx", func() {
			if cl := d.Clients[s.id]; cl != nil {
				txidx = cl.TxIndex(c.Id)
			}
		}); err != nil {
			return err
		}
		if txidx == -2 {
			return fmt.Errorf("client %s vanished", s.id)
		}
		line["txidx"] = txidx
		line["ran"] = d.Mach.Tick(ss.ScrollToTx) > scrollTick
	}
	s.Lines = append(s.Lines, line)
	return nil
}

// Final logs the end-of-stream comparison material.
func (s *Session) Final(label, via string, src []SrcTx, htime bool) error {
	return s.H.FinalOf(&s.Lines, s.id, label, via, src, htime)
}

// FinalOf snapshots client id and runs the real look-ups on it.
func (h *Headless) FinalOf(lines *[]any, id, label, via string, src []SrcTx, htime bool) error {
	var cs *ClientSnap
	var lk *Lookups
	if err := h.Eval("final", func() {
		if c := h.D.Clients[id]; c != nil {
			cs = SnapClient(c)
			lk = DoLookups(c.Client, htime)
		}
	}); err != nil {
		return err
	}
	if cs == nil {
		return fmt.Errorf("client %s not found", id)
	}
	if src == nil {
		src = []SrcTx{}
	}
	*lines = append(*lines, map[string]any{"ev": "final", "case": label, "via": via, "sch": SchOf(cs.Index),
		"recs": cs.Recs, "parsed": cs.Parsed, "errors": cs.Errors, "filtered": cs.Filtered,
		"src": src, "lk": lk})
	return nil
}

// ExportImport exports the debugger's session, imports it into a fresh
// debugger and logs every client before / after.
func (h *Headless) ExportImport(lines *[]any, tmp string) error {
	before, err := h.SnapClients()
	if err != nil {
		return err
	}
	file, err := h.Export("verif-dump")
	if err != nil {
		return err
	}
	dir2, err := os.MkdirTemp(tmp, "dbgdrv-imp-")
	if err != nil {
		return err
	}
	defer os.RemoveAll(dir2)
	h2, err := NewHeadless(filepath.Join(dir2, "d"), "imp", file)
	if err != nil {
		return err
	}
	defer h2.Close()
	after, err := h2.SnapClients()
	if err != nil {
		return err
	}
	ids := []string{}
	for id := range before {
		ids = append(ids, id)
	}
	sort.Strings(ids)
	for _, id := range ids {
		a := before[id]
		b := after[id]
		if b == nil {
			b = &ClientSnap{Id: "missing", Index: am.S{}, Recs: []RecJ{}, Parsed: []ParsedJ{}, Errors: []int{}}
		}
		pick := func(c *ClientSnap) map[string]any {
			return map[string]any{"index": c.Index, "recs": c.Recs, "parsed": c.Parsed, "errors": c.Errors}
		}
		*lines = append(*lines, map[string]any{"ev": "import", "id": id, "a": pick(a), "b": pick(b)})
	}
	return nil
}

// Stamp gives driver-controlled human times (10ns apart, some equal).
func Stamp(msgs []*dbg.DbgMsgTx, base time.Time, r *rand.Rand) {
	t := base
	for _, m := range msgs {
		if r == nil || r.Float64() < 0.8 {
			t = t.Add(10 * time.Nanosecond)
		}
		tt := t
		m.Time = &tt
	}
}

// RandCmds generates a command sequence with many fwd/back pairs.
func RandCmds(r *rand.Rand, n, nrec int) []Cmd {
	tools := []string{"canceled", "queued", "auto", "empty", "health", "checks", "outgroup"}
	var out []Cmd
	for len(out) < n {
		x := r.Float64()
		switch {
		case x < 0.22:
			k := 1
			if r.Float64() < 0.25 {
				k = 2 + r.Intn(2)
			}
			out = append(out, Cmd{Op: "fwd", K: k})
			if r.Float64() < 0.7 {
				out = append(out, Cmd{Op: "back", K: k})
			}
		case x < 0.40:
			k := 1
			if r.Float64() < 0.25 {
				k = 2 + r.Intn(2)
			}
			out = append(out, Cmd{Op: "back", K: k})
		case x < 0.62:
			out = append(out, Cmd{Op: "scroll", K: r.Intn(nrec+2) + 0, ById: r.Float64() < 0.4})
		case x < 0.94:
			out = append(out, Cmd{Op: "toggle", Tool: tools[r.Intn(len(tools))]})
		default:
			out = append(out, Cmd{Op: "tail"})
		}
	}
	return out
}
