----------------------------- MODULE TracePipes -----------------------------
(* Trace validation of REAL pipe executions (harness/pipesdrv) against        *)
(* Pipes.tla.  The state of the specification FOLLOWS the log; at every line  *)
(*   drift : what the specification's own step (the pure operators of         *)
(*           Pipes.tla on the same inputs) predicts differs from what the     *)
(*           real code did  -> conformance of the code to the specification   *)
(*   viol  : a property formula is FALSE on the LOGGED values -> the verdict  *)
(* Lines (see harness/pipesdrv):                                              *)
(*   init  binding under test                  (reset)                        *)
(*   src   source tracer TransitionFinals      SrcMutate                      *)
(*   h     one pipe handler invocation, with the target read it made (chk)    *)
(*         and the forwarded call it made (inline / fork)      SrcHandler     *)
(*   ext   external mutation of the target                     TgtExt         *)
(*   enq   target tracer MutationQueued of a forwarded call    Deliver        *)
(*   drop  forwarded call returned without a queue insertion   Deliver(drop)  *)
(*   ttx   target tracer TransitionEnd                         TgtApply       *)
(*   sret  the source mutation returned        SourceNeverBlocked / canceled  *)
(*   quiet joint quiescence observed on the real machines      the formulas   *)
(*   rel   a gate was opened (informational)                                  *)
(*   free  every gate is opened for good: from here on the goroutines run     *)
(*         concurrently and the order of the records is approximate           *)
EXTENDS Pipes, Json, TLC

CONSTANTS TraceFile,
          Strict   \* gated traces are deterministic: order mismatches are drift

Trace == ndJsonDeserialize(TraceFile)

VARIABLES l, viol, drift, done, stat,
          det    \* the harness serializes the target's steps (gated, before `free`)

tvars == <<vars, l, viol, drift, done, stat, det>>

Line == Trace[l]

SetOf(q) == {q[i] : i \in 1..Len(q)}

CfgOf(x) ==
  LET S == SetOf(x.states) IN
  [mode |-> x.mode, states |-> S, multi |-> SetOf(x.multi), tmulti |-> SetOf(x.tmulti),
   flat |-> x.flat, local |-> x.local, addonly |-> x.addonly, slow |-> x.slow,
   plain |-> x.plain, gated |-> x.gated,
   pipes |-> {[b |-> p.b, s |-> p.s, add |-> SetOf(p.add), rem |-> SetOf(p.rem)] : p \in SetOf(x.pipes)}]

Stat0 == [cases |-> 0, src |-> 0, fwd |-> 0, inline |-> 0, dlv |-> 0, drop |-> 0, ttx |-> 0,
          quiet |-> 0, reorder |-> 0]

ResetTo(x) ==
  /\ cfg' = CfgOf(x)
  /\ src' = [s \in SetOf(x.states) |-> 0]
  /\ srcPend' = {} /\ tgt' = {} /\ inflight' = {} /\ tq' = <<>> /\ cur' = None
  /\ running' = FALSE /\ procInl' = FALSE /\ nid' = 1 /\ nsrc' = 0
  /\ done' = {} /\ det' = x.gated

TraceInit ==
  /\ l = 2 /\ viol = {} /\ drift = {}
  /\ Trace[1].ev = "init"
  /\ cfg = CfgOf(Trace[1])
  /\ src = [s \in SetOf(Trace[1].states) |-> 0]
  /\ srcPend = {} /\ tgt = {} /\ inflight = {} /\ tq = <<>> /\ cur = None
  /\ running = FALSE /\ procInl = FALSE /\ nid = 1 /\ nsrc = 0
  /\ done = {} /\ det = Trace[1].gated
  /\ stat = [Stat0 EXCEPT !.cases = 1]

D(name) == {<<l, name>>}
When(c, name) == IF c THEN D(name) ELSE {}

EvInit ==
  /\ Line.ev = "init"
  /\ ResetTo(Line)
  /\ stat' = [stat EXCEPT !.cases = @ + 1]
  /\ UNCHANGED <<viol, drift>>

(* a source transition entered its final phase                                *)
EvSrc ==
  /\ Line.ev = "src"
  /\ LET x == Line
         S == cfg.states
         ent == SetOf(x.enters) \cap S
         exi == SetOf(x.exits) \cap S
         ticks == [s \in S |-> x.ticks[s]]
         p == SrcStep(cfg, src, x.op, SetOf(x.called) \cap S)
         d == UNION {
                When(srcPend # {}, "h.missing"),
                When(cfg.plain /\ ~x.auto /\ x.op \in {"add", "remove"} /\
                     (p.enters # ent \/ p.exits # exi \/ p.src # ticks), "src.step"),
                When(\E s \in S : Active(ticks[s]) # (s \in SetOf(x.after)), "src.clock")}
     IN /\ src' = ticks
        /\ srcPend' = Handlers(cfg, ent, exi, SetOf(x.after), x.args)
        /\ nsrc' = nsrc + 1
        /\ drift' = drift \cup d
        /\ stat' = [stat EXCEPT !.src = @ + 1]
        /\ UNCHANGED <<cfg, tgt, inflight, tq, cur, running, procInl, nid, viol, done, det>>

(* one pipe handler ran                                                       *)
EvH ==
  /\ Line.ev = "h"
  /\ LET x == Line
         named == {h \in srcPend : HName(h) = x.h}
         \* several binding calls may bind the same handler name (one source state
         \* bound into two target states): the invocation is told by what it
         \* forwarded / checked
         exactm == {h \in named : h.sts = SetOf(x.sts)}
         known == named # {}
         hp == IF exactm # {} THEN CHOOSE h \in exactm : TRUE
               ELSE IF known THEN CHOOSE h \in named : TRUE
               ELSE [op |-> x.op, st |-> "?", b |-> 0, sts |-> SetOf(x.sts), args |-> FALSE]
         cand == IF known THEN {hp} ELSE {}
         o == Outcome(cfg, tgt, inflight, tq, cur, hp)
         forwarded == x.fwd # "none"
         flatlike == cfg.flat \/ cfg.mode = "any"
         exact == cfg.mode = "any" /\ AnyExact
         d == UNION {
                When(~known, "h.unexpected"),
                When(known /\ (o.skip = forwarded), "h.skip"),
                \* what the handler read from the target: flat variants and the former
                \* BindAny guard log the boolean they got (Is / Not1); the BindAny guard
                \* of 4d48d95 reads the target's active set ("read")
                When(known /\ flatlike /\ ~exact /\ x.chk # (IF o.skip THEN "true" ELSE "false"), "h.check"),
                When(known /\ exact /\ x.chk # "read", "h.check"),
                When(known /\ exact /\ x.chk = "read" /\ det /\ SetOf(x.read) # tgt, "h.read"),
                When(known /\ ~flatlike /\ x.chk # "none", "h.check"),
                When(known /\ forwarded /\ (o.inl # (x.fwd = "inline")), "h.inline"),
                When(known /\ forwarded /\ (x.op # hp.op \/ SetOf(x.sts) # hp.sts), "h.mutation"),
                When(known /\ forwarded /\ (x.fargs # o.args), "h.args")}
     IN /\ srcPend' = srcPend \ cand
        /\ inflight' = IF forwarded
                       THEN inflight \cup {[id |-> x.id, op |-> x.op, sts |-> SetOf(x.sts),
                                            inl |-> x.fwd = "inline", args |-> x.fargs,
                                            ext |-> FALSE, sn |-> nsrc]}
                       ELSE inflight
        /\ drift' = drift \cup d
        /\ stat' = [stat EXCEPT !.fwd = @ + (IF forwarded THEN 1 ELSE 0),
                                !.inline = @ + (IF x.fwd = "inline" THEN 1 ELSE 0)]
        /\ UNCHANGED <<cfg, src, tgt, tq, cur, running, procInl, nid, nsrc, viol, done, det>>

EvExt ==
  /\ Line.ev = "ext"
  /\ inflight' = inflight \cup {[id |-> Line.id, op |-> Line.op, sts |-> SetOf(Line.sts),
                                 inl |-> FALSE, args |-> TRUE, ext |-> TRUE, sn |-> 0]}
  /\ UNCHANGED <<cfg, src, srcPend, tgt, tq, cur, running, procInl, nid, nsrc, viol, drift, done, stat, det>>

EvOf(id) == CHOOSE e \in inflight : e.id = id

(* a forwarded call reached the target's queue                                *)
EvEnq ==
  /\ Line.ev = "enq"
  /\ LET id == Line.id
         here == \E e \in inflight : e.id = id
     IN IF ~here
        THEN \* free runs: the log of the queue insertion may trail the log of
             \* the transition that already consumed it
             /\ drift' = drift \cup When(id \notin done, "enq.unknown")
             /\ UNCHANGED <<vars, viol, done, stat, det>>
        ELSE LET e == EvOf(id)
                 k == EnqKind(cfg, tgt, tq, running, e)
                 d == UNION {
                        When(ForwardInOrder /\ ~InOrderOK(inflight, e), "deliver.order"),
                        When(k = "drop" /\ Strict /\ det, "enq.predicted-drop")}
             IN /\ inflight' = inflight \ {e}
                /\ IF ~running THEN cur' = e /\ running' = TRUE /\ procInl' = e.inl /\ tq' = tq
                   ELSE tq' = Append(tq, e) /\ UNCHANGED <<cur, running, procInl>>
                /\ drift' = drift \cup d
                /\ stat' = [stat EXCEPT !.dlv = @ + 1,
                                        !.reorder = @ + (IF InOrderOK(inflight, e) THEN 0 ELSE 1)]
                /\ UNCHANGED <<cfg, src, srcPend, tgt, nid, nsrc, viol, done, det>>

(* a forwarded call returned without having been queued                       *)
EvDrop ==
  /\ Line.ev = "drop"
  /\ LET id == Line.id
         here == \E e \in inflight : e.id = id
     IN IF ~here
        THEN /\ drift' = drift \cup D("drop.unknown")
             /\ UNCHANGED <<vars, viol, done, stat, det>>
        ELSE LET e == EvOf(id)
                 k == EnqKind(cfg, tgt, tq, running, e)
             IN /\ inflight' = inflight \ {e}
                /\ done' = done \cup {id}
                /\ drift' = drift \cup When(k # "drop" /\ Strict /\ det, "drop.unpredicted")
                                  \cup When(ForwardInOrder /\ ~InOrderOK(inflight, e), "deliver.order")
                /\ stat' = [stat EXCEPT !.drop = @ + 1,
                                        !.reorder = @ + (IF InOrderOK(inflight, e) THEN 0 ELSE 1)]
                /\ UNCHANGED <<cfg, src, srcPend, tgt, tq, cur, running, procInl, nid, nsrc, viol, det>>

RemoveId(q, id) == SelectSeq(q, LAMBDA e : e.id # id)

(* the target ended a transition                                              *)
EvTtx ==
  /\ Line.ev = "ttx"
  /\ LET x == Line
         id == x.id
         act == SetOf(x.active)
         isCur == cur # None /\ cur.id = id
         inQ == \E i \in 1..Len(tq) : tq[i].id = id
         inFl == \E e \in inflight : e.id = id
         e == IF isCur THEN cur
              ELSE IF inQ THEN tq[CHOOSE i \in 1..Len(tq) : tq[i].id = id]
              ELSE IF inFl THEN EvOf(id)
              ELSE [id |-> id, op |-> x.op, sts |-> SetOf(x.called)]
         d == UNION {
                When(~isCur /\ inQ /\ Strict /\ det, "tq.order"),
                When(~isCur /\ ~inQ /\ inFl /\ Strict /\ det, "ttx.before-enq"),
                When(~isCur /\ ~inQ /\ ~inFl, "ttx.unknown"),
                When(~x.accepted, "tgt.veto"),
                When(x.accepted /\ Apply(tgt, e) # act, "tgt.apply"),
                When(x.op # e.op \/ SetOf(x.called) # e.sts, "ttx.mutation")}
     IN /\ tgt' = act
        /\ done' = done \cup {id}
        /\ inflight' = IF ~isCur /\ ~inQ /\ inFl THEN inflight \ {e} ELSE inflight
        \* the log cannot see the queue loop pop the next mutation: TgtApply and
        \* TgtPop are taken together (exact while the harness serializes, `det`)
        /\ IF isCur
           THEN IF tq = <<>> THEN cur' = None /\ running' = FALSE /\ procInl' = FALSE /\ tq' = tq
                ELSE cur' = Head(tq) /\ tq' = Tail(tq) /\ UNCHANGED <<running, procInl>>
           ELSE tq' = RemoveId(tq, id) /\ UNCHANGED <<cur, running, procInl>>
        /\ drift' = drift \cup d
        /\ stat' = [stat EXCEPT !.ttx = @ + 1]
        /\ UNCHANGED <<cfg, src, srcPend, nid, nsrc, viol, det>>

(* the source mutation call returned                                          *)
EvSret ==
  /\ Line.ev = "sret"
  /\ LET x == Line
         v == UNION {
                When(x.blocked, "SourceNeverBlocked"),
                When(x.res # "executed", "SourceNeverCanceled")}
         predicted == cfg.mode = "any" /\ ~cfg.local /\ ~AnyForkRemote
         d == When(cfg.gated /\ x.blocked /\ ~predicted, "blocked.unpredicted")
     IN /\ viol' = viol \cup v
        /\ drift' = drift \cup d
  /\ UNCHANGED <<vars, done, stat, det>>

(* joint quiescence observed by the harness on the real machines: every gate  *)
(* open, every forwarded call returned, both queues ended                     *)
EvQuiet ==
  /\ Line.ev = "quiet"
  /\ LET x == Line
         sact == SetOf(x.src) \cap cfg.states
         tact == SetOf(x.tgt)
         holds == IF cfg.mode = "pair" THEN FollowsOn(cfg, sact, tact)
                  ELSE MirrorsOn(SetOf(x.src), tact)
         v == When(~holds, IF cfg.mode = "pair" THEN "FollowsAtQuiescence" ELSE "BindAnyMirrors")
         d == UNION {
                When(~(srcPend = {} /\ inflight = {} /\ tq = <<>> /\ cur = None /\ ~running),
                     "quiet.spec-pending"),
                When(x.tq # 0 \/ x.sq # 0, "quiet.stranded-queue"),
                When(tact # tgt \/ sact # SrcActive(src), "quiet.state")}
     IN /\ viol' = viol \cup v
        /\ drift' = drift \cup d
        /\ stat' = [stat EXCEPT !.quiet = @ + 1]
  /\ UNCHANGED <<vars, done, det>>

EvOther ==
  /\ Line.ev \in {"rel", "free", "stray", "strayq"}
  /\ drift' = drift \cup When(Line.ev \in {"stray", "strayq"}, "stray")
  /\ det' = (det /\ Line.ev # "free")    \* `free`: every gate opened, the goroutines run freely
  /\ UNCHANGED <<vars, viol, done, stat>>

Done ==
  /\ l = Len(Trace) + 1
  /\ PrintT(<<"RESULT", ToJson([lines |-> Len(Trace), viol |-> viol, drift |-> drift,
                                stat |-> stat])>>)
  /\ UNCHANGED <<vars, viol, drift, done, stat, det>>

TraceNext ==
  \/ /\ l <= Len(Trace)
     /\ (EvInit \/ EvSrc \/ EvH \/ EvExt \/ EvEnq \/ EvDrop \/ EvTtx \/ EvSret \/ EvQuiet \/ EvOther)
     /\ l' = l + 1
  \/ (Done /\ l' = l + 1)

TraceSpec == TraceInit /\ [][TraceNext]_tvars

TraceView == <<l>>
=============================================================================
