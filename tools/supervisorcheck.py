#!/usr/bin/env python3
"""C15 - supervision keeps the pool within bounds, never calls a short pool ready
(pkg/node/supervisor.go).

design half : spec/Supervisor.tla resolves every supervisor mutation with the
              transcription of the machine's resolver (Transition!RunTx) on the REAL
              SupervisorSchema of the checked-out tree (spec/SupSchema.tla is regenerated
              from `amverif sup -schema` on every run) and adds the handler gates and
              bodies as the code has them; fork completion, connection, readiness,
              errors, kills, Heartbeat and NormalizingPool rounds are independently
              enabled actions appending to the supervisor's queue.  spec/MCSupervisor.tla
              is checked exhaustively for bounded sub-models over the pool settings
              0..3 (one representative per equivalence class), both variants of the
              code in one run: "repaired" (fork gates count forks in flight, ErrWorker is
              Multi) must satisfy every formula, "code" must satisfy all but the two it is
              PREDICTED to break (over-fork: the gates test len(workers) < Max but the
              entry is added only when the fork returned; lost errors: ErrWorker is not
              Multi, an error queued behind another one never reaches ErrWorkerState).
              Anything else is exit 2.  thorough adds random behaviours for settings 0..6.
              The two events of ONE fork reach the queue in either order (sub-models early-*):
              ConnectEarly = the worker announces itself (WorkerForked) while its TestFork call
              has not returned / while SetWorker is still queued, DropBoot = the boot entry is
              removed before the worker connects.  As the code is WorkerForkedState refuses a
              worker without a boot entry (ErrWorkerMissing) and the map grows in
              SetWorkerState only (MapGrowsOnlyBySet, every variant).
binding half: harness/supdrv runs the REAL Supervisor with the TestFork / TestKill seams
              as gates, real in-memory node.Workers over loopback, and a tracer on the
              supervisor machine that samples the verif accessor node.VerifPoolOf at
              TransitionInit / TransitionEnd.  spec/TraceSupervisor.tla validates every
              logged transition against the specification's step (relations of the real
              schema, gates, handler bodies -> drift) and evaluates the formulas of C15 on
              the LOGGED values (-> violations).
              1. B3: TLC (MCSupervisor, Emit) prints, for its witness states (over-fork,
                 PoolReady refused for a short pool, PoolReady withdrawn / kept, kill,
                 lost error), the controllable events that lead there, which TestFork
                 calls had arrived and which events found the queue busy; the Go driver
                 forces them through the seams (parking the supervisor machine where TLC
                 had events pile up in the queue).
              2. scenario families (canonical reproducers, start-up for every setting
                 0..3 + some up to 6, slow forks across NormalizingPool rounds, error
                 bursts while the supervisor is busy, ready-gate flips, disconnects +
                 heartbeats, kills and confirmations, worker work-status, workers that
                 connect BEFORE their parked TestFork call is released: per pool setting
                 which forks are early x release order x across a NormalizingPool round,
                 boot entries dropped before the worker connects) and random gated /
                 free-running schedules (econnany; early_pct: an ungated TestFork that
                 returns only after the supervisor has processed the worker's WorkerForked).
              A WithinMax violation is attributed to the known forks-in-flight weakness only
              when every entry was put into the map by SetWorkerState and no fork is tracked
              under two keys; otherwise the cause names the handler that grew the map.
A VIOLATION is reported only when a formula is false on values the real supervisor
produced.  A driver process killed by a panic on a library goroutine is re-run; a step of a
script whose precondition never came true is counted (`cases_with_unrealised_steps`), never
a verdict.

Readings (the weaker one where the text admits two):
  * "ready at that moment": len(readyWorkers()) as the supervisor itself computes it (its
    replicas of the workers); any of the samples taken during the transition suffices.
  * "never forks while at Max": len(workers) < Max when ForkWorkerState /
    ForkingWorkerState run (the moment the fork is decided).
  * a PoolReady that stays active after the pool became short is NOT judged (the
    statement only constrains activation and withdrawal); it is counted (`stale`).
  * "accumulates more than the configured number of errors": the count the supervisor keeps
    itself (workerInfo.errs) is KillRequested; errors the supervisor ACCEPTED for a worker
    it tracks (ErrWorker transitions naming its map key) is KillRequestedDelivered.  The
    second one is the reading that gives the clause content (with the first one it is the
    `if` statement of ErrWorkerState), so both are judged and reported separately.
"""
import concurrent.futures as cf
import glob, json, os, random, re, shutil, sys, time
from collections import Counter, defaultdict

sys.path.insert(0, os.path.dirname(os.path.abspath(__file__)))
import tlcrun
from common import *

PROP = "C15"

# variants of the specification: the code as it is / every repair flag on
# (cfg.gate: the fork gates count forks in flight, cfg.errmulti: ErrWorker is Multi)
BOTH = '{"code", "repaired"}'
CODE_ONLY = '{"code"}'
# formulas every variant has to satisfy / formulas the code variant is predicted to break
HOLD = ["NoForkAtMax", "PoolReadyHonest", "PoolReadyKept", "KillRequested", "GroupsExclusive",
        "MapGrowsOnlyBySet"]
PREDICTED = ["WithinMax", "KillRequestedDelivered"]
# -Xss: resolving one mutation on a large active set (Exception + ErrPool + ErrWorker + the
# pool states) recurses deep in Transition!RunTx; with the default 1 MB thread stack the JVM
# overflows on such a line while its frames are still interpreted ones
JAVA = "-Xmx3g -Xss16m"
JAVA_TRACE = "-Xmx2g -Xss16m"


class Raw:
    """a .cfg value written verbatim (sets)"""
    def __init__(self, t):
        self.t = t

    def __str__(self):
        return self.t


# ---------------------------------------------------------------------------
# the schema of the current tree -> spec module

def tla_seq(xs):
    return "<<" + ", ".join('"%s"' % x for x in xs) + ">>"


def render_schema(d):
    idx = d["supervisor_index"]
    out = ["----------------------------- MODULE SupSchema -----------------------------",
           "(* GENERATED from the node schemas of the checked-out tree by                 *)",
           "(* `amverif sup -schema` (tools/supervisorcheck.py: render_schema).  The      *)",
           "(* check regenerates this module into TLC's scratch directory on every run,  *)",
           "(* so the specification always follows the CURRENT pkg/node/states; the copy *)",
           "(* in spec/ is the pinned tree's.  What a machine really uses: the schema    *)",
           "(* after Schema.Parse, in state-index order.                                 *)",
           "EXTENDS TLC", "",
           "SupIndex == " + tla_seq(idx), "", "SupSchemaDef =="]
    rows = []
    for n in idx:
        s = d["supervisor"][n]
        rows.append('  "%s" :> [auto |-> %s, multi |-> %s, require |-> %s, add |-> %s, '
                    'remove |-> %s, after |-> %s]' % (
                        n, "TRUE" if s["auto"] else "FALSE", "TRUE" if s["multi"] else "FALSE",
                        tla_seq(s["require"]), tla_seq(s["add"]), tla_seq(s["remove"]),
                        tla_seq(s["after"])))
    out.append(" @@\n".join(rows))
    out += ["",
            "(* negotiation / final handlers the Supervisor struct binds (reflection)      *)",
            "SupNeg == {" + ", ".join('<<"%s", "%s">>' % (k, s) for k, s in d["neg"]) + "}",
            "SupFin == {" + ", ".join('<<"%s", "%s">>' % (k, s) for k, s in d["fin"]) + "}", "",
            "GroupPoolStatus == {" + ", ".join('"%s"' % x for x in d["groups"]["PoolStatus"]) + "}",
            "GroupPoolNormalized == {" + ", ".join('"%s"' % x for x in d["groups"]["PoolNormalized"]) + "}",
            "GroupWorkStatus == {" + ", ".join('"%s"' % x for x in d["groups"]["WorkStatus"]) + "}",
            "============================================================================="]
    return "\n".join(out) + "\n"


def export_schema(binary, d, rep):
    rc, out = run([binary, "sup", "-schema"], timeout=120)
    if rc != 0:
        raise Inconclusive("schema export failed: " + out[-1500:])
    sch = json.loads(out[out.index("{"):])
    path = os.path.join(d, "SupSchema.tla")
    text = render_schema(sch)
    with open(path, "w") as f:
        f.write(text)
    pinned = open(os.path.join(ROOT, "spec", "SupSchema.tla")).read()
    rep.coverage["schema_differs_from_pinned_copy"] = text != pinned
    rep.coverage["errworker_multi_in_tree"] = sch["supervisor"]["ErrWorker"]["multi"]
    return path, sch


# ---------------------------------------------------------------------------
# design half

def pool_classes(lo, hi):
    """Pool settings Min/Max/Warm in lo..hi grouped by what the specification depends on:
    (min(Min,Max), Max, min(min(Min,Max)+Warm, Max)).  -> {class: [encoded settings]}"""
    cls = defaultdict(list)
    for mn in range(lo, hi + 1):
        for mx in range(lo, hi + 1):
            for wm in range(lo, hi + 1):
                me = min(mn, mx)
                cls[(me, mx, min(me + wm, mx))].append(mn * 100 + mx * 10 + wm)
    return cls


def mc_models(tier):
    """Bounded sub-models: which pools, which budgets.  Every one is explored
    exhaustively (all interleavings) for the code variant and the repaired variant.
    Pools: one representative per class of Min/Max/Warm 0..3 (the specification depends on
    the settings only through min(Min,Max), Max and min(min(Min,Max)+Warm, Max))."""
    cl = pool_classes(0, 3)
    reps = {k: min(v) for k, v in cl.items()}          # one representative per class

    def pools(pred):
        return sorted(reps[k] for k in cl if pred(k))

    q = tier == "quick"
    base = dict(MaxFail=0, MaxExpire=0, MaxConn=0, MaxErr=0, MaxHb=0, MaxCheck=0, MaxFlip=0,
                MaxEarly=0, MaxDrop=0, Rounds=2, QueueLimit=2, McErrKill=0)
    ms = [
        # A: the bounds.  forks succeed / fail / lose their bootstrap / connect, two
        #    NormalizingPool rounds (+ CheckPool in thorough)
        dict(base, name="forks-max0", MaxForks=2, MaxFail=1, MaxExpire=1, MaxConn=1, MaxFlip=1,
             MaxCheck=1, pools=pools(lambda k: k[1] == 0)),
        dict(base, name="forks-max1", MaxForks=3, MaxFail=1, MaxExpire=1, MaxConn=1, MaxFlip=1,
             MaxCheck=0 if q else 1, pools=pools(lambda k: k[1] == 1)),
        dict(base, name="forks-max2", MaxForks=3 if q else 4, MaxFail=1, MaxExpire=0,
             MaxConn=1, MaxFlip=0, pools=pools(lambda k: k[1] == 2)),
        dict(base, name="forks-max3", MaxForks=4, MaxFail=0 if q else 1, MaxExpire=0,
             MaxConn=0 if q else 1, pools=pools(lambda k: k[1] == 3)),
        # B: readiness.  workers connect, their replicas flip, die; heartbeats; PoolReady
        dict(base, name="ready-max1", MaxForks=1, MaxConn=1, MaxErr=0 if q else 1, MaxHb=1,
             MaxFlip=2 if q else 3, MaxCheck=0 if q else 1, pools=pools(lambda k: k[1] == 1)),
        dict(base, name="ready-max2", MaxForks=2, MaxConn=2, MaxErr=0 if q else 1, MaxHb=1,
             MaxFlip=2, pools=[220] if q else [120, 220]),
        # C: errors and kills
        dict(base, name="errors-kill0", MaxForks=1, MaxConn=1, MaxErr=2, MaxHb=1, MaxFlip=1,
             QueueLimit=2 if q else 3, McErrKill=0, pools=[110]),
        dict(base, name="errors-kill1", MaxForks=1, MaxConn=1, MaxErr=3, MaxHb=1, MaxFlip=1,
             QueueLimit=2 if q else 3, McErrKill=1, pools=[110]),
    ]
    # D: the two events of one fork in either order: the worker announces itself
    #    (WorkerForked) before the fork seam returned / while SetWorker is still queued
    ms += [
        dict(base, name="early-max1", MaxForks=2, MaxFail=0 if q else 1, MaxExpire=0 if q else 1,
             MaxConn=2, MaxEarly=2, MaxDrop=1, MaxFlip=0 if q else 1, pools=pools(lambda k: k[1] == 1)),
        dict(base, name="early-max2", MaxForks=3, MaxFail=0 if q else 1, MaxConn=1 if q else 2,
             MaxEarly=1 if q else 2, MaxDrop=0 if q else 1, pools=pools(lambda k: k[1] == 2)),
    ]
    if not q:
        ms.append(dict(base, name="early-max3", MaxForks=3, MaxConn=2, MaxEarly=2,
                       pools=pools(lambda k: k[1] == 3)))
    if not q:
        ms.append(dict(base, name="errors-2workers", MaxForks=2, MaxConn=2, MaxErr=2, MaxHb=1,
                       MaxFlip=1, QueueLimit=2, McErrKill=0, pools=[220, 120]))
    return ms, sum(len(v) for v in cl.values()), len(cl)


def consts_of(m, variants, emit=False):
    c = {k: v for k, v in m.items() if k not in ("name", "pools", "only_early")}
    c["BootFault"] = True
    c["Pools"] = Raw("{" + ", ".join(str(p) for p in m["pools"]) + "}")
    c["Variants"] = Raw(variants)
    c["Emit"] = emit
    c["Memo"] = True
    return c


RE_PRED = re.compile(r'^<<"PRED", "(\w+)">>$', re.M)


def mc_verify(tier, rep, schema_file):
    """Every sub-model exhaustively, both variants in one TLC run (the variant is part of
    the initial state).  HOLD must hold in both, PREDICTED in the repaired variant; what the
    code variant breaks is noted (PredNote) as a prediction."""
    models, nsettings, nclasses = mc_models(tier)
    tmo = 500 if tier == "quick" else 3000

    def one(m):
        r = tlcrun.run_tlc("MCSupervisor", dict(spec="MCSpec", consts=consts_of(m, BOTH),
                                                view="MCView",
                                                invariants=HOLD + ["RepairedHolds", "PredNote"]),
                           workers=2 if tier == "quick" else 4, timeout=tmo,
                           files={schema_file: "SupSchema.tla"}, java_opts=JAVA)
        return m, r, sorted(set(RE_PRED.findall(r["out"])))

    states = trans = 0
    runs, predicted = [], Counter()
    with cf.ThreadPoolExecutor(max_workers=10 if tier == "quick" else 4) as ex:
        for m, r, pred in ex.map(one, models):
            if r["timed_out"] or r["errors"] or (not r["completed"] and not r["violated"]):
                raise Inconclusive("TLC failed on %s: %s\n%s" % (m["name"], r["errors"][:3],
                                                                 r["out"][-2500:]))
            if r["violated"]:
                # HOLD must hold in both variants, PREDICTED in the repaired one
                raise Inconclusive("the specification violates %s in %s:\n%s" % (
                    sorted(r["violated"]), m["name"], r["out"][-3000:]))
            runs.append(dict(model=m["name"], pools=len(m["pools"]), variants=["code", "repaired"],
                             budgets={k: v for k, v in m.items() if k not in ("name", "pools")},
                             states_generated=r["states"], distinct=r["distinct"],
                             code_variant_breaks=pred, wall_s=round(r["wall"], 1)))
            states += r["distinct"]
            trans += r["states"]
            for f in pred:
                predicted[f] += 1
    if tier != "quick":
        # pool settings up to 6 (the property's range): random behaviours of a larger model
        cl6 = pool_classes(0, 6)
        sim = dict(name="sim-0..6", MaxForks=7, MaxFail=1, MaxExpire=1, MaxConn=4, MaxErr=3, MaxHb=2,
                   MaxCheck=1, MaxFlip=4, MaxEarly=2, MaxDrop=1, Rounds=2, QueueLimit=3, McErrKill=1,
                   pools=sorted(min(v) for v in cl6.values()))
        r = tlcrun.run_tlc("MCSupervisor", dict(spec="MCSpec", consts=consts_of(sim, BOTH),
                                                view="MCView", invariants=HOLD + ["RepairedHolds"]),
                           workers=4, timeout=900, files={schema_file: "SupSchema.tla"},
                           java_opts=JAVA, simulate="num=4000")
        if r["violated"] or r["errors"]:
            raise Inconclusive("simulation of the 0..6 model failed: %s %s\n%s" % (
                sorted(r["violated"]), r["errors"][:3], r["out"][-2500:]))
        m = re.search(r"(\d+) states checked", r["out"])
        rep.coverage["mc_simulation_0_6"] = dict(pools=len(sim["pools"]), behaviours=4000,
                                                 states_checked=int(m.group(1)) if m else None,
                                                 budgets={k: v for k, v in sim.items()
                                                          if k not in ("name", "pools")},
                                                 wall_s=round(r["wall"], 1))
    rep.coverage["mc_runs"] = runs
    rep.coverage["states"] = states
    rep.coverage["transitions"] = trans
    rep.coverage["mc_pool_settings"] = dict(
        range="Min/Max/Warm 0..3", settings=nsettings, classes=nclasses,
        explored="one representative per class: the specification reads the settings only through "
                 "min(Min,Max), Max and min(min(Min,Max)+Warm,Max), settings of one class have "
                 "isomorphic state graphs")
    rep.coverage["model_predictions_code_variant"] = dict(predicted)
    return models


# ---------------------------------------------------------------------------
# B3: schedules from TLC

RE_SCHED = re.compile(r'^<<"SCHED", "(.*)">>$', re.M)


def emit_models(tier):
    base = dict(MaxFail=0, MaxExpire=0, MaxConn=0, MaxErr=0, MaxHb=0, MaxCheck=0, MaxFlip=0,
                MaxEarly=0, MaxDrop=0, Rounds=2, QueueLimit=2, McErrKill=0)
    ms = [
        dict(base, name="emit-overfork1", MaxForks=2, MaxFail=1, MaxExpire=1, MaxConn=1, pools=[110]),
        dict(base, name="emit-overfork2", MaxForks=3, pools=[220, 221]),
        dict(base, name="emit-ready", MaxForks=1, MaxConn=1, MaxHb=1, MaxFlip=2, MaxErr=1,
             pools=[110]),
        dict(base, name="emit-errors", MaxForks=1, MaxConn=1, MaxErr=3, MaxFlip=1, McErrKill=1,
             pools=[110]),
        # a worker ahead of its own fork call (WorkerForked before SetWorker), also next
        # to forks parked across a NormalizingPool round
        dict(base, name="emit-early", MaxForks=2, MaxConn=2, MaxEarly=2, pools=[110, 220], only_early=True),
    ]
    return ms


def emit_schedules(m, schema_file):
    r = tlcrun.run_tlc("MCSupervisor", dict(spec="MCSpec", consts=consts_of(m, CODE_ONLY, True),
                                            view="MCView", invariants=["EmitSched"]),
                       workers=1, timeout=900, files={schema_file: "SupSchema.tla"}, java_opts=JAVA)
    if r["timed_out"] or r["errors"]:
        raise Inconclusive("schedule generation failed for %s: %s\n%s" % (
            m["name"], r["errors"][:3], r["out"][-2000:]))
    out = []
    for t in set(RE_SCHED.findall(r["out"])):
        t = t.replace('\\\\', '\x00').replace('\\"', '"').replace('\x00', '\\')
        out.append(json.loads(t))
    if m.get("only_early"):
        out = [x for x in out if early_connects(x["hist"])]
    out.sort(key=lambda x: (len(x["hist"]), json.dumps(x, sort_keys=True)))
    return out, r["distinct"], r["states"]


def early_connects(hist):
    """fork calls whose worker connects before the call is released, or after its boot
    entry was dropped (TLC history)"""
    rel, early = set(), []
    for h in hist:
        if h["k"] == "fork":
            rel.add(h["i"])
        elif h["k"] == "dropboot":
            rel.discard(h["i"])
        elif h["k"] == "connect" and h["i"] not in rel:
            early.append(h["i"])
    return early


# handler_ms: the supervisor machine's handler timeout.  The library default (100ms) makes
# handlers overrun under CPU contention (the transition is rolled back, the handler keeps
# running next to the machine); most cases run with 1s, some keep the default.
TIMING = dict(conn_ms=600, pause_ms=150, check_ms=50, handler_ms=1000)


def case(label, mn, mx, wm, script, errkill=1, gated=True, readygate=False, seed=0, **kw):
    c = dict(label=label, min=mn, max=mx, warm=wm, errkill=errkill, gated=gated,
             readygate=readygate, seed=seed, script=list(script), **TIMING)
    c.update(kw)
    return c


def op(k, i=0, **kw):
    d = dict(k=k)
    if i:
        d["i"] = i
    d.update(kw)
    return d


SETTLE = op("settle", ms=250)


def sched_to_case(s, label):
    """A TLC-emitted witness -> a script for the Go driver: the controllable events in TLC's
    order.  `arrive` (a TestFork call got parked) is observable only: the script waits for
    it, like it waits for everything the supervisor's own time-driven goroutines do.  Events
    that reached the queue while it was not empty (busy) are delivered while the supervisor
    machine is parked at a TransitionEnd."""
    cfg = s["cfg"]
    script = []
    paused = False

    def leave():
        nonlocal paused
        if paused:
            script.append(op("resume"))
            script.append(op("settle", ms=120))
            paused = False

    QUEUED = ("fork", "connect", "err", "killed", "hb", "checkpool", "dropboot")
    hist = s["hist"]

    def next_busy(j):
        # is the next event that reaches the queue one that found it non-empty?  then
        # this one has to be still in the queue when it arrives: park the supervisor first
        for n in hist[j + 1:]:
            if n["k"] in QUEUED:
                return bool(n.get("busy"))
            if n["k"] in ("arrive", "bootexpire"):
                return False
        return False

    released = set()
    for j, h in enumerate(hist):
        k, i = h["k"], h["i"]
        if k == "fork":
            released.add(i)
        if k == "connect" and i not in released:
            # the worker is ahead of its own fork call: WorkerConnected has to be PROCESSED
            # for WorkerForked to reach the queue (the rpc client to the worker is set up
            # by a goroutine of WorkerConnectedState), so the supervisor is not parked here
            leave()
            script.append(op("connect", i))
            script.append(op("settle", ms=120))
            continue
        if k == "arrive":
            leave()
            script.append(op("waitfork", i, ms=6000))
            continue
        if k == "round":
            continue
        if k == "bootexpire":
            leave()
            script.append(op("sleep", ms=TIMING["conn_ms"] + 150))
            continue
        queued = k in QUEUED
        if queued and not paused and (h.get("busy") or next_busy(j)):
            script.append(op("pause"))
            paused = True
        elif queued and paused and not h.get("busy"):
            leave()
            if next_busy(j):
                script.append(op("pause"))
                paused = True
        if k == "fork":
            script.append(op("fork", i, ok=h["ok"]))
        elif k == "err":
            script.append(op("err", i, n=1))
        elif k in ("connect", "ready", "unready", "disc", "killed", "dropboot"):
            script.append(op(k, i))
        elif k in ("hb", "checkpool"):
            script.append(op(k))
        if not paused and k in ("connect", "ready", "unready", "disc", "err", "killed", "hb",
                                "checkpool", "dropboot"):
            script.append(op("settle", ms=120))
    leave()
    script.append(SETTLE)
    c = case(label, cfg["min"], cfg["max"], cfg["warm"], script, errkill=cfg["errkill"],
             readygate=True)
    c["_tags"] = sorted(s["tags"])
    return c


# ---------------------------------------------------------------------------
# scenario families and random schedules

def family_cases(rng, tier):
    out = []
    rng_pools = [(mn, mx, wm) for mn in range(4) for mx in range(4) for wm in range(4)]
    big = [(4, 6, 2), (6, 6, 0), (5, 4, 6), (2, 5, 2), (6, 3, 1)]

    def bring_up(n, ready=False):
        s = []
        for i in range(1, n + 1):
            s += [op("waitfork", i, ms=5000), op("fork", i, ok=True), op("connect", i)]
            if ready:
                s.append(op("ready", i))
        return s

    # 0. the two canonical reproducers of the defects known at the pinned commit (DESIGN 8):
    #    a fork parked across a NormalizingPool round; two errors queued together
    out.append(case("canon-overfork", 1, 1, 0,
                    [op("waitfork", 1, ms=5000), op("waitfork", 2, ms=4000), op("fork", 1, ok=True),
                     op("fork", 2, ok=True), SETTLE]))
    out.append(case("canon-errors-lost", 1, 1, 0,
                    bring_up(1) + [SETTLE, op("pause"), op("err", 1, n=2), op("resume"), SETTLE,
                                   op("err", 1, n=1), SETTLE, op("err", 1, n=1), SETTLE], errkill=1))
    # 1. plain start-up for every pool setting 0..3 (+ a few up to 6)
    for (mn, mx, wm) in rng_pools + big:
        want = min(min(mn, mx) + wm, mx)
        s = bring_up(want) + [SETTLE, op("hb"), SETTLE]
        out.append(case("up-%d%d%d" % (mn, mx, wm), mn, mx, wm, s,
                        handler_ms=0 if (mn + mx + wm) % 3 == 0 else 1000))
    sel = rng_pools if tier != "quick" else rng.sample(rng_pools, 24)
    # 2. slow forks: the first fork is held across a NormalizingPool round
    for (mn, mx, wm) in sel:
        want = min(min(mn, mx) + wm, mx)
        if want == 0:
            continue
        s = [op("waitfork", want, ms=5000), op("waitfork", want + 1, ms=2500)]
        s += [op("relany", ok=True) for _ in range(want + 2)]
        s += [SETTLE, op("connany"), op("connany"), SETTLE]
        out.append(case("slow-%d%d%d" % (mn, mx, wm), mn, mx, wm, s))
    # 3. error bursts while the supervisor is busy, kills and confirmations
    for ek in (0, 1, 2):
        for burst in (1, 2, 3):
            for mx in (1, 2):
                s = bring_up(mx) + [SETTLE, op("pause"), op("err", 1, n=burst), op("resume"), SETTLE]
                s += [op("err", 1, n=1), SETTLE] * (ek + 2 - min(burst, ek + 1))
                s += [op("killedany"), SETTLE, op("checkpool"), op("waitfork", mx + 1, ms=2000),
                      op("relany", ok=True), op("connany"), SETTLE]
                out.append(case("err-k%d-b%d-m%d" % (ek, burst, mx), mx, mx, 0, s, errkill=ek))
    # 4. ready gate: a short pool must not be called ready, a full one not withdrawn
    for (mn, mx) in ((1, 1), (1, 2), (2, 2), (2, 3), (3, 3), (3, 2)):
        want = min(mn, mx)
        s = bring_up(want) + [SETTLE, op("checkpool"), SETTLE]
        for i in range(1, want + 1):
            s += [op("ready", i), op("settle", ms=120)]
        s += [op("hb"), SETTLE, op("unready", 1), op("settle", ms=120), op("hb"), SETTLE,
              op("checkpool"), SETTLE, op("ready", 1), op("hb"), SETTLE]
        out.append(case("rgate-%d%d" % (mn, mx), mn, mx, 0, s, readygate=True))
    # 5. disconnects + heartbeats, failing forks
    for (mn, mx, wm) in ((1, 2, 1), (2, 2, 0), (2, 3, 1), (1, 1, 0)):
        want = min(min(mn, mx) + wm, mx)
        s = bring_up(want) + [SETTLE, op("disc", 1), op("settle", ms=150), op("hb"),
                              op("settle", ms=500), op("killedany"), SETTLE, op("checkpool"),
                              op("waitfork", want + 1, ms=2000), op("relany", ok=False), SETTLE]
        out.append(case("disc-%d%d%d" % (mn, mx, wm), mn, mx, wm, s))
    # 6. work-status group of the workers
    for n in (1, 2):
        s = bring_up(n) + [SETTLE]
        for _ in range(12):
            s.append(op("workany", s=rng.choice(["WorkRequested", "Working", "WorkReady", "Idle"])))
        s.append(SETTLE)
        out.append(case("work-%d" % n, n, n, 0, s))
    # 7. the two events of one fork in either order: a worker that announces itself
    #    (WorkerConnected -> WorkerForked) while its TestFork call has not returned yet, so
    #    that SetWorker for it arrives late.  Per pool setting with at least one fork wanted:
    #    which of the forks of the first NormalizingPool round are "early" (every non-empty
    #    subset in thorough, a drawn one in quick), in which order the calls are released
    #    afterwards, and whether a further round of forks is allowed to arrive first
    #    (the parked calls are held across a NormalizingPool round, like in family 2).
    out.append(case("canon-forked-before-set", 1, 1, 0,
                    [op("waitfork", 1, ms=5000), op("connect", 1), op("settle", ms=120),
                     op("fork", 1, ok=True), SETTLE, op("hb"), op("checkpool"), SETTLE]))
    # ... and the other way to a WorkerForked that finds no boot entry: the entry of a warm
    # worker is removed while it boots (the others made the pool ready, so the normalisation
    # is over), CheckPool refills the pool with a further fork, then the worker connects.
    # The bootstrap of the victim lives for ConnTimeout only, hence the longer one.
    drops = [(1, 2, 1), (2, 3, 1), (1, 3, 2), (1, 2, 3), (2, 3, 2), (3, 4, 1)]
    for (mn, mx, wm) in (drops if tier != "quick" else [drops[0]] + rng.sample(drops[1:], 2)):
        want = min(min(mn, mx) + wm, mx)
        for how in (("set", "killed") if tier != "quick" else (rng.choice(["set", "killed"]),)):
            v = want
            s = [op("waitfork", want, ms=5000)] + [op("fork", i, ok=True) for i in range(1, want + 1)]
            s += [op("connect", i) for i in range(1, want)]
            s += [op("waitstate", s="PoolNormalized", ok=True, ms=3000), op("dropboot", v, s=how),
                  op("checkpool"), op("waitfork", want + 1, ms=1500), op("fork", want + 1, ok=True),
                  op("connect", v), op("settle", ms=120), op("connect", want + 1), SETTLE, op("hb"),
                  op("settle", ms=400)]
            out.append(case("dropboot-%d%d%d-%s" % (mn, mx, wm, how), mn, mx, wm, s, conn_ms=2500))
    wanted = [(mn, mx, wm) for (mn, mx, wm) in rng_pools if min(min(mn, mx) + wm, mx) >= 1]
    if tier == "quick":
        # one setting per (forks wanted, Max) class, the rest drawn
        seen, pick = set(), []
        for p in rng.sample(wanted, len(wanted)):
            k = (min(min(p[0], p[1]) + p[2], p[1]), p[1])
            if k not in seen:
                seen.add(k)
                pick.append(p)
        esel = pick + rng.sample([p for p in wanted if p not in pick], 6) + [(4, 6, 1)]
    else:
        esel = wanted + big
    for (mn, mx, wm) in esel:
        want = min(min(mn, mx) + wm, mx)
        subsets = [[i for i in range(1, want + 1) if (m >> (i - 1)) & 1] for m in range(1, 1 << want)]
        if tier == "quick":
            subsets = [rng.choice(subsets)] + ([list(range(1, want + 1))] if rng.random() < 0.5 else [])
        elif len(subsets) > 7:
            subsets = rng.sample(subsets, 6) + [list(range(1, want + 1))]
        for early in subsets:
            across = rng.random() < 0.35           # let the next round's forks arrive first
            s = [op("waitfork", want, ms=5000)]
            if across:
                s.append(op("waitfork", want + 1, ms=2500))
            for i in early:
                s += [op("connect", i), op("settle", ms=100)]
            order = list(range(1, want + 1))
            rng.shuffle(order)
            fail = rng.choice(early) if rng.random() < 0.15 else 0
            for i in order:
                s.append(op("fork", i, ok=i != fail))
                if i not in early and rng.random() < 0.7:
                    s.append(op("connect", i))
            s += [op("relany", ok=True), op("relany", ok=True)] if across else []
            s += [SETTLE, op("connany"), op("connany"), SETTLE, op("hb"), op("checkpool"),
                  op("settle", ms=400)]
            lab = "early-%d%d%d-%s%s" % (mn, mx, wm, "".join(str(i) for i in early), "x" if across else "")
            if any(c["label"] == lab for c in out):
                continue
            out.append(case(lab, mn, mx, wm, s, readygate=rng.random() < 0.3))
    return out


def rand_cases(rng, n, gated):
    out = []
    for k in range(n):
        hi = 3 if rng.random() < 0.8 else 6
        mn, mx, wm = rng.randint(0, hi), rng.randint(0, hi), rng.randint(0, hi)
        ek = rng.randint(0, 2)
        rg = gated and rng.random() < 0.3
        s = []
        if gated:
            nops = rng.randint(6, 16)
            for _ in range(nops):
                x = rng.random()
                if x < 0.22:
                    s.append(op("relany", ok=rng.random() < 0.85))
                elif x < 0.36:
                    s.append(op("connany"))
                elif x < 0.40:
                    s.append(op("econnany"))          # a worker ahead of its parked fork call
                elif x < 0.50:
                    s.append(op("errany", n=rng.choice([1, 1, 2])))
                elif x < 0.56:
                    s += [op("pause"), op("errany", n=rng.choice([2, 3])), op("resume")]
                elif x < 0.62:
                    s.append(op("discany"))
                elif x < 0.68:
                    s.append(op("killedany"))
                elif x < 0.76:
                    s.append(op("hb"))
                elif x < 0.80:
                    s.append(op("checkpool"))
                elif x < 0.88 and rg:
                    s.append(op(rng.choice(["readyany", "readyany", "unreadyany"])))
                elif x < 0.93:
                    s.append(op("workany", s=rng.choice(["WorkRequested", "Working", "WorkReady", "Idle"])))
                else:
                    s.append(op("sleep", ms=rng.choice([20, 80, 300, 800])))
                if rng.random() < 0.5:
                    s.append(op("settle", ms=rng.choice([60, 120])))
            s.append(SETTLE)
            out.append(case("rand-%d" % k, mn, mx, wm, s, errkill=ek, readygate=rg,
                            seed=rng.randrange(1 << 30)))
        else:
            for _ in range(rng.randint(4, 10)):
                x = rng.random()
                if x < 0.3:
                    s.append(op("errany", n=rng.choice([1, 1, 2])))
                elif x < 0.45:
                    s.append(op("discany"))
                elif x < 0.6:
                    s.append(op("killedany"))
                elif x < 0.7:
                    s.append(op("checkpool"))
                elif x < 0.8:
                    s.append(op("workany", s=rng.choice(["WorkRequested", "Working", "WorkReady", "Idle"])))
                s.append(op("sleep", ms=rng.choice([30, 100, 250, 600])))
            s.append(SETTLE)
            out.append(case("free-%d" % k, mn, mx, wm, s, errkill=ek, gated=False, autoconnect=True,
                            hb_ms=rng.choice([150, 300, 700]), fork_delay_ms=rng.choice([0, 30, 900]),
                            fork_fail_pct=rng.choice([0, 0, 20]), early_pct=rng.choice([0, 0, 30, 100]),
                            seed=rng.randrange(1 << 30)))
    return out


# ---------------------------------------------------------------------------
# running the driver and validating the traces

def run_driver(binary, cases, prefix, shards=16, workers=32, procs=4):
    """Runs the cases in `procs` driver processes.  A driver process that dies (a panic on
    a goroutine of the library kills the whole process; e.g. rpc.Client.Stop racing with a
    disposal) loses only its own cases: they are re-run in smaller processes, twice at
    most; a case that still cannot be finished is inconclusive."""
    crashes = []

    def launch(chunk, tag, nshards, nworkers):
        inp = "%s.%s.cases.jsonl" % (prefix, tag)
        with open(inp, "w") as f:
            for c in chunk:
                f.write(json.dumps({k: v for k, v in c.items() if not k.startswith("_")}) + "\n")
        rc, out = run([binary, "sup", "-in", inp, "-out", "%s.%s" % (prefix, tag), "-shards",
                       str(nshards), "-workers", str(nworkers)], timeout=3000)
        return rc, out, tag

    def go(chunks, depth):
        jobs = []
        with cf.ThreadPoolExecutor(max_workers=max(1, len(chunks))) as ex:
            futs = [ex.submit(launch, ch, "d%dp%d" % (depth, i), max(1, shards // max(1, len(chunks))),
                              max(1, workers // max(1, len(chunks)))) for i, ch in enumerate(chunks)]
            res = [f.result() for f in futs]
        files, outs, failed = [], [], []
        for (rc, out, tag), ch in zip(res, chunks):
            if rc != 0:
                crashes.append(out[-600:])
                for f in glob.glob("%s.%s.*" % (prefix, tag)):
                    if not f.endswith(".cases.jsonl"):
                        os.remove(f)
                failed.append(ch)
                continue
            files += [f for f in sorted(glob.glob("%s.%s.*.ndjson" % (prefix, tag)))
                      if os.path.getsize(f) > 0]
            outs += json.load(open("%s.%s.outcomes.json" % (prefix, tag)))
        return files, outs, failed

    n = max(1, min(procs, len(cases)))
    files, outs, failed = go([cases[i::n] for i in range(n)], 0)
    depth = 1
    while failed:
        if depth > 2:
            raise Inconclusive("the sup driver died %d times, last:\n%s" % (len(crashes), crashes[-1]))
        todo = [c for ch in failed for c in ch]
        k = max(2, min(8, len(todo)))
        f2, o2, failed = go([todo[i::k] for i in range(k)], depth)
        files += f2
        outs += o2
        depth += 1
    outcomes = {o["label"]: o for o in outs}
    outcomes["_driver_crashes"] = dict(label="_driver_crashes", n=len(crashes),
                                       last=crashes[-1][-300:] if crashes else "")
    stuck = [o for o in outcomes.values() if o.get("stuck")]
    if stuck:
        raise Inconclusive("driver could not finish %d cases, e.g. %s: %s" % (
            len(stuck), stuck[0]["label"], stuck[0]["stuck"]))
    return files, outcomes


TRACE_CONSTS = dict(BootFault=True, MaxForks=0, MaxFail=0, MaxExpire=0, MaxConn=0, Rounds=5, MaxErr=0, MaxHb=0,
                    MaxCheck=0, MaxFlip=0, MaxEarly=0, MaxDrop=0, QueueLimit=0, Emit=False, Memo=False)


def validate(files, schema_file):
    """One TLC per ndjson shard (tlcrun.validate_traces + the regenerated schema module)."""
    def one(tf):
        c = dict(TRACE_CONSTS)
        c["TraceFile"] = "trace.ndjson"
        r = tlcrun.run_tlc("TraceSupervisor", dict(spec="TraceSpec", consts=c, view="TraceView"),
                           workers=1, timeout=2400,
                           files={tf: "trace.ndjson", schema_file: "SupSchema.tla"},
                           java_opts=JAVA_TRACE)
        res = tlcrun.parse_result(r["out"])
        if res is None and not r["timed_out"]:
            # a JVM that died (rc 255 / killed under memory pressure) is retried once
            r = tlcrun.run_tlc("TraceSupervisor", dict(spec="TraceSpec", consts=c, view="TraceView"),
                               workers=1, timeout=2400,
                               files={tf: "trace.ndjson", schema_file: "SupSchema.tla"},
                               java_opts=JAVA_TRACE)
            res = tlcrun.parse_result(r["out"])
        return dict(file=tf, result=res, out=r["out"], rc=r["rc"])
    with cf.ThreadPoolExecutor(max_workers=16) as ex:
        res = list(ex.map(one, files))
    viol, drift = [], []
    stat = Counter()
    for r in res:
        if r["result"] is None:
            raise Inconclusive("trace validation did not finish for %s (rc=%s):\n%s" % (
                r["file"], r["rc"], r["out"][-3000:]))
        nl = sum(1 for _ in open(r["file"]))
        if r["result"]["lines"] != nl:
            raise Inconclusive("trace %s not fully consumed" % r["file"])
        stat.update(r["result"]["stat"])
        stat["lines"] += nl
        viol += [(r["file"], l, f) for l, f in r["result"]["viol"]]
        drift += [(r["file"], l, f) for l, f in r["result"]["drift"]]
    return viol, drift, stat


def load_cases(path):
    out, cur = [], None
    with open(path) as f:
        for i, l in enumerate(f, 1):
            x = json.loads(l)
            if x["ev"] == "init":
                cur = (i, x["label"], [])
                out.append(cur)
            cur[2].append(x)
    return out


def by_case(files, items):
    """(file, line, name) -> {label: [(name, line obj, all lines of the case)]}"""
    out = defaultdict(list)
    per = defaultdict(list)
    for f, l, name in items:
        per[f].append((l, name))
    for f, lst in per.items():
        cs = load_cases(f)
        starts = [c[0] for c in cs]
        for l, name in sorted(lst):
            k = max(i for i, s0 in enumerate(starts) if s0 <= l)
            first, label, lines = cs[k]
            out[label].append((name, lines[l - first], lines))
    return out


# ---------------------------------------------------------------------------
# verdicts

def schedule_of(lines, upto=None):
    """The schedule as it happened on the real supervisor: harness steps and the
    supervisor transitions that touch the pool."""
    ev = []
    for x in lines:
        if upto is not None and x is upto:
            break
        if x["ev"] == "env" and x["k"] not in ("settle", "sleep", "waitfork", "waitstate") and \
                not (x["k"].endswith("any") and x["k"] != "relany"):
            a = x["k"]
            if x["f"]:
                a += "(%d%s)" % (x["f"], "" if x["k"] != "fork" else (",ok" if x["ok"] else ",fail"))
            if x["k"] == "err":
                a += "x%d" % max(x["n"], 1)
            ev.append(a)
        elif x["ev"] == "fork":
            ev.append("TestFork#%d" % x["f"])
    return ",".join(ev)


def err_summary(lines):
    """per worker: errors the supervisor accepted for it while tracked / errors it counted /
    whether a kill was requested"""
    init = lines[0]
    deliv, counted, kreq = Counter(), {}, set()
    for x in lines:
        if x["ev"] == "tx":
            if "ErrWorker" in x["called"] and x["op"] == "add" and x["acc"] and x["lk"] and not x["killerr"]:
                deliv[x["w"]] += 1
            for w in x["ws"]:
                counted[w["id"]] = max(counted.get(w["id"], 0), w["errs"])
            if ["state", "KillingWorker"] in x["hs"]:
                kreq.add(x["w"])
        elif x["ev"] == "kill" or (x["ev"] == "q" and x["state"] == "KillingWorker" and x["op"] == "add"):
            kreq.add(x["w"])
    bad = [w for w in deliv if deliv[w] > init["errkill"] and w not in kreq]
    return "; ".join("worker %d: %d errors accepted, %d counted (workerInfo.errs), WorkerErrKill=%d, "
                     "no kill requested" % (w, deliv[w], counted.get(w, 0), init["errkill"]) for w in bad)


def cause_of(name, line, lines):
    if name == "WithinMax":
        # every fork was decided with len(workers) < Max, and still the map outgrew Max:
        # the forks in flight were not counted.  A fork decided at Max is another defect.
        # The forks-in-flight weakness explains a map that outgrew Max only when every entry
        # belongs to a fork of its own and was put there by SetWorkerState.
        for x in lines:
            if x["ev"] != "tx":
                continue
            if x["t"] > x["t0"] and ["state", "SetWorker"] not in x["hs"]:
                grown = [h[1] for h in x["hs"] if h[0] == "state"]
                return "entry-added-by-" + (grown[-1] if grown else "unknown")
            ids = [w["id"] for w in x["ws"]]
            if len(set(ids)) != len(ids):
                return "fork-tracked-twice"
            if x is line:
                break
        at_max = any(x["ev"] == "tx" and x["t0"] >= x["max"] and
                     (["state", "ForkingWorker"] in x["hs"] or ["state", "ForkWorker"] in x["hs"])
                     for x in lines)
        return "fork-decided-at-max" if at_max else "fork-gate-ignores-forks-in-flight"
    if name == "KillRequestedDelivered":
        lost = any(x["ev"] == "tx" and "ErrWorker" in x["called"] and x["op"] == "add" and x["acc"]
                   and x["lk"] and not x["killerr"] and ["state", "ErrWorker"] not in x["hs"]
                   for x in lines)
        return "errworker-not-multi-error-not-counted" if lost else "unknown"
    if name.startswith("GroupsExclusive"):
        return "group-" + name.split(".")[-1]
    return "gate"


def forked_before_set(txs, need_set):
    """WorkerForkedState ran for a worker no SetWorker had been processed for (and, with
    need_set, SetWorkerState ran for it afterwards)"""
    setw, forked = set(), set()
    for x in txs:
        if x["op"] != "add" or not x["acc"]:
            continue
        if x["called"] == ["SetWorker"] and ["state", "SetWorker"] in x["hs"]:
            if x["w"] in forked:
                return True
            setw.add(x["w"])
        elif x["called"] == ["WorkerForked"] and ["state", "WorkerForked"] in x["hs"] and x["w"] not in setw:
            forked.add(x["w"])
            if not need_set:
                return True
    return False


def forked_after_drop(txs):
    """WorkerForkedState ran for a worker whose boot entry had been removed again"""
    state = {}
    for x in txs:
        if x["op"] != "add" or not x["acc"]:
            continue
        if x["called"] == ["SetWorker"] and ["state", "SetWorker"] in x["hs"]:
            state[x["w"]] = "set" if x["info"] else "dropped"
        elif x["called"] == ["WorkerKilled"] and state.get(x["w"]) == "set":
            state[x["w"]] = "dropped"
        elif x["called"] == ["WorkerForked"] and ["state", "WorkerForked"] in x["hs"]:
            if state.get(x["w"]) == "dropped":
                return True
            state[x["w"]] = "forked"
    return False


def finals_of(files, label):
    for f in files:
        for first, lab, lines in load_cases(f):
            if lab == label:
                return lines
    return []


def report_violations(rep, viol, files, cases_by_label):
    classes = {}
    for label, items in by_case(files, viol).items():
        seen = set()
        for name, line, lines in items:
            if name in seen:
                continue
            seen.add(name)
            init = lines[0]
            cause = cause_of(name, line, lines)
            key = (name, cause)
            sch = schedule_of(lines, line if line["ev"] == "tx" else None)
            cand = (0 if label.startswith("canon-") else 1, len(sch), sch, label, line, init)
            if key not in classes or cand[:3] < classes[key][:3]:
                classes[key] = cand
    for key in sorted(classes):
        name, cause = key
        _, n, sch, label, line, init = classes[key]
        sig = dict(formula=name, cause=cause)
        cs = {k: v for k, v in cases_by_label[label].items() if not k.startswith("_")}
        what = dict(WithinMax="len(workers)=%s > Max=%s" % (line.get("t"), line.get("max")),
                    KillRequestedDelivered=err_summary(finals_of(files, label)),
                    KillRequested=err_summary(finals_of(files, label))).get(name, "")
        rep.violation(sig, dict(kind="sup", property=PROP, formula=name, cause=cause, case=cs),
                      "%s false on the real supervisor (Min=%d Max=%d Warm=%d ErrKill=%d): %s "
                      "schedule [%s] %s" % (name, init["min"], init["max"], init["warm"],
                                            init["errkill"], cause, sch, what))
    return classes


def nontrivial_key(lines):
    """non-trivial: at least two forks in flight at once, or a fork / pool gate refused, or
    an error / kill / disconnect happened.  key = settings + the order of pool-relevant
    supervisor transitions."""
    init = lines[0]
    inflight, maxfl, special = set(), 0, False
    order = []
    rel = {"ForkWorker", "ForkingWorker", "SetWorker", "WorkerForked", "WorkerKilled", "KillingWorker",
           "ErrWorker", "PoolReady", "Heartbeat", "NormalizingPool", "PoolNormalized"}
    for x in lines:
        if x["ev"] == "fork":
            inflight.add(x["f"])
            maxfl = max(maxfl, len(inflight))
        elif x["ev"] == "forkret":
            inflight.discard(x["f"])
        elif x["ev"] == "tx":
            c = [s for s in x["called"] if s in rel]
            if c and not (x["op"] == "remove" and c[0] not in ("PoolReady", "Heartbeat")):
                order.append((x["op"], c[0], x["w"], x["acc"]))
                if not x["acc"] or c[0] in ("ErrWorker", "WorkerKilled", "KillingWorker"):
                    special = True
    if maxfl < 2 and not special:
        return None
    return (init["min"], init["max"], init["warm"], init["errkill"], tuple(order))


def analyse(rep, files, viol, drift, stat, cases, outcomes):
    finals = {}
    for f in files:
        for first, label, lines in load_cases(f):
            finals[label] = lines
    by_label = {c["label"]: c for c in cases}
    for f, l, name in drift[:40]:
        rep.drift.append("%s line %d: %s" % (os.path.basename(f), l, name))
    classes = report_violations(rep, viol, files, by_label)
    keys = set()
    for label, lines in finals.items():
        k = nontrivial_key(lines)
        if k:
            keys.add(k)
    return finals, classes, keys


def check(tier):
    rep = Report(PROP, tier, "model_checking")
    sd = seed()
    rng = random.Random(sd)
    binary = build_harness()
    d = scratch(PROP)
    try:
        schema_file, sch = export_schema(binary, d, rep)
        with cf.ThreadPoolExecutor(max_workers=2) as pool:
            # the design half runs next to the binding half (different resources:
            # TLC is CPU bound, the driver mostly waits on supervisor timers)
            fut_mc = pool.submit(mc_verify, tier, rep, schema_file)

            # B3: TLC's witness schedules
            tcases, gen = [], []
            per_tag = 6 if tier == "quick" else 40
            ems = emit_models(tier)
            with cf.ThreadPoolExecutor(max_workers=len(ems)) as ex2:
                emitted = list(ex2.map(lambda m: emit_schedules(m, schema_file), ems))
            for m, (scheds, dist, gens) in zip(ems, emitted):
                pick, cnt = [], Counter()
                r2 = random.Random(sd * 7919 + len(gen))
                pools = defaultdict(list)
                for s in scheds:
                    for t in s["tags"]:
                        pools[t].append(s)
                for t in sorted(pools):
                    lst = pools[t]
                    head = lst[:max(2, per_tag // 3)]                 # the shortest ones
                    rest = [s for s in lst if s not in head]
                    for s in head + r2.sample(rest, min(len(rest), per_tag - len(head))):
                        if s not in pick:
                            pick.append(s)
                            cnt[t] += 1
                gen.append(dict(model=m["name"], witness_states=len(scheds), replayed=len(pick),
                                per_tag=dict(cnt), tlc_states=dist))
                for i, s in enumerate(pick):
                    tcases.append(sched_to_case(s, "tlc-%s-%d" % (m["name"], i)))
            fcases = family_cases(rng, tier)
            nr, nf = (40, 30) if tier == "quick" else (700, 500)
            rcases = rand_cases(rng, nr, True) + rand_cases(rng, nf, False)
            cases = tcases + fcases + rcases
            files, outcomes = run_driver(binary, cases, os.path.join(d, "run"))
            viol, drift, stat = validate(files, schema_file)
            mc_failure = None
            try:
                fut_mc.result()
            except Inconclusive as e:
                mc_failure = e

        finals, classes, keys = analyse(rep, files, viol, drift, stat, cases, outcomes)
        if mc_failure is not None:
            # a failed design half is inconclusive -- unless the real code already shows a
            # violation (e.g. an edited schema breaks a formula in the model AND in the traces)
            if not rep.violations:
                raise mc_failure
            rep.notes.append("design half failed: " + str(mc_failure)[:300])
            rep.coverage.setdefault("states", 1)
            rep.coverage.setdefault("transitions", 1)

        if not stat["forkedfirst"] or not stat["lateset"]:
            # the driver is supposed to force this order through the TestFork gate
            raise Inconclusive("no recorded execution has WorkerForked processed before SetWorker of "
                               "the same fork (%d) followed by the late SetWorker (%d)" % (
                                   stat["forkedfirst"], stat["lateset"]))

        # were TLC's witnesses realised on the real supervisor?
        realised = Counter()
        wanted = Counter()
        viol_by_label = defaultdict(set)
        for label, items in by_case(files, viol).items():
            for name, line, lines in items:
                viol_by_label[label].add(name)
        for c in tcases:
            lines = finals[c["label"]]
            txs = [x for x in lines if x["ev"] == "tx"]
            for t in c["_tags"]:
                wanted[t] += 1
                hit = dict(
                    overfork=any(x["t"] > x["max"] for x in txs),
                    short=any(x["called"] == ["PoolReady"] and x["op"] == "add" and not x["acc"]
                              for x in txs),
                    withdrawn=any("PoolReady" in x["before"] and "PoolReady" not in x["after"]
                                  for x in txs),
                    kept=any(x["called"] == ["PoolReady"] and x["op"] == "remove" and not x["acc"]
                             for x in txs),
                    kill=any(x["ev"] == "kill" for x in lines),
                    forkedfirst=forked_before_set(txs, False),
                    lateset=forked_before_set(txs, True),
                    forkeddropped=forked_after_drop(txs),
                    errlost=any("ErrWorker" in x["called"] and x["op"] == "add" and x["acc"] and x["lk"]
                                and ["state", "ErrWorker"] not in x["hs"] for x in txs))[t]
                realised[t] += 1 if hit else 0
        crashes = outcomes.pop("_driver_crashes")
        miss = sum(1 for o in outcomes.values() if o.get("miss"))
        if crashes["n"]:
            rep.notes.append("a driver process died %d time(s) on a library goroutine panic; its cases "
                             "were re-run: %s" % (crashes["n"], crashes["last"].strip()[:200]))
        samples = []
        for key, (_, n, sch, label, line, init) in sorted(classes.items())[:6]:
            samples.append(dict(formula=key[0], cause=key[1], case=label,
                                pool=[init["min"], init["max"], init["warm"], init["errkill"]],
                                schedule=sch, observed={k: line.get(k) for k in
                                                        ("called", "w", "t0", "t", "r0", "r", "max", "mineff")
                                                        if k in line}))
        if not samples:
            lab = cases[0]["label"]
            samples.append(dict(case=lab, schedule=schedule_of(finals[lab])))
        rep.coverage.update(
            traces_validated_against_impl=len(finals), evaluations=stat["tx"] + stat["wtx"],
            distinct_nontrivial=len(keys), trace_lines=stat["lines"],
            supervisor_transitions=stat["tx"], worker_transitions=stat["wtx"],
            transitions_predicted_by_spec=stat["predicted"], gate_decisions_compared=stat["gates"],
            faulted_transitions=stat["faulted"], samples_moved_during_tx=stat["unstable"],
            poolready_activations=stat["activations"], poolready_withdrawals=stat["withdrawals"],
            poolready_exit_refused=stat["kept"], poolready_enter_refused=stat["short"],
            poolready_active_while_short_samples=stat["stale"],
            forks=stat["forks"], fork_gate_refusals=stat["forkrejects"], kills=stat["kills"],
            worker_errors_delivered=stat["errs"], worker_errors_not_counted=stat["errlost"],
            samples_over_max=stat["overmax"],
            workerforked_before_setworker=stat["forkedfirst"], setworker_after_workerforked=stat["lateset"],
            workerforked_after_boot_entry_dropped=stat["forkeddropped"],
            map_grew_outside_setworker=stat["grewoutside"],
            schedule_generation=gen, tlc_schedules_replayed=len(tcases),
            tlc_witnesses_wanted=dict(wanted), tlc_witnesses_realised=dict(realised),
            family_cases=len(fcases), random_cases=len(rcases), cases_with_unrealised_steps=miss,
            violating_cases=len(by_case(files, viol)),
            violation_classes=[dict(formula=k[0], cause=k[1]) for k in sorted(classes)],
            formulas=["WithinMax", "NoForkAtMax", "PoolReadyHonest", "PoolReadyKept", "KillRequested",
                      "KillRequestedDelivered", "GroupsExclusive.PoolStatus",
                      "GroupsExclusive.PoolNormalized", "GroupsExclusive.WorkStatus"],
            rule="cases = (Min, Max, Warm, WorkerErrKill, schedule of fork returns ok/fail, worker "
                 "connects (after the fork call returned, or before: WorkerForked ahead of SetWorker), "
                 "ready flips, disconnects, worker errors (single / bursts while the "
                 "supervisor is busy), kill confirmations, heartbeats, CheckPool) on a real Supervisor "
                 "with real in-memory workers: TLC's witness schedules + scenario families over "
                 "Min/Max/Warm 0..3 (some up to 6) + random gated and free-running schedules; one "
                 "evaluation = the formulas on the logged values of one supervisor / worker "
                 "transition; distinct = distinct (settings, order of pool-relevant supervisor "
                 "transitions with their outcome); non-trivial = >= 2 forks in flight at once, or a "
                 "gate refused, or an error / kill happened",
            samples=samples, exhaustive=False,
            spec_variant_validated="code (cfg.gate = FALSE, ErrWorker as in the tree's schema)")
        rep.assumptions += [
            "TLC explores the stated sub-models (fork attempts, errors, flips, rounds bounded); "
            "pool settings beyond 0..3 are covered by recorded executions only",
            "workers are in-memory node.Worker instances with the shipped WorkerSchema over loopback "
            "TCP; the TestFork seam returns before the worker process exists (like exec.Cmd.Start) or "
            "after the worker has announced itself (a seam that is slow to return)",
            "readiness is the supervisor's own view (readyWorkers() on its replicas), error TTLs "
            "(10 min / 1 min) do not expire within a case",
            "supervisor timings are shortened (ConnTimeout 600ms, PoolPause 150ms, "
            "WorkerCheckInterval 50ms, worker push interval 15ms); the supervisor machine's "
            "handler timeout is 1s in most cases (default 100ms in some)"]
    finally:
        shutil.rmtree(d, ignore_errors=True)
    return rep.finish()


def replay(path):
    obj = json.load(open(path))
    rep = Report(PROP, os.environ.get("VERIF_TIER", "quick"), "model_checking")
    binary = build_harness()
    d = scratch(PROP + "-replay")
    try:
        schema_file, sch = export_schema(binary, d, rep)
        cs = obj["case"]
        n = 1 if cs.get("gated") else 20
        cases = [dict(cs, label="%s#%d" % (cs["label"], i)) for i in range(n)]
        files, outcomes = run_driver(binary, cases, os.path.join(d, "replay"), shards=1, procs=1)
        outcomes.pop("_driver_crashes")
        viol, drift, stat = validate(files, schema_file)
        hit = 0
        for label, items in by_case(files, [v for v in viol if v[2] == obj["formula"]]).items():
            name, line, lines = items[0]
            hit += 1
            if hit == 1:
                obs = json.dumps({k: line.get(k) for k in ("called", "t", "max", "r", "mineff")}) \
                    if line["ev"] == "tx" else err_summary(lines)
                rep.violation(dict(formula=name, cause=cause_of(name, line, lines)), obj,
                              "%s false again: [%s] -> %s" % (
                                  name, schedule_of(lines, line if line["ev"] == "tx" else None), obs))
        rep.coverage.update(evaluations=max(stat["tx"], 1), distinct_nontrivial=2, rule="replay",
                            samples=[cs["label"]], states=1, transitions=1,
                            traces_validated_against_impl=len(cases), reproduced=hit)
    finally:
        shutil.rmtree(d, ignore_errors=True)
    return rep.finish()


if __name__ == "__main__":
    sys.exit(check(sys.argv[1] if len(sys.argv) > 1 else "quick"))
