// Package rec records what a real asyncmachine-go machine does, as ndjson
// events that the TLA+ trace specifications consume.
package rec

import (
	"bufio"
	"encoding/json"
	"fmt"
	"io"
	"sync"

	am "github.com/pancsta/asyncmachine-go/pkg/machine"
)

// HName is a handler name as a tuple: ["exit","A"], ["ss","A","B"], ...
type HName []string

func (h HName) Key() string {
	s := ""
	for i, p := range h {
		if i > 0 {
			s += ":"
		}
		s += p
	}
	return s
}

// GoName returns the Go method-name of the handler.
func (h HName) GoName() string {
	switch h[0] {
	case "exit":
		return h[1] + "Exit"
	case "enter":
		return h[1] + "Enter"
	case "self":
		return h[1] + h[1]
	case "ss":
		return h[1] + h[2]
	case "anyenter":
		return "AnyEnter"
	case "end":
		return h[1] + "End"
	case "state":
		return h[1] + "State"
	case "anystate":
		return "AnyState"
	}
	panic("bad handler kind " + h[0])
}

func IsFinal(h HName) bool {
	return h[0] == "end" || h[0] == "state" || h[0] == "anystate"
}

// AllHandlerNames lists every handler name over the index.
func AllHandlerNames(index am.S) (neg []HName, fin []HName) {
	for _, s := range index {
		neg = append(neg, HName{"exit", s})
	}
	for _, s := range index {
		neg = append(neg, HName{"enter", s})
	}
	for _, s := range index {
		neg = append(neg, HName{"self", s})
	}
	for _, a := range index {
		for _, b := range index {
			if a != b {
				neg = append(neg, HName{"ss", a, b})
			}
		}
	}
	neg = append(neg, HName{"anyenter"})
	for _, s := range index {
		fin = append(fin, HName{"end", s})
	}
	for _, s := range index {
		fin = append(fin, HName{"state", s})
	}
	fin = append(fin, HName{"anystate"})
	return
}

type HCall struct {
	B   int    `json:"b"`
	H   HName  `json:"h"`
	See am.S   `json:"see"`
	Ret string `json:"ret,omitempty"`
}

type MutJ struct {
	Type   string `json:"type"`
	Called am.S   `json:"called"`
	Auto   bool   `json:"auto"`
	Check  bool   `json:"check"`
}

type TxJ struct {
	Ev       string   `json:"ev"`
	Mut      MutJ     `json:"mut"`
	Accepted bool     `json:"accepted"`
	Before   am.S     `json:"before"`
	After    am.S     `json:"after"`
	Tb       []uint64 `json:"tb"`
	Ta       []uint64 `json:"ta"`
	Tp       []uint64 `json:"tp"`
	Mtime    []uint64 `json:"mtime"`
	Target0  am.S     `json:"target0"`
	Target   am.S     `json:"target"`
	Exits    am.S     `json:"exits"`
	Enters   am.S     `json:"enters"`
	Hlog     []HCall  `json:"hlog"`
	Vetoed   [][]any  `json:"vetoed"`
	Tlog     []string `json:"tlog"`
	Qtick    uint64   `json:"qtick"`
	Foreign  bool     `json:"tforeign"`
}

// Script is what the handlers of the current call do.
type Script struct {
	Veto  map[string]bool         // key: "<b>|<hname key>"
	Panic map[string]any          // value to panic with
	Nest  map[string][]NestedMut  // mutations a handler issues
	Stall map[string]chan struct{} // handler blocks on the channel
	// AllStalls keeps every stall channel (entries of Stall are removed when fired)
	AllStalls []chan struct{}
	// Blocking are the channels handlers are currently blocked on
	Blocking []chan struct{}
	// Dead: stalls that are not released when the timeout is reported (the
	// handler outlives HandlerDeadline); their channels live on the Recorder
	Dead map[string]bool
}

// NestedObs is one handler-issued mutation as the handler saw it.
type NestedObs struct {
	Type  string `json:"type"`
	Exc   bool   `json:"exc"`   // Exception is among the called states
	Qlen  int    `json:"qlen"`  // Machine.QueueLen() right before the call
	IsErr bool   `json:"iserr"` // Machine.IsErr() right before the call
	Res   string `json:"res"`
}

type NestedMut struct {
	Type   string `json:"type"`
	Called am.S   `json:"called"`
}

func SKey(b int, h HName) string {
	return string(rune('0'+b)) + "|" + h.Key()
}

// Recorder collects events of ONE machine.
type Recorder struct {
	*am.TracerNoOp
	mu     sync.Mutex
	Mach   *am.Machine
	Lines  []any
	cur    *TxJ
	curId  string
	script *Script
	// NestedRes collects the results of nested mutations of the current call
	NestedRes []string
	// NestedObs: what each nested mutation met (queue length, error state) and
	// what it was answered
	NestedObs []NestedObs
	// FiredPanics are the messages of the panics raised during the current call
	FiredPanics []string
	// OnHandler, if set, is called inside every handler body
	OnHandler func(b int, h HName, e *am.Event)
	// channels of the handlers that outlive HandlerDeadline (Script.Dead)
	deadChans []chan struct{}
}

func NewRecorder() *Recorder {
	return &Recorder{TracerNoOp: &am.TracerNoOp{Id: "verif-rec"}, script: &Script{}}
}

func (r *Recorder) SetScript(s *Script) {
	r.mu.Lock()
	defer r.mu.Unlock()
	if s == nil {
		s = &Script{}
	}
	r.script = s
	r.NestedRes = nil
	r.NestedObs = nil
	r.FiredPanics = nil
}

func (r *Recorder) Add(line any) {
	r.mu.Lock()
	defer r.mu.Unlock()
	r.Lines = append(r.Lines, line)
}

func mutType(t am.MutationType) string {
	switch t {
	case am.MutationAdd:
		return "add"
	case am.MutationRemove:
		return "remove"
	case am.MutationSet:
		return "set"
	}
	return "eval"
}

func u64(t am.Time) []uint64 {
	ret := make([]uint64, len(t))
	copy(ret, t)
	return ret
}

func s(x am.S) am.S {
	if x == nil {
		return am.S{}
	}
	return append(am.S{}, x...)
}

func (r *Recorder) TransitionInit(t *am.Transition) {
	r.mu.Lock()
	defer r.mu.Unlock()
	foreign := r.cur != nil
	r.cur = &TxJ{
		Ev: "tx",
		Mut: MutJ{Type: mutType(t.Mutation.Type), Called: s(t.CalledStates()),
			Auto: t.Mutation.IsAuto, Check: t.Mutation.IsCheck},
		Target0: s(t.TargetStates()),
		Tp:      u64(t.TimeAfter),
		Tlog:    []string{"init"},
		Hlog:    []HCall{},
		Vetoed:  [][]any{},
		Foreign: foreign,
	}
	r.curId = t.Id
}

func (r *Recorder) TransitionStart(t *am.Transition) {
	r.mu.Lock()
	defer r.mu.Unlock()
	if r.cur == nil || r.curId != t.Id {
		r.Lines = append(r.Lines, map[string]any{"ev": "stray", "cb": "start"})
		return
	}
	r.cur.Tlog = append(r.cur.Tlog, "start")
}

func (r *Recorder) TransitionFinals(t *am.Transition) {
	r.mu.Lock()
	defer r.mu.Unlock()
	if r.cur == nil || r.curId != t.Id {
		r.Lines = append(r.Lines, map[string]any{"ev": "stray", "cb": "finals"})
		return
	}
	r.cur.Tlog = append(r.cur.Tlog, "finals")
}

func (r *Recorder) TransitionEnd(t *am.Transition) {
	r.mu.Lock()
	defer r.mu.Unlock()
	if r.cur == nil || r.curId != t.Id {
		r.Lines = append(r.Lines, map[string]any{"ev": "stray", "cb": "end"})
		return
	}
	c := r.cur
	c.Tlog = append(c.Tlog, "end")
	c.Accepted = t.IsAccepted.Load()
	c.Before = s(t.StatesBefore())
	c.Tb = u64(t.TimeBefore)
	c.Ta = u64(t.TimeAfter)
	c.Target = s(t.TargetStates())
	c.Exits = s(t.Exits)
	c.Enters = s(t.Enters)
	m := t.Machine
	c.After = s(m.ActiveStates(nil))
	c.Mtime = u64(m.Time(nil))
	c.Qtick = m.QueueTick()
	r.Lines = append(r.Lines, c)
	r.cur = nil
}

// handler body
func (r *Recorder) onHandler(b int, h HName, e *am.Event) (ret bool) {
	m := e.Machine()
	see := s(m.ActiveStates(nil))
	key := SKey(b, h)
	r.mu.Lock()
	sc := r.script
	veto := sc.Veto[key]
	pv, doPanic := sc.Panic[key]
	nest := sc.Nest[key]
	stall := sc.Stall[key]
	// scripted faults and nested mutations are one-shot
	if len(nest) > 0 {
		delete(sc.Nest, key)
	}
	if doPanic {
		delete(sc.Panic, key)
	}
	if stall != nil {
		delete(sc.Stall, key)
		if sc.Dead[key] {
			r.deadChans = append(r.deadChans, stall)
		} else {
			sc.Blocking = append(sc.Blocking, stall)
		}
	}
	call := HCall{B: b, H: h, See: see}
	if r.cur != nil {
		r.cur.Hlog = append(r.cur.Hlog, call)
		if veto && !IsFinal(h) {
			r.cur.Vetoed = append(r.cur.Vetoed, []any{b, h})
		}
	} else {
		r.Lines = append(r.Lines, map[string]any{"ev": "stray", "cb": "handler", "h": h})
	}
	hook := r.OnHandler
	r.mu.Unlock()

	if hook != nil {
		hook(b, h, e)
	}
	for _, n := range nest {
		var res am.Result
		ob := NestedObs{Type: n.Type, Qlen: int(m.QueueLen()), IsErr: m.IsErr()}
		for _, cs := range n.Called {
			if cs == am.StateException {
				ob.Exc = true
			}
		}
		switch n.Type {
		case "add":
			res = m.Add(n.Called, nil)
		case "remove":
			res = m.Remove(n.Called, nil)
		case "set":
			res = m.Set(n.Called, nil)
		}
		r.mu.Lock()
		r.NestedRes = append(r.NestedRes, ResStr(res))
		ob.Res = ResStr(res)
		r.NestedObs = append(r.NestedObs, ob)
		r.mu.Unlock()
	}
	if stall != nil {
		<-stall
	}
	if doPanic {
		r.mu.Lock()
		r.FiredPanics = append(r.FiredPanics, fmt.Sprint(pv))
		r.mu.Unlock()
		panic(pv)
	}
	return !veto
}

func ResStr(res am.Result) string {
	switch res {
	case am.Executed:
		return "executed"
	case am.Canceled:
		return "canceled"
	}
	return "queued"
}

// ReleaseBlocked releases the handlers that are blocked right now (their
// timeout has been reported).
func (r *Recorder) ReleaseBlocked() {
	r.mu.Lock()
	defer r.mu.Unlock()
	for _, ch := range r.script.Blocking {
		select {
		case <-ch:
		default:
			close(ch)
		}
	}
	r.script.Blocking = nil
}

// ReleaseDead lets the handlers that outlived HandlerDeadline return; it
// reports how many there were.
func (r *Recorder) ReleaseDead() int {
	r.mu.Lock()
	defer r.mu.Unlock()
	n := len(r.deadChans)
	for _, ch := range r.deadChans {
		close(ch)
	}
	r.deadChans = nil
	return n
}

// NLines is the number of lines collected since the last Take.
func (r *Recorder) NLines() int {
	r.mu.Lock()
	defer r.mu.Unlock()
	return len(r.Lines)
}

// ReleaseStalls closes every stall channel of the current script.
func (r *Recorder) ReleaseStalls() {
	r.mu.Lock()
	defer r.mu.Unlock()
	for _, ch := range r.script.AllStalls {
		select {
		case <-ch:
		default:
			close(ch)
		}
	}
}

// Binding describes one handler binding: which handler names it owns.
type Binding struct {
	Neg []HName `json:"neg"`
	Fin []HName `json:"fin"`
	// Form: how the binding reaches the machine (forms.go); "" = "map"
	Form string `json:"form,omitempty"`
}

// Bind binds a map-based handler set (1-based binding number b) to the machine.
func (r *Recorder) Bind(m *am.Machine, b int, bd Binding) error {
	neg := map[string]am.HandlerNegotiation{}
	fin := map[string]am.HandlerFinal{}
	for _, h := range bd.Neg {
		h := h
		neg[h.GoName()] = func(e *am.Event) bool { return r.onHandler(b, h, e) }
	}
	for _, h := range bd.Fin {
		h := h
		fin[h.GoName()] = func(e *am.Event) { r.onHandler(b, h, e) }
	}
	_, err := m.HandlersBindMaps(neg, fin, am.BindOpts{Id: "vb" + string(rune('0'+b))})
	return err
}

// Flush writes and clears the collected lines.
func (r *Recorder) Flush(w io.Writer) error {
	r.mu.Lock()
	defer r.mu.Unlock()
	bw := bufio.NewWriter(w)
	enc := json.NewEncoder(bw)
	for _, l := range r.Lines {
		if err := enc.Encode(l); err != nil {
			return err
		}
	}
	r.Lines = nil
	return bw.Flush()
}

// Take returns and clears the collected lines.
func (r *Recorder) Take() []any {
	r.mu.Lock()
	defer r.mu.Unlock()
	l := r.Lines
	r.Lines = nil
	return l
}
