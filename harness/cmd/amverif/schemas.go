package main

import (
	"bufio"
	"encoding/json"
	"flag"
	"fmt"
	"io"
	"os"
	"runtime"
	"sync"
	"sync/atomic"

	"verifharness/schemas"
)

func init() {
	commands["schemas-discover"] = cmdSchemasDiscover
	commands["schemas-gen"] = cmdSchemasGen
	commands["schemas-bfs"] = cmdSchemasBfs
	commands["schemas-replay"] = cmdSchemasReplay
	commands["schemas-path"] = cmdSchemasPath
	commands["schemas-build"] = cmdSchemasBuild
}

// schemas-bfs: breadth-first search with the real machine for every record of
// the input (sizing, dead states); -states writes the reached sets of record k
// to <prefix>.<k>.ndjson for TLC (TraceSchemas).  One JSON line per record.
func cmdSchemasBfs(args []string) int {
	fs := flag.NewFlagSet("schemas-bfs", flag.ExitOnError)
	inp := fs.String("in", "", "input records (ndjson)")
	states := fs.String("states", "", "prefix of the per-record state files")
	_ = fs.Parse(args)
	ins, err := schemas.ReadInputs(*inp)
	if err != nil {
		fmt.Fprintln(os.Stderr, err)
		return 2
	}
	// several records at a time (most are small), output in input order
	lines := make([]string, len(ins))
	sem := make(chan struct{}, 6)
	var wg sync.WaitGroup
	var failed atomic.Bool
	for k, in := range ins {
		wg.Add(1)
		sem <- struct{}{}
		go func(k int, in *schemas.Input) {
			defer wg.Done()
			defer func() { <-sem }()
			g, err := schemas.BFS(in, in.Max, (runtime.NumCPU()+1)/2)
			if err != nil {
				b, _ := json.Marshal(map[string]any{"k": k + 1, "id": in.ID, "error": err.Error()})
				lines[k] = string(b)
				return
			}
			if *states != "" {
				f, err := os.Create(fmt.Sprintf("%s.%d.ndjson", *states, k+1))
				if err != nil {
					fmt.Fprintln(os.Stderr, err)
					failed.Store(true)
					return
				}
				bw := bufio.NewWriter(f)
				ps := make([][]int, len(g.States))
				for i, s := range g.States {
					ps[i] = s.Pos1()
				}
				schemas.WriteStates(json.NewEncoder(bw), ps)
				_ = bw.Flush()
				_ = f.Close()
			}
			depth := 0
			for _, d := range g.Depth {
				if int(d) > depth {
					depth = int(d)
				}
			}
			b, _ := json.Marshal(map[string]any{"k": k + 1, "id": in.ID, "mode": in.Mode, "label": in.Label,
				"states": len(g.States), "edges": g.Edges, "ops": len(schemas.Ops(in)), "depth": depth,
				"truncated": g.Truncated, "never_active": g.NeverActive(in)})
			lines[k] = string(b)
		}(k, in)
	}
	wg.Wait()
	if failed.Load() {
		return 2
	}
	for _, l := range lines {
		fmt.Println(l)
	}
	return 0
}

// schemas-replay: stdin = TLC's output; every printed edge is executed on the
// real machine.  Prints one JSON line per input record.
func cmdSchemasReplay(args []string) int {
	fs := flag.NewFlagSet("schemas-replay", flag.ExitOnError)
	inp := fs.String("in", "", "input records (ndjson)")
	paths := fs.Int("paths", 200, "tree paths replayed on fresh machines, per record")
	seed := fs.Int64("seed", 1, "seed of the path sample")
	tlcout := fs.String("tlcout", "", "file receiving TLC's non-edge output")
	trace := fs.String("trace", "", "prefix of the per-record ndjson for TraceSchemas")
	_ = fs.Parse(args)
	ins, err := schemas.ReadInputs(*inp)
	if err != nil {
		fmt.Fprintln(os.Stderr, err)
		return 2
	}
	var ow io.Writer
	if *tlcout != "" {
		other, err := os.Create(*tlcout)
		if err != nil {
			fmt.Fprintln(os.Stderr, err)
			return 2
		}
		defer other.Close()
		ow = other
	}
	sts, err := schemas.Replay(ins, os.Stdin, ow, *paths, *seed, *trace)
	if err != nil {
		fmt.Fprintln(os.Stderr, err)
		return 2
	}
	for _, st := range sts {
		b, _ := json.Marshal(st)
		fmt.Println(string(b))
	}
	return 0
}

// schemas-discover: static scan of the repository for exported schema
// variables; prints one JSON document.
func cmdSchemasDiscover(args []string) int {
	fs := flag.NewFlagSet("schemas-discover", flag.ExitOnError)
	repo := fs.String("repo", "/repo", "repository root")
	_ = fs.Parse(args)
	cands, err := schemas.Discover(*repo)
	if err != nil {
		fmt.Fprintln(os.Stderr, err)
		return 2
	}
	b, _ := json.MarshalIndent(cands, "", " ")
	fmt.Println(string(b))
	return 0
}

// schemas-gen: discovery + the generated dump program (a scratch module).
func cmdSchemasGen(args []string) int {
	fs := flag.NewFlagSet("schemas-gen", flag.ExitOnError)
	repo := fs.String("repo", "/repo", "repository root")
	out := fs.String("out", "", "directory of the generated module")
	only := fs.String("only", "", "restrict to one import path")
	_ = fs.Parse(args)
	cands, err := schemas.Discover(*repo)
	if err != nil {
		fmt.Fprintln(os.Stderr, err)
		return 2
	}
	n, err := schemas.Generate(cands, *repo, *out, *only)
	if err != nil {
		fmt.Fprintln(os.Stderr, err)
		return 2
	}
	b, _ := json.Marshal(map[string]any{"candidates": cands, "generated": n})
	fmt.Println(string(b))
	return 0
}

// schemas-path: -find '[positions]' prints the operations of the real
// machine's search tree that reach the set; -ops '[..]' executes operations
// (+k Add1(idx[k]), -k Remove1) on a fresh machine from the empty set and
// prints the steps as TraceSchemas events.
func cmdSchemasPath(args []string) int {
	fs := flag.NewFlagSet("schemas-path", flag.ExitOnError)
	inp := fs.String("in", "", "input record (ndjson, the first record is used)")
	find := fs.String("find", "", "JSON list of 1-based positions")
	ops := fs.String("ops", "", "JSON list of operations")
	_ = fs.Parse(args)
	ins, err := schemas.ReadInputs(*inp)
	if err != nil || len(ins) == 0 {
		fmt.Fprintln(os.Stderr, "input:", err)
		return 2
	}
	in := ins[0]
	if *find != "" {
		var pos []int
		if err := json.Unmarshal([]byte(*find), &pos); err != nil {
			fmt.Fprintln(os.Stderr, err)
			return 2
		}
		g, err := schemas.BFS(in, in.Max, 0)
		if err != nil {
			fmt.Fprintln(os.Stderr, err)
			return 2
		}
		var want schemas.Set
		for _, p := range pos {
			want.Put(p - 1)
		}
		id, ok := g.ID[want]
		if !ok {
			fmt.Println(`{"ops":null}`)
			return 0
		}
		path := g.PathTo(id)
		if path == nil {
			path = []int{}
		}
		b, _ := json.Marshal(map[string]any{"ops": path})
		fmt.Println(string(b))
		return 0
	}
	var path []int
	if err := json.Unmarshal([]byte(*ops), &path); err != nil {
		fmt.Fprintln(os.Stderr, err)
		return 2
	}
	steps, err := schemas.RunOps(in, path)
	if err != nil {
		fmt.Fprintln(os.Stderr, err)
		return 2
	}
	fmt.Println(`{"ev":"reset"}`)
	for _, e := range steps {
		b, _ := json.Marshal(e)
		fmt.Println(string(b))
	}
	return 0
}

// schemas-build: the schema builders (Extend / Set / Merge ...) called on an
// enumerated input space; one ndjson event per call for TraceSchemaBuild.tla.
func cmdSchemasBuild(args []string) int {
	fs := flag.NewFlagSet("schemas-build", flag.ExitOnError)
	out := fs.String("out", "", "output ndjson")
	seed := fs.Int64("seed", 1, "seed")
	n := fs.Int("n", 400, "random cases")
	_ = fs.Parse(args)
	f, err := os.Create(*out)
	if err != nil {
		fmt.Fprintln(os.Stderr, err)
		return 2
	}
	defer f.Close()
	k, err := schemas.RunBuilders(f, *seed, *n)
	if err != nil {
		fmt.Fprintln(os.Stderr, err)
		return 2
	}
	fmt.Printf("{\"events\": %d}\n", k)
	return 0
}
