package main

import (
	"bufio"
	"encoding/json"
	"flag"
	"fmt"
	"os"
	"sync"

	"verifharness/rpcdiff"
)

func init() { commands["rpcdiff"] = cmdRpcDiff }

// cmdRpcDiff generates clock-diff cases (or reads them), runs them on the real
// pkg/rpc encoder / decoder and writes ndjson shards <out>.<k>.ndjson.
func cmdRpcDiff(args []string) int {
	fs := flag.NewFlagSet("rpcdiff", flag.ExitOnError)
	mode := fs.String("mode", "exh", "exh|first|rnd|file")
	seed := fs.Int64("seed", 1, "seed")
	nmin := fs.Int("nmin", 1, "exh/first: min state count")
	nmax := fs.Int("nmax", 3, "exh/first: max state count")
	maxd := fs.Int("maxd", 4, "exh: max per-state delta; first: max per-state value")
	n := fs.Int("n", 1000, "rnd: number of cases")
	in := fs.String("in", "", "file: ndjson of cases")
	out := fs.String("out", "rpcdiff", "output prefix")
	shards := fs.Int("shards", 1, "number of output shards")
	fs.Parse(args)

	chans := make([]chan *rpcdiff.Case, *shards)
	drivers := make([]*rpcdiff.Driver, *shards)
	errs := make([]error, *shards)
	var wg sync.WaitGroup
	for k := 0; k < *shards; k++ {
		chans[k] = make(chan *rpcdiff.Case, 256)
		drivers[k] = rpcdiff.NewDriver()
		wg.Add(1)
		go func(k int) {
			defer wg.Done()
			fh, err := os.Create(fmt.Sprintf("%s.%d.ndjson", *out, k))
			if err != nil {
				errs[k] = err
				for range chans[k] {
				}
				return
			}
			defer fh.Close()
			w := bufio.NewWriterSize(fh, 1<<20)
			defer w.Flush()
			for c := range chans[k] {
				if errs[k] != nil {
					continue
				}
				if err := drivers[k].Run(c, w); err != nil {
					errs[k] = err
				}
			}
		}(k)
	}
	i := 0
	emit := func(c *rpcdiff.Case) {
		chans[i%*shards] <- c
		i++
	}
	switch *mode {
	case "exh":
		rpcdiff.Exhaustive(*nmin, *nmax, *maxd, *seed, emit)
	case "first":
		rpcdiff.ExhaustiveFirst(*nmin, *nmax, *maxd, *seed, emit)
	case "rnd":
		rpcdiff.Sampled(*n, *seed, emit)
	case "file":
		fh, err := os.Open(*in)
		if err != nil {
			fmt.Fprintln(os.Stderr, err)
			return 2
		}
		sc := bufio.NewScanner(fh)
		sc.Buffer(make([]byte, 1<<20), 1<<26)
		for sc.Scan() {
			if len(sc.Bytes()) == 0 {
				continue
			}
			c := &rpcdiff.Case{}
			if err := json.Unmarshal(sc.Bytes(), c); err != nil {
				fmt.Fprintln(os.Stderr, err)
				return 2
			}
			emit(c)
		}
		fh.Close()
	default:
		fmt.Fprintln(os.Stderr, "unknown mode", *mode)
		return 2
	}
	for k := range chans {
		close(chans[k])
	}
	wg.Wait()
	total := rpcdiff.Stats{Kinds: map[string]int{}}
	seen := map[uint64]struct{}{}
	for k, d := range drivers {
		if errs[k] != nil {
			fmt.Fprintln(os.Stderr, "driver error:", errs[k])
			return 2
		}
		s := d.Stats
		total.Cases += s.Cases
		total.Lines += s.Lines
		total.Probes += s.Probes
		total.Nontrivial += s.Nontrivial
		total.Rejected += s.Rejected
		total.Panics += s.Panics
		for kind, v := range s.Kinds {
			total.Kinds[kind] += v
		}
		for h := range d.Seen {
			seen[h] = struct{}{}
		}
	}
	total.Distinct = len(seen)
	js, _ := json.Marshal(total)
	fmt.Println(string(js))
	return 0
}
