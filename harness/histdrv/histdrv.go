// Package histdrv drives REAL pkg/history memories (in-process, bbolt, badger,
// gorm/sqlite) through generated workloads and records, as ndjson for
// spec/TraceHistory.tla:
//
//	case    the tracking configuration as the memory reports it
//	tx      every transition of the tracked machine (independent reference
//	        tracer) + MachineRecord().NextId right after the history tracer ran
//	log     the stored records (direct scan of the store, NOT through FindLatest)
//	q       every query and its answer (records identified by their id)
//	import  Machine.Export -> fresh machine -> Machine.Import
//	crash   (persistent backends) the store's files copied after Sync (= the
//	        process stops here) and reopened
//	restart (persistent backends) the process stops after Sync and a NEW process
//	        (new machine, new memory) re-opens the SAME store and goes on with
//	        the workload
//
// State indexes in the log are 1-based machine indexes.
package histdrv

import (
	"context"
	"encoding/json"
	"fmt"
	"math/rand"
	"os"
	"slices"
	"sort"
	"strings"
	"time"

	amhist "github.com/pancsta/asyncmachine-go/pkg/history"
	am "github.com/pancsta/asyncmachine-go/pkg/machine"
)

// ---------------------------------------------------------------------------
// case description (also the replay format)

type CfgJ struct {
	Called    am.S `json:"called"`
	CalledEx  bool `json:"calledEx"`
	Changed   am.S `json:"changed"`
	ChangedEx bool `json:"changedEx"`
	Rejected  bool `json:"rejected"`
	Tracked   am.S `json:"tracked"`
	Max       int  `json:"max"`
	Batch     int  `json:"batch"`
}

type MutJ struct {
	Type   string `json:"type"` // add remove set canadd canremove
	States am.S   `json:"states"`
	Veto   bool   `json:"veto"`
	Sync   bool   `json:"sync"` // call Sync() after this mutation
	// Restart (persistent backends; implies Sync): after this mutation the
	// process stops and a new one re-opens the same store.  "import": the new
	// machine resumes from the Export of the old one; "fresh": a new machine
	// with the same id starts from zero clocks; "rebind": only the memory is
	// disposed and a new one is created for the SAME live machine.
	Restart string `json:"restart,omitempty"`
}

type QueryJ struct {
	Fn    string `json:"fn"` // FindLatest ActivatedBetween ActiveBetween DeactivatedBetween InactiveBetween
	Act   am.S   `json:"act"`
	Actd  am.S   `json:"actd"`
	Inact am.S   `json:"inact"`
	Deact am.S   `json:"deact"`
	Tk    string `json:"tk"` // none sum tsum diff tdiff rdiff mtick htime mtime
	Lo    int    `json:"lo"`
	Hi    int    `json:"hi"`
	Mts   am.S   `json:"mts"` // tk=mtime: the (single) state
	Limit int    `json:"limit"`
}

type Case struct {
	ID      int      `json:"id"`
	Label   string   `json:"label"`
	Schema  string   `json:"schema"`
	PreTick int      `json:"pretick"` // >0: the machine starts from an Import with this MachineTick-1
	Cfg     CfgJ     `json:"cfg"`
	Muts    []MutJ   `json:"muts"`
	QSeed   int64    `json:"qseed"`
	Queries []QueryJ `json:"queries,omitempty"` // explicit (replay); generated when empty
	// Settle: after EVERY mutation wait until the write-behind goroutines and
	// a rotation (GC) they started are done before the store is scanned.
	Settle bool `json:"settle,omitempty"`
}

// HasRestarts: the workload continues on a re-opened store.
func (c *Case) HasRestarts() bool {
	for _, m := range c.Muts {
		if m.Restart != "" {
			return true
		}
	}
	return false
}

// Schemas: 3-4 user states with relations that produce rejected transitions
// (Require), implied changes (Remove / Add) and Multi re-activation.
func Schema(kind string) (am.S, am.Schema) {
	switch kind {
	case "req":
		return am.S{"A", "B", "C"}, am.Schema{"A": {}, "B": {}, "C": {Require: am.S{"A"}}}
	case "rem":
		return am.S{"A", "B", "C"}, am.Schema{"A": {Remove: am.S{"B"}}, "B": {Remove: am.S{"A"}},
			"C": {Multi: true}}
	case "add":
		return am.S{"A", "B", "C", "D"}, am.Schema{"A": {Add: am.S{"B"}}, "B": {},
			"C": {Require: am.S{"B"}}, "D": {Remove: am.S{"A"}}}
	case "auto":
		return am.S{"A", "B", "C"}, am.Schema{"A": {}, "B": {Auto: true, Require: am.S{"A"}}, "C": {}}
	}
	panic("unknown schema kind " + kind)
}

var SchemaKinds = []string{"req", "rem", "add", "auto"}

type handlers struct{ veto bool }

// AnyEnter is a negotiation handler of every transition: vetoed calls are canceled.
func (h *handlers) AnyEnter(e *am.Event) bool { return !h.veto }

// ---------------------------------------------------------------------------
// events

type CaseEv struct {
	Ev       string `json:"ev"`
	Cid      int    `json:"cid"`
	Label    string `json:"label"`
	Backend  string `json:"backend"`
	Names    am.S   `json:"names"`
	Cfg      CfgIx  `json:"cfg"`
	Tracked  []int  `json:"tracked"`  // record order, as the memory reports it
	Utracked []int  `json:"utracked"` // states the user may query: tracked + allow-lists
	Qtracked []int  `json:"qtracked"` // states IsTracked1 accepts
	MachTick int    `json:"machTick"`
	Err      string `json:"err"`
}

type CfgIx struct {
	Called    []int `json:"called"`
	CalledEx  bool  `json:"calledEx"`
	Changed   []int `json:"changed"`
	ChangedEx bool  `json:"changedEx"`
	Rejected  bool  `json:"rejected"`
	Max       int   `json:"max"`
	Batch     int   `json:"batch"`
}

type TxEv struct {
	Ev       string   `json:"ev"`
	Mi       int      `json:"mi"` // 1-based index of the mutation call
	Called   []int    `json:"called"`
	Tb       []uint64 `json:"tb"`
	Ta       []uint64 `json:"ta"`
	Accepted bool     `json:"accepted"`
	Check    bool     `json:"check"`
	Auto     bool     `json:"auto"`
	Mtype    int      `json:"mtype"`
	MachTick int      `json:"machTick"`
	NextId   int      `json:"nextId"`
}

type RawRec struct {
	Id       int      `json:"id"`
	Sum      uint64   `json:"sum"`
	Tsum     uint64   `json:"tsum"`
	Dsum     uint64   `json:"dsum"`
	Tdsum    uint64   `json:"tdsum"`
	Rdsum    uint64   `json:"rdsum"`
	Mt       []uint64 `json:"mt"`
	Mtd      []uint64 `json:"mtd"`
	MachTick int      `json:"machTick"`
	Mtype    int      `json:"mtype"`
	hnano    int64
}

type LogEv struct {
	Ev     string `json:"ev"`
	Mi     int    `json:"mi"`
	Synced bool   `json:"synced"`
	Quiet  bool   `json:"quiet"` // all spawned writes were seen to finish
	// Settled: ... and a rotation (GC) started so far was seen to finish
	Settled bool `json:"settled"`
	NextId  int  `json:"nextId"`
	// the memory's own public counters (this memory instance = this process):
	// records written / value of that counter at the end of the last rotation
	Saved   int      `json:"saved"`
	SavedGc int      `json:"savedGc"`
	Raw     []RawRec `json:"raw"`
	Err     string   `json:"err"`
}

type QEv struct {
	Ev     string `json:"ev"`
	Qi     int    `json:"qi"`
	Fn     string `json:"fn"`
	Act    []int  `json:"act"`
	Actd   []int  `json:"actd"`
	Inact  []int  `json:"inact"`
	Deact  []int  `json:"deact"`
	Tk     string `json:"tk"`
	Lo     int    `json:"lo"`
	Hi     int    `json:"hi"`
	Mts    []int  `json:"mts"`
	Limit  int    `json:"limit"`
	Status string `json:"status"` // ok err panic
	Errk   string `json:"errk"`   // error class
	Res    []int  `json:"res"`    // record ids, in the order returned (0 = not a stored record)
	Bres   bool   `json:"bres"`
	Msg    string `json:"msg"`
}

// OverlapEv: a query that OVERLAPS transitions of the machine (in-memory
// backend).  Records are identified by their machine time sums; Lo..Hi bound
// the number of records created when the query took its snapshot.
type OverlapEv struct {
	Ev     string   `json:"ev"`
	Mode   string   `json:"mode"` // match: the matcher itself mutates the machine; find: FindLatest vs a mutating goroutine
	Lo     int      `json:"lo"`
	Hi     int      `json:"hi"`
	Seen1  []uint64 `json:"seen1"` // match: the log handed to the matcher, oldest first, on entry
	Seen2  []uint64 `json:"seen2"` // ... and after the transitions the matcher made
	Res    []uint64 `json:"res"`   // find: FindLatest(empty query, no limit), as returned
	Status string   `json:"status"`
}

type ImportEv struct {
	Ev  string   `json:"ev"`
	Tb  []uint64 `json:"tb"`
	Ab  []int    `json:"ab"`
	Mtb int      `json:"mtb"`
	Ta  []uint64 `json:"ta"`
	// Tapos: positional Time(nil) of the rebuilt machine; Order: the order the
	// importing machine had its names in before Import
	Tapos []uint64 `json:"tapos"`
	Order string   `json:"order"`
	Aa    []int    `json:"aa"`
	Mta int      `json:"mta"`
	Err string   `json:"err"`
}

type CrashEv struct {
	Ev       string   `json:"ev"`
	Mi       int      `json:"mi"`
	NextId   int      `json:"nextId"`
	Live     []RawRec `json:"live"`
	Reopened []RawRec `json:"reopened"`
	ReNextId int      `json:"reNextId"`
	Err      string   `json:"err"`
}

// RestartEv: the process stopped after Sync (writes seen to finish), a new
// process opened the same store with the same configuration.
type RestartEv struct {
	Ev       string   `json:"ev"`
	Mi       int      `json:"mi"`
	Kind     string   `json:"kind"`     // import fresh rebind
	NextId   int      `json:"nextId"`   // of the stopped memory
	Live     []RawRec `json:"live"`     // the store as the stopped process left it
	Tracked0 []int    `json:"tracked0"` // record order of the memory that wrote Live
	Reopened []RawRec `json:"reopened"` // the store as the new process finds it
	ReNextId int      `json:"reNextId"` // NextId the new memory resumes from
	Tracked1 []int    `json:"tracked1"` // record order the new memory chose (same configuration)
	Pinned   bool     `json:"pinned"`   // the order differed: re-opened once more with the order pinned
	MachTick int      `json:"machTick"` // of the new machine
	Err      string   `json:"err"`
}

type EndEv struct {
	Ev    string `json:"ev"`
	Ambig bool   `json:"ambig"` // human times not strictly increasing: ids in answers may be unreliable
}

// ---------------------------------------------------------------------------

// Backend is one history store under test.
type Backend interface {
	Mem() amhist.MemoryApi
	// Raw scans the store directly (oldest first).
	Raw() ([]RawRec, error)
	// Quiesce waits until every record created so far is either still queued
	// or written; `created` = records created by this memory instance.
	Quiesce(created int) bool
	// Crash copies the store's files into dir (the process "stops" here),
	// reopens the copy and returns its records and the NextId a new memory
	// resumes from.
	Crash(dir string, mk func() *am.Machine, cfg CfgJ) ([]RawRec, int, error)
	// Counters: the memory's public Saved / SavedGc counters.
	Counters() (saved, savedGc int)
	Close()
	// Abandon closes the store without Memory.Dispose.
	Abandon()
}

type Opts struct {
	TmpDir string
	Crash  bool
}

func idx1(names am.S, states am.S) []int {
	out := make([]int, 0, len(states))
	for _, s := range states {
		i := -1
		for k, n := range names {
			if n == s {
				i = k
			}
		}
		out = append(out, i+1)
	}
	return out
}

func u64(t am.Time) []uint64 {
	out := make([]uint64, len(t))
	copy(out, t)
	return out
}

func rawOf(id int, t *amhist.TimeRecord) RawRec {
	return RawRec{Id: id, Sum: t.MTimeSum, Tsum: t.MTimeTrackedSum, Dsum: t.MTimeDiffSum,
		Tdsum: t.MTimeTrackedDiffSum, Rdsum: t.MTimeRecordDiffSum, Mt: u64(t.MTimeTracked),
		Mtd: u64(t.MTimeTrackedDiff), MachTick: int(t.MachTick), Mtype: int(t.MutType),
		hnano: t.HTime.UnixNano()}
}

type refTracer struct {
	*am.TracerNoOp
	r *run
}

func (t *refTracer) TracerId() string { return "verif-hist-ref" }

func (t *refTracer) TransitionEnd(tx *am.Transition) {
	r := t.r
	names := r.index
	ev := TxEv{Ev: "tx", Mi: r.mi, Called: idx1(names, tx.CalledStates()),
		Tb: u64(tx.TimeBefore), Ta: u64(tx.TimeAfter), Accepted: tx.IsAccepted.Load(),
		Check: tx.Mutation.IsCheck, Auto: tx.Mutation.IsAuto, Mtype: int(tx.Mutation.Type),
		MachTick: int(r.mach.MachineTick()), NextId: int(r.b.Mem().MachineRecord().NextId)}
	r.emit(ev)
}

type run struct {
	c        *Case
	index    am.S
	mach     *am.Machine
	b        Backend
	mi       int
	out      *[]any
	startT   []time.Time // wall clock right before mutation k (1-based), [n+1] = after the last
	raw      []RawRec
	ambig    bool
	panicked bool
	id0      int // NextId when the memory was created
	backend  string
	dir      string
	id       string
	h        *handlers
	order    am.S // record order (TrackedStates) of the memory that created the store
	settle   bool
}

func (r *run) emit(ev any) { *r.out = append(*r.out, ev) }

func mkMachine(c *Case, id string, h *handlers) *am.Machine {
	names, schema := Schema(c.Schema)
	// the default HandlerTimeout (100ms) turns a slow scheduler into an
	// Exception transition: the backends of a case would see different histories
	m := am.New(context.Background(), schema, &am.Opts{Id: id, HandlerTimeout: time.Minute})
	index := append(append(am.S{}, names...), am.StateException)
	if err := m.VerifyStates(index); err != nil {
		panic(err)
	}
	if c.PreTick > 0 {
		t := make(am.Time, len(index))
		if err := m.Import(&am.Serialized{ID: id, StateNames: index, Time: t,
			MachineTick: uint32(c.PreTick - 1)}); err != nil {
			panic(err)
		}
	}
	if h != nil {
		if _, err := m.BindHandlers(h); err != nil {
			panic(err)
		}
	}
	return m
}

func baseCfg(c CfgJ) amhist.BaseConfig {
	return amhist.BaseConfig{Called: c.Called, CalledExclude: c.CalledEx, Changed: c.Changed,
		ChangedExclude: c.ChangedEx, TrackRejected: c.Rejected, TrackedStates: c.Tracked,
		MaxRecords: c.Max}
}

// Run executes the case on one backend and returns its events.
func Run(c *Case, backend string, o Opts) (evs []any) {
	if backend == "memory" && c.HasRestarts() {
		// the in-process slice does not outlive its process
		return nil
	}
	names, _ := Schema(c.Schema)
	index := append(append(am.S{}, names...), am.StateException)
	h := &handlers{}
	id := fmt.Sprintf("hist%d", c.ID)
	mk := func() *am.Machine { return mkMachine(c, id, nil) }
	mach := mkMachine(c, id, h)
	r := &run{c: c, index: index, mach: mach, out: &evs, backend: backend, h: h, id: id,
		settle: c.Settle || c.HasRestarts()}

	cev := CaseEv{Ev: "case", Cid: c.ID, Label: c.Label, Backend: backend, Names: index,
		Cfg: CfgIx{Called: idx1(index, c.Cfg.Called), CalledEx: c.Cfg.CalledEx,
			Changed: idx1(index, c.Cfg.Changed), ChangedEx: c.Cfg.ChangedEx,
			Rejected: c.Cfg.Rejected, Max: c.Cfg.Max, Batch: c.Cfg.Batch},
		Tracked: []int{}, Utracked: []int{}, Qtracked: []int{}, MachTick: int(mach.MachineTick())}

	dir, err := os.MkdirTemp(o.TmpDir, "db-")
	if err != nil {
		panic(err)
	}
	defer os.RemoveAll(dir)
	r.dir = dir
	b, err := Open(backend, dir, mach, c.Cfg)
	if err != nil {
		cev.Err = err.Error()
		r.emit(cev)
		r.emit(EndEv{Ev: "end"})
		mach.Dispose()
		return
	}
	r.b = b
	mem := b.Mem()
	r.order = append(am.S{}, mem.Config().TrackedStates...)
	cev.Tracked = idx1(index, r.order)
	ut := am.S{}
	for _, s := range index {
		in := func(l am.S) bool {
			for _, x := range l {
				if x == s {
					return true
				}
			}
			return false
		}
		if in(c.Cfg.Tracked) || (!c.Cfg.CalledEx && in(c.Cfg.Called)) ||
			(!c.Cfg.ChangedEx && in(c.Cfg.Changed)) {
			ut = append(ut, s)
		}
		if mem.IsTracked1(s) {
			cev.Qtracked = append(cev.Qtracked, idx1(index, am.S{s})[0])
		}
	}
	cev.Utracked = idx1(index, ut)
	r.emit(cev)
	r.id0 = int(mem.MachineRecord().NextId)
	r.bindRef()

	// the store is closed and the machine disposed however the block ends
	defer func() {
		done := make(chan struct{})
		go func() {
			defer func() { recover() }()
			if r.panicked {
				// a panicking FindLatest of the K/V backends leaves the GC lock
				// read-held and Dispose would wait for it forever
				r.b.Abandon()
			} else {
				r.b.Close()
			}
			r.mach.Dispose()
			close(done)
		}()
		select {
		case <-done:
		case <-time.After(3 * time.Second):
		}
	}()

	// workload
	r.startT = make([]time.Time, len(c.Muts)+2)
	for k, mu := range c.Muts {
		r.mi = k + 1
		h.veto = mu.Veto
		r.startT[k+1] = time.Now().UTC()
		time.Sleep(time.Microsecond)
		mach := r.mach
		switch mu.Type {
		case "add":
			mach.Add(mu.States, nil)
		case "remove":
			mach.Remove(mu.States, nil)
		case "set":
			mach.Set(mu.States, nil)
		case "canadd":
			mach.CanAdd(mu.States, nil)
		case "canremove":
			mach.CanRemove(mu.States, nil)
		default:
			panic("bad mutation type " + mu.Type)
		}
		h.veto = false
		time.Sleep(time.Microsecond)
		last := k == len(c.Muts)-1
		synced := false
		if mu.Sync || last || mu.Restart != "" {
			if err := r.b.Mem().Sync(); err != nil {
				panic(err)
			}
			synced = true
		}
		quiet := r.logEv(synced)
		if synced && o.Crash && backend != "memory" {
			r.crash(dir, mk)
		}
		if mu.Restart != "" && !last {
			if !quiet || !r.restart(mu.Restart) {
				// nothing to continue on (the event says why)
				for j := k + 2; j < len(r.startT); j++ {
					r.startT[j] = time.Now().UTC()
				}
				r.emit(EndEv{Ev: "end", Ambig: r.ambig})
				return
			}
		}
	}
	r.startT[len(c.Muts)+1] = time.Now().UTC()

	// queries
	qs := c.Queries
	if len(qs) == 0 {
		qs = GenQueries(c, ut, index, int(r.mach.Time(nil).Sum(nil)))
	}
	for i, q := range qs {
		r.query(i+1, q)
	}

	// queries overlapping transitions (rotation under a running query)
	if backend == "memory" {
		r.overlap()
	}

	// export / import
	r.importEv(mk)
	r.emit(EndEv{Ev: "end", Ambig: r.ambig})
	return
}

func (r *run) bindRef() {
	if _, err := r.mach.BindTracer(&refTracer{TracerNoOp: &am.TracerNoOp{}, r: r}); err != nil {
		panic(err)
	}
}

// restart: the process stops (Sync has returned, its writes were seen to
// finish: logEv) and a new one opens the same store with the same
// configuration, for a machine with the same id.  Returns false when there is
// nothing to go on with.
func (r *run) restart(kind string) bool {
	c := r.c
	old := r.b.Mem()
	ev := RestartEv{Ev: "restart", Mi: r.mi, Kind: kind, NextId: int(old.MachineRecord().NextId),
		Live: r.raw, Tracked0: idx1(r.index, r.order), Reopened: []RawRec{}, Tracked1: []int{}}
	if ev.Live == nil {
		ev.Live = []RawRec{}
	}
	fail := func(err error) bool {
		ev.Err = err.Error()
		if len(ev.Err) > 200 {
			ev.Err = ev.Err[:200]
		}
		r.emit(ev)
		return false
	}

	// what a resuming process would carry over, through the wire format
	var ser *am.Serialized
	if kind == "import" {
		s0, _, err := r.mach.Export()
		if err != nil {
			return fail(fmt.Errorf("export: %w", err))
		}
		bt, _ := json.Marshal(s0)
		ser = &am.Serialized{}
		if err := json.Unmarshal(bt, ser); err != nil {
			return fail(fmt.Errorf("export: %w", err))
		}
	}

	// stop
	rebind := kind == "rebind"
	closed := make(chan struct{})
	go func() {
		defer func() { recover() }()
		r.b.Close()
		if rebind {
			// the reference tracer has to run AFTER the history tracer
			_ = r.mach.DetachTracer((&refTracer{}).TracerId())
		} else {
			r.mach.Dispose()
		}
		close(closed)
	}()
	select {
	case <-closed:
	case <-time.After(2 * time.Minute):
		// a starved host or a hanging Dispose: no verdict (the driver dies)
		panic("restart: the memory did not close within 2 minutes")
	}

	// start
	c2 := *c
	c2.PreTick = 0
	live := r.mach
	open1 := func(cfg CfgJ) (*am.Machine, Backend, error) {
		if rebind {
			b, err := Open(r.backend, r.dir, live, cfg)
			return live, b, err
		}
		m := mkMachine(&c2, r.id, nil)
		if ser != nil {
			if err := m.Import(ser); err != nil {
				m.Dispose()
				return nil, nil, fmt.Errorf("import: %w", err)
			}
		}
		if _, err := m.BindHandlers(r.h); err != nil {
			panic(err)
		}
		b, err := Open(r.backend, r.dir, m, cfg)
		if err != nil {
			m.Dispose()
			return nil, nil, err
		}
		return m, b, nil
	}
	m, b, err := open1(c.Cfg)
	r.mach, r.b = m, b
	if err != nil {
		// keep the deferred close of Run harmless
		r.mach, r.b = live, nopBackend{}
		if !rebind {
			r.mach = mkMachine(&c2, r.id, nil)
		}
		return fail(err)
	}
	ev.ReNextId = int(b.Mem().MachineRecord().NextId)
	order := b.Mem().Config().TrackedStates
	ev.Tracked1 = idx1(r.index, order)
	raw, err := b.Raw()
	if raw == nil {
		raw = []RawRec{}
	}
	ev.Reopened = raw
	if err != nil {
		return fail(err)
	}
	if strings.Join(order, ",") != strings.Join(r.order, ",") {
		// The new memory lays its records out in another order than the one
		// that wrote the store (judged by TLC).  To go on with the rest of the
		// workload the store is opened once more with the order pinned: a list
		// with a duplicate keeps its order in Machine.ParseStates.
		ev.Pinned = true
		b.Close()
		if !rebind {
			m.Dispose()
		}
		cfg := c.Cfg
		cfg.Tracked = append(append(am.S{}, r.order...), r.order[0])
		m, b, err = open1(cfg)
		r.mach, r.b = m, b
		if err != nil {
			r.mach, r.b = live, nopBackend{}
			if !rebind {
				r.mach = mkMachine(&c2, r.id, nil)
			}
			return fail(err)
		}
		o2 := b.Mem().Config().TrackedStates
		if strings.Join(o2, ",") != strings.Join(r.order, ",") {
			return fail(fmt.Errorf("pinned order not kept: %v", o2))
		}
		if n := int(b.Mem().MachineRecord().NextId); n != ev.ReNextId {
			return fail(fmt.Errorf("NextId changed by an idle re-open: %d -> %d", ev.ReNextId, n))
		}
	}
	ev.MachTick = int(r.mach.MachineTick())
	r.id0 = ev.ReNextId
	r.bindRef()
	r.emit(ev)
	return ev.ReNextId == ev.NextId
}

// nopBackend stands in after a failed re-open.
type nopBackend struct{}

func (nopBackend) Mem() amhist.MemoryApi  { return nil }
func (nopBackend) Raw() ([]RawRec, error) { return nil, nil }
func (nopBackend) Quiesce(int) bool       { return true }
func (nopBackend) Crash(string, func() *am.Machine, CfgJ) ([]RawRec, int, error) {
	return nil, 0, nil
}
func (nopBackend) Counters() (int, int) { return 0, 0 }
func (nopBackend) Close()               {}
func (nopBackend) Abandon()             {}

func (r *run) logEv(synced bool) bool {
	mem := r.b.Mem()
	next := int(mem.MachineRecord().NextId)
	ev := LogEv{Ev: "log", Mi: r.mi, Synced: synced, NextId: next}
	ev.Quiet = r.b.Quiesce(next - r.id0)
	if synced || r.settle {
		// a pending GC holds the write side of the GC lock (taken by the tracer
		// before it returns): a query waits for it
		func() {
			defer func() { recover() }()
			_, _ = mem.FindLatest(context.Background(), false, 1, amhist.Query{})
			ev.Settled = true
		}()
	}
	ev.Saved, ev.SavedGc = r.b.Counters()
	raw, err := r.b.Raw()
	if err != nil {
		ev.Err = err.Error()
	}
	if raw == nil {
		raw = []RawRec{}
	}
	for i := 1; i < len(raw); i++ {
		if raw[i].hnano <= raw[i-1].hnano {
			r.ambig = true
		}
	}
	ev.Raw = raw
	r.raw = raw
	r.emit(ev)
	return ev.Quiet && ev.Err == ""
}

func (r *run) crash(dir string, mk func() *am.Machine) {
	mem := r.b.Mem()
	ev := CrashEv{Ev: "crash", Mi: r.mi, NextId: int(mem.MachineRecord().NextId), Live: r.raw}
	cdir, err := os.MkdirTemp(dir, "crash-")
	if err != nil {
		panic(err)
	}
	defer os.RemoveAll(cdir)
	re, next, err := r.b.Crash(cdir, mk, r.c.Cfg)
	if err != nil {
		ev.Err = err.Error()
	}
	if re == nil {
		re = []RawRec{}
	}
	ev.Reopened, ev.ReNextId = re, next
	r.emit(ev)
}

func (r *run) idOf(t *amhist.TimeRecord) int {
	x := rawOf(0, t)
	for _, e := range r.raw {
		if e.hnano == x.hnano && e.Sum == x.Sum && e.Tsum == x.Tsum && e.Rdsum == x.Rdsum {
			return e.Id
		}
	}
	return 0
}

// HTimeOf maps a bound expressed as a mutation index to the wall clock taken
// right before that mutation was issued.
func (r *run) htimeOf(k int) time.Time {
	if k < 1 {
		k = 1
	}
	if k > len(r.c.Muts)+1 {
		k = len(r.c.Muts) + 1
	}
	return r.startT[k]
}

func errClass(err error) string {
	s := err.Error()
	switch {
	case strings.Contains(s, "not tracked"):
		return "not-tracked"
	case strings.Contains(s, "no such column"):
		return "sql-no-such-column"
	case strings.Contains(s, "SQL"), strings.Contains(s, "sqlite"):
		return "sql"
	case strings.Contains(s, "mismatch"):
		return "mtime-mismatch"
	}
	return "other"
}

func (r *run) query(qi int, q QueryJ) {
	ix := r.index
	ev := QEv{Ev: "q", Qi: qi, Fn: q.Fn, Act: idx1(ix, q.Act), Actd: idx1(ix, q.Actd),
		Inact: idx1(ix, q.Inact), Deact: idx1(ix, q.Deact), Tk: q.Tk, Lo: q.Lo, Hi: q.Hi,
		Mts: idx1(ix, q.Mts), Limit: q.Limit, Status: "ok", Res: []int{}}
	mem := r.b.Mem()
	ctx := context.Background()
	func() {
		defer func() {
			if p := recover(); p != nil {
				ev.Status = "panic"
				r.panicked = true
				ev.Msg = fmt.Sprint(p)
				if len(ev.Msg) > 120 {
					ev.Msg = ev.Msg[:120]
				}
			}
		}()
		switch q.Fn {
		case "FindLatest":
			hq := amhist.Query{Active: q.Act, Activated: q.Actd, Inactive: q.Inact,
				Deactivated: q.Deact}
			lo, hi := uint64(q.Lo), uint64(q.Hi)
			switch q.Tk {
			case "sum":
				hq.Start.MTimeSum, hq.End.MTimeSum = lo, hi
			case "tsum":
				hq.Start.MTimeTrackedSum, hq.End.MTimeTrackedSum = lo, hi
			case "diff":
				hq.Start.MTimeDiff, hq.End.MTimeDiff = lo, hi
			case "tdiff":
				hq.Start.MTimeTrackedDiff, hq.End.MTimeTrackedDiff = lo, hi
			case "rdiff":
				hq.Start.MTimeRecordDiff, hq.End.MTimeRecordDiff = lo, hi
			case "mtick":
				hq.Start.MachTick, hq.End.MachTick = uint32(lo), uint32(hi)
			case "htime":
				hq.Start.HTime, hq.End.HTime = r.htimeOf(q.Lo), r.htimeOf(q.Hi)
			case "mtime":
				hq.Start.MTimeStates, hq.Start.MTime = q.Mts, am.Time{lo}
				hq.End.MTimeStates, hq.End.MTime = q.Mts, am.Time{hi}
			}
			res, err := mem.FindLatest(ctx, false, q.Limit, hq)
			if err != nil {
				ev.Status, ev.Errk, ev.Msg = "err", errClass(err), err.Error()
				if len(ev.Msg) > 120 {
					ev.Msg = ev.Msg[:120]
				}
				return
			}
			for _, x := range res {
				ev.Res = append(ev.Res, r.idOf(x.Time))
			}
		default:
			s, e := r.htimeOf(q.Lo), r.htimeOf(q.Hi)
			var st string
			switch q.Fn {
			case "ActiveBetween":
				st = q.Act[0]
				ev.Bres = mem.ActiveBetween(ctx, st, s, e)
			case "ActivatedBetween":
				st = q.Actd[0]
				ev.Bres = mem.ActivatedBetween(ctx, st, s, e)
			case "InactiveBetween":
				st = q.Inact[0]
				ev.Bres = mem.InactiveBetween(ctx, st, s, e)
			case "DeactivatedBetween":
				st = q.Deact[0]
				ev.Bres = mem.DeactivatedBetween(ctx, st, s, e)
			default:
				panic("bad fn " + q.Fn)
			}
		}
	}()
	r.emit(ev)
}

// made = records created by this memory so far
func (r *run) made() int { return int(r.b.Mem().MachineRecord().NextId) - r.id0 }

func sums(db []*amhist.MemoryRecord) []uint64 {
	out := []uint64{}
	for _, x := range db {
		if x == nil || x.Time == nil {
			out = append(out, 0)
			continue
		}
		out = append(out, x.Time.MTimeSum)
	}
	return out
}

// overlap runs queries while the machine keeps on executing tracked
// transitions: (1) a Match whose matcher toggles a state (deterministic: the
// transitions happen between the snapshot and the end of the query), (2)
// FindLatest against a goroutine that toggles.  All tx events are emitted by
// the mutating goroutine; the query events are emitted afterwards.
func (r *run) overlap() {
	mem, ok := r.b.Mem().(*amhist.Memory)
	if !ok || r.panicked {
		return
	}
	names, _ := Schema(r.c.Schema)
	st := names[len(names)-1]
	r.mi = len(r.c.Muts) + 1
	toggle := func() {
		if r.mach.Is1(st) {
			r.mach.Remove1(st, nil)
		} else {
			r.mach.Add1(st, nil)
		}
	}
	ctx := context.Background()
	n := 2*r.c.Cfg.Max + 2

	// (1)
	for rep := 0; rep < 2; rep++ {
		ev := OverlapEv{Ev: "qo", Mode: "match", Status: "ok", Lo: r.made(), Res: []uint64{}}
		func() {
			defer func() {
				if p := recover(); p != nil {
					ev.Status = "panic"
				}
			}()
			_, err := mem.Match(ctx, func(now *am.TimeIndex, db []*amhist.MemoryRecord) []*amhist.MemoryRecord {
				ev.Seen1 = sums(db)
				for i := 0; i < n; i++ {
					toggle()
				}
				ev.Seen2 = sums(db)
				return nil
			})
			if err != nil {
				ev.Status = "err"
			}
		}()
		// the snapshot is taken before the matcher runs
		ev.Hi = ev.Lo
		if ev.Seen1 == nil {
			ev.Seen1, ev.Seen2 = []uint64{}, []uint64{}
		}
		r.emit(ev)
	}

	// (2)
	var evs []OverlapEv
	stop := make(chan struct{})
	done := make(chan struct{})
	go func() {
		defer close(done)
		for i := 0; i < 40; i++ {
			toggle()
		}
		close(stop)
	}()
	for len(evs) < 200 {
		select {
		case <-stop:
		default:
			ev := OverlapEv{Ev: "qo", Mode: "find", Status: "ok", Lo: r.made(), Seen1: []uint64{},
				Seen2: []uint64{}, Res: []uint64{}}
			func() {
				defer func() {
					if p := recover(); p != nil {
						ev.Status = "panic"
					}
				}()
				res, err := mem.FindLatest(ctx, false, 0, amhist.Query{})
				if err != nil {
					ev.Status = "err"
					return
				}
				ev.Res = sums(res)
			}()
			// NextId is advanced by the history tracer inside the transition:
			// one more record may be in flight
			ev.Hi = r.made() + 1
			evs = append(evs, ev)
			continue
		}
		break
	}
	<-done
	for _, ev := range evs {
		if ev.Hi > r.made() {
			ev.Hi = r.made()
		}
		r.emit(ev)
	}
}

func (r *run) importEv(mk func() *am.Machine) {
	m := r.mach
	ev := ImportEv{Ev: "import", Tb: u64(m.Time(nil)), Ab: idx1(r.index, m.ActiveStates(nil)),
		Mtb: int(m.MachineTick()), Ta: []uint64{}, Tapos: []uint64{}, Aa: []int{}}
	sort.Ints(ev.Ab)
	ser, _, err := m.Export()
	if err != nil {
		ev.Err = "export: " + err.Error()
		r.emit(ev)
		return
	}
	// through the wire format, as a restart would
	bt, _ := json.Marshal(ser)
	var ser2 am.Serialized
	_ = json.Unmarshal(bt, &ser2)
	// the rebuilt machine has its names in the exporter's order, in the reverse
	// order, or in the order New() gives them (VerifyStates never called)
	_, schema := Schema(r.c.Schema)
	m2 := am.New(context.Background(), schema, &am.Opts{Id: m.Id(), HandlerTimeout: time.Minute})
	defer m2.Dispose()
	ev.Order = []string{"same", "reversed", "unverified"}[r.c.ID%3]
	switch ev.Order {
	case "same":
		if err := m2.VerifyStates(r.index); err != nil {
			panic(err)
		}
	case "reversed":
		rev := append(am.S{}, r.index...)
		slices.Reverse(rev)
		if err := m2.VerifyStates(rev); err != nil {
			panic(err)
		}
	}
	if err := m2.Import(&ser2); err != nil {
		ev.Err = "import: " + err.Error()
		r.emit(ev)
		return
	}
	ev.Ta = u64(m2.Time(r.index))
	ev.Tapos = u64(m2.Time(nil))
	ev.Aa = idx1(r.index, m2.ActiveStates(nil))
	sort.Ints(ev.Aa)
	ev.Mta = int(m2.MachineTick())
	r.emit(ev)
}

// ---------------------------------------------------------------------------
// generators (everything derives from the seed)

func pick(r *rand.Rand, pool am.S, maxLen int, p float64) am.S {
	out := am.S{}
	for _, i := range r.Perm(len(pool)) {
		if len(out) < maxLen && r.Float64() < p {
			out = append(out, pool[i])
		}
	}
	return out
}

// GenCase: schema, history <= maxMuts mutations (incl. rejected, canceled and
// check ones), tracking configuration.
func GenCase(r *rand.Rand, id int, maxMuts int) *Case {
	c := &Case{ID: id, Schema: SchemaKinds[r.Intn(len(SchemaKinds))], QSeed: r.Int63()}
	names, _ := Schema(c.Schema)
	if r.Intn(6) == 0 {
		c.PreTick = 1 + r.Intn(2)
	}
	// configuration
	cf := &c.Cfg
	switch r.Intn(4) {
	case 0:
	case 1:
		cf.Called = pick(r, names, 2, 0.6)
	case 2:
		cf.Changed = pick(r, names, 2, 0.6)
	case 3:
		cf.Called = pick(r, names, 2, 0.5)
		cf.Changed = pick(r, names, 2, 0.5)
	}
	cf.CalledEx = len(cf.Called) > 0 && r.Intn(2) == 0
	cf.ChangedEx = len(cf.Changed) > 0 && r.Intn(2) == 0
	cf.Rejected = r.Intn(2) == 0
	cf.Tracked = pick(r, names, 3, 0.55)
	if len(cf.Tracked) == 0 && (len(cf.Called) == 0 || cf.CalledEx) &&
		(len(cf.Changed) == 0 || cf.ChangedEx) {
		cf.Tracked = am.S{names[r.Intn(len(names))]}
	}
	cf.Max = 1 + r.Intn(3)
	cf.Batch = 1 + r.Intn(3)
	// history
	n := 1 + r.Intn(maxMuts)
	if r.Intn(5) == 0 {
		// rotation / GC runs: a longer history of plain toggles
		n = maxMuts + r.Intn(maxMuts/2+1)
	}
	for i := 0; i < n; i++ {
		mu := MutJ{States: pick(r, names, 2, 0.5)}
		if len(mu.States) == 0 {
			mu.States = am.S{names[r.Intn(len(names))]}
		}
		switch x := r.Intn(20); {
		case x < 9:
			mu.Type = "add"
		case x < 15:
			mu.Type = "remove"
		case x < 17:
			mu.Type = "set"
		case x < 19:
			mu.Type = "canadd"
		default:
			mu.Type = "canremove"
		}
		mu.Veto = r.Intn(7) == 0
		mu.Sync = r.Intn(3) == 0
		c.Muts = append(c.Muts, mu)
	}
	c.Label = fmt.Sprintf("%s/c%v%v/ch%v%v/rej%v/tr%v/max%d/b%d/n%d", c.Schema, cf.Called,
		cf.CalledEx, cf.Changed, cf.ChangedEx, cf.Rejected, cf.Tracked, cf.Max, cf.Batch, n)
	return c
}

// GenRestartCase: a workload that goes on across process restarts (persistent
// backends): 2..maxProcs processes on the same store, each one either short
// (stops before its own rotation threshold) or long enough to rotate at least
// once (more than 1.5*Max + 2*batch recorded transitions), in every order;
// the new machine resumes from an Export ("import") or starts from zero
// ("fresh"), or only the memory is replaced on the live machine ("rebind");
// tracking configurations as in GenCase.
func GenRestartCase(r *rand.Rand, id int, maxProcs int) *Case {
	c := &Case{ID: id, Schema: SchemaKinds[r.Intn(len(SchemaKinds))], QSeed: r.Int63(), Settle: true}
	names, _ := Schema(c.Schema)
	if r.Intn(6) == 0 {
		c.PreTick = 1 + r.Intn(2)
	}
	cf := &c.Cfg
	switch r.Intn(6) {
	case 0:
		cf.Called = pick(r, names, 2, 0.6)
	case 1:
		cf.Changed = pick(r, names, 2, 0.6)
	case 2:
		cf.Called = pick(r, names, 2, 0.5)
		cf.Changed = pick(r, names, 2, 0.5)
	}
	cf.CalledEx = len(cf.Called) > 0 && r.Intn(2) == 0
	cf.ChangedEx = len(cf.Changed) > 0 && r.Intn(2) == 0
	cf.Rejected = r.Intn(2) == 0
	cf.Tracked = pick(r, names, 3, 0.55)
	if len(cf.Tracked) == 0 && (len(cf.Called) == 0 || cf.CalledEx) &&
		(len(cf.Changed) == 0 || cf.ChangedEx) {
		cf.Tracked = am.S{names[r.Intn(len(names))]}
	}
	cf.Max = 1 + r.Intn(3)
	cf.Batch = 1 + r.Intn(3)
	// recorded transitions a process needs before its first rotation
	thr := (3*cf.Max)/2 + 2*cf.Batch + 1
	procs := 2 + r.Intn(maxProcs-1)
	shape := ""
	for p := 0; p < procs; p++ {
		n := 1 + r.Intn(4)
		long := r.Intn(5) < 3
		if long {
			n = thr + 1 + r.Intn(4)
			shape += "L"
		} else {
			shape += "s"
		}
		for i := 0; i < n; i++ {
			mu := MutJ{States: pick(r, names, 2, 0.5)}
			if len(mu.States) == 0 {
				mu.States = am.S{names[r.Intn(len(names))]}
			}
			switch x := r.Intn(20); {
			case x < 10:
				mu.Type = "add"
			case x < 17:
				mu.Type = "remove"
			case x < 19:
				mu.Type = "set"
			default:
				mu.Type = "canadd"
			}
			mu.Veto = r.Intn(12) == 0
			mu.Sync = r.Intn(4) == 0
			if i == n-1 && p < procs-1 {
				mu.Restart = []string{"import", "import", "fresh", "fresh", "rebind"}[r.Intn(5)]
				shape += mu.Restart[:1]
			}
			c.Muts = append(c.Muts, mu)
		}
	}
	c.Label = fmt.Sprintf("restart:%s/%s/c%v%v/ch%v%v/rej%v/tr%v/max%d/b%d/n%d", shape, c.Schema, cf.Called,
		cf.CalledEx, cf.Changed, cf.ChangedEx, cf.Rejected, cf.Tracked, cf.Max, cf.Batch, len(c.Muts))
	return c
}

var TimeKinds = []string{"none", "sum", "tsum", "diff", "tdiff", "rdiff", "mtick", "htime", "mtime"}

// GenQueries: for the states the user may query (ut): the empty query with
// limits 0..2; every single state condition; every presence combination of
// the four state conditions (16) with a time range kind that rotates with the
// case id, so that the suite covers all 16 x 9 combinations; every time range
// kind alone; the four *Between helpers for every state.
func GenQueries(c *Case, ut am.S, index am.S, maxSum int) []QueryJ {
	r := rand.New(rand.NewSource(c.QSeed))
	nm := len(c.Muts)
	var qs []QueryJ
	rng := func(tk string) (int, int, am.S) {
		switch tk {
		case "none":
			return 0, 0, nil
		case "sum", "tsum":
			lo := 1 + r.Intn(maxSum+1)
			return lo, lo + r.Intn(maxSum+2-lo+1), nil
		case "diff", "tdiff", "rdiff":
			lo := 1 + r.Intn(2)
			return lo, lo + r.Intn(3), nil
		case "mtick":
			lo := 1 + r.Intn(2)
			return lo, lo + r.Intn(2), nil
		case "htime":
			lo := 1 + r.Intn(nm+1)
			return lo, lo + r.Intn(nm+2-lo), nil
		case "mtime":
			lo := 1 + r.Intn(3)
			return lo, lo + r.Intn(3), am.S{ut[r.Intn(len(ut))]}
		}
		panic(tk)
	}
	add := func(q QueryJ) {
		for _, l := range []*am.S{&q.Act, &q.Actd, &q.Inact, &q.Deact, &q.Mts} {
			if *l == nil {
				*l = am.S{}
			}
		}
		qs = append(qs, q)
	}
	for lim := 0; lim <= 2; lim++ {
		add(QueryJ{Fn: "FindLatest", Tk: "none", Limit: lim})
	}
	if len(ut) == 0 {
		return qs
	}
	for _, s := range ut {
		add(QueryJ{Fn: "FindLatest", Tk: "none", Act: am.S{s}})
		add(QueryJ{Fn: "FindLatest", Tk: "none", Actd: am.S{s}})
		add(QueryJ{Fn: "FindLatest", Tk: "none", Deact: am.S{s}})
	}
	for k, tk := range TimeKinds[1:] {
		lo, hi, mts := rng(tk)
		add(QueryJ{Fn: "FindLatest", Tk: tk, Lo: lo, Hi: hi, Mts: mts, Limit: (k + c.ID) % 3 % 2})
	}
	for mask := 1; mask < 16; mask++ {
		tk := TimeKinds[(mask+c.ID)%len(TimeKinds)]
		lo, hi, mts := rng(tk)
		q := QueryJ{Fn: "FindLatest", Tk: tk, Lo: lo, Hi: hi, Mts: mts}
		sub := func() am.S {
			s := pick(r, ut, 2, 0.5)
			if len(s) == 0 {
				s = am.S{ut[r.Intn(len(ut))]}
			}
			return s
		}
		if mask&1 != 0 {
			q.Act = sub()
		}
		if mask&2 != 0 {
			q.Actd = sub()
		}
		if mask&8 != 0 {
			q.Deact = sub()
		}
		if r.Intn(4) == 0 {
			q.Limit = 1 + r.Intn(2)
		}
		// Inactive last: see below
		if mask&4 != 0 {
			q.Inact = sub()
		}
		add(q)
	}
	// helpers
	for _, s := range ut {
		lo, hi, _ := rng("htime")
		add(QueryJ{Fn: "ActiveBetween", Act: am.S{s}, Tk: "htime", Lo: lo, Hi: hi, Limit: 1})
		lo, hi, _ = rng("htime")
		add(QueryJ{Fn: "ActivatedBetween", Actd: am.S{s}, Tk: "htime", Lo: lo, Hi: hi, Limit: 1})
		lo, hi, _ = rng("htime")
		add(QueryJ{Fn: "DeactivatedBetween", Deact: am.S{s}, Tk: "htime", Lo: lo, Hi: hi, Limit: 1})
		lo, hi, _ = rng("htime")
		add(QueryJ{Fn: "InactiveBetween", Inact: am.S{s}, Tk: "htime", Lo: lo, Hi: hi, Limit: 1})
		add(QueryJ{Fn: "ActiveBetween", Act: am.S{s}, Tk: "htime", Lo: 1, Hi: nm + 1, Limit: 1})
		add(QueryJ{Fn: "ActivatedBetween", Actd: am.S{s}, Tk: "htime", Lo: 1, Hi: nm + 1, Limit: 1})
		add(QueryJ{Fn: "DeactivatedBetween", Deact: am.S{s}, Tk: "htime", Lo: 1, Hi: nm + 1, Limit: 1})
		add(QueryJ{Fn: "InactiveBetween", Inact: am.S{s}, Tk: "htime", Lo: 1, Hi: nm + 1, Limit: 1})
	}
	// Inactive alone goes last: on the K/V backends a panicking FindLatest
	// leaves the GC lock read-held
	for _, s := range ut {
		add(QueryJ{Fn: "FindLatest", Tk: "none", Inact: am.S{s}})
	}
	return qs
}
