package dbgdrv

import (
	"sort"
	"time"

	am "github.com/pancsta/asyncmachine-go/pkg/machine"
	"github.com/pancsta/asyncmachine-go/pkg/telemetry/dbg"
	"github.com/pancsta/asyncmachine-go/tools/debugger"
	"github.com/pancsta/asyncmachine-go/tools/debugger/server"
	ssdbg "github.com/pancsta/asyncmachine-go/tools/debugger/states"
	"github.com/pancsta/asyncmachine-go/tools/debugger/types"
)

// RecJ is one record (DbgMsgTx) as the debugger holds it.
type RecJ struct {
	Id     string   `json:"id"`
	Clocks []uint64 `json:"clocks"`
	Qt     uint64   `json:"qt"`
	Mqt    uint64   `json:"mqt"`
	Tok    uint64   `json:"tok"`
	Queued bool     `json:"queued"`
	Auto   bool     `json:"auto"`
	Check  bool     `json:"check"`
	Acc    bool     `json:"acc"`
	Type   string   `json:"type"`
	Called []int    `json:"called"`
	// Steps: (from, to) state indexes of every step, -1 when absent, -2 for a
	// name outside the index
	Steps [][]int `json:"steps"`
	// Ht: human time as 2*rank of the record's time among the distinct times
	// of the client (order and equality are what the look-up depends on)
	Ht int64 `json:"ht"`
}

// ParsedJ is MsgTxParsed.
type ParsedJ struct {
	Added   []int  `json:"added"`
	Removed []int  `json:"removed"`
	Touched []int  `json:"touched"`
	Sum     uint64 `json:"sum"`
	Diff    uint64 `json:"diff"`
}

func nzi(x []int) []int {
	if x == nil {
		return []int{}
	}
	return append([]int{}, x...)
}

func mutType(t am.MutationType) string {
	switch t {
	case am.MutationAdd:
		return "add"
	case am.MutationRemove:
		return "remove"
	case am.MutationSet:
		return "set"
	}
	return "other"
}

// nameIdx: index of the state name, -1 for "no state" (empty name), -2 for a
// name that is not in the index (e.g. the global "Any" handlers).
func nameIdx(index am.S, n string) int {
	if n == "" {
		return -1
	}
	for i, x := range index {
		if x == n {
			return i
		}
	}
	return -2
}

// RecOf projects a DbgMsgTx.
func RecOf(index am.S, m *dbg.DbgMsgTx, ht int64) RecJ {
	r := RecJ{Id: m.ID, Clocks: append([]uint64{}, m.Clocks...), Qt: m.QueueTick, Mqt: m.MutQueueTick,
		Tok: m.MutQueueToken, Queued: m.IsQueued, Auto: m.IsAuto, Check: m.IsCheck, Acc: m.Accepted,
		Type: mutType(m.Type), Called: []int{}, Steps: [][]int{}}
	for _, n := range m.CalledStateNames(index) {
		r.Called = append(r.Called, nameIdx(index, n))
	}
	for _, s := range m.Steps {
		r.Steps = append(r.Steps, []int{nameIdx(index, s.GetFromState(index)), nameIdx(index, s.GetToState(index))})
	}
	r.Ht = ht
	return r
}

func ParsedOf(p *types.MsgTxParsed) ParsedJ {
	return ParsedJ{Added: nzi(p.StatesAdded), Removed: nzi(p.StatesRemoved), Touched: nzi(p.StatesTouched),
		Sum: p.TimeSum, Diff: p.TimeDiff}
}

// ClientSnap is the per-client store, index and view.
type ClientSnap struct {
	Id       string    `json:"id"`
	Index    am.S      `json:"index"`
	Recs     []RecJ    `json:"recs"`
	Parsed   []ParsedJ `json:"parsed"`
	Errors   []int     `json:"errors"`
	Filtered []int     `json:"filtered"`
	Cursor   int       `json:"cursor"`
	Step     int       `json:"step"`
	MTimeSum uint64    `json:"mtimesum"`
	Group    string    `json:"group"`
}

func SnapClient(c *debugger.Client) *ClientSnap {
	s := &ClientSnap{Id: c.Id, Index: append(am.S{}, c.MsgStruct.StatesIndex...), Recs: []RecJ{}, Parsed: []ParsedJ{},
		Errors: nzi(c.Errors), Filtered: nzi(c.MsgTxsFiltered), Cursor: c.CursorTx1, Step: c.CursorStep1,
		MTimeSum: c.MTimeSum, Group: c.SelectedGroup}
	rk := TimeRanks(c.MsgTxs)
	for i, m := range c.MsgTxs {
		s.Recs = append(s.Recs, RecOf(s.Index, m, rk[i]))
	}
	for _, p := range c.MsgTxsParsed {
		s.Parsed = append(s.Parsed, ParsedOf(p))
	}
	return s
}

// filterStates are the states filtersFromStates() reads (plus the group the
// code uses for "filters active").
var filterStates = am.S{ssdbg.DebuggerStates.FilterCanceledTx, ssdbg.DebuggerStates.FilterAutoTx,
	ssdbg.DebuggerStates.FilterAutoCanceledTx, ssdbg.DebuggerStates.FilterEmptyTx,
	ssdbg.DebuggerStates.FilterHealth, ssdbg.DebuggerStates.FilterQueuedTx,
	ssdbg.DebuggerStates.FilterOutGroup, ssdbg.DebuggerStates.FilterChecks}

// View is the navigation state of the debugger.
type View struct {
	Sel      string   `json:"sel"`
	N        int      `json:"n"`
	Cursor   int      `json:"cursor"`
	Step     int      `json:"step"`
	Tail     bool     `json:"tail"`
	Filters  []string `json:"filters"`
	Filtered []int    `json:"filtered"`
	IsErr    bool     `json:"iserr"`
}

// SnapView reads the view on the handler goroutine.
func (h *Headless) SnapView() (*View, error) {
	v := &View{Filters: []string{}, Filtered: []int{}}
	err := h.Eval("view", func() {
		d := h.D
		for _, f := range filterStates {
			if d.Mach.Is1(f) {
				v.Filters = append(v.Filters, f)
			}
		}
		sort.Strings(v.Filters)
		v.Tail = d.Mach.Is1(ss.TailMode)
		v.IsErr = d.Mach.IsErr()
		if d.C != nil {
			v.Sel = d.C.Id
			v.N = len(d.C.MsgTxs)
			v.Cursor = d.C.CursorTx1
			v.Step = d.C.CursorStep1
			v.Filtered = nzi(d.C.MsgTxsFiltered)
		}
	})
	return v, err
}

// SnapClients reads every client on the handler goroutine.
func (h *Headless) SnapClients() (map[string]*ClientSnap, error) {
	out := map[string]*ClientSnap{}
	err := h.Eval("clients", func() {
		for id, c := range h.D.Clients {
			out[id] = SnapClient(c)
		}
	})
	return out, err
}

// Lookups are the results of the real index look-ups for a list of queries.
type Lookups struct {
	QueueTick [][2]int64 `json:"qtick"`   // (q, result)
	MachTime  [][2]int64 `json:"mtime"`   // (sum, result)
	TxIndex   [][2]int64 `json:"txindex"` // (position of the id in ids / -1 for an unknown id, result)
	HTime     [][2]int64 `json:"htime"`   // (2*rank-1 / 2*rank / 2*rank+1, result)
	HadErr    [][3]int64 `json:"haderr"`  // (tx, distance, 0/1)
	FilterIdx [][2]int64 `json:"fidx"`    // (cursor1, result)
	ExecBy    [][2]int64 `json:"execby"`  // (idx, index of the executing record or -1)
	Ids       []string   `json:"ids"`     // ids queried by TxIndex (first occurrence order)
}

// TimeRanks maps every record to 2*rank of its human time.
func TimeRanks(msgs []*dbg.DbgMsgTx) []int64 {
	var ts []int64
	for _, m := range msgs {
		if m.Time != nil {
			ts = append(ts, m.Time.UnixNano())
		}
	}
	sort.Slice(ts, func(i, j int) bool { return ts[i] < ts[j] })
	rank := map[int64]int64{}
	for _, t := range ts {
		if _, ok := rank[t]; !ok {
			rank[t] = int64(len(rank))
		}
	}
	out := make([]int64, len(msgs))
	for i, m := range msgs {
		if m.Time != nil {
			out[i] = 2 * rank[m.Time.UnixNano()]
		}
	}
	return out
}

// DoLookups queries the real server.Client methods.  htime: also query
// TxAtHTime at every record time and 1ns before/after it (only meaningful when
// distinct record times are more than 2ns apart, i.e. for driver-stamped
// records).
func DoLookups(c *server.Client, htime bool) *Lookups {
	l := &Lookups{QueueTick: [][2]int64{}, MachTime: [][2]int64{}, TxIndex: [][2]int64{}, HTime: [][2]int64{},
		HadErr: [][3]int64{}, FilterIdx: [][2]int64{}, ExecBy: [][2]int64{}, Ids: []string{}}
	n := len(c.MsgTxs)
	var maxQ, maxS uint64
	for i, m := range c.MsgTxs {
		if m.QueueTick > maxQ {
			maxQ = m.QueueTick
		}
		if i < len(c.MsgTxsParsed) && c.MsgTxsParsed[i].TimeSum > maxS {
			maxS = c.MsgTxsParsed[i].TimeSum
		}
	}
	for q := uint64(0); q <= maxQ+1; q++ {
		l.QueueTick = append(l.QueueTick, [2]int64{int64(q), int64(c.TxAtQueueTick(q))})
	}
	for s := uint64(0); s <= maxS+1; s++ {
		l.MachTime = append(l.MachTime, [2]int64{int64(s), int64(c.TxAtMachTime(s))})
	}
	seen := map[string]bool{}
	for _, m := range c.MsgTxs {
		if !seen[m.ID] {
			seen[m.ID] = true
			l.Ids = append(l.Ids, m.ID)
		}
	}
	// twice: the second round is answered from the cache
	for round := 0; round < 2; round++ {
		for k, id := range l.Ids {
			l.TxIndex = append(l.TxIndex, [2]int64{int64(k), int64(c.TxIndex(id))})
		}
		l.TxIndex = append(l.TxIndex, [2]int64{-1, int64(c.TxIndex("no-such-tx"))})
	}
	if htime {
		rk := TimeRanks(c.MsgTxs)
		for i, m := range c.MsgTxs {
			if m.Time == nil {
				continue
			}
			for _, d := range []time.Duration{-1, 0, 1} {
				t := m.Time.Add(d)
				l.HTime = append(l.HTime, [2]int64{rk[i] + int64(d), int64(c.TxAtHTime(t))})
			}
		}
	}
	for tx := 0; tx <= n; tx++ {
		for _, dist := range []int{1, 2, 3, n + 1} {
			b := int64(0)
			if c.HadErrSinceTx(tx, dist) {
				b = 1
			}
			l.HadErr = append(l.HadErr, [3]int64{int64(tx), int64(dist), b})
		}
	}
	for cur := 0; cur <= n; cur++ {
		l.FilterIdx = append(l.FilterIdx, [2]int64{int64(cur), int64(c.FilterIndexByCursor1(cur))})
	}
	for i, m := range c.MsgTxs {
		if !m.IsQueued {
			continue
		}
		ex := c.TxExecutedBy(i)
		r := int64(-1)
		if ex != nil {
			for j, x := range c.MsgTxs {
				if x == ex {
					r = int64(j)
					break
				}
			}
		}
		l.ExecBy = append(l.ExecBy, [2]int64{int64(i), r})
	}
	return l
}
