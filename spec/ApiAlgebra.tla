---------------------------- MODULE ApiAlgebra ----------------------------
(* C20 -- public helpers are total and obey their algebra.                    *)
(*                                                                            *)
(* Part 1  ALGEBRA.  For every helper there are two definitions:              *)
(*   Law*   what the NAME / the property says it means, on sets ("Delete      *)
(*          removes", "Add unions without duplicates", "Sub/Shared/Equal are  *)
(*          set difference, intersection, equality", "ParseStates drops       *)
(*          unknown names").  A logged Go result that falsifies Law* is a     *)
(*          VIOLATION (for the functions the property names).                 *)
(*   Code*  what the Go source computes, element order included               *)
(*          (mach_utils.go:155-371, mach_misc.go:21-412, machine.go:2689-     *)
(*          2881), with a boolean `fix` selecting the repaired behaviour      *)
(*          where the tree as found has a defect.  A logged result that       *)
(*          matches neither Code*(FALSE) nor Code*(TRUE) is SPEC-DRIFT.       *)
(* MCApiAlgebra checks Law* on Code* for the whole bounded input space,       *)
(* TraceApiAlgebra checks both on what the real functions returned.           *)
(*                                                                            *)
(* Weak readings taken (the property text admits a stronger one):             *)
(*  - state lists are sets: the Delete law is only demanded for a receiver    *)
(*    without duplicates (slicesWithout removes ONE occurrence);              *)
(*  - S.Add() with no list returns the receiver as is; "without duplicates"   *)
(*    is demanded when something is added or the receiver had none;           *)
(*  - queue queries / Time / TimeIndex are not named by the property: for     *)
(*    them only totality (no panic) is a verdict, the value is drift.         *)
(*                                                                            *)
(* Part 2  COPY SEMANTICS and Part 3 WAIT/ASK HELPERS: a small machine model  *)
(* (Mutate / Get / MutateReturned / HelperCall), see below.                   *)
EXTENDS AmSeq, TLC

---------------------------------------------------------------------------
(* generic helpers                                                            *)
Min2(a, b) == IF a < b THEN a ELSE b
Max2(a, b) == IF a > b THEN a ELSE b

SetOfLists(ls) == UNION {SSet(ls[i]) : i \in 1..Len(ls)}

Res(v) == [p |-> FALSE, r |-> v]     \* a call that returned v
Panic == [p |-> TRUE, r |-> FALSE]   \* a call that panicked

(* Go: slices.Index, 0-based, -1 when missing                                 *)
GoIndex(s, x) == SIndex(s, x) - 1

---------------------------------------------------------------------------
(* 1a. state lists                                                            *)

(* SRem(src, lists...) as the code is: the loop over the lists starts at 1    *)
(* (Go index), i.e. it SKIPS the first list; each element removes its first   *)
(* occurrence (slicesWithout).  fix: start at the first list.                 *)
CodeSRem(fix, s, ls) ==
  LET all == SFlatten(IF fix \/ ls = <<>> THEN ls ELSE Tail(ls))
      RECURSIVE Go(_, _)
      Go(t, k) == IF k > Len(all) THEN t ELSE Go(SWithout(t, all[k]), k + 1)
  IN Go(s, 1)

CodeAdd(s, ls) == IF ls = <<>> THEN s ELSE SUniq(s \o SFlatten(ls))
CodeAdd1(s, n) == SUniq(s \o n)
CodeSAdd(ls) == IF ls = <<>> THEN <<>> ELSE SUniq(SFlatten(ls))
CodeEqual(a, b) == SEvery(a, b) /\ SEvery(b, a)
CodeIndexOf(s, t) == [i \in 1..Len(t) |-> GoIndex(s, t[i])]

(* Machine.ParseStates as found: a duplicate of a KNOWN name switches to      *)
(* slicesUniq(states), which keeps unknown names; otherwise the keys of a     *)
(* map (arbitrary order).  Canonical order here: first occurrence.            *)
KnownDup(known, states) ==
  \E i, j \in 1..Len(states) : i # j /\ states[i] = states[j] /\ SHas(known, states[i])
CodeParse(fix, known, states) ==
  IF ~fix /\ KnownDup(known, states) THEN SUniq(states)
  ELSE SUniq(SelectSeq(states, LAMBDA x : SHas(known, x)))
ParseOrdered(fix, known, states) == ~fix /\ KnownDup(known, states)

LawDelete(s, ls, r) ==
  SIsUniq(s) => (SSet(r) = SSet(s) \ SetOfLists(ls) /\ SIsUniq(r))
LawAdd(s, ls, r) ==
  /\ SSet(r) = SSet(s) \cup SetOfLists(ls)
  /\ (ls # <<>> \/ SIsUniq(s)) => SIsUniq(r)
LawSub(a, b, r) == SSet(r) = SSet(a) \ SSet(b)
LawShared(a, b, r) == SSet(r) = SSet(a) \cap SSet(b)
LawEqual(a, b, r) == r = (SSet(a) = SSet(b))
LawParse(known, states, r) == SSet(r) = SSet(states) \cap SSet(known) /\ SIsUniq(r)

---------------------------------------------------------------------------
(* 1b. Time / TimeIndex (ticks: odd = active)                                 *)
Active(tick) == tick % 2 = 1
Zeros(n) == [i \in 1..n |-> 0]
Digit(n) == IF n \in 0..9 THEN <<"0", "1", "2", "3", "4", "5", "6", "7", "8", "9">>[n + 1] ELSE "?"
RECURSIVE JoinStr(_, _)
JoinStr(ss, sep) == IF ss = <<>> THEN "" ELSE
                    IF Len(ss) = 1 THEN ss[1] ELSE ss[1] \o sep \o JoinStr(Tail(ss), sep)
SeqSum(s) == SSum(s, DOMAIN s)

TIs1(t, i) == IF i = -1 \/ i >= Len(t) THEN FALSE ELSE Active(t[i + 1])
TNot1(t, i) == IF i = -1 \/ i >= Len(t) THEN FALSE ELSE ~Active(t[i + 1])
(* Is/Not index t[idx] unguarded for idx >= len: outside the premise (the     *)
(* index of a state that exists is < len), never generated.                   *)
TIs(t, ix) == ix # <<>> /\ \A k \in 1..Len(ix) : ix[k] # -1 /\ Active(t[ix[k] + 1])
TNot(t, ix) == \A k \in 1..Len(ix) : ~(ix[k] # -1 /\ Active(t[ix[k] + 1]))
TActive(t) == SelectSeq([i \in 1..Len(t) |-> i - 1], LAMBDA i : Active(t[i + 1]))
TNonZero(t) == SelectSeq([i \in 1..Len(t) |-> i - 1], LAMBDA i : t[i + 1] # 0)
TFilter(t, ix) == [k \in 1..Len(ix) |-> IF ix[k] >= Len(t) THEN 0 ELSE t[ix[k] + 1]]
TSumSel(t, ix) == SeqSum(TFilter(t, ix))
TCmp(t, t2, Bad(_, _)) == \A i \in 1..Min2(Len(t), Len(t2)) : ~Bad(t[i], t2[i])

(* Time.Equal(strict, t2) as found indexes time2[i] for every i of t: a       *)
(* shorter time2 with strict = FALSE panics.  fix: compare the common prefix. *)
CodeTEqual(fix, t, strict, t2) ==
  IF strict /\ Len(t) # Len(t2) THEN Res(FALSE)
  ELSE IF ~fix /\ Len(t) > Len(t2) /\ \A i \in 1..Len(t2) : t[i] = t2[i] THEN Panic
  ELSE Res(\A i \in 1..Min2(Len(t), Len(t2)) : t[i] = t2[i])

NamesAt(index, ix) ==
  [k \in 1..Len(ix) |-> IF ix[k] # -1 /\ ix[k] < Len(index) THEN index[ix[k] + 1] ELSE "unknown"]

---------------------------------------------------------------------------
(* 1c. queue queries.  q: sequence of [type, called, check, args, tick]       *)
QMatch(mu, mt, st, woa, strict, minTick, chk) ==
  /\ (minTick = 0 \/ mu.tick >= minTick)
  /\ mu.check = chk /\ mu.type = mt
  /\ (woa => ~mu.args)
  /\ IF strict THEN Len(mu.called) = Len(st) ELSE Len(mu.called) >= Len(st)
  /\ SEvery(mu.called, st)

(* IsQueued: PositionFirst re-slices queue[0:1] -- on an empty queue a        *)
(* runtime panic (fix: empty iteration).  The returned idx is relative to the *)
(* re-sliced window.                                                          *)
CodeIsQueued(fix, q, mt, st, woa, strict, minTick, chk, pos) ==
  IF pos = 1 /\ q = <<>> /\ ~fix THEN Panic
  ELSE LET iter == CASE pos = 2 -> SubSeq(q, Max2(1, Len(q)), Len(q))
                     [] pos = 1 -> SubSeq(q, 1, Min2(1, Len(q)))
                     [] OTHER -> q
           hits == {i \in 1..Len(iter) : QMatch(iter[i], mt, st, woa, strict, minTick, chk)}
       IN IF hits = {} THEN Res(<<FALSE, 0, 0>>)
          ELSE LET i == CHOOSE x \in hits : \A y \in hits : x <= y
               IN Res(<<TRUE, i - 1, iter[i].tick>>)

CodeIsQueuedAbove(q, thr, mt, st, woa, strict, minTick) ==
  Cardinality({i \in 1..Len(q) : QMatch(q[i], mt, st, woa, strict, minTick, FALSE)}) >= Max2(thr, 1)

CodeWillBe(fix, q, mt, st, pos) ==
  LET x == CodeIsQueued(fix, q, mt, st, FALSE, FALSE, 0, FALSE, pos)
  IN IF x.p THEN Panic ELSE Res(x.r[1])

---------------------------------------------------------------------------
(* dispatch: the result of function fn on argument tuple a, as the code is    *)
CodeRes(fn, fix, a) ==
  CASE fn = "S.Unique" -> Res(SUniq(a[1]))
    [] fn = "S.Has" -> Res(SHas(a[1], a[2]))
    [] fn \in {"S.Sub", "StatesDiff"} -> Res(SDiff(a[1], a[2]))
    [] fn \in {"S.Shared", "StatesShared"} -> Res(SShared(a[1], a[2]))
    [] fn \in {"S.Equal", "StatesEqual"} -> Res(CodeEqual(a[1], a[2]))
    [] fn = "S.EqualOrder" -> Res(a[1] = a[2])
    [] fn \in {"S.Index", "StatesToIndex"} -> Res(CodeIndexOf(a[1], a[2]))
    [] fn = "S.Delete1" -> Res(CodeSRem(fix, a[1], <<a[2]>>))
    [] fn \in {"S.Delete", "SRem"} -> Res(CodeSRem(fix, a[1], a[2]))
    [] fn = "S.Add1" -> Res(CodeAdd1(a[1], a[2]))
    [] fn = "S.Add" -> Res(CodeAdd(a[1], a[2]))
    [] fn = "SAdd" -> Res(CodeSAdd(a[1]))
    [] fn = "M.ParseStates" -> Res(CodeParse(fix, a[1], a[2]))
    [] fn = "M.Has" -> Res(SEvery(a[1], a[2]))
    [] fn = "M.Index" -> Res(CodeIndexOf(a[1], a[2]))
    \* Time
    [] fn \in {"NewTime", "NewTimeIndex"} ->
         Res([i \in 1..Len(a[1]) |-> IF SHas(a[2], i - 1) THEN 1 ELSE 0])
    [] fn = "T.String" -> Res(JoinStr([i \in 1..Len(a[1]) |-> Digit(a[1][i])], " "))
    [] fn = "T.NonZeroStates" -> Res(TNonZero(a[1]))
    [] fn = "T.Sum" -> Res(IF a[2] THEN SeqSum(a[1]) ELSE TSumSel(a[1], a[3]))
    [] fn = "T.Increment" -> Res(IF a[2] < Len(a[1]) THEN [a[1] EXCEPT ![a[2] + 1] = @ + 1] ELSE a[1])
    [] fn = "T.Tick" -> Res(IF Len(a[1]) <= a[2] THEN 0 ELSE a[1][a[2] + 1])
    [] fn = "T.Is1" -> Res(TIs1(a[1], a[2]))
    [] fn = "T.Not1" -> Res(TNot1(a[1], a[2]))
    [] fn = "T.Filter" -> Res(TFilter(a[1], a[2]))
    \* Time.ActiveStates ignores idxs (the doc says they narrow the result)
    [] fn = "T.ActiveStates" -> Res(TActive(a[1]))
    [] fn = "T.Is" -> Res(TIs(a[1], a[2]))
    [] fn = "T.Not" -> Res(TNot(a[1], a[2]))
    [] fn = "T.Any1" -> Res(\E k \in 1..Len(a[2]) : TIs1(a[1], a[2][k]))
    [] fn = "T.Any" -> Res(\E k \in 1..Len(a[2]) : TIs(a[1], a[2][k]))
    [] fn = "T.Add" -> Res(IF Len(a[1]) # Len(a[2]) THEN a[1]
                           ELSE [i \in 1..Len(a[1]) |-> a[1][i] + a[2][i]])
    [] fn = "T.DiffSince" -> Res(IF Len(a[1]) # Len(a[2]) THEN Zeros(Len(a[1]))
                                 ELSE [i \in 1..Len(a[1]) |-> a[1][i] - a[2][i]])
    [] fn = "T.After" -> Res(TCmp(a[1], a[3], LAMBDA x, y : x < y \/ (x = y /\ ~a[2])))
    [] fn = "T.Before" -> Res(TCmp(a[1], a[3], LAMBDA x, y : x > y \/ (x = y /\ ~a[2])))
    [] fn = "T.Equal" -> CodeTEqual(fix, a[1], a[2], a[3])
    \* TimeIndex: a[1] index, a[2] time
    [] fn = "TI.String" -> Res(JoinStr(NamesAt(a[1], TActive(a[2])), " "))
    [] fn = "TI.NonZeroStates" -> Res(NamesAt(a[1], TNonZero(a[2])))
    [] fn = "TI.ActiveStates" ->
         Res(SelectSeq(NamesAt(a[1], TActive(a[2])), LAMBDA n : a[3] \/ SHas(a[4], n)))
    [] fn = "TI.StateName" -> Res(IF a[3] >= Len(a[1]) THEN "" ELSE a[1][a[3] + 1])
    [] fn = "TI.Sum" -> Res(TSumSel(a[2], CodeIndexOf(a[1], a[3])))
    [] fn = "TI.Filter" -> Res(<<a[3], TFilter(a[2], CodeIndexOf(a[1], a[3]))>>)
    [] fn = "TI.Is" -> Res(TIs(a[2], CodeIndexOf(a[1], a[3])))
    [] fn = "TI.Not" -> Res(TNot(a[2], CodeIndexOf(a[1], a[3])))
    [] fn = "TI.Is1" -> Res(TIs(a[2], <<GoIndex(a[1], a[3])>>))
    [] fn = "TI.Not1" -> Res(TNot(a[2], <<GoIndex(a[1], a[3])>>))
    [] fn = "TI.Any" -> Res(\E k \in 1..Len(a[3]) : TIs(a[2], <<GoIndex(a[1], a[3][k])>>))
    [] fn = "TI.Any1" -> Res(\E k \in 1..Len(a[3]) : TIs1(a[2], GoIndex(a[1], a[3][k])))
    \* queue queries: a[1] index, a[2] queue
    [] fn = "M.IsQueued" -> CodeIsQueued(fix, a[2], a[3], a[4], a[5], a[6], a[7], a[8], a[9])
    [] fn = "M.IsQueuedAbove" -> Res(CodeIsQueuedAbove(a[2], a[3], a[4], a[5], a[6], a[7], a[8]))
    [] fn = "M.WillBe" -> CodeWillBe(fix, a[2], "add", a[3], IF a[4] THEN a[5] ELSE 0)
    [] fn = "M.WillBeRemoved" -> CodeWillBe(fix, a[2], "remove", a[3], IF a[4] THEN a[5] ELSE 0)
    [] fn = "M.WillBe1" -> CodeWillBe(fix, a[2], "add", <<a[3]>>, IF a[4] THEN a[5] ELSE 0)
    [] fn = "M.WillBeRemoved1" -> CodeWillBe(fix, a[2], "remove", <<a[3]>>, IF a[4] THEN a[5] ELSE 0)
    [] fn = "M.WillBeAny" ->
         Res(\E k \in 1..Len(a[3]) : CodeWillBe(fix, a[2], "add", <<a[3][k]>>, 0).r)

AlgFns == {"S.Unique", "S.Has", "S.Sub", "StatesDiff", "S.Shared", "StatesShared", "S.Equal",
           "StatesEqual", "S.EqualOrder", "S.Index", "StatesToIndex", "S.Delete1", "S.Delete",
           "SRem", "S.Add1", "S.Add", "SAdd", "M.ParseStates", "M.Has", "M.Index",
           "NewTime", "NewTimeIndex", "T.String", "T.NonZeroStates", "T.Sum", "T.Increment",
           "T.Tick", "T.Is1", "T.Not1", "T.Filter", "T.ActiveStates", "T.Is", "T.Not", "T.Any1",
           "T.Any", "T.Add", "T.DiffSince", "T.After", "T.Before", "T.Equal", "TI.String",
           "TI.NonZeroStates", "TI.ActiveStates", "TI.StateName", "TI.Sum", "TI.Filter", "TI.Is",
           "TI.Not", "TI.Is1", "TI.Not1", "TI.Any", "TI.Any1", "M.IsQueued", "M.IsQueuedAbove",
           "M.WillBe", "M.WillBeRemoved", "M.WillBe1", "M.WillBeRemoved1", "M.WillBeAny"}

(* the functions whose MEANING the property states                            *)
NamedFns == {"S.Delete", "S.Delete1", "SRem", "S.Add", "S.Add1", "SAdd", "S.Sub", "StatesDiff",
             "S.Shared", "StatesShared", "S.Equal", "StatesEqual", "M.ParseStates"}

(* the property's meaning of a returned value r                               *)
LawOk(fn, a, r) ==
  CASE fn \in {"S.Delete", "SRem"} -> LawDelete(a[1], a[2], r)
    [] fn = "S.Delete1" -> LawDelete(a[1], <<a[2]>>, r)
    [] fn = "S.Add" -> LawAdd(a[1], a[2], r)
    [] fn = "S.Add1" -> LawAdd(a[1], <<a[2]>>, r)
    [] fn = "SAdd" -> SSet(r) = SetOfLists(a[1]) /\ SIsUniq(r)
    [] fn \in {"S.Sub", "StatesDiff"} -> LawSub(a[1], a[2], r)
    [] fn \in {"S.Shared", "StatesShared"} -> LawShared(a[1], a[2], r)
    [] fn \in {"S.Equal", "StatesEqual"} -> LawEqual(a[1], a[2], r)
    [] fn = "M.ParseStates" -> LawParse(a[1], a[2], r)
    [] OTHER -> TRUE

(* does a logged (panic flag, value) agree with the code model?               *)
SameRes(fn, fix, a, c, p, r) ==
  IF c.p THEN p
  ELSE /\ ~p
       /\ IF fn = "M.ParseStates" /\ ~ParseOrdered(fix, a[1], a[2])
          THEN SSet(r) = SSet(c.r) /\ Len(r) = Len(c.r)
          ELSE IF fn = "M.IsQueued" /\ a[9] = 1 /\ a[2] = <<>> /\ ~fix
          THEN TRUE   \* as found: panic, or a stale slot when capacity remains
          ELSE IF fn = "T.Equal" /\ fix /\ ~a[2] /\ Len(a[1]) > Len(a[3])
          THEN r \in BOOLEAN /\ (r => c.r)  \* a repair may also answer "not equal"
          ELSE r = c.r

---------------------------------------------------------------------------
(* Part 2 and 3: machine model for copy semantics and wait/ask helpers        *)
(*                                                                            *)
(* The abstract machine: active set, per-state ticks, tags, queue length,     *)
(* tracer ids, disposed flag.  Getters hand out a VALUE; MutateReturned must  *)
(* be a stutter on the machine (unless the getter is in Shared, which models  *)
(* a getter leaking its internal slice/map).                                  *)
Getters == {"ActiveStates", "Schema", "Clock", "Time", "Tags", "Queue", "Tracers"}

ViewOf(g, m) ==
  CASE g = "ActiveStates" -> m.active
    [] g = "Schema" -> m.schema
    [] g = "Clock" -> m.clock
    [] g = "Time" -> m.clock
    [] g = "Tags" -> m.tags
    [] g = "Queue" -> m.queue
    [] g = "Tracers" -> m.tracers

(* what a caller can do to a returned value: here "replace it by junk"        *)
Junk == "junk"
WriteThrough(g, m) ==
  CASE g = "ActiveStates" -> [m EXCEPT !.active = {Junk}]
    [] g = "Schema" -> [m EXCEPT !.schema = Junk]
    [] g \in {"Clock", "Time"} -> [m EXCEPT !.clock = 99]
    [] g = "Tags" -> [m EXCEPT !.tags = <<Junk>>]
    [] g = "Queue" -> [m EXCEPT !.queue = <<Junk>>]
    [] g = "Tracers" -> [m EXCEPT !.tracers = <<Junk>>]

(* Wait/ask helpers on top of machine outcomes.                               *)
(* A scenario fixes what the machine does with the helper's mutation:         *)
(*   sc.disposed   the machine is disposed                                    *)
(*   sc.queued     the mutation is queued behind a running transition         *)
(*   sc.possible   the negotiation accepts it (no handler vetoes)             *)
(* `isAdd` tells add from remove, `holds` is whether, at return, the states   *)
(* are all active (add) / all inactive (remove).                              *)
Scenarios == [disposed : BOOLEAN, queued : BOOLEAN, possible : BOOLEAN]

HelperFns == {"AddSync", "RemoveSync", "CantAdd", "CantRemove", "CantAdd1", "CantRemove1",
              "AskAdd", "AskRemove"}

(* what the machine does: the mutation is applied iff not disposed & possible *)
Applied(sc) == ~sc.disposed /\ sc.possible

(* code as found (help.go:103-224, 1844-1932) / repaired                      *)
HelperCode(fix, fn, sc) ==
  CASE fn = "AddSync" -> IF Applied(sc) THEN "true" ELSE "false"
    \* EvRemoveSync returns true from both branches after WhenQueue
    [] fn = "RemoveSync" -> IF Applied(sc) \/ (~fix /\ sc.queued /\ ~sc.disposed) THEN "true" ELSE "false"
    \* CanAdd on a disposed machine returns Canceled and never closes CheckDone
    [] fn = "CantAdd" -> IF sc.disposed THEN (IF fix THEN "true" ELSE "blocked")
                         ELSE IF sc.possible THEN "false" ELSE "true"
    \* CantRemove returns the accepted flag instead of its negation
    [] fn = "CantRemove" -> IF sc.disposed THEN (IF fix THEN "true" ELSE "blocked")
                            ELSE IF sc.possible = fix THEN "false" ELSE "true"
    [] fn \in {"CantAdd1", "CantRemove1"} -> IF Applied(sc) THEN "false" ELSE "true"
    [] fn = "AskAdd" -> IF sc.disposed THEN (IF fix THEN "canceled" ELSE "blocked")
                        ELSE IF sc.possible THEN "applied" ELSE "canceled"
    \* as found: possible -> CantRemove = true -> canceled without trying;
    \*           impossible -> tries, the machine cancels
    [] fn = "AskRemove" -> IF sc.disposed THEN (IF fix THEN "canceled" ELSE "blocked")
                           ELSE IF sc.possible /\ fix THEN "applied" ELSE "canceled"

(* the property: the helper returns according to what happened / can happen   *)
HelperLaw(fn, sc, ret) ==
  /\ ret # "blocked"
  /\ CASE fn \in {"AddSync", "RemoveSync"} -> ret = (IF Applied(sc) THEN "true" ELSE "false")
       [] fn \in {"CantAdd", "CantRemove", "CantAdd1", "CantRemove1"} ->
            \* on a disposed machine nothing is possible; either answer that
            \* RETURNS is accepted (weak reading), otherwise "cannot" = vetoed
            sc.disposed \/ ret = (IF sc.possible THEN "false" ELSE "true")
       [] fn \in {"AskAdd", "AskRemove"} -> ret = (IF Applied(sc) THEN "applied" ELSE "canceled")

(* Part 3a: the Sync helpers on state LISTS whose members differ.             *)
(* The scenarios above name one state, so "all of them" and "any of them"     *)
(* coincide.  Here the helper gets a list of 1..n distinct relation-less      *)
(* states; every member i is described by                                     *)
(*   lst[i].pre    it is active before the call                               *)
(*   lst[i].veto   its negotiation handler (Enter for an add, Exit for a      *)
(*                 remove) refuses                                            *)
(* machine (transition.go): an add negotiates Enter only for members that are *)
(* not active yet, a remove negotiates Exit only for members that are active; *)
(* one refusal cancels the whole mutation, nothing changes.                   *)
ListSc == [disposed : BOOLEAN, queued : BOOLEAN]
ListMember == [pre : BOOLEAN, veto : BOOLEAN]
ListFns == {"AddSync", "RemoveSync"}

ListCalled(isAdd, e) == IF isAdd THEN ~e.pre ELSE e.pre
ListAccepted(isAdd, sc, lst) ==
  ~sc.disposed /\ \A i \in 1..Len(lst) : ~(ListCalled(isAdd, lst[i]) /\ lst[i].veto)
(* machine.go EvRemove: a removal none of whose members is active, issued      *)
(* while a transition runs and nothing else is queued, is answered Executed   *)
(* at once -- no mutation is queued, no transition runs, a tracer sees none   *)
ListSkipped(isAdd, sc, lst) ==
  ~isAdd /\ sc.queued /\ ~sc.disposed /\ \A i \in 1..Len(lst) : ~lst[i].pre
(* a tracer sees the helper's mutation end as an accepted transition          *)
ListSeenAccepted(isAdd, sc, lst) == ListAccepted(isAdd, sc, lst) /\ ~ListSkipped(isAdd, sc, lst)
(* activity of the members once the mutation is through                       *)
ListAfter(isAdd, sc, lst) ==
  [i \in 1..Len(lst) |-> IF ListAccepted(isAdd, sc, lst) THEN isAdd ELSE lst[i].pre]
(* add: ALL members active (Is); remove: NONE of them active (Not)            *)
ListHolds(isAdd, after) == \A i \in 1..Len(after) : after[i] = isAdd

(* code (help.go EvAddSync / EvRemoveSync): Executed -> true, Canceled ->     *)
(* false, a queue tick -> wait for it, then Is(states) / Not(states).         *)
(* as found: EvRemoveSync answered true from both branches after the wait     *)
ListCode(fix, fn, sc, lst) ==
  LET isAdd == fn = "AddSync"
      after == ListAfter(isAdd, sc, lst)
  IN IF sc.disposed THEN "false"
     ELSE IF ~sc.queued THEN (IF ListAccepted(isAdd, sc, lst) THEN "true" ELSE "false")
     ELSE IF ~isAdd /\ ~fix THEN "true"
     ELSE IF ListHolds(isAdd, after) THEN "true" ELSE "false"

(* the property, on what the machine shows after the call (`after`: the       *)
(* activity of every member read from the real machine):                      *)
(* true <=> the list is in the asked state (all active / none active).        *)
(* Without relations between the members that is the same as "the mutation    *)
(* went through": a refused mutation leaves a member its handler was called   *)
(* for in the opposite state, an accepted one leaves none.  Nothing is        *)
(* possible on a disposed machine.                                            *)
ListLaw(fn, sc, after, ret) ==
  /\ ret \in {"true", "false"}
  /\ IF sc.disposed THEN ret = "false"
     ELSE ret = (IF ListHolds(fn = "AddSync", after) THEN "true" ELSE "false")

(* WaitForAll / WaitForAny: each return value must be truthful.               *)
(*   chans: sequence of BOOLEAN (closed?), ctxDone: ctx already cancelled     *)
WaitLaw(fn, chans, ctxDone, ret) ==
  LET all == \A i \in 1..Len(chans) : chans[i]
      any == \E i \in 1..Len(chans) : chans[i]
  IN /\ ret # "blocked"
     /\ ret = "ctx" => ctxDone
     /\ IF fn = "WaitForAll"
        THEN (ret = "nil" => all) /\ (ret = "timeout" => ~all)
        ELSE (ret = "nil" => any) /\ (ret = "timeout" => ~any)
     /\ ret \in {"nil", "ctx", "timeout"}

---------------------------------------------------------------------------
(* Part 3b: the ASYNC helpers AddAsync / Add1Async / EvAddAsync / EvAdd1Async *)
(* (help.go:129-176): "adds the initial states and waits for the wait state   *)
(* to become active".  Unlike the Sync helpers their answer depends on WHEN   *)
(* the awaited activation happens relative to the helper's own steps, so the  *)
(* helper is modelled step by step against an environment:                    *)
(*                                                                            *)
(*   helper   Bind    read the wait state's tick, subscribe to its next       *)
(*                    activation (WhenTicks(w, NextActiveIn(tick)))           *)
(*            Mutate  EvAdd(addStates): refused at once (veto / disposed),    *)
(*                    executed at once (the whole queue drain runs inside the *)
(*                    call), or queued behind a running transition            *)
(*            Wait    select { when -> true, ctx.Done -> false }              *)
(*   env      Release   the running transition ends, the queue is drained     *)
(*            LaterAct  another goroutine (re)activates / de-activates the    *)
(*                      wait state                                            *)
(*            CtxExpire the live ctx ends (only once the helper had every     *)
(*                      chance to see what the environment did)               *)
(*                                                                            *)
(* A scenario fixes how the wait state W gets activated (`via`):              *)
(*   self      W is one of the added states            (same transition)      *)
(*   rel       an added state pulls W in by Add        (same transition)      *)
(*   drain     a final handler of the added state adds W (same queue drain,   *)
(*             i.e. before EvAdd returns to the helper when it runs at once)  *)
(*   later     another goroutine (re)activates W after the mutation           *)
(*   remove    another goroutine DE-activates W after the mutation (nothing   *)
(*             to report: one more tick of W is not an activation)            *)
(*   prequeued the activation is already waiting in the queue at the call     *)
(*   never     nobody activates W                                             *)
(* and: pre (W active before the call), multi (W is a Multi state: a called   *)
(* activation of an active W ticks by 2), mode (direct / queued / disposed),  *)
(* veto (a negotiation handler refuses the helper's mutation), ctx (live /    *)
(* background / cancelled).                                                   *)
(*                                                                            *)
(* `order` is the order of the helper's first two steps: "bind-mutate" is the *)
(* code, "mutate-bind" the variant the law must tell apart (it misses every   *)
(* activation that happens inside the mutation).                              *)
AsyncFns == {"AddAsync", "Add1Async", "EvAddAsync", "EvAdd1Async"}
AsyncVias == {"self", "rel", "drain", "later", "remove", "prequeued", "never"}
AsyncModes == {"direct", "queued", "disposed"}
AsyncCtxs == {"live", "background", "cancelled"}
AsyncOrders == {"bind-mutate", "mutate-bind"}

AsyncScenarios ==
  {sc \in [via : AsyncVias, pre : BOOLEAN, multi : BOOLEAN, mode : AsyncModes,
           veto : BOOLEAN, ctx : AsyncCtxs] :
     /\ sc.via = "prequeued" => sc.mode = "queued"
     /\ sc.mode = "disposed" => sc.via = "never" /\ ~sc.veto /\ ~sc.pre /\ ~sc.multi}

(* activations a tick stands for: 0 -> 0, 1, 2 -> 1, 3, 4 -> 2                *)
Acts(tick) == (tick + 1) \div 2
NewAct(from, to) == Acts(to) > Acts(from)

(* transition.go:130-150: an inactive target state ticks by 1; an active      *)
(* Multi state ticks by 2 only when it is CALLED (not when a relation pulls   *)
(* it in); an active plain state does not tick                                *)
Bump(tick, multi, called) ==
  IF ~Active(tick) THEN tick + 1 ELSE IF multi /\ called THEN tick + 2 ELSE tick
(* what "another goroutine" does: a new activation whatever the state is --   *)
(* Add1(W), preceded by Remove1(W) when a plain W is active                   *)
Cycle(tick) == IF ~Active(tick) THEN tick + 1 ELSE tick + 2

(* what the other goroutine does once the helper's mutation is through        *)
AfterEffect(sc, tick) ==
  CASE sc.via = "later" -> Cycle(tick)
    [] sc.via = "remove" -> IF Active(tick) THEN tick + 1 ELSE tick
    [] OTHER -> tick

(* the helper's own mutation, with everything its queue drain carries         *)
MutTx(sc, tick) ==
  IF sc.veto THEN tick
  ELSE LET t1 == CASE sc.via = "self" -> Bump(tick, sc.multi, TRUE)
                   [] sc.via = "rel" -> Bump(tick, sc.multi, FALSE)
                   [] OTHER -> tick
       IN IF sc.via = "drain" THEN Bump(t1, sc.multi, TRUE) ELSE t1

(* helper state: pc, tick (of W, the machine's), t0 (tick at the call),       *)
(* target (tick the subscription waits for), closed (WhenTicks handed out the *)
(* closed channel), pend (the mutation sits in the queue), muted (it has been *)
(* processed), acted (LaterAct done), ctxdone, te (tick when the ctx ended),  *)
(* cancel (the mutation was refused inside EvAdd), ret                        *)
AsyncInit(order, sc) ==
  LET t == IF sc.pre THEN 1 ELSE 0 IN
  [pc |-> IF order = "bind-mutate" THEN "bind" ELSE "mutate",
   tick |-> t, t0 |-> t, target |-> 0, closed |-> FALSE, pend |-> FALSE, muted |-> FALSE,
   acted |-> FALSE, ctxdone |-> (sc.ctx = "cancelled"), te |-> t, cancel |-> FALSE,
   ret |-> "none"]

AsyncAfter(order, pc) ==
  IF order = "bind-mutate" THEN (IF pc = "bind" THEN "mutate" ELSE "wait")
  ELSE (IF pc = "mutate" THEN "bind" ELSE "wait")

(* machine.go:602-645: a disposed machine and an expired ctx get the closed   *)
(* channel                                                                    *)
AsyncBind(order, sc, h) ==
  IF h.pc # "bind" THEN {} ELSE
  {[h EXCEPT !.target = h.tick + (IF Active(h.tick) THEN 2 ELSE 1),
             !.closed = (sc.mode = "disposed" \/ h.ctxdone),
             !.pc = AsyncAfter(order, "bind")]}

AsyncMutate(order, sc, h) ==
  IF h.pc # "mutate" THEN {} ELSE
  CASE sc.mode = "disposed" \/ (sc.mode = "direct" /\ sc.veto) ->
         {[h EXCEPT !.cancel = TRUE, !.ret = "false", !.pc = "done"]}
    [] sc.mode = "direct" ->
         {[h EXCEPT !.tick = MutTx(sc, h.tick), !.muted = TRUE, !.pc = AsyncAfter(order, "mutate")]}
    [] OTHER ->
         {[h EXCEPT !.pend = TRUE, !.pc = AsyncAfter(order, "mutate")]}

AsyncWhenReady(h) == h.closed \/ (h.target # 0 /\ h.tick >= h.target)

AsyncWait(sc, h) ==
  IF h.pc # "wait" THEN {} ELSE
  {[h EXCEPT !.ret = r, !.pc = "done"] :
     r \in (IF AsyncWhenReady(h) THEN {"true"} ELSE {}) \cup (IF h.ctxdone THEN {"false"} ELSE {})}

(* the queue in front of / behind the helper's mutation is drained in one go  *)
AsyncRelease(sc, h) ==
  IF ~(sc.mode = "queued" /\ h.pend /\ h.pc # "done") THEN {} ELSE
  LET a == IF sc.via = "prequeued" THEN Cycle(h.tick) ELSE h.tick
      b == MutTx(sc, a)
      c == AfterEffect(sc, b)
  IN {[h EXCEPT !.tick = c, !.pend = FALSE, !.muted = TRUE, !.acted = TRUE]}

AsyncLater(sc, h) ==
  IF ~(sc.mode = "direct" /\ sc.via \in {"later", "remove"} /\ h.muted /\ ~h.acted /\ h.pc # "done")
  THEN {} ELSE
  {[h EXCEPT !.tick = AfterEffect(sc, h.tick), !.acted = TRUE]}

AsyncEnvSteps(sc, h) == AsyncRelease(sc, h) \cup AsyncLater(sc, h)

(* premise of the binding: the live ctx outlives everything the environment   *)
(* does and gives the waiting helper time to see it                           *)
AsyncExpire(sc, h) ==
  IF ~(sc.ctx = "live" /\ ~h.ctxdone /\ h.pc = "wait" /\ ~AsyncWhenReady(h)
       /\ AsyncEnvSteps(sc, h) = {}) THEN {} ELSE
  {[h EXCEPT !.ctxdone = TRUE, !.te = h.tick]}

AsyncSteps(order, sc, h) ==
  AsyncBind(order, sc, h) \cup AsyncMutate(order, sc, h) \cup AsyncWait(sc, h)
  \cup AsyncEnvSteps(sc, h) \cup AsyncExpire(sc, h)

(* nothing can happen any more and the helper has not returned                *)
AsyncSucc(order, sc, h) ==
  IF h.pc = "done" THEN {}
  ELSE IF AsyncSteps(order, sc, h) = {} THEN {[h EXCEPT !.ret = "blocked", !.pc = "done"]}
  ELSE AsyncSteps(order, sc, h)

RECURSIVE AsyncReach(_, _, _)
AsyncReach(order, sc, h) ==
  IF h.pc = "done" THEN {h} ELSE UNION {AsyncReach(order, sc, g) : g \in AsyncSucc(order, sc, h)}

(* what the helper can answer, with the tick of W it leaves behind            *)
AsyncOutcomes(order, sc) ==
  {<<h.ret, h.tick>> : h \in AsyncReach(order, sc, AsyncInit(order, sc))}

(* THE PROPERTY: "return according to what actually happened to the machine"  *)
(* and "no exported function blocks forever", over what was OBSERVED:         *)
(*   t0 / t1  tick of W at the call / at the return (or when given up)        *)
(*   te       tick of W when the ctx ended (= t1 when it did not)             *)
(*   cancel   the helper's mutation was refused inside the call               *)
(*   expired  the ctx ended before the helper returned                        *)
(* - true  only if the mutation was not refused and W got a new activation    *)
(*         since the call (weak reading: or is active at the return -- the    *)
(*         code insists on a NEW activation of a W that was active before,    *)
(*         "waits for the state to become active" does not);                  *)
(* - false only if the mutation was refused, or the ctx ended and W had no    *)
(*         new activation by then;                                            *)
(* - not returning is only acceptable on a ctx that never ends while W has    *)
(*   not been activated (there is nothing to report yet).                     *)
(* Weak reading: a ctx that is ALREADY cancelled is outside "nil or live      *)
(* context": the helper must return, either answer is accepted.               *)
AsyncLaw(sc, o, ret) ==
  /\ ret \in {"true", "false", "blocked"}
  /\ sc.ctx = "cancelled" => ret # "blocked"
  /\ sc.ctx # "cancelled" =>
       /\ ret = "true" => ~o.cancel /\ (NewAct(o.t0, o.t1) \/ Active(o.t1))
       /\ ret = "false" => o.cancel \/ (o.expired /\ ~NewAct(o.t0, o.te))
       /\ ret = "blocked" => sc.ctx = "background" /\ ~o.cancel /\ ~NewAct(o.t0, o.t1)

AsyncObs(h) == [t0 |-> h.t0, t1 |-> h.tick, te |-> IF h.ctxdone THEN h.te ELSE h.tick,
                cancel |-> h.cancel, expired |-> h.ctxdone]

---------------------------------------------------------------------------
(* Part 4: totality.  Lifecycle phases and argument classes the sweep must    *)
(* cover; every call must return ("ok").                                      *)
Phases == {"fresh", "midqueue", "inhandler", "errored", "setschema", "disposed"}
ArgClasses == {"zero", "known", "cancelled", "evnomach"}
(* "deferred": the call was made BY a handler of the machine and did not      *)
(* return -- the handler overruns, which HandlerTimeout governs (weak reading: *)
(* not counted as "blocks forever"; listed in the evidence)                   *)
Outcomes == {"ok", "deferred", "panic", "fatal", "blocked"}
TotalLaw(outcome) == outcome \in {"ok", "deferred"}
=============================================================================
