----------------------------- MODULE MCSchemas -----------------------------
(* TLC as the explorer of the shipped schemas (property C19).                 *)
(*                                                                            *)
(* The schemas are not written in TLA+: InputFile is ndjson, one record per   *)
(* exploration, dumped by the harness from the current tree:                  *)
(*   sch      name -> [auto, multi, require, add, remove, after]  (parsed)    *)
(*   idx      Machine.StateNames()      sorted   the names as am.New sorts    *)
(*                                               them (the resolver's         *)
(*                                               topology is built from it)   *)
(*   callable the states Add1 / Remove1 may name in this exploration (all of  *)
(*            them, the relation core, or one relation component)             *)
(*   groups   the declared ...Groups value                                    *)
(*   sref     the first record of the file that holds the same schema         *)
(* Init = record k, the empty machine; Next = Add1(s) or Remove1(s) run to    *)
(* quiescence; VIEW = <<k, the active SET>>.  With Emit = TRUE every explored *)
(* edge is printed for the Go replayer:                                       *)
(*   [k, [src positions], +-position of s, [dst positions]]                   *)
EXTENDS Schemas, Json

CONSTANTS InputFile, Emit,
          MaxDistinct   \* the exploration is cut when the specification reaches more
                        \* sets than the real machine's own search found (+ margin)

Input == ndJsonDeserialize(InputFile)

NIn == Len(Input)

(* constant-level tables: evaluated once.  Several records may explore the     *)
(* same schema (one per group); sref is the first record with that schema and *)
(* owns its tables.                                                           *)
Own(i) == Input[i].sref = i
Topos == [i \in 1..NIn |-> IF Own(i) THEN TopoOf(Input[i].sch, Input[i].sorted) ELSE <<>>]
Cliques == [i \in 1..NIn |-> IF Own(i) THEN MaxCliques(Input[i].sch) ELSE {}]
Declared == [i \in 1..NIn |->
               IF Own(i) THEN DeclaredExclusive(Input[i].sch, Input[i].groups) ELSE {}]
GroupsOf == [i \in 1..NIn |-> Cliques[i] \cup Declared[i]]
ReqSets == [i \in 1..NIn |-> IF Own(i) THEN ReqMap(Input[i].sch) ELSE <<>>]

VARIABLES rk, active

(* both transition functions start an edge from the active set in index       *)
(* order (Machine.Import restores it that way)                                *)
EmitEdge(src, op, s, dst) ==
  Emit => PrintT(ToJson(<<rk, PosSet(Input[rk].idx, SSet(src)),
                          IF op = "add" THEN SIndex(Input[rk].idx, s)
                                        ELSE 0 - SIndex(Input[rk].idx, s),
                          PosSet(Input[rk].idx, SSet(dst))>>))

Mutate(op, s) ==
  \E d \in QuiesceSet(Input[rk].sch, Input[rk].idx, Topos[Input[rk].sref], active, op, s) :
     /\ active' = InOrder(Input[rk].idx, SSet(d))
     /\ EmitEdge(active, op, s, d)
     /\ rk' = rk

MCInit == rk \in 1..NIn /\ active = <<>>

MCNext == \E c \in 1..Len(Input[rk].callable) : \E op \in {"add", "remove"} :
             Mutate(op, Input[rk].callable[c])

MCSpec == MCInit /\ [][MCNext]_<<rk, active>>

MCView == <<rk, SSet(active)>>

(* CONSTRAINT: planning sizes every exploration with the real machine; if the *)
(* two transition functions disagree the specification's graph may be far     *)
(* bigger -- stop, the disagreement is reported by the replayer               *)
Bound == TLCGet("distinct") <= MaxDistinct

Inv_RequireClosed == RequireClosedSet(ReqSets[Input[rk].sref], SSet(active))
Inv_GroupExclusive == GroupExclusiveSet(GroupsOf[Input[rk].sref], SSet(active))

(* printed once: the groups the invariant quantifies over                     *)
ASSUME PrintT(<<"GROUPS", ToJson([i \in 1..NIn |->
                                    [id |-> Input[i].id, cliques |-> Cliques[i],
                                     declared |-> Declared[i]]])>>)
=============================================================================
