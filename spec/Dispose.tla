------------------------------ MODULE Dispose ------------------------------
(* Machine.Dispose / DisposeForce / parent-context cancellation               *)
(* (machine.go:376-516): any number of attempts, each running doDispose on    *)
(* its own goroutine, racing one another.  One action per stage between two   *)
(* verif hook points dd.enter .. dd.done.                                     *)
EXTENDS Naturals, Sequences, FiniteSets, TLC

CONSTANTS Attempts,     \* set of attempt ids
          Forced        \* subset of Attempts that are DisposeForce calls

VARIABLES pc,          \* attempt -> "none" | hook point | "bailed"
          disposing, disposed,
          subsClosed,  \* subs.dispose ran: every When* channel closed, state ctxs cancelled
          dhRuns,      \* how many times the registered dispose handlers ran
          ctxCancelled, whenDisposed,
          \* the queue goroutine inside processSubscriptions of an accepted
          \* transition (machine.go processSubscriptions): the Process*
          \* collectors REMOVE the matched bindings from the indexes and hand
          \* their channels over ("held"); they are closed after the lock is
          \* released.  subs.dispose() only sees what is still indexed.
          qpc,         \* "none" | "q.collected" | "q.closed"
          wIndexed,    \* waiters whose binding is still in a subscription index
          wHeld,       \* waiters collected by the queue goroutine, not closed yet
          wClosed      \* waiters whose channel is closed

(* "matched": condition met by the in-flight transition; "other": not met     *)
Waiters == {"matched", "other"}
Matched == {"matched"}

dvars == <<pc, disposing, disposed, subsClosed, dhRuns, ctxCancelled, whenDisposed>>
qvars == <<qpc, wIndexed, wHeld, wClosed>>
vars == <<dvars, qvars>>

Init ==
  /\ pc = [a \in Attempts |-> "none"]
  /\ disposing = FALSE /\ disposed = FALSE /\ subsClosed = FALSE
  /\ dhRuns = 0 /\ ctxCancelled = FALSE /\ whenDisposed = FALSE
  /\ qpc = "none" /\ wIndexed = Waiters /\ wHeld = {} /\ wClosed = {}

Move(a, p) == pc' = [pc EXCEPT ![a] = p]

(* doDispose entry                                                            *)
Enter(a) == pc[a] = "none" /\ Move(a, "dd.enter")
            /\ UNCHANGED <<disposing, disposed, subsClosed, dhRuns, ctxCancelled, whenDisposed, qvars>>

(* `if disposed return; if !disposing.CAS(false,true) return`                 *)
CasDisposing(a) ==
  /\ pc[a] = "dd.enter"
  /\ IF disposed \/ disposing
     THEN Move(a, "bailed") /\ UNCHANGED disposing
     ELSE disposing' = TRUE /\ Move(a, "dd.disposing")
  /\ UNCHANGED <<disposed, subsClosed, dhRuns, ctxCancelled, whenDisposed, qvars>>

(* wait for the queue (or DisposeTimeout) unless forced, then                 *)
(* `if !disposed.CAS(false,true) return`                                      *)
CasDisposed(a) ==
  /\ pc[a] = "dd.disposing"
  /\ IF disposed THEN Move(a, "bailed") /\ UNCHANGED disposed
     ELSE disposed' = TRUE /\ Move(a, "dd.disposed")
  /\ UNCHANGED <<disposing, subsClosed, dhRuns, ctxCancelled, whenDisposed, qvars>>

Lock(a) == pc[a] = "dd.disposed" /\ Move(a, "dd.locked")
           /\ UNCHANGED <<disposing, disposed, subsClosed, dhRuns, ctxCancelled, whenDisposed, qvars>>

(* subs.dispose(): closes every binding that is still INDEXED                  *)
SubsDispose(a) == pc[a] = "dd.locked" /\ subsClosed' = TRUE /\ Move(a, "dd.subsDisposed")
                  /\ wClosed' = wClosed \cup wIndexed /\ wIndexed' = {}
                  /\ UNCHANGED <<disposing, disposed, dhRuns, ctxCancelled, whenDisposed, qpc, wHeld>>

Settle(a) == pc[a] = "dd.subsDisposed" /\ Move(a, "dd.handlers")
             /\ UNCHANGED <<disposing, disposed, subsClosed, dhRuns, ctxCancelled, whenDisposed, qvars>>

Finish(a) ==
  /\ pc[a] = "dd.handlers"
  /\ dhRuns' = dhRuns + 1 /\ ctxCancelled' = TRUE /\ whenDisposed' = TRUE
  /\ Move(a, "dd.done")
  /\ UNCHANGED <<disposing, disposed, subsClosed, qvars>>

(* queue goroutine: ProcessWhen / ProcessWhenTime / ProcessWhenQueue /        *)
(* ProcessWhenQuery take the matched bindings out of the indexes              *)
QCollect ==
  /\ qpc = "none"
  /\ wHeld' = wIndexed \cap Matched /\ wIndexed' = wIndexed \ Matched
  /\ qpc' = "q.collected"
  /\ UNCHANGED <<dvars, wClosed>>

(* `for _, ch := range toClose { closeSafe(ch) }` - whatever disposal did in  *)
(* between: nobody else can reach these channels any more                     *)
QClose ==
  /\ qpc = "q.collected"
  /\ wClosed' = wClosed \cup wHeld /\ wHeld' = {}
  /\ qpc' = "q.closed"
  /\ UNCHANGED <<dvars, wIndexed>>

QStep == QCollect \/ QClose

Step(a) == Enter(a) \/ CasDisposing(a) \/ CasDisposed(a) \/ Lock(a) \/ SubsDispose(a)
           \/ Settle(a) \/ Finish(a)
Next == QStep \/ \E a \in Attempts : Step(a)
Spec == Init /\ [][Next]_vars
FairSpec == Spec /\ WF_vars(QStep) /\ \A a \in Attempts : WF_vars(Step(a))

---------------------------------------------------------------------------
(* C13 *)
Winners == {a \in Attempts : pc[a] \notin {"none", "dd.enter", "bailed"}}
SingleWinner == Cardinality(Winners) <= 1
DisposeHandlersOnce == dhRuns <= 1 /\ (whenDisposed => dhRuns = 1)
AllWaitersReleased == whenDisposed => (subsClosed /\ ctxCancelled /\ disposed)
(* every channel ever returned by a When* method is closed once the disposal  *)
(* completed and the queue goroutine is not in the middle of its closing      *)
(* loop - including the channels a running transition had already collected   *)
QueueQuiet == qpc # "q.collected"
CollectedWaitersReleased ==
  (whenDisposed /\ QueueQuiet) => (wClosed = Waiters /\ wHeld = {} /\ wIndexed = {})
NoWaiterLost == wIndexed \cup wHeld \cup wClosed = Waiters
Completes == (\E a \in Attempts : pc[a] # "none") ~> whenDisposed
HeldGetClosed == (qpc = "q.collected") ~> (qpc = "q.closed")
=============================================================================
