---------------------------- MODULE MCSupervisor ----------------------------
(* Bounded model of Supervisor.tla: every pool setting in the given ranges,    *)
(* <= MaxForks fork attempts each of which may succeed / fail / lose its       *)
(* bootstrap / connect / become ready / disconnect / err / be killed, in every *)
(* interleaving with Rounds NormalizingPool rounds, heartbeats and CheckPool.  *)
EXTENDS Supervisor

CONSTANTS Pools,       \* pool settings to start from, each encoded Min*100 + Max*10 + Warm
          McErrKill,   \* WorkerErrKill
          Variants     \* subset of {"code", "repaired"}: the code as it is / every repair flag on

ASSUME SchemaAssumptions

(* the memo registers of Supervisor!Step (one per mutation kind); a value set  *)
(* while the assumptions are evaluated is inherited by every TLC worker         *)
ASSUME \A i \in 1..Len(Kinds) : TLCSet(i, <<>>)
ASSUME TLCSet(31, 0) /\ TLCSet(32, 0)

MCInit ==
  \E p \in Pools : \E v \in Variants :
     InitWith([min |-> p \div 100, max |-> (p \div 10) % 10, warm |-> p % 10,
               errkill |-> McErrKill, gate |-> v = "repaired", errmulti |-> v = "repaired"])

(* with every repair flag on, the two formulas the code breaks hold as well    *)
RepairedHolds == cfg.gate /\ cfg.errmulti => WithinMax /\ KillRequestedDelivered

(* the code variant: note (once per TLC worker) which formulas it breaks --     *)
(* predictions, confirmed or refuted on the real code by the binding half       *)
PredNote ==
  /\ (cfg.gate \/ WithinMax \/ TLCGet(31) = 1
        \/ (TLCSet(31, 1) /\ PrintT(<<"PRED", "WithinMax">>)))
  /\ (cfg.errmulti \/ KillRequestedDelivered \/ TLCGet(32) = 1
        \/ (TLCSet(32, 1) /\ PrintT(<<"PRED", "KillRequestedDelivered">>)))

MCSpec == MCInit /\ [][Next]_vars

(* the recorded schedule is not part of the state identity                    *)
MCView == <<cfg, active, queue, wk, norm, hb, cnt, bad, wit>>

(* Schedule emission (Emit = TRUE): print the controllable events that led to *)
(* a witness state; the Go driver forces them on the real supervisor.         *)
EmitSched ==
  wit = {} \/ PrintT(<<"SCHED", ToJson([tags |-> wit, cfg |-> cfg, hist |-> hist])>>)
=============================================================================
