---------------------------- MODULE TraceMachine ----------------------------
(* Trace validation of REAL executions (harness/seqdrv) against Machine.tla.  *)
(*                                                                            *)
(* The machine state of the specification follows the log (so that one        *)
(* divergence does not hide the rest of the trace); for every logged          *)
(* transition                                                                 *)
(*   1. `drift`  collects every field in which the specification's own step   *)
(*      (Transition!RunTx on the same inputs) disagrees with what the real    *)
(*      machine did  -> conformance of the code to the specification, and     *)
(*   2. `viol`   collects every property formula of Props.tla that is FALSE   *)
(*      on the LOGGED observation -> the verdict on the real code.            *)
(* Several traces are concatenated; an "init" event resets the machine.       *)
EXTENDS Machine, Json

CONSTANT TraceFile

Trace == ndJsonDeserialize(TraceFile)

VARIABLES l, viol, drift, ntx, callStart

tvars == <<vars, l, viol, drift, ntx, callStart>>

Line == Trace[l]

HsOf(x) == [on |-> x.on,
            binds |-> [i \in 1..Len(x.binds) |->
                         [neg |-> SSet(x.binds[i].neg), fin |-> SSet(x.binds[i].fin)]]]

(* Binding forms (harness/rec/forms.go): a binding reaches the machine as      *)
(* handler maps (HandlersBindMaps) or as HandlersBind(&struct) whose handlers *)
(* are methods, exported func fields, or methods / func fields PROMOTED from  *)
(* an embedded struct (by value or through a pointer), or a mixture.  The     *)
(* form is logged per binding (hs.binds[i].form, absent = "map").  HsOf drops *)
(* it on purpose: the property formulas (C05_Complete, C05_FinalsOncePer-     *)
(* Change, C05_VetoStops, C07_JudgedIndividually ...) quantify over what a    *)
(* binding OWNS and owe every form the same handler calls.  What the form     *)
(* does fix is ownership: a handler that is a method exists whether or not    *)
(* the binding lists it, so a method form must own every handler name.        *)
BindForms   == {"map", "fields", "promoted", "ppromoted", "mixfields",
                "methods", "pmethods", "mixed"}
MethodForms == {"methods", "pmethods", "mixed"}
FormOf(b) == IF "form" \in DOMAIN b THEN b.form ELSE "map"
NegNamesOf(ix) ==
  UNION {{<<"exit", n>> : n \in SSet(ix)}, {<<"enter", n>> : n \in SSet(ix)},
         {<<"self", n>> : n \in SSet(ix)},
         {<<"ss", a, b>> : a \in SSet(ix), b \in SSet(ix)} \ {<<"ss", n, n>> : n \in SSet(ix)},
         {<<"anyenter">>}}
FinNamesOf(ix) ==
  UNION {{<<"end", n>> : n \in SSet(ix)}, {<<"state", n>> : n \in SSet(ix)},
         {<<"anystate">>}}
FormsOK(x) ==
  \A i \in 1..Len(x.hs.binds) :
    LET b == x.hs.binds[i] IN
    /\ FormOf(b) \in BindForms
    /\ FormOf(b) \in MethodForms =>
          /\ SSet(b.neg) = NegNamesOf(x.index)
          /\ SSet(b.fin) = FinNamesOf(x.index)

PairSet(s) == {<<s[i][1], s[i][2]>> : i \in 1..Len(s)}

NestOf(x) == [i \in 1..Len(x) |->
                [at |-> <<x[i].at[1], x[i].at[2]>>, type |-> x[i].type, called |-> x[i].called]]

ClockOf(ix, t) == [n \in SSet(ix) |-> t[SIndex(ix, n)]]

Fails(v) == {f \in DOMAIN v : ~v[f]}

---------------------------------------------------------------------------
ResetTo(x) ==
  /\ sch' = x.schema /\ idx' = x.index /\ topo' = x.topo /\ hs' = HsOf(x.hs)
  /\ active' = <<>>
  /\ clock' = [n \in SSet(x.index) |-> 0]
  /\ qtick' = 1
  /\ queue' = <<>> /\ running' = FALSE
  /\ veto' = {} /\ nest' = <<>>
  /\ pan' = {} /\ stall' = {} /\ dead' = {} /\ wedged' = FALSE /\ backoff' = FALSE
  /\ first' = "none" /\ atCall' = None /\ firstTx' = None
  /\ prev' = None /\ obs' = [kind |-> "init"]
  /\ verdict' = AllTrue
  /\ ncalls' = 0

(* conformance of Schema.Parse and of the Require topology                    *)
InitDrift(x) ==
  LET names == DOMAIN x.raw
      parsed == [n \in names |-> ParseState(names, n, x.raw[n]).st]
  IN  (IF parsed = x.schema THEN {} ELSE {"schema.parse"})
      \cup (IF FormsOK(x) THEN {} ELSE {"hs.form"})
      \cup (IF (~OrderedTopo /\ Cardinality(TopoSources(x.schema, x.index)) > 6)
               \/ x.topo \in TopoSet(x.schema, x.index) THEN {} ELSE {"topology"})

TraceInit ==
  /\ l = 2 /\ viol = {} /\ ntx = 0 /\ callStart = 1
  /\ Trace[1].ev = "init"
  /\ drift = {<<1, d>> : d \in InitDrift(Trace[1])}
  /\ LET x == Trace[1] IN
     InitWith(x.schema, x.index, x.topo, HsOf(x.hs))

EvInit ==
  /\ Line.ev = "init"
  /\ ResetTo(Line)
  /\ drift' = drift \cup {<<l, d>> : d \in InitDrift(Line)}
  /\ UNCHANGED <<viol, ntx, callStart>>

EvCall ==
  /\ Line.ev = "call"
  /\ CallFD(Line.type, Line.called, Line.check, PairSet(Line.veto), NestOf(Line.nest),
            IF "panic" \in DOMAIN Line THEN PairSet(Line.panic) ELSE {},
            IF "stall" \in DOMAIN Line THEN PairSet(Line.stall) ELSE {},
            IF "dead" \in DOMAIN Line THEN PairSet(Line.dead) ELSE {})
  /\ callStart' = l
  /\ UNCHANGED <<viol, drift, ntx>>

(* the driver switched the backoff on / off (Machine.LastHandlerDeadline)      *)
EvEnv ==
  /\ Line.ev = "env"
  /\ SetBackoff(Line.backoff)
  /\ UNCHANGED <<viol, drift, ntx, callStart>>

LoggedObs(x) ==
  [kind |-> "tx",
   mut |-> x.mut,
   accepted |-> x.accepted,
   before |-> x.before, after |-> x.after,
   tb |-> x.tb, ta |-> x.ta, tp |-> x.tp, mtime |-> x.mtime,
   target |-> x.target, target0 |-> x.target0,
   exits |-> x.exits, enters |-> x.enters,
   hlog |-> x.hlog,
   vetoed |-> PairSet(x.vetoed),
   applied |-> (x.accepted /\ ~x.mut.check),
   tlog |-> x.tlog,
   pan |-> pan, stall |-> stall, vetoedOnly |-> veto,
   faulted |-> \E i \in 1..Len(x.hlog) :
                 /\ <<x.hlog[i].b, x.hlog[i].h>> \in (pan \cup stall)
                 /\ <<x.hlog[i].b, x.hlog[i].h>> \notin veto,
   qtick |-> x.qtick]

SameMut(a, b) ==   \* queue head vs logged mutation (auto: order is a Go map's)
  /\ a.type = b.type /\ a.auto = b.auto /\ a.check = b.check
  /\ IF a.auto /\ ~OrderedAuto
     THEN SSet(a.called) = SSet(b.called) /\ Len(a.called) = Len(b.called)
     ELSE a.called = b.called

EvTx ==
  /\ Line.ev = "tx"
  /\ LET x == Line
         o == LoggedObs(x)
         p == IF obs.kind = "tx" THEN obs ELSE prev
         head == IF queue = <<>> THEN Mut("none", <<>>, FALSE, FALSE, 0) ELSE Head(queue)
         mut == Mut(x.mut.type, x.mut.called, x.mut.auto, x.mut.check,
                    IF queue = <<>> THEN 0 ELSE head.tick)
         r == RunTxF(Fx, sch, idx, topo, hs,
                     [active |-> active, clock |-> clock, wedged |-> wedged], mut,
                     [veto |-> veto, pan |-> pan, stall |-> stall])
         qt == qtick + (IF mut.tick > 0 THEN 1 ELSE 0)
         pre == TxObs(mut, r, qt, veto)
         excs == [i \in 1..r.nexc |-> Mut("add", <<"Exception">>, FALSE, FALSE, 0)]
         d == UNION {
                IF queue # <<>> /\ SameMut(head, x.mut) THEN {} ELSE {"queue.head"},
                IF active = x.before THEN {} ELSE {"pre.active"},
                IF TimeOf(idx, clock) = x.tb THEN {} ELSE {"pre.time"},
                IF r.crash THEN {"crash.predicted"} ELSE {},
                IF r.hang THEN {"hang.predicted"} ELSE {},
                IF pre.faulted = o.faulted THEN {} ELSE {"faulted"},
                IF pre.after = o.after THEN {} ELSE {"after"},
                IF pre.mtime = o.mtime THEN {} ELSE {"mtime"},
                IF pre.ta = o.ta \/ o.faulted THEN {} ELSE {"ta"},
                IF pre.tp = o.tp THEN {} ELSE {"tp"},
                IF pre.accepted = o.accepted THEN {} ELSE {"accepted"},
                IF pre.target = o.target THEN {} ELSE {"target"},
                IF r.target0 = o.target0 THEN {} ELSE {"target0"},
                IF pre.exits = o.exits THEN {} ELSE {"exits"},
                IF pre.enters = o.enters THEN {} ELSE {"enters"},
                IF (IF o.faulted
                    THEN [i \in 1..Len(pre.hlog) |-> <<pre.hlog[i].b, pre.hlog[i].h>>]
                         = [i \in 1..Len(o.hlog) |-> <<o.hlog[i].b, o.hlog[i].h>>]
                    ELSE pre.hlog = o.hlog) THEN {} ELSE {"hlog"},
                IF pre.vetoed = o.vetoed THEN {} ELSE {"vetoed"},
                IF pre.tlog = o.tlog THEN {} ELSE {"tlog"},
                IF qt = o.qtick THEN {} ELSE {"qtick"}}
         v == [TxVerdict(p, o) EXCEPT !.c14 = @ /\ ~x.tforeign]
         autoq == IF r.autoSet = {} THEN <<>>
                  ELSE <<Mut("add", SelectSeq(idx, LAMBDA n : n \in r.autoSet), TRUE, FALSE, 0)>>
     IN /\ active' = o.after
        /\ clock' = ClockOf(idx, o.mtime)
        /\ qtick' = o.qtick
        /\ queue' = IF DeadHit(r) THEN DeadlineQueue(qt)
                     ELSE excs \o autoq
                          \o NestedAppend(IF queue = <<>> THEN <<>> ELSE Tail(queue), o.hlog, qt)
        /\ wedged' = r.wedged /\ backoff' = (backoff \/ DeadHit(r))
        /\ first' = IF first = "none" THEN r.result ELSE first
        /\ firstTx' = IF firstTx = None THEN o ELSE firstTx
        /\ prev' = p
        /\ obs' = o
        /\ verdict' = v
        /\ viol' = viol \cup {<<l, f>> : f \in Fails(v)}
        /\ drift' = drift \cup {<<l, f>> : f \in d}
        /\ ntx' = ntx + 1
        /\ pan' = pan \ r.fired /\ stall' = stall \ r.fired /\ dead' = dead \ r.fired
        /\ nest' = NestLeft(o.hlog)
        /\ UNCHANGED <<cfgVars, running, veto, atCall, ncalls, callStart>>

(* fired faults of the transitions of the current call (lines after callStart) *)
CallTxLines == {k \in (callStart + 1)..(l - 1) : Trace[k].ev = "tx"}
FiredIn(k, S) == \E i \in 1..Len(Trace[k].hlog) :
                   /\ <<Trace[k].hlog[i].b, Trace[k].hlog[i].h>> \in S
                   /\ <<Trace[k].hlog[i].b, Trace[k].hlog[i].h>> \notin veto
CallPan == IF "panic" \in DOMAIN Trace[callStart] THEN PairSet(Trace[callStart].panic) ELSE {}
CallStall == IF "stall" \in DOMAIN Trace[callStart] THEN PairSet(Trace[callStart].stall) ELSE {}
CallDead == IF "dead" \in DOMAIN Trace[callStart] THEN PairSet(Trace[callStart].dead) ELSE {}
IsExcLine(k) == SHas(Trace[k].mut.called, "Exception")

EvRet ==
  /\ Line.ev = "ret"
  /\ LET x == Line
         p == IF obs.kind = "tx" THEN obs ELSE prev
         o == [kind |-> "ret", res |-> x.res, mtime |-> x.time,
               call |-> [mut |-> atCall.mut, res |-> x.res,
                         selfMutating |-> nest # <<>> \/ CallPan # {} \/ CallStall # {},
                         refused |-> atCall.refused,
                         before |-> atCall.active, tb |-> atCall.time, qb |-> atCall.qtick,
                         after |-> x.active, ta |-> x.time, qa |-> x.qtick,
                         after1 |-> IF firstTx = None THEN x.active ELSE firstTx.after,
                         target |-> IF firstTx = None THEN <<>> ELSE firstTx.target]]
         panicked == x.res = "panic"
         hung == x.res = "hang"
         lost == panicked \/ hung
         panicOutside == \E k \in CallTxLines : ~IsExcLine(k) /\ FiredIn(k, CallPan)
         faultInExc == \E k \in CallTxLines : IsExcLine(k) /\ FiredIn(k, CallPan \cup CallStall)
         stallFired == \E k \in CallTxLines : FiredIn(k, CallStall)
         \* a handler that outlives HandlerDeadline as well: the timeout is reported
         \* as an error the machine carries (Exception active, Err() = handler timeout)
         deadFired == \E k \in CallTxLines : ~IsExcLine(k) /\ FiredIn(k, CallDead)
         c08ret == /\ (panicOutside /\ ~faultInExc) => (x.iserr /\ x.errhas)
                   /\ stallFired => x.errinternal >= 1
                   /\ deadFired => (x.iserr /\ x.errtimeout)
         \* C03: CanAdd / CanRemove answered what the same mutation, issued next,
         \* returns (non-Multi called states; the scripted handlers ignore the check flag)
         cl == Trace[callStart]
         predictsOk == ("predicted" \in DOMAIN cl /\ cl.predicted # ""
                        /\ \A i \in 1..Len(cl.called) : ~sch[cl.called[i]].multi)
                       => cl.predicted = x.res
         \* C03: a mutation issued beyond the queue limit is Canceled (one Exception
         \* is let in: Add when not in error, Remove when in error - machine.go
         \* 862-867, 1092-1097); judged on what each handler-issued mutation met
         limitOk == \A i \in 1..Len(x.nestedq) :
                      LET n == x.nestedq[i] IN
                      (n.qlen >= QueueLimit
                       /\ ~(n.type = "add" /\ n.exc /\ ~n.iserr)
                       /\ ~(n.type = "remove" /\ n.exc /\ n.iserr))
                        => n.res = "canceled"
         v0 == IF lost THEN [AllTrue EXCEPT !.nocrash = ~panicked, !.nohang = ~hung]
               ELSE IF firstTx # None /\ firstTx.faulted
                    THEN [AllTrue EXCEPT !.c08 = c08ret]
                    ELSE [RetVerdict(p, o) EXCEPT !.c08 = c08ret, !.c03 = @ /\ predictsOk /\ limitOk]
         v == IF "views" \in DOMAIN x /\ ~lost
              THEN [v0 EXCEPT !.c01 = ViewsAgree(idx, x.views)
                                      /\ x.views.active = x.active /\ x.views.time = x.time]
              ELSE v0
         rnext == IF queue = <<>> THEN [crash |-> FALSE, hang |-> FALSE]
                  ELSE RunTxF(Fx, sch, idx, topo, hs,
                              [active |-> active, clock |-> clock, wedged |-> wedged],
                              Head(queue), [veto |-> veto, pan |-> pan, stall |-> stall])
         d == UNION {
                IF lost THEN {} ELSE
                  UNION {IF queue = <<>> THEN {} ELSE {"queue.nonempty"},
                         IF first = x.res THEN {} ELSE {"result"},
                         IF active = x.active THEN {} ELSE {"ret.active"},
                         IF TimeOf(idx, clock) = x.time THEN {} ELSE {"ret.time"},
                         IF qtick = x.qtick THEN {} ELSE {"ret.qtick"},
                         IF x.qlen = 0 THEN {} ELSE {"ret.qlen"}},
                IF panicked /\ ~rnext.crash THEN {"crash.unpredicted"} ELSE {},
                IF hung /\ ~rnext.hang THEN {"hang.unpredicted"} ELSE {}}
     IN /\ running' = FALSE
        /\ queue' = <<>>
        /\ active' = IF lost THEN active ELSE x.active
        /\ clock' = IF lost THEN clock ELSE ClockOf(idx, x.time)
        /\ qtick' = IF lost THEN qtick ELSE x.qtick
        /\ prev' = p
        /\ obs' = o
        /\ verdict' = v
        /\ viol' = viol \cup {<<l, f>> : f \in Fails(v)}
        /\ drift' = drift \cup {<<l, f>> : f \in d}
        /\ first' = "none" /\ atCall' = None /\ firstTx' = None
        /\ UNCHANGED <<cfgVars, veto, nest, pan, stall, dead, wedged, backoff, ncalls, ntx, callStart>>

EvStray ==   \* a tracer / handler callback outside any transition
  /\ Line.ev = "stray"
  /\ viol' = viol \cup {<<l, "c14">>}
  /\ UNCHANGED <<vars, drift, ntx, callStart>>

Done ==
  /\ l = Len(Trace) + 1
  /\ PrintT(<<"RESULT", ToJson([lines |-> Len(Trace), ntx |-> ntx,
                                viol |-> viol, drift |-> drift])>>)
  /\ UNCHANGED <<vars, viol, drift, ntx, callStart>>

TraceNext ==
  \/ /\ l <= Len(Trace)
     /\ (EvInit \/ EvCall \/ EvTx \/ EvRet \/ EvStray \/ EvEnv)
     /\ l' = l + 1
  \/ (Done /\ l' = l + 1)

TraceSpec == TraceInit /\ [][TraceNext]_tvars

(* every line must be consumed: the search must reach l = Len(Trace) + 2      *)
TraceView == <<l>>
=============================================================================
