------------------------------ MODULE Schemas ------------------------------
(* Property C19: the state schemas the repository ships.                      *)
(*                                                                            *)
(* Part 1 -- static formulas over ONE dump record `d` (what the generated     *)
(* dump program evaluated in the current tree):                               *)
(*   d.raw        the exported variable as it is (after Merge / Extend)       *)
(*   d.parsed     Schema.Parse() of it,   d.parse_err  its error text         *)
(*   d.names      Names() of the typed ...States value (d.has_names)          *)
(*   d.verify_err what Machine.VerifyStates(names) (NewCommon) answered       *)
(*   d.predefined the state names pkg/machine itself predefines               *)
(*   d.sch, d.idx the schema / index of the machine am.New built              *)
(*   d.groups     the declared ...Groups value                                *)
(*                                                                            *)
(* Part 2 -- the reachability graph of one schema: from the empty machine,    *)
(* Add1(s) / Remove1(s) run to quiescence (the mutation's transition and the  *)
(* auto mutation that follows it; handlers unbound), as a pure function built *)
(* from Transition!RunTx, and the two state formulas RequireClosed and        *)
(* GroupExclusive.                                                            *)
EXTENDS Transition, TLC

CONSTANTS Transitive, TopoSort, ExitFix, OrderedAuto, OrderedTopo

Fx == [transitive |-> Transitive, toposort |-> TopoSort, exitfix |-> ExitFix]

NoHandlers == [on |-> FALSE, binds |-> <<>>]

RelNames == {"require", "add", "remove", "after"}

---------------------------------------------------------------------------
(* Part 1: static well-formedness                                             *)

(* every reference of a schema as <<owner, relation, target>>                 *)
RefsOf(s) ==
  UNION {UNION {{<<n, r, x>> : x \in SSet(Rel(s, n, r))} : r \in RelNames} : n \in DOMAIN s}

(* References point at states the schema defines.  Weaker reading (mixins):   *)
(* pkg/states documents ConnectedSchema / DisposedSchema ... as fragments     *)
(* with "Required states: Start", to be merged into a schema that has the     *)
(* predefined states of pkg/machine (Exception, Start, Ready, ...); a         *)
(* reference to one of THOSE names is not a typo and is accepted.             *)
UndefinedRefs(d) ==
  {x \in RefsOf(d.raw) : x[3] \notin DOMAIN d.raw /\ x[3] \notin SSet(d.predefined)}

(* ... and Schema.Parse did not silently drop a reference because its target  *)
(* is unknown (Parse legitimately drops a self Remove / self After and a      *)
(* Remove that is also in Add).                                               *)
DroppedRefs(d) ==
  {x \in RefsOf(d.raw) \ RefsOf(d.parsed) :
     x[3] \notin DOMAIN d.raw /\ x[3] \notin SSet(d.predefined)}

RefsDefined(d) == UndefinedRefs(d) = {} /\ DroppedRefs(d) = {}

ParsesClean(d) == d.parse_err = "" /\ d.mach_err = ""

(* A Require target that is not defined (a typo) is a vertex of the           *)
(* resolver's Require graph all the same (relations.go: g.AddEdge(name, req)) *)
(* -- a plain state as far as the topology goes.                              *)
PlainState == [auto |-> FALSE, multi |-> FALSE, require |-> <<>>, add |-> <<>>,
               remove |-> <<>>, after |-> <<>>]

TotalReq(s) ==
  LET extra == (UNION {SSet(s[n].require) : n \in DOMAIN s}) \ DOMAIN s
  IN [n \in DOMAIN s \cup extra |-> IF n \in DOMAIN s THEN s[n] ELSE PlainState]

(* Require cycle, on the schema the machine runs (the dump adds the           *)
(* predefined states a fragment refers to).                                   *)
NoRequireCycle(d) == ~HasRequireCycle(TotalReq(d.sch), d.idx)

(* Require-Remove conflict as Schema.Parse defines it (mach_utils.go): a     *)
(* state Requires a state that is (still, after the Add/self clean-up) in    *)
(* its own Remove.  Evaluated by the specification's Parse on the raw value; *)
(* the code's own verdict is d.parse_err (ParsesClean).                      *)
RequireRemoveConflicts(d) ==
  {n \in DOMAIN d.raw : ParseState(DOMAIN d.raw, n, d.raw[n]).conflict}

NoRequireRemoveConflict(d) == RequireRemoveConflicts(d) = {}

(* the name list and the schema describe the same states (Exception is in     *)
(* every typed list via am.StatesBase and in every machine), the list has no  *)
(* duplicates, and VerifyStates -- what NewCommon runs -- accepted it.  The    *)
(* list is Names() of the typed ...States value or, for the older convention  *)
(* `var States = am.Schema{..}; var Names = S{..}`, that plain list (it is    *)
(* what the owning example hands to VerifyStates).                            *)
NamesAgree(d) ==
  d.has_names =>
    /\ SSet(d.names) \cup {"Exception"} = DOMAIN d.raw \cup {"Exception"}
    /\ SIsUniq(d.names)
    /\ d.verify_err = ""

(* conformance of the specification's Schema.Parse to the code's              *)
ParseConforms(d) ==
  \A n \in DOMAIN d.raw : ParseState(DOMAIN d.raw, n, d.raw[n]).st = d.parsed[n]

StaticVerdict(d) ==
  [parses    |-> ParsesClean(d),
   refs      |-> RefsDefined(d),
   reqcycle  |-> NoRequireCycle(d),
   reqremove |-> NoRequireRemoveConflict(d),
   names     |-> NamesAgree(d)]

---------------------------------------------------------------------------
(* Part 2: groups                                                             *)

Mutual(s, a, b) == a # b /\ SHas(s[a].remove, b) /\ SHas(s[b].remove, a)

MutualNbrs(s, a) == {b \in DOMAIN s : Mutual(s, a, b)}

(* maximal cliques of the mutual-Remove graph (Bron-Kerbosch)                 *)
RECURSIVE BK(_, _, _, _)
BK(s, R, P, X) ==
  IF P = {} THEN (IF X = {} THEN {R} ELSE {})
  ELSE LET v == CHOOSE w \in P : TRUE
           N == MutualNbrs(s, v)
       IN BK(s, R \cup {v}, P \cap N, X \cap N) \cup BK(s, R, P \ {v}, X \cup {v})

MaxCliques(s) ==
  LET nodes == {a \in DOMAIN s : MutualNbrs(s, a) # {}}
  IN {G \in BK(s, {}, nodes, {}) : Cardinality(G) >= 2}

(* a declared group (a field of ...Groups) is meant to be exclusive when its  *)
(* members Remove one another: every two members are related by Remove in at  *)
(* least one direction (so a member that misses one Remove keeps the group    *)
(* under test, while plain lists such as the debugger's "Mcp" are not).       *)
PairwiseRemoving(s, G) ==
  /\ Cardinality(G) >= 2
  /\ G \subseteq DOMAIN s
  /\ \A a, b \in G : a # b => SHas(s[a].remove, b) \/ SHas(s[b].remove, a)

DeclaredExclusive(s, groups) ==
  {SSet(groups[i].members) : i \in {k \in 1..Len(groups) :
                                      PairwiseRemoving(s, SSet(groups[k].members))}}

ExclusiveGroups(s, groups) == MaxCliques(s) \cup DeclaredExclusive(s, groups)

(* the two state formulas; `act` is a SET of state names, `req` the Require    *)
(* relation as sets (ReqMap, computed once per schema)                        *)
ReqMap(s) == [n \in DOMAIN s |-> SSet(s[n].require)]

RequireClosedSet(req, act) == \A n \in act : req[n] \subseteq act

BrokenGroups(G, act) == {g \in G : Cardinality(g \cap act) >= 2}

GroupExclusiveSet(G, act) == BrokenGroups(G, act) = {}

---------------------------------------------------------------------------
(* Part 2: one mutation run to quiescence                                     *)

TopoOf(s, i) == TopoIndexOrder(TotalReq(s), i)

InOrder(i, S) == SelectSeq(i, LAMBDA n : n \in S)

AutoOrdersOf(i, S) == IF OrderedAuto THEN {InOrder(i, S)} ELSE SPerms(S)

(* The machine is idle, its active states are `act` (a sequence); the caller  *)
(* runs Add1(s) / Remove1(s): queueMutation + processQueue drain the          *)
(* mutation and then the auto mutation the resolver prepends (an auto         *)
(* mutation is never followed by another one).  Activity is all the resolver  *)
(* looks at, so the clock is taken as 1 / 0.                                  *)
QuiesceSet(s, i, t, act, type, st) ==
  LET clk == [n \in SSet(i) |-> IF SHas(act, n) THEN 1 ELSE 0]
      r1 == RunTx(Fx, s, i, t, NoHandlers, [active |-> act, clock |-> clk],
                  [type |-> type, called |-> <<st>>, auto |-> FALSE, check |-> FALSE], {})
  IN IF r1.autoSet = {} THEN {r1.active}
     ELSE {RunTx(Fx, s, i, t, NoHandlers, [active |-> r1.active, clock |-> r1.clock],
                 [type |-> "add", called |-> o, auto |-> TRUE, check |-> FALSE], {}).active
           : o \in AutoOrdersOf(i, r1.autoSet)}

(* 1-based positions in the index, the compact form of the edge log           *)
PosSet(i, S) == {p \in 1..Len(i) : i[p] \in S}
NamesAt(i, P) == {i[p] : p \in P}
=============================================================================
