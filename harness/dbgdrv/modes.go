package dbgdrv

import (
	"encoding/json"
	"fmt"
	"hash/fnv"
	"math/rand"
	"os"
	"path/filepath"
	"sort"
	"time"

	am "github.com/pancsta/asyncmachine-go/pkg/machine"
	"github.com/pancsta/asyncmachine-go/pkg/telemetry/dbg"
	"github.com/pancsta/asyncmachine-go/tools/debugger/server"
	"github.com/pancsta/asyncmachine-go/tools/debugger/types"
)

// DefaultInitF are the filter states after Start with the CLI defaults.
var DefaultInitF = am.S{ss.FilterAutoCanceledTx, ss.FilterChecks, ss.FilterHealth, ss.FilterOutGroup}

// NoGroupInitF: the same without --filter-group.
var NoGroupInitF = am.S{ss.FilterAutoCanceledTx, ss.FilterChecks, ss.FilterHealth}

// ChecksInitF: reachable from the defaults by toggles (spec: InitFChecks).
var ChecksInitF = am.S{ss.FilterChecks, ss.FilterHealth}

// ---------------------------------------------------------------------------
// (a) real telemetry, fed through the ingestion states

// StreamCase runs one generated source machine, captures its telemetry from
// the wire and feeds it to the session's debugger in batches with commands in
// between.
func StreamCase(s *Session, capt *Capture, addr string, r *rand.Rand, label string, ncalls, ncmds int) error {
	sc := GenSource(r, label, ncalls)
	run, err := RunSource(sc, addr)
	if err != nil {
		return err
	}
	defer run.Dispose()
	deadline := time.Now().Add(Settle)
	for {
		ns, n := capt.Count(label)
		if ns >= 1 && n >= run.Sent {
			break
		}
		if time.Now().After(deadline) {
			return fmt.Errorf("telemetry of %s incomplete: %d/%d messages", label, n, run.Sent)
		}
		time.Sleep(200 * time.Microsecond)
	}
	// the tracer must not send more than expected
	time.Sleep(2 * time.Millisecond)
	schemas, msgs := capt.Take(label)
	if len(msgs) != run.Sent {
		return fmt.Errorf("telemetry of %s: %d messages, expected %d", label, len(msgs), run.Sent)
	}
	Stamp(msgs, time.Now(), r)
	if err := s.Open(label, schemas[0]); err != nil {
		return err
	}
	// 1..3 batches
	nb := 1 + r.Intn(3)
	cuts := []int{0}
	for i := 1; i < nb; i++ {
		cuts = append(cuts, r.Intn(len(msgs)+1))
	}
	cuts = append(cuts, len(msgs))
	for i := 1; i < len(cuts); i++ {
		for j := i; j > 0 && cuts[j] < cuts[j-1]; j-- {
			cuts[j], cuts[j-1] = cuts[j-1], cuts[j]
		}
	}
	// jumps by transition id go to records the debugger holds AND to records that
	// are still to come (the source knows an id before the debugger has the
	// record): refused then, asked again after every later batch
	idCmd := func(k int) Cmd {
		if k < 1 || k > len(msgs) {
			return Cmd{Op: "scrollid", K: 0, Id: label + "-never"}
		}
		return Cmd{Op: "scrollid", K: k, Id: msgs[k-1].ID}
	}
	insert := func(cmds []Cmd, c Cmd) []Cmd {
		pos := r.Intn(len(cmds) + 1)
		cmds = append(cmds, Cmd{})
		copy(cmds[pos+1:], cmds[pos:])
		cmds[pos] = c
		return cmds
	}
	var early []int // positions asked for while their record was not held
	for i := 0; i+1 < len(cuts); i++ {
		b := msgs[cuts[i]:cuts[i+1]]
		if len(b) > 0 {
			if err := s.Ingest(b); err != nil {
				return err
			}
		}
		held := cuts[i+1]
		var cmds []Cmd
		if held > 0 {
			cmds = RandCmds(r, ncmds, held)
		}
		for _, k := range early {
			cmds = insert(cmds, idCmd(k))
		}
		still := early[:0]
		for _, k := range early {
			if k > held {
				still = append(still, k)
			}
		}
		early = still
		if held < len(msgs) && i+2 < len(cuts) {
			for j := r.Intn(3); j > 0; j-- {
				k := held + 1 + r.Intn(len(msgs)-held)
				cmds = insert(cmds, idCmd(k))
				early = append(early, k)
			}
		}
		if held > 0 && r.Float64() < 0.3 {
			cmds = insert(cmds, idCmd(1+r.Intn(held)))
		}
		if r.Float64() < 0.15 {
			cmds = insert(cmds, idCmd(0))
		}
		for _, c := range cmds {
			if err := s.Do(c); err != nil {
				return err
			}
		}
	}
	return s.Final(label, "direct", run.Src, true)
}

// TcpGroup runs several source machines CONCURRENTLY against the debugger's
// real RPC server (server.AcceptConn: net/rpc, debounced queue) and compares
// every client at the end.
func TcpGroup(h *Headless, r *rand.Rand, prefix string, nclients, ncalls int, lines *[]any) error {
	addr, err := h.Listen()
	if err != nil {
		return err
	}
	type res struct {
		run *SourceRun
		err error
		id  string
	}
	ch := make(chan res, nclients)
	cases := make([]*SourceCase, nclients)
	for i := range cases {
		cases[i] = GenSource(r, fmt.Sprintf("%s-%d", prefix, i), ncalls)
	}
	for _, sc := range cases {
		go func(sc *SourceCase) {
			run, err := RunSource(sc, addr)
			ch <- res{run, err, sc.Id}
		}(sc)
	}
	runs := map[string]*SourceRun{}
	for range cases {
		x := <-ch
		if x.err != nil {
			return x.err
		}
		runs[x.id] = x.run
	}
	defer func() {
		for _, x := range runs {
			x.Dispose()
		}
	}()
	deadline := time.Now().Add(Settle)
	for {
		done := true
		_ = h.Eval("cnt", func() {
			for id, run := range runs {
				c := h.D.Clients[id]
				if c == nil || len(c.MsgTxs) < run.Sent {
					done = false
				}
			}
		})
		if done {
			break
		}
		if time.Now().After(deadline) {
			return fmt.Errorf("tcp telemetry incomplete")
		}
		time.Sleep(20 * time.Millisecond)
	}
	if err := h.Quiesce(); err != nil {
		return err
	}
	for _, sc := range cases {
		if err := h.FinalOf(lines, sc.Id, sc.Id, "tcp", runs[sc.Id].Src, false); err != nil {
			return err
		}
	}
	return nil
}

// ---------------------------------------------------------------------------
// (c) TLC-generated behaviours: record kinds + commands

// KindIndex is the schema of the synthetic streams (spec: CSch).
var KindIndex = am.S{"A", "B", "Healthcheck", am.StateException}

func kindSchema(id string) *dbg.DbgMsgStruct {
	sch := am.Schema{"A": {}, "B": {Auto: true}, "Healthcheck": {Multi: true}, am.StateException: {Multi: true}}
	return &dbg.DbgMsgStruct{ID: id, StatesIndex: KindIndex, States: sch}
}

// KindGen turns record kinds into DbgMsgTx messages (spec: KRec).
type KindGen struct {
	id     string
	n      int
	clocks am.Time
	qt     uint64
	ntok   uint64
	t      time.Time
}

func NewKindGen(id string) *KindGen {
	return &KindGen{id: id, clocks: am.Time{0, 0, 0, 0}, qt: 1, t: time.Now()}
}

func (g *KindGen) Next(kind string) (*dbg.DbgMsgTx, error) {
	m := &dbg.DbgMsgTx{MachineID: g.id, ID: fmt.Sprintf("k%d", g.n), Accepted: true, Type: am.MutationAdd,
		CalledStatesIdxs: []int{0}, QueueTick: g.qt}
	bump := func(i int) { g.clocks[i]++ }
	switch kind {
	case "tx":
		g.qt++
		m.QueueTick = g.qt
		bump(0)
	case "cx":
		g.qt++
		m.QueueTick = g.qt
		m.Accepted = false
	case "em":
		g.qt++
		m.QueueTick = g.qt
	case "ck":
		m.IsCheck = true
	case "qu":
		m.IsQueued = true
		m.MutQueueTick = g.qt + 1
	case "qa":
		g.ntok++
		m.IsQueued, m.IsAuto, m.MutQueueToken, m.CalledStatesIdxs = true, true, g.ntok, []int{1}
	case "aa":
		m.IsAuto, m.MutQueueToken, m.CalledStatesIdxs = true, g.ntok, []int{1}
		bump(1)
	case "ac":
		m.IsAuto, m.MutQueueToken, m.CalledStatesIdxs, m.Accepted = true, g.ntok, []int{1}, false
	case "he":
		g.qt++
		m.QueueTick = g.qt
		m.CalledStatesIdxs = []int{2}
		bump(2)
	default:
		return nil, fmt.Errorf("unknown kind %q", kind)
	}
	m.Clocks = append(am.Time{}, g.clocks...)
	g.n++
	g.t = g.t.Add(10 * time.Nanosecond)
	tt := g.t
	m.Time = &tt
	return m, nil
}

// SeqStep is one step of a TLC-generated behaviour (MCDebugger hist).
type SeqStep struct {
	A    string `json:"a"`
	Kind string `json:"kind"`
	Cmd  struct {
		Op   string `json:"op"`
		K    int    `json:"k"`
		Tool string `json:"tool"`
	} `json:"cmd"`
	V struct {
		Cursor   int      `json:"cursor"`
		Tail     bool     `json:"tail"`
		Filters  []string `json:"filters"`
		Filtered []int    `json:"filtered"`
	} `json:"v"`
}

// ReplaySeq replays one behaviour on the real debugger; mismatches with the
// view TLC predicted are returned (the trace is validated by TLC anyway).
func ReplaySeq(s *Session, label string, seq []SeqStep) (mism []string, err error) {
	if err := s.Open(label, kindSchema(label)); err != nil {
		return nil, err
	}
	g := NewKindGen(label)
	for i, st := range seq {
		switch st.A {
		case "ingest":
			m, err := g.Next(st.Kind)
			if err != nil {
				return nil, err
			}
			err = s.Ingest([]*dbg.DbgMsgTx{m})
			if n := len(s.Lines); n > 0 {
				if l, ok := s.Lines[n-1].(map[string]any); ok && l["ev"] == "ingest" {
					l["kind"] = st.Kind
				}
			}
			if err != nil {
				return nil, err
			}
		case "cmd":
			c := Cmd{Op: st.Cmd.Op, K: st.Cmd.K, Tool: st.Cmd.Tool}
			if c.Op == "scrollid" {
				// the id the K-th record of this stream has / will have (KindGen.Next)
				c.Id = fmt.Sprintf("k%d", c.K-1)
			}
			if err := s.Do(c); err != nil {
				return nil, err
			}
		}
		v, err := s.H.SnapView()
		if err != nil {
			return nil, err
		}
		want := append([]string{}, st.V.Filters...)
		if v.Cursor != st.V.Cursor || v.Tail != st.V.Tail || !eqInts(v.Filtered, st.V.Filtered) ||
			!eqSet(v.Filters, want) {
			mism = append(mism, fmt.Sprintf("%s step %d (%s %s%s%d): real cursor=%d tail=%v filtered=%v filters=%v, TLC cursor=%d tail=%v filtered=%v filters=%v",
				label, i, st.A, st.Kind, st.Cmd.Op+st.Cmd.Tool, st.Cmd.K, v.Cursor, v.Tail, v.Filtered, v.Filters,
				st.V.Cursor, st.V.Tail, st.V.Filtered, want))
		}
	}
	return mism, s.Final(label, "kinds", nil, true)
}

func eqInts(a, b []int) bool {
	if len(a) != len(b) {
		return false
	}
	for i := range a {
		if a[i] != b[i] {
			return false
		}
	}
	return true
}

func eqSet(a, b []string) bool {
	m := map[string]int{}
	for _, x := range a {
		m[x] |= 1
	}
	for _, x := range b {
		m[x] |= 2
	}
	for _, v := range m {
		if v != 3 {
			return false
		}
	}
	return true
}

// ---------------------------------------------------------------------------
// (b) function-level look-ups over generated record lists

// LookupCase builds a server.Client from generated lists and queries the real
// look-up functions.  mono: lists as a machine produces them (non-decreasing
// queue ticks / time sums / times, descending error index); otherwise
// arbitrary lists.
func LookupCase(r *rand.Rand, n int, mono bool) map[string]any {
	c := &server.Client{Exportable: &server.Exportable{}}
	var qt, sum uint64 = 1, 0
	t := time.Unix(1_700_000_000, 0)
	var sums []uint64
	tok := uint64(0)
	for i := 0; i < n; i++ {
		if mono {
			qt += uint64(r.Intn(3)) / 2 * uint64(1+r.Intn(2)) // 0 often, sometimes 1..2
			if r.Float64() < 0.4 {
				qt++
			}
			sum += uint64(r.Intn(3))
			if r.Float64() < 0.7 {
				t = t.Add(10 * time.Nanosecond)
			}
		} else {
			qt = uint64(r.Intn(n + 2))
			sum = uint64(r.Intn(2*n + 1))
			t = time.Unix(1_700_000_000, int64(10*r.Intn(n+1)))
		}
		tt := t
		m := &dbg.DbgMsgTx{ID: fmt.Sprintf("t%d", i), QueueTick: qt, Time: &tt}
		if !mono && r.Float64() < 0.15 && i > 0 {
			m.ID = fmt.Sprintf("t%d", r.Intn(i)) // duplicate id
		}
		if r.Float64() < 0.3 {
			m.IsQueued = true
			if r.Float64() < 0.5 {
				m.MutQueueTick = qt + uint64(r.Intn(2))
			} else {
				tok++
				m.MutQueueToken = tok
				m.IsAuto = true
			}
		} else if tok > 0 && r.Float64() < 0.4 {
			m.MutQueueToken = tok - uint64(r.Intn(2))
		}
		c.MsgTxs = append(c.MsgTxs, m)
		c.MsgTxsParsed = append(c.MsgTxsParsed, &types.MsgTxParsed{TimeSum: sum})
		sums = append(sums, sum)
		if r.Float64() < 0.25 {
			c.Errors = append([]int{i}, c.Errors...)
		}
		if r.Float64() < 0.6 {
			c.MsgTxsFiltered = append(c.MsgTxsFiltered, i)
		}
	}
	if !mono && len(c.Errors) > 1 && r.Float64() < 0.5 {
		r.Shuffle(len(c.Errors), func(i, j int) { c.Errors[i], c.Errors[j] = c.Errors[j], c.Errors[i] })
	}
	rk := TimeRanks(c.MsgTxs)
	recs := []map[string]any{}
	for i, m := range c.MsgTxs {
		recs = append(recs, map[string]any{"id": m.ID, "qt": m.QueueTick, "mqt": m.MutQueueTick, "tok": m.MutQueueToken,
			"queued": m.IsQueued, "ht": rk[i]})
	}
	if sums == nil {
		sums = []uint64{}
	}
	return map[string]any{"ev": "lookup", "recs": recs, "sums": sums, "errors": nzi(c.Errors),
		"filtered": nzi(c.MsgTxsFiltered), "lk": DoLookups(c, true), "gen": map[string]any{"mono": mono}}
}

// ---------------------------------------------------------------------------

// WriteLines writes ndjson.
func WriteLines(path string, lines []any) error {
	f, err := os.Create(path)
	if err != nil {
		return err
	}
	defer f.Close()
	enc := json.NewEncoder(f)
	for _, l := range lines {
		if err := enc.Encode(l); err != nil {
			return err
		}
	}
	return nil
}

// TmpDir makes a scratch dir.
func TmpDir(tmp, pfx string) (string, error) {
	d, err := os.MkdirTemp(tmp, pfx)
	if err != nil {
		return "", err
	}
	return filepath.Join(d), nil
}

// ---------------------------------------------------------------------------
// (b') function level: a store that GROWS between two look-ups of the same key

// TxSeqCase builds ONE server.Client whose record list grows step by step (as
// ClientMsg appends to it) and queries the real look-ups in between: every
// transition id is asked for before its record is appended, after it, and
// again (answered from the cache); ids that never arrive; ClearCache (the GC
// handler) now and then; TxAtQueueTick / TxAtMachTime with the same argument
// before and after a growth.  steps: [0, n, 0] grown to n records, [1, key,
// answer] TxIndex(keys[key]), [2, 0, 0] ClearCache, [3, q, answer]
// TxAtQueueTick(q), [4, sum, answer] TxAtMachTime(sum).
func TxSeqCase(r *rand.Rand, n int) map[string]any {
	c := &server.Client{Exportable: &server.Exportable{}}
	ids, qts, sums := []string{}, []uint64{}, []uint64{}
	var qt, sum uint64 = 1, 0
	t := time.Unix(1_700_000_000, 0)
	var msgs []*dbg.DbgMsgTx
	for i := 0; i < n; i++ {
		if r.Float64() < 0.5 {
			qt += uint64(1 + r.Intn(2))
		}
		sum += uint64(r.Intn(3))
		t = t.Add(10 * time.Nanosecond)
		tt := t
		id := fmt.Sprintf("x%d", i)
		msgs = append(msgs, &dbg.DbgMsgTx{ID: id, QueueTick: qt, Time: &tt})
		ids, qts, sums = append(ids, id), append(qts, qt), append(sums, sum)
	}
	keys := append(append([]string{}, ids...), "never-1", "never-2")
	steps := [][3]int64{}
	held := 0
	grow := func(to int) {
		for ; held < to; held++ {
			c.MsgTxs = append(c.MsgTxs, msgs[held])
			c.MsgTxsParsed = append(c.MsgTxsParsed, &types.MsgTxParsed{TimeSum: sums[held]})
		}
		steps = append(steps, [3]int64{0, int64(to), 0})
	}
	type q struct {
		kind int
		arg  int64
	}
	ask := func(x q) {
		var res int
		switch x.kind {
		case 1:
			res = c.TxIndex(keys[x.arg])
		case 3:
			res = c.TxAtQueueTick(uint64(x.arg))
		case 4:
			res = c.TxAtMachTime(uint64(x.arg))
		}
		steps = append(steps, [3]int64{int64(x.kind), x.arg, int64(res)})
	}
	randQ := func() q {
		switch x := r.Float64(); {
		case x < 0.7:
			return q{1, int64(r.Intn(len(keys)))}
		case x < 0.85:
			return q{3, int64(r.Intn(int(qt) + 2))}
		}
		return q{4, int64(r.Intn(int(sum) + 2))}
	}
	var prev []q
	for {
		// what was asked before the last growth is asked again, plus new questions
		now := append([]q{}, prev...)
		for j := 1 + r.Intn(4); j > 0; j-- {
			now = append(now, randQ())
		}
		r.Shuffle(len(now), func(i, j int) { now[i], now[j] = now[j], now[i] })
		for _, x := range now {
			ask(x)
		}
		if len(now) > 6 {
			now = now[:6]
		}
		prev = now
		if r.Float64() < 0.12 {
			c.ClearCache()
			steps = append(steps, [3]int64{2, 0, 0})
		}
		if held == n {
			break
		}
		to := held + 1 + r.Intn(3)
		if to > n {
			to = n
		}
		grow(to)
	}
	// everything once more, twice (the second round is answered from the cache)
	for round := 0; round < 2; round++ {
		for k := range keys {
			ask(q{1, int64(k)})
		}
	}
	return map[string]any{"ev": "txseq", "ids": ids, "keys": keys, "qts": qts, "sums": sums, "steps": steps}
}

// ---------------------------------------------------------------------------
// (d) the filter matrix: every kind of record x every reachable set of filters

// FlagRec is one record by its flags (spec: MCDebugger FRec / FFlags).
type FlagRec struct {
	Auto, Queued, Acc, Check bool
	Var                      string // "" | "em" (changes no tick) | "he" (calls Healthcheck)
}

// AllFlagRecs: auto x queued x canceled x check, plus the empty and the health
// transition.
func AllFlagRecs() []FlagRec {
	var out []FlagRec
	for i := 0; i < 16; i++ {
		out = append(out, FlagRec{Auto: i&1 != 0, Queued: i&2 != 0, Acc: i&4 != 0, Check: i&8 != 0})
	}
	return append(out, FlagRec{Acc: true, Var: "em"}, FlagRec{Acc: true, Var: "he"})
}

// NextFlags mirrors FRec: a queued auto mutation takes a new token, a
// non-queued auto record carries the latest token (executes it); a queued
// manual mutation names the next queue tick, a non-queued manual transition
// advances the queue tick (executes it).
func (g *KindGen) NextFlags(f FlagRec) *dbg.DbgMsgTx {
	m := &dbg.DbgMsgTx{MachineID: g.id, ID: fmt.Sprintf("k%d", g.n), Accepted: f.Acc, Type: am.MutationAdd,
		IsAuto: f.Auto, IsQueued: f.Queued, IsCheck: f.Check, CalledStatesIdxs: []int{0}}
	called := 0
	if f.Var == "he" {
		called = 2
	} else if f.Auto {
		called = 1
	}
	m.CalledStatesIdxs = []int{called}
	if f.Auto {
		if f.Queued {
			g.ntok++
		}
		m.MutQueueToken = g.ntok
	}
	if f.Queued && !f.Auto {
		m.MutQueueTick = g.qt + 1
	}
	if !f.Queued && !f.Auto && !f.Check {
		g.qt++
	}
	m.QueueTick = g.qt
	if f.Acc && !f.Queued && !f.Check && f.Var != "em" {
		g.clocks[called]++
	}
	m.Clocks = append(am.Time{}, g.clocks...)
	g.n++
	g.t = g.t.Add(10 * time.Nanosecond)
	tt := g.t
	m.Time = &tt
	return m
}

var matrixTools = []string{"auto", "canceled", "queued", "empty", "health", "outgroup", "checks"}

var toolState = map[string]string{"canceled": ss.FilterCanceledTx, "queued": ss.FilterQueuedTx,
	"empty": ss.FilterEmptyTx, "health": ss.FilterHealth, "outgroup": ss.FilterOutGroup, "checks": ss.FilterChecks}

func fkey(f map[string]bool) string {
	k := ""
	for _, n := range filterStates {
		if f[n] {
			k += "1"
		} else {
			k += "0"
		}
	}
	return k
}

// toggled is the driver's PLAN of what a filter tool does (only used to pick
// the next tool; the states the real debugger ends up with are what is logged
// and visited).
func toggled(f map[string]bool, tool string) map[string]bool {
	g := map[string]bool{}
	for k, v := range f {
		g[k] = v
	}
	if tool == "auto" {
		switch {
		case f[ss.FilterAutoTx]:
			g[ss.FilterAutoTx], g[ss.FilterAutoCanceledTx] = false, true
		case f[ss.FilterAutoCanceledTx]:
			g[ss.FilterAutoCanceledTx] = false
		default:
			g[ss.FilterAutoTx] = true
		}
		return g
	}
	st := toolState[tool]
	g[st] = !f[st]
	if (tool == "canceled" || tool == "queued") && f[st] {
		g[ss.FilterEmptyTx] = false
	}
	return g
}

// nextTool: a tool that leads to a set of filters not visited yet, else the
// first step of a shortest planned path to one; "" when every planned set is
// visited.
func nextTool(r *rand.Rand, cur map[string]bool, visited map[string]bool, want func(string) bool) string {
	type node struct {
		f     map[string]bool
		first string
	}
	seen := map[string]bool{fkey(cur): true}
	queue := []node{{cur, ""}}
	for len(queue) > 0 {
		x := queue[0]
		queue = queue[1:]
		for _, i := range r.Perm(len(matrixTools)) {
			t := matrixTools[i]
			g := toggled(x.f, t)
			k := fkey(g)
			if seen[k] {
				continue
			}
			seen[k] = true
			first := x.first
			if first == "" {
				first = t
			}
			if !visited[k] && want(k) {
				return first
			}
			queue = append(queue, node{g, first})
		}
	}
	return ""
}

// FilterMatrixCase: one client whose stream holds every kind of record (in a
// seeded order, with seeded repetitions, then queued mutations with every kind
// of executor; ingested in 1..3 batches), then a walk
// of filter-tool toggles through EVERY reachable set of filter states of this
// case's share (the sets are dealt to `parts` cases by a hash; parts = 1: all of
// them; at most maxSteps toggles), with cursor commands in between.  Returns
// the distinct filter sets the real debugger was in.
func FilterMatrixCase(s *Session, r *rand.Rand, label string, extra, maxSteps, parts, part int) (map[string]bool, error) {
	visited := map[string]bool{}
	err := filterMatrixCase(s, r, label, extra, maxSteps, parts, part, visited)
	return visited, err
}

func filterMatrixCase(s *Session, r *rand.Rand, label string, extra, maxSteps, parts, part int, visited map[string]bool) error {
	want := func(k string) bool {
		h := fnv.New32a()
		h.Write([]byte(k))
		return parts <= 1 || int(h.Sum32()%uint32(parts)) == part
	}
	if err := s.Open(label, kindSchema(label)); err != nil {
		return err
	}
	flags := AllFlagRecs()
	for i := 0; i < extra; i++ {
		flags = append(flags, flags[r.Intn(18)])
	}
	r.Shuffle(len(flags), func(i, j int) { flags[i], flags[j] = flags[j], flags[i] })
	// whatever the order above links: at the end a queued auto mutation executed by
	// an accepted / by a canceled auto transition / by nothing, and the same for a
	// queued manual mutation
	qa, qu := FlagRec{Auto: true, Queued: true, Acc: true}, FlagRec{Queued: true, Acc: true}
	tail := [][]FlagRec{{qa, {Auto: true, Acc: true}}, {qa, {Auto: true}}, {qu, {Acc: true}}, {qu, {}}}
	r.Shuffle(len(tail), func(i, j int) { tail[i], tail[j] = tail[j], tail[i] })
	for _, t := range tail {
		flags = append(flags, t...)
	}
	flags = append(flags, qu, qa)
	g := NewKindGen(label)
	var msgs []*dbg.DbgMsgTx
	for _, f := range flags {
		msgs = append(msgs, g.NextFlags(f))
	}
	cur := func() map[string]bool {
		f := map[string]bool{}
		if s.lastView != nil {
			for _, n := range s.lastView.Filters {
				f[n] = true
			}
		}
		return f
	}
	cursorCmd := func(held int) Cmd {
		switch x := r.Float64(); {
		case x < 0.5:
			return Cmd{Op: "scroll", K: 1 + r.Intn(held)}
		case x < 0.65:
			return Cmd{Op: "tail"}
		case x < 0.85:
			return Cmd{Op: "fwd", K: 1}
		}
		return Cmd{Op: "back", K: 1}
	}
	nb := 1 + r.Intn(3)
	cuts := []int{0}
	for i := 1; i < nb; i++ {
		cuts = append(cuts, 1+r.Intn(len(msgs)-1))
	}
	cuts = append(cuts, len(msgs))
	sort.Ints(cuts)
	for i := 0; i+1 < len(cuts); i++ {
		if cuts[i+1] == cuts[i] {
			continue
		}
		if err := s.Ingest(msgs[cuts[i]:cuts[i+1]]); err != nil {
			return err
		}
		visited[fkey(cur())] = true
		if cuts[i+1] == len(msgs) {
			break
		}
		// a few toggles between the batches: later records are judged one by one
		for j := 0; j < 5; j++ {
			if err := s.Do(Cmd{Op: "toggle", Tool: matrixTools[r.Intn(len(matrixTools))]}); err != nil {
				return err
			}
			visited[fkey(cur())] = true
		}
		if err := s.Do(cursorCmd(cuts[i+1])); err != nil {
			return err
		}
	}
	for step := 0; step < maxSteps; step++ {
		t := nextTool(r, cur(), visited, want)
		if t == "" {
			break
		}
		if err := s.Do(Cmd{Op: "toggle", Tool: t}); err != nil {
			return err
		}
		visited[fkey(cur())] = true
		if step%5 == 4 {
			if err := s.Do(cursorCmd(len(msgs))); err != nil {
				return err
			}
		}
	}
	return s.Final(label, "kinds", nil, true)
}
