----------------------------- MODULE MCRpcDiff -----------------------------
(* Bounded model of the clock-diff codec: TLC enumerates every case within    *)
(* the constants (state count, tracked subset, schema synced or not, deep /   *)
(* shallow, kind of first snapshot, first clock, per-state deltas, queue and  *)
(* machine tick deltas, optional second per-mutation step) and evaluates the  *)
(* property formulas of RpcDiff.tla on the specification's own encoder and    *)
(* decoder, for the exact mirror and for mirrors drifted by every residue of  *)
(* DriftSet (plus the residue that would make a rejected message pass) in     *)
(* every component.                                                           *)
(*                                                                            *)
(*   Inv_Sound    with the code as it is: the property holds wherever no      *)
(*                message field truncates, for deep clocks and a last push    *)
(*                as long as the current schema                               *)
(*   Inv_All      with the repair flags: the property holds everywhere        *)
(*   Inv_Predict  (expected to be violated) no case of class Expect fails:    *)
(*                a counterexample is the specification's prediction of a     *)
(*                defect, which the binding half confirms on the real code    *)
EXTENDS RpcDiff, TLC

CONSTANTS NMax, Kinds, Shallows, MutsSet, BaseT, Deltas, Deltas2, BaseQ, DQs, BaseM, DMs,
          DriftSet, Expect

Num(k) == OfInt(k)
P32 == <<0, 0, 1, 0>>                                 \* 2^32
KindsReg == {"hello", "next"}
KindsFirst == {"nil", "short"}
KindsAll == {"hello", "next", "nil", "short"}
BoolF == {FALSE}
BoolT == {TRUE}
BoolBoth == {FALSE, TRUE}
BaseTSmall == {Z, One, Num(2)}
BaseTTwo == {Z, One}
DeltaSmall == {Z, One, Num(2), Num(3), Num(4)}
DeltaTwo == {Z, One}
DeltaOne == {One}
DeltaBig == {Z, One, USub(P32, One), P32, UAdd(P32, One)}
BaseQSmall == {One, Num(3)}
BaseQBig == {One, Num(65535)}
DQSmall == {Z, One, Num(2)}
DQTwo == {Z, One}
DQBig == {Z, One, Num(255), Num(256), Num(65535), Num(65536), Num(65537)}
BaseMSmall == {Z, One}
DMSmall == {Z, One}
DMBig == {Z, One, Num(255), Num(256), Num(257)}
DeltaMix == {Z, One, P32}
BaseQOne == {One}
DQMix == {One, Num(65537)}
BaseMZero == {Z}
DMMix == {Z, Num(257)}
DriftTwo == {1, 255}
DriftFew == {1, 2, 127, 128, 255}
DriftAll == 1..255

VARIABLES phase, case, verdict

mvars == <<phase, case, verdict>>

SeqOf(S, n) == SelectSeq([i \in 1..n |-> i - 1], LAMBDA s : s \in S)

CfgOf(c) == [allowedNil |-> TRUE, allowed |-> <<>>, skipped |-> SeqOf((0..c.n - 1) \ c.tracked, c.n),
             schema |-> c.schema, shallow |-> c.shallow]

(* the successive source clocks of a case                                     *)
SnapsOf(c) ==
  LET n == c.n
      base == [i \in 1..n |-> IF i <= c.n1 /\ c.kind # "nil" THEN c.first[i] ELSE Z]
      q0 == IF c.kind = "nil" THEN Z ELSE c.q
      m0 == IF c.kind = "nil" THEN Z ELSE c.m
      s1 == [t |-> [i \in 1..n |-> UAdd(base[i], c.d[i])], q |-> UAdd(q0, c.dq), m |-> UAdd(m0, c.dm)]
      s2 == [t |-> [i \in 1..n |-> UAdd(s1.t[i], c.d2[i])], q |-> UAdd(s1.q, One), m |-> s1.m]
  IN  IF c.muts THEN <<s1, s2>> ELSE <<s1>>

FirstOf(c) ==
  IF c.kind = "nil" THEN [t |-> [i \in 1..c.n |-> Z], q |-> Z, m |-> Z]
  ELSE [t |-> [i \in 1..c.n1 |-> c.first[i]], q |-> c.q, m |-> c.m]

Fits16(a) == a = T16(a)
Fits8(a) == a = T8(a)
Fits32(a) == a = T32(a)

(* no message field truncates: the true differences fit their fields          *)
NoTrunc(c) ==
  LET cfg == CfgOf(c)
      pre == Premise(c.kind, cfg, c.n, c.n1, FirstOf(c))
      snaps == SnapsOf(c)
      prev(j) == IF j = 1 THEN [q |-> pre.last.q, m |-> pre.last.m] ELSE snaps[j - 1]
  IN  /\ \A j \in 1..Len(snaps) :
           /\ Fits16(USub(snaps[j].q, prev(j).q))
           /\ Fits8(USub(snaps[j].m, prev(j).m))
      /\ \A i \in 1..c.n : Fits32(c.d[i]) /\ Fits32(c.d2[i])

Sound(c) == ~c.shallow /\ c.kind \in KindsReg /\ NoTrunc(c)

Class(c) ==
  IF ~NoTrunc(c) THEN (IF ~c.shallow /\ c.kind \in KindsReg THEN "trunc" ELSE "mixed")
  ELSE IF c.shallow THEN (IF c.kind \in KindsReg THEN "shallow" ELSE "mixed")
  ELSE IF c.kind = "nil" THEN "firstpush"
  ELSE IF c.kind = "short" THEN "short"
  ELSE "sound"

DriftedMirrors(mir, S) ==
  UNION {{[mir EXCEPT !.q = UAdd(@, Num(d))], [mir EXCEPT !.m = T32(UAdd(@, Num(d)))]}
         \cup {[mir EXCEPT !.t[i] = UAdd(@, Num(d))] : i \in 1..Len(mir.t)} : d \in S}

EvalCase(c) ==
  LET cfg == CfgOf(c)
      n == c.n
      cidx == CliIdx(cfg, n)
      pre == Premise(c.kind, cfg, n, c.n1, FirstOf(c))
      snaps == SnapsOf(c)
      datas == IF c.muts THEN [j \in 1..Len(snaps) |-> Snapshot(cfg, n, snaps[j])]
               ELSE <<Snapshot(cfg, n, snaps[Len(snaps)])>>
      msgs == Encode(cfg, c.muts, datas, pre.last)
      panic == \E j \in 1..Len(msgs) : msgs[j].panic
      ap == Apply(cfg, cidx, msgs, pre.mirror)
      target == IF panic THEN {} ELSE
                LET dd == (msgs[1].ck[1] - ap.dec[1].ck[1]) % 256
                IN  IF dd = 0 THEN {} ELSE {dd}
      probes == IF panic THEN {} ELSE DriftedMirrors(pre.mirror, DriftSet \cup target)
  IN  [rt |-> RoundTrip(cfg, n, snaps, panic, ap.acc, ap.dec, ap.st),
       ap |-> panic \/ Applied(ap.acc, pre.mirror, ap.dec, ap.st),
       dr |-> \A p \in probes :
                LET a == Apply(cfg, cidx, msgs, p)
                IN  DriftRejected(cfg, cidx, pre.mirror, p, a.acc, a.st),
       sound |-> Sound(c),
       class |-> Class(c)]

None == [n |-> 0]

MCInit == phase = "start" /\ case = None /\ verdict = [rt |-> TRUE, ap |-> TRUE, dr |-> TRUE,
                                                       sound |-> TRUE, class |-> "none"]

PickCfg ==
  /\ phase = "start"
  /\ \E n \in 1..NMax, schema \in BOOLEAN, shallow \in Shallows, kind \in Kinds,
        muts \in MutsSet :
       \E tracked \in SUBSET (0..n - 1), n1 \in 1..n :
         /\ (kind = "short") => n1 < n
         /\ (kind # "short") => n1 = n
         /\ muts => ~shallow
         /\ case' = [n |-> n, n1 |-> n1, tracked |-> tracked, schema |-> schema,
                     shallow |-> shallow, kind |-> kind, muts |-> muts]
  /\ phase' = "cfg"
  /\ UNCHANGED verdict

PickClocks ==
  /\ phase = "cfg"
  /\ \E first \in [1..case.n1 -> BaseT], d \in [1..case.n -> Deltas],
        d2 \in [1..case.n -> IF case.muts THEN Deltas2 ELSE {Z}],
        q \in BaseQ, dq \in DQs, m \in BaseM, dm \in DMs :
       LET c == [n |-> case.n, n1 |-> case.n1, tracked |-> case.tracked,
                 schema |-> case.schema, shallow |-> case.shallow, kind |-> case.kind,
                 muts |-> case.muts, first |-> first, d |-> d, d2 |-> d2,
                 q |-> q, dq |-> dq, m |-> m, dm |-> dm]
       IN  /\ (case.kind = "nil") => (\A i \in 1..case.n1 : first[i] = Z) /\ q = One /\ m = Z
           /\ case' = c
           /\ verdict' = EvalCase(c)
  /\ phase' = "done"

MCNext == PickCfg \/ PickClocks

MCSpec == MCInit /\ [][MCNext]_mvars

Ok == verdict.rt /\ verdict.ap /\ verdict.dr

Inv_Sound == verdict.sound => Ok
Inv_All == Ok
Inv_Predict == ~(verdict.class = Expect /\ ~Ok)
=============================================================================
