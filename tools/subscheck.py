#!/usr/bin/env python3
"""C06 -- waiting: no lost or spurious wake-ups; state contexts.

design half : TLC checks spec/Subs.tla / MCSubs.tla exhaustively (2 states, one
              Multi; <= 2 transitions accepted or canceled; <= 2 bindings of any
              kind with or without a context cancelled at any point; state
              contexts; SetSchema; Dispose; subscription before / inside the
              window between setActiveStates and processSubscriptions / after):
              ClosedIff, Sane, StateCtxIff, NeverPanics.
binding half: harness/subsdrv runs generated scenarios on the real machine: a
              mutator goroutine is parked at the verif hooks tx.applied /
              pq.beforeSubs while a subscriber subscribes, cancels contexts and
              creates state contexts inside the window; after EVERY operation
              all channels and contexts are probed.  TLC (TraceSubs.tla)
              replays the log on the specification's bookkeeping (drift) and
              judges every probe with the ghost `should` that depends only on
              the logged machine history (viol: lost / spurious wake-up, wrong
              state-context cancellation, panicking subscription).
"""
import glob, json, os, shutil, sys

sys.path.insert(0, os.path.dirname(os.path.abspath(__file__)))
import tlcrun
from common import *

PROP = "C06"
FLAGS = dict(ClockAliased=True, QueryFixed=True, DisposeQuery=True, ArgsReuseExact=True)
TRACE_CONSTS = dict(FLAGS, States='{"A", "B", "C"}', MultiStates='{"B"}')


def scenario_of(path, lineno):
    sc = None
    with open(path) as f:
        for i, l in enumerate(f, 1):
            if i > lineno:
                break
            if l.startswith('{"ev":"scenario"'):
                sc = json.loads(l)["scenario"]
    return sc


def check(tier):
    rep = Report(PROP, tier, "model_checking")
    sd = seed()
    binary = build_harness()
    mc = dict(FLAGS, States="<-StatesAB", MultiStates="<-MultiB", MaxTx=2, MaxBinds=2, MaxCtx=1, UseArgs=True)
    if tier == "quick":
        mc.update(MaxBinds=1)
    r = tlcrun.run_tlc("MCSubs", dict(spec="MCSpec", consts=mc,
                                      invariants=["ClosedIff", "Sane", "StateCtxIff", "NeverPanics"]),
                       workers=16, timeout=2400)
    if r["violated"] or (r["errors"] and not r["timed_out"]):
        raise Inconclusive("Subs.tla violates its formulas: %s %s\n%s" % (r["violated"], r["errors"][:2], r["out"][-1500:]))
    rep.coverage["mc_runs"] = [dict(config=str(mc), states_generated=r["states"], distinct=r["distinct"],
                                    wall_s=round(r["wall"], 1), timed_out=r["timed_out"])]
    rep.coverage["states"] = max(r["distinct"], 1)
    rep.coverage["transitions"] = max(r["states"], 1)
    d = scratch(PROP)
    try:
        n, ops = (1200, 12) if tier == "quick" else (30000, 14)
        pref = os.path.join(d, "s")
        rc, out = run([binary, "subs", "-n", str(n), "-ops", str(ops), "-seed", str(sd), "-out", pref,
                       "-shards", "16" if tier == "quick" else "64"],
                      timeout=3000)
        if rc != 0:
            raise Inconclusive("subs driver failed: " + out[-2000:])
        st = json.loads(out.strip().splitlines()[-1])
        files = sorted(glob.glob(pref + ".*.ndjson"))
        res = tlcrun.validate_traces("TraceSubs", TRACE_CONSTS, files, timeout=3000)
        nlines = 0
        kinds = set()
        samples = []
        for r in res:
            if r["result"] is None:
                raise Inconclusive("trace validation failed for %s: %s" % (r["file"], r["out"][-2000:]))
            nl = sum(1 for _ in open(r["file"]))
            if r["result"]["lines"] != nl:
                raise Inconclusive("trace not fully consumed: " + r["file"])
            nlines += nl
            for l, f in r["result"]["viol"]:
                sc = scenario_of(r["file"], l)
                rep.violation(dict(formula=f, scenario=sc), dict(kind="subs", property=PROP, formula=f, scenario=sc),
                              "%s at line %d of scenario %s" % (f, l, json.dumps(sc)[:400]))
            for l, f in r["result"]["drift"]:
                rep.drift.append("%s line %d: %s" % (os.path.basename(r["file"]), l, f))
        # distinct non-trivial: (subscription kind, had ctx, placed in window) combinations + window ops
        for fn in files:
            for l in open(fn):
                if l.startswith('{"ev":"scenario"'):
                    sc = json.loads(l)["scenario"]
                    for op in sc["ops"]:
                        if op["op"] == "tx":
                            for w in op.get("window") or []:
                                kinds.add(("window", w["op"], w.get("kind"), w.get("ctx", 0) > 0, op.get("veto", False)))
                        elif op["op"] in ("sub", "sctx", "cancel"):
                            kinds.add(("outside", op["op"], op.get("kind"), op.get("ctx", 0) > 0, False))
                    if len(samples) < 2:
                        samples.append(sc)
        rep.coverage.update(
            traces_validated_against_impl=st["scenarios"], evaluations=st["scenarios"],
            distinct_nontrivial=len(kinds), trace_lines=nlines, exhaustive=False,
            rule="one evaluation = one scenario (8-14 operations: subscriptions of every kind - When, WhenNot, WhenTime, WhenTicks, WhenNextActive, WhenQuery, WhenArgs, WhenQueue, WhenQueueEnds - with/without "
                 "context, context cancellations, state contexts, transitions accepted or vetoed with "
                 "operations placed inside the setActiveStates/processSubscriptions window, SetSchema, "
                 "Dispose) executed on the real machine with all channels probed after every operation; "
                 "distinct = distinct (placement, operation, kind, with-context, vetoed-tx) combinations",
            samples=samples)
        rep.assumptions += [
            "'a transition has run since' is read as: an accepted transition was processed (docs: subscriptions are processed when the machine ticks)",
            "inside the window a wake-up that is due at the end of the running transition is neither lost nor spurious",
            "a channel requested with an already ended context may be closed at once or at the next processed transition",
            "WhenArgs: a context that ended is collected by the next handler event that completes (any accepted transition of a machine with handlers); after a canceled transition the channel may be open or closed",
            "WhenQueueEnds: 'the condition' is the end of the queue drain the subscriber saw running"]
    finally:
        shutil.rmtree(d, ignore_errors=True)
    return rep.finish()


def replay(path):
    obj = json.load(open(path))
    rep = Report(PROP, os.environ.get("VERIF_TIER", "quick"), "model_checking")
    binary = build_harness()
    d = scratch(PROP + "-replay")
    try:
        with open(os.path.join(d, "in.json"), "w") as f:
            json.dump([obj["scenario"]], f)
        rc, out = run([binary, "subs", "-in", os.path.join(d, "in.json"), "-out", os.path.join(d, "r"),
                       "-shards", "1"], timeout=600)
        if rc != 0:
            raise Inconclusive(out[-1500:])
        res = tlcrun.validate_traces("TraceSubs", TRACE_CONSTS, [os.path.join(d, "r.0.ndjson")])
        for r in res:
            if r["result"] is None:
                raise Inconclusive(r["out"][-1500:])
            for l, f in r["result"]["viol"]:
                rep.violation(dict(formula=f, replay=True), obj, "replayed scenario violates " + f)
        rep.coverage.update(evaluations=1, distinct_nontrivial=2, rule="replay", samples=[obj["scenario"]],
                            states=1, transitions=1, traces_validated_against_impl=1)
    finally:
        shutil.rmtree(d, ignore_errors=True)
    return rep.finish()
