------------------------------- MODULE MCSubs -------------------------------
(* Bounded model of Subs.tla: every subscription kind, subscribed before /     *)
(* inside the window / after a transition, with and without a context that    *)
(* is cancelled at any point, Multi re-activations, canceled transitions,      *)
(* SetSchema and Dispose.                                                      *)
EXTENDS Subs

CONSTANTS MaxTx, MaxBinds, MaxCtx,
          UseArgs    \* include WhenArgs / WhenQueueEnds / WhenTicks / WhenNextActive and mutation args

VARIABLES ntx, nset

mvars == <<vars, ntx, nset>>

(* mutation args / requested args: sets of <<key, value>> pairs                *)
ArgSets == {{}, {<<"a", 1>>}, {<<"a", 1>>, <<"b", 2>>}}

AddTx(s, acc, args) ==
  LET wasActive == s \in active
      enters == acc /\ (~wasActive \/ s \in MultiStates)
      nc == IF ~acc THEN clock
            ELSE IF ~wasActive THEN [clock EXCEPT ![s] = @ + 1]
            ELSE IF s \in MultiStates THEN [clock EXCEPT ![s] = @ + 2] ELSE clock
  IN [accepted |-> acc, check |-> FALSE, ticked |-> TRUE, args |-> args,
      activated |-> IF enters THEN {s} ELSE {}, deactivated |-> {},
      newActive |-> IF acc THEN active \cup {s} ELSE active, newClock |-> nc]

RemTx(s, acc) ==
  LET wasActive == s \in active
  IN [accepted |-> acc, check |-> FALSE, ticked |-> TRUE, args |-> {},
      activated |-> {}, deactivated |-> IF acc /\ wasActive THEN {s} ELSE {},
      newActive |-> IF acc THEN active \ {s} ELSE active,
      newClock |-> IF acc /\ wasActive THEN [clock EXCEPT ![s] = @ + 1] ELSE clock]

Ctxs == 0..MaxCtx
NonEmpty == (SUBSET States) \ {{}}

MCInit == Init /\ ntx = 0 /\ nset = 0

Subscribe ==
  /\ Len(binds) < MaxBinds
  /\ \/ \E S \in NonEmpty : \E neg \in BOOLEAN : \E c \in Ctxs : SubWhen(S, neg, c)
     \/ \E s \in States : \E d \in 1..2 : \E c \in Ctxs :
          SubWhenTime([x \in {s} |-> clock[s] + d], c)
     \/ \E s \in States : \E c \in Ctxs :
          SubWhenQuery([kind |-> "ge", state |-> s, n |-> clock[s] + 1], c)
     \/ \E s \in States : SubWhenQuery([kind |-> "inactive", state |-> s], 0)
     \/ SubWhenQueue(qtick + 1)
     \/ (UseArgs /\ \E s \in States : \E a \in ArgSets : \E c \in Ctxs : SubWhenArgs(s, a, c))
     \/ (UseArgs /\ SubWhenQueueEnds)
     \/ (UseArgs /\ \E s \in States : \E c \in Ctxs : (SubWhenTicks(s, 1, c) \/ SubWhenNextActive(s, c)))
  /\ UNCHANGED <<ntx, nset>>

MCNext ==
  \/ Subscribe
  \/ (Len(sctx) < 2 /\ \E s \in States : SubStateCtx(s) /\ UNCHANGED <<ntx, nset>>)
  \/ (\E c \in 1..MaxCtx : CtxCancel(c) /\ UNCHANGED <<ntx, nset>>)
  \/ /\ ntx < MaxTx
     /\ \E s \in States : \E acc \in BOOLEAN :
          \/ \E a \in (IF UseArgs THEN ArgSets ELSE {{}}) : TxApply(AddTx(s, acc, a))
          \/ TxApply(RemTx(s, acc))
     /\ ntx' = ntx + 1 /\ nset' = nset
  \/ (TxProcess /\ UNCHANGED <<ntx, nset>>)
  \/ (nset = 0 /\ SetSchema /\ nset' = 1 /\ ntx' = ntx)
  \/ (Dispose /\ UNCHANGED <<ntx, nset>>)

MCSpec == MCInit /\ [][MCNext]_mvars

StatesAB == {"A", "B"}
MultiB == {"B"}
=============================================================================
