-------------------------- MODULE TraceSchemaBuild --------------------------
(* C19, the schema builders: every logged call of the REAL State.Extend /     *)
(* StateAdd / State.Set / SetRels / StateSet / Schema.Merge / SchemaMerge     *)
(* (harness/schemas/build.go) against Schemas.tla Part 1b.                    *)
(*   viol  : the built state does not MEAN what the source expression says    *)
(*           (a relation target or flag lost / invented), or the call panics  *)
(*   drift : same meaning, different order of a relation list                 *)
EXTENDS Schemas, Json

CONSTANT TraceFile
Trace == ndJsonDeserialize(TraceFile)

VARIABLES l, viol, drift, n
tvars == <<l, viol, drift, n>>
Line == Trace[l]

TraceInit == l = 1 /\ viol = {} /\ drift = {} /\ n = 0

Want(x) ==
  CASE x.fn \in {"Extend", "StateAdd"} -> ExtendSpec(x.src, x.ov)
    [] x.fn \in {"Set", "StateSet"} -> SetSpec(x.src, x.auto, x.multi, x.ov)
    [] x.fn = "SetRels" -> SetSpec(x.src, x.src.auto, x.src.multi, x.ov)

EvState ==
  /\ Line.ev = "state"
  /\ LET x == Line IN
     IF x.panic # ""
     THEN /\ viol' = viol \cup {<<l, "builders", x.fn, "panic">>} /\ drift' = drift
     ELSE LET w == Want(x) IN
          /\ viol' = viol \cup (IF SameMeaning(x.res, w) THEN {}
                                ELSE {<<l, "builders", x.fn,
                                        IF \E r \in BRels : ~(SSet(BRel(w, r).v) \subseteq SSet(BRel(x.res, r).v))
                                        THEN "relation-lost" ELSE "differs">>})
          /\ drift' = drift \cup (IF SameMeaning(x.res, w) /\ ~SameExactly(x.res, w)
                                  THEN {<<l, "builders.order", x.fn>>} ELSE {})

EvMerge ==
  /\ Line.ev = "merge"
  /\ LET x == Line IN
     IF x.panic # ""
     THEN /\ viol' = viol \cup {<<l, "builders", x.fn, "panic">>} /\ drift' = drift
     ELSE LET w == MergeSpec(x.ins)
              same == DOMAIN w = DOMAIN x.out /\ \A k \in DOMAIN w : SameMeaning(x.out[k], w[k])
          IN /\ viol' = viol \cup (IF same THEN {} ELSE {<<l, "builders", x.fn, "differs">>})
             /\ drift' = drift

EvList ==
  /\ Line.ev = "list"
  /\ LET x == Line IN
     IF x.panic # ""
     THEN /\ viol' = viol \cup {<<l, "builders", x.fn, "panic">>} /\ drift' = drift
     ELSE LET w == IF x.fn = "SAdd" THEN SAddSpec(x.lists) ELSE SAddRecvSpec(x.recv, x.lists)
          IN /\ viol' = viol \cup (IF SSet(x.got.v) = SSet(w) THEN {}
                                   ELSE {<<l, "builders", x.fn,
                                           IF ~(SSet(w) \subseteq SSet(x.got.v)) THEN "element-lost"
                                           ELSE "differs">>})
             /\ drift' = drift \cup (IF SSet(x.got.v) = SSet(w) /\ x.got.v # w
                                     THEN {<<l, "builders.order", x.fn>>} ELSE {})

Done ==
  /\ l = Len(Trace) + 1
  /\ PrintT(<<"RESULT", ToJson([lines |-> Len(Trace), ntx |-> n, viol |-> viol, drift |-> drift])>>)
  /\ UNCHANGED <<viol, drift, n>>

TraceNext ==
  \/ /\ l <= Len(Trace) /\ (EvState \/ EvMerge \/ EvList) /\ l' = l + 1 /\ n' = n + 1
  \/ (Done /\ l' = l + 1)

TraceSpec == TraceInit /\ [][TraceNext]_tvars
TraceView == <<l>>
=============================================================================
