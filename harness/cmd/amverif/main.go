package main

import (
	"fmt"
	"os"
	"sort"
)

// commands is filled by the init() of each subcommand file:
//
//	func init() { commands["name"] = cmdName }
var commands = map[string]func(args []string) int{}

func main() {
	if len(os.Args) < 2 {
		var names []string
		for k := range commands {
			names = append(names, k)
		}
		sort.Strings(names)
		fmt.Fprintln(os.Stderr, "usage: amverif <command> [flags]; commands:", names)
		os.Exit(2)
	}
	cmd, ok := commands[os.Args[1]]
	if !ok {
		fmt.Fprintln(os.Stderr, "unknown command", os.Args[1])
		os.Exit(2)
	}
	os.Exit(cmd(os.Args[2:]))
}
