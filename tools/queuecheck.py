#!/usr/bin/env python3
"""C04 -- one queue, one transition at a time, in order, none lost.

design half : TLC checks spec/Queue.tla (N callers racing on the CAS of
              processQueue, handlers that nest mutations) exhaustively:
              Mutex, NoStranding, NoneLost, TickOrder, TickCount, NoNesting as
              invariants and EventuallyProcessed under weak fairness.
binding half: the harness FORCES interleavings on the real machine through the
              verif gate hooks (qm.done, pq.enter, pq.casLost/casWon, pq.popped,
              pq.loopExit, pq.released, pq.queueEnd): every schedule of
              2 callers x 1 mutation is enumerated (stateless depth-first
              search, each schedule a fresh machine), larger scenarios are
              sampled; the recorded gate sequence of every execution is
              validated by TLC against Queue.tla (each event must be the
              Queue action of that caller, with the logged queue length, queue
              tick and flag) and the C04 formulas are evaluated on the logged
              end state (queue empty, every returned tick processed, WhenQueue
              closed - accepted or canceled -, nothing lost, tick order, no
              two handlers / eval functions at once).  Free-running executions
              (8 goroutines, Add/Remove/CanAdd/Eval, nesting handlers) are
              judged on their end state.
"""
import glob, json, os, shutil, sys

sys.path.insert(0, os.path.dirname(os.path.abspath(__file__)))
import tlcrun
from common import *

PROP = "C04"
INV = ["Mutex", "NoStranding", "NoneLost", "TickOrder", "TickCount", "NoNesting"]


def cset(n):
    return "{" + ", ".join(str(i) for i in range(1, n + 1)) + "}"


def check(tier):
    rep = Report(PROP, tier, "model_checking")
    sd = seed()
    binary = build_harness()
    # ---- design half
    mcs = [(2, 2, "{11}", "{22}"), (3, 1, "{11}", "{21}")] if tier == "quick" else \
          [(2, 2, "{11, 21}", "{}"), (2, 2, "{11}", "{12, 21}"), (3, 1, "{11}", "{31}"),
           (3, 2, "{11}", "{21, 32}"), (4, 1, "{}", "{11}")]
    runs = []
    for n, muts, nest, prepc in mcs:
        consts = dict(Callers=cset(n), MutsPer=muts, NestCodes=nest, PrepCodes=prepc, Recheck=True)
        r = tlcrun.run_tlc("MCQueue", dict(spec="Spec", consts=consts, invariants=INV),
                           workers=8, timeout=1200)
        if r["violated"] or (r["errors"] and not r["timed_out"]):
            raise Inconclusive("Queue.tla violates its formulas: %s %s" % (r["violated"], r["errors"][:2]))
        runs.append(dict(config="callers=%d muts=%d nest=%s" % (n, muts, nest),
                         states_generated=r["states"], distinct=r["distinct"],
                         wall_s=round(r["wall"], 1), timed_out=r["timed_out"]))
    # liveness on the unconstrained fair spec
    r = tlcrun.run_tlc("MCQueue", dict(spec="FairSpec", consts=dict(Callers=cset(2), MutsPer=2,
                       NestCodes="{11}", PrepCodes="{22}", Recheck=True), properties=["EventuallyProcessed"]),
                       workers=4, timeout=900)
    if r["violated"] or "Temporal properties were violated" in r["out"] or \
            (r["errors"] and not r["timed_out"]):
        raise Inconclusive("Queue.tla violates EventuallyProcessed: %s" % r["out"][-1500:])
    runs.append(dict(config="liveness callers=2 muts=2 nest={11}", states_generated=r["states"],
                     distinct=r["distinct"], wall_s=round(r["wall"], 1)))
    rep.coverage["mc_runs"] = runs
    rep.coverage["states"] = sum(x["distinct"] for x in runs)
    rep.coverage["transitions"] = sum(x["states_generated"] for x in runs)
    # ---- binding half
    d = scratch(PROP)
    try:
        # (callers, muts, nest, veto, mode)
        if tier == "quick":
            plan = [(2, 1, "", "", "", ["-enum", "-max", "4000"]),
                    (2, 1, "", "2.1", "", ["-random", "500"]),
                    (2, 2, "1.1", "", "", ["-random", "300"]),
                    (3, 1, "1.1", "3.1", "", ["-random", "300"]),
                    (2, 1, "", "", "1.1", ["-enum", "-max", "3000"]),       # Eval vs Add
                    (3, 2, "", "", "2.2,3.1", ["-random", "400"]),          # CanAdd / Eval queued behind a drain
                    (8, 40, "", "", "", ["-free", "100"])]
        else:
            # measured: a forced schedule costs 30-60 ms wall (gate hand-offs), so one
            # enumeration of 15 000 schedules is 10-15 min on a quiet 16-core host
            plan = [(2, 1, "", "", "", ["-enum"]),
                    (2, 1, "1.1", "", "", ["-enum", "-max", "15000"]),
                    (2, 1, "", "2.1", "", ["-enum", "-max", "15000"]),
                    (2, 1, "", "", "1.1", ["-enum", "-max", "15000"]),
                    (2, 2, "1.1", "", "", ["-enum", "-max", "15000"]),
                    (2, 2, "", "", "1.2,2.1", ["-enum", "-max", "15000"]),
                    (3, 1, "1.1", "3.1", "", ["-random", "10000"]),
                    (3, 2, "1.1,2.2", "", "", ["-random", "5000"]),
                    (3, 2, "", "", "2.2,3.1", ["-random", "5000"]),
                    (4, 2, "1.1", "2.1", "3.2,4.1", ["-random", "3000"]),
                    (8, 40, "", "", "", ["-free", "1000"]),
                    (16, 25, "", "", "", ["-free", "500"])]
        nexec = nlines = 0
        samples = []
        distinct = set()
        for i, (n, muts, nest, veto, prep, mode) in enumerate(plan):
            pref = os.path.join(d, "q%d" % i)
            cmd = [binary, "queue", "-callers", str(n), "-muts", str(muts), "-seed", str(sd * 10 + i),
                   "-out", pref] + mode
            if nest:
                cmd += ["-nest", nest]
            if veto:
                cmd += ["-veto", veto]
            if prep:
                cmd += ["-prep", prep]
            rc, out = run(cmd, timeout=3000 if tier == "quick" else 9000)
            if rc != 0:
                raise Inconclusive("queue driver failed: " + out[-2000:])
            st = json.loads(out.strip().splitlines()[-1])
            if st["stuck"]:
                rep.notes.append("%d executions had a role that did not reach a gate in time" % st["stuck"])
            files = sorted(glob.glob(pref + ".*.ndjson"))
            nestcodes = "{" + ", ".join(str(int(x.split(".")[0]) * 10 + int(x.split(".")[1]))
                                        for x in nest.split(",") if x) + "}"
            prepcodes = "{" + ", ".join(str(int(x.split(".")[0]) * 10 + int(x.split(".")[1]))
                                        for x in prep.split(",") if x) + "}"
            consts = dict(Callers=cset(n), MutsPer=muts, NestCodes=nestcodes if "-free" not in mode else "{}",
                          PrepCodes=prepcodes, Recheck=True)
            res = tlcrun.validate_traces("TraceQueue", consts, files, timeout=3000)
            for r in res:
                if r["result"] is None:
                    raise Inconclusive("trace validation failed for %s: %s" % (r["file"], r["out"][-2000:]))
                nl = sum(1 for _ in open(r["file"]))
                if r["result"]["lines"] != nl:
                    raise Inconclusive("trace not fully consumed: " + r["file"])
                nlines += nl
                nexec += r["result"]["ntx"]
                for l, f in r["result"]["viol"]:
                    # the execution = lines from the preceding qinit up to its qend
                    lines = open(r["file"]).read().splitlines()
                    s = l - 1
                    while not lines[s].startswith('{"ev":"qinit"'):
                        s -= 1
                    e = l - 1
                    while not lines[e].startswith('{"ev":"qend"'):
                        e += 1
                    init, end = json.loads(lines[s]), json.loads(lines[e])
                    sig = dict(formula=f, scenario={k: init[k] for k in ("callers", "mutsPer", "nest", "veto", "prep")},
                               sched=end.get("sched"))
                    rep.violation(sig, dict(kind="queue", property=PROP, formula=f,
                                            scenario=sig["scenario"], sched=end.get("sched"),
                                            free=end.get("free", False), end=end),
                                  "%s: scenario %s schedule %s end state %s" % (
                                      f, sig["scenario"], end.get("sched"), json.dumps(end)[:300]))
                for l, f in r["result"]["drift"]:
                    rep.drift.append("%s line %d: %s" % (os.path.basename(r["file"]), l, f))
            for fn in files:
                for ln in open(fn):
                    if ln.startswith('{"ev":"qend"'):
                        e = json.loads(ln)
                        distinct.add((n, muts, nest, veto, prep, tuple(e.get("sched") or [])))
                        if len(samples) < 3 and any(x["res"] == "queued" for x in e["returned"]):
                            samples.append(dict(scenario=dict(callers=n, muts=muts, nest=nest, veto=veto),
                                                schedule=e.get("sched"), returned=e["returned"][:4],
                                                qlen=e["qlen"], qtick=e["qtick"]))
        rep.coverage.update(
            traces_validated_against_impl=nexec, evaluations=nexec, distinct_nontrivial=len(distinct),
            trace_lines=nlines, exhaustive=False,
            exhaustive_part="thorough tier: all schedules of 2 callers x 1 mutation at hook granularity; quick tier: the first 4000 in depth-first order",
            rule="one evaluation = one execution of the real machine under a forced schedule "
                 "(sequence of caller ids; a caller runs from one verif hook point to the next) or "
                 "one free-running execution; distinct = distinct (scenario, schedule taken)",
            samples=samples or [dict(note="no queued sample")])
        rep.assumptions += [
            "interleavings are enumerated at hook-point granularity; the Go scheduler between two hook points is not enumerated",
            "Queue.tla models the repaired processQueue (Recheck=TRUE)"]
    finally:
        shutil.rmtree(d, ignore_errors=True)
    return rep.finish()


def replay(path):
    obj = json.load(open(path))
    rep = Report(PROP, os.environ.get("VERIF_TIER", "quick"), "model_checking")
    binary = build_harness()
    d = scratch(PROP + "-replay")
    try:
        sc = obj["scenario"]
        if obj.get("free"):
            cmd = [binary, "queue", "-callers", str(sc["callers"]), "-muts", str(sc["mutsPer"]),
                   "-free", "300", "-out", os.path.join(d, "r"), "-shards", "1"]
            nest = "{}"
        else:
            with open(os.path.join(d, "s.json"), "w") as f:
                json.dump([dict(scenario=sc, sched=obj["sched"], label="replay")], f)
            cmd = [binary, "queue", "-sched", os.path.join(d, "s.json"), "-out", os.path.join(d, "r"),
                   "-shards", "1"]
            nest = "{" + ", ".join(str(a * 10 + b) for a, b in sc["nest"]) + "}"
        prepc = "{" + ", ".join(str(a * 10 + b) for a, b in sc.get("prep", [])) + "}"
        rc, out = run(cmd, timeout=600)
        if rc != 0:
            raise Inconclusive(out[-1500:])
        consts = dict(Callers=cset(sc["callers"]), MutsPer=sc["mutsPer"], NestCodes=nest, PrepCodes=prepc, Recheck=True)
        res = tlcrun.validate_traces("TraceQueue", consts, [os.path.join(d, "r.0.ndjson")])
        for r in res:
            if r["result"] is None:
                raise Inconclusive(r["out"][-1500:])
            for l, f in r["result"]["viol"]:
                rep.violation(dict(formula=f, replay=True), obj, "replayed schedule violates " + f)
        rep.coverage.update(evaluations=1, distinct_nontrivial=2, rule="replay", samples=[obj.get("sched")],
                            states=1, transitions=1, traces_validated_against_impl=1)
    finally:
        shutil.rmtree(d, ignore_errors=True)
    return rep.finish()
