package rpcdrv

import (
	"fmt"
	"time"

	am "github.com/pancsta/asyncmachine-go/pkg/machine"
	"github.com/pancsta/asyncmachine-go/pkg/rpc"
)

// Forcing a behaviour of spec/RpcSync.tla on the real code (B3).
//
// In STEPPED mode both directions of the connection are held and exactly one
// message is delivered per abstract Deliver / RemoteMutCompute / RemoteSync /
// SrvHello / SrvHandshake action; the points where the code hands work from
// one goroutine to another are gates:
//
//	RemoteMutCompute  deliver the request; the handler parks at
//	                  rpc.remote.afterReply (after the unlock, before the write)
//	ReplySend         open rpc.remote.afterReply, wait for the response bytes
//	PushTry           pushClient in a goroutine, parks at rpc.push.beforeNotify
//	                  (under lockExport) unless the diff is empty
//	PushSend          open rpc.push.beforeNotify, wait for pushClient to return
//	Deliver(push)     deliver the message, wait for applied / dropped
//	Deliver(reply)    deliver; the calling goroutine parks at
//	                  rpc.client.beforeReplyApply
//	CliApplyReply     open that gate, wait for the verdict
//	Deliver(sync)     deliver; the calling goroutine parks at
//	                  rpc.client.sync.beforeSet
//	CliSyncApply      open that gate, wait for clockSet / Sync's return
//	Deliver(hsresp)   deliver; the handshake goroutine parks at
//	                  rpc.client.handshaked
//	CliHandshakeDone  open that gate, wait for the client's HandshakeDone
//
// Every await is bounded; an expired bound makes the schedule INCOMPLETE (the
// code's concurrency structure did not admit the step, or the harness lost
// track) - never a verdict.

const actWait = 1500 * time.Millisecond

type stepper struct {
	w        *World
	armed    map[string]*gate
	pushDone chan struct{}
	dropped  *Link
	// toggle bookkeeping: what the harness believes is active on the source
	calls int
}

func (st *stepper) arm(p string) {
	g := &gate{arrived: make(chan struct{}), release: make(chan struct{})}
	st.w.mu.Lock()
	st.w.gates[p] = g
	st.w.mu.Unlock()
	st.armed[p] = g
}

func (st *stepper) arrived(p string, d time.Duration) bool {
	g := st.armed[p]
	if g == nil {
		return false
	}
	select {
	case <-g.arrived:
		return true
	case <-time.After(d):
		return false
	}
}

func (st *stepper) open(p string) {
	g := st.armed[p]
	if g == nil {
		return
	}
	g.once.Do(func() { close(g.release) })
	delete(st.armed, p)
	st.w.mu.Lock()
	if st.w.gates[p] == g {
		delete(st.w.gates, p)
	}
	st.w.mu.Unlock()
}

func (st *stepper) openAll() {
	for p := range st.armed {
		st.open(p)
	}
}

// count of logged events of a kind
func (w *World) count(ev string) int {
	w.mu.Lock()
	defer w.mu.Unlock()
	n := 0
	for i := range w.events {
		if w.events[i].Ev == ev {
			n++
		}
	}
	return n
}

func waitFor(d time.Duration, f func() bool) bool {
	deadline := time.Now().Add(d)
	for {
		if f() {
			return true
		}
		if time.Now().After(deadline) {
			return false
		}
		time.Sleep(150 * time.Microsecond)
	}
}

func (w *World) countAny(evs ...string) int {
	n := 0
	for _, e := range evs {
		n += w.count(e)
	}
	return n
}

// toggleOp decides the mutation that realises the abstract target s on the
// source: a toggle of a state, or ("reject") a mutation the source cancels.
func (w *World) toggleOp(s string) (string, am.S) {
	if s == "reject" {
		return "add", am.S{"D"}
	}
	if w.Src.Is1(s) {
		return "remove", am.S{s}
	}
	return "add", am.S{s}
}

// stepMsg delivers one message in direction d, waiting for it to be written.
func (st *stepper) stepMsg(d string) error {
	l := st.w.Link()
	if !waitFor(actWait, func() bool { return l.PendingMsgs(d) > 0 }) {
		return fmt.Errorf("no message to deliver in %s", d)
	}
	if !l.Step(d) {
		return fmt.Errorf("step %s failed", d)
	}
	return nil
}

// act executes one abstract action. A non-nil error: the schedule is incomplete.
func (st *stepper) act(a, s string) error {
	w := st.w
	switch a {

	case "SrcMutate":
		op, states := w.toggleOp(s)
		res := w.mutate(w.Src, op, states)
		if res != am.Executed && res != am.Canceled {
			select {
			case <-w.Src.WhenQueue(res):
			case <-time.After(actWait):
				return fmt.Errorf("source queue stuck")
			}
		}
		w.log(Event{Ev: "src", Who: "drv", Op: op, States: states,
			Res: resName(res), To: w.SrcSnap(), Note: s})

	case "CliCall":
		// the op is decided from what the CLIENT sees? No: the abstract call
		// toggles the state on the source; decide from the source
		op, states := w.toggleOp(s)
		st.calls++
		id := st.calls
		call := &cliCall{done: make(chan struct{})}
		w.mu.Lock()
		w.calls[id] = call
		w.mu.Unlock()
		n := w.Link().MsgsWritten("c2s")
		w.log(Event{Ev: "cli.call", Who: "drv", Op: op, States: states, Call: id,
			Note: s})
		go func() {
			defer w.recoverCall(call)
			res := w.mutate(w.Cli.NetMach, op, states)
			call.res = res
			mir, _ := w.MirrorSnap()
			w.log(Event{Ev: "cli.ret", Who: "drv", Op: op, States: states,
				Call: id, Res: resName(res), To: mir,
				States2: w.Cli.Mach.ActiveStates(nil)})
			close(call.done)
		}()
		l := w.Link()
		if !waitFor(actWait, func() bool { return l.MsgsWritten("c2s") > n }) {
			return fmt.Errorf("the call did not send a request")
		}

	case "RemoteMutCompute":
		st.arm("rpc.remote.afterReply")
		if err := st.stepMsg("c2s"); err != nil {
			return err
		}
		if !st.arrived("rpc.remote.afterReply", actWait) {
			return fmt.Errorf("handler did not reach afterReply")
		}

	case "ReplySend":
		l := w.Link()
		n := l.MsgsWritten("s2c")
		st.open("rpc.remote.afterReply")
		if l == st.dropped {
			// the connection of the request is gone: the response is lost
			time.Sleep(2 * time.Millisecond)
		} else if !waitFor(actWait, func() bool { return l.MsgsWritten("s2c") > n }) {
			return fmt.Errorf("no response written")
		}

	case "PushTry":
		st.arm("rpc.push.beforeNotify")
		st.arm("rpc.push.beforeStore")
		done := make(chan struct{})
		st.pushDone = done
		w.log(Event{Ev: "push.try", Who: "drv"})
		go func() {
			if w.Cfg.PushUs < 0 {
				ns := time.Nanosecond
				w.Srv.PushInterval.Store(&ns)
			}
			rpc.VerifSyncPush(w.Srv)
			if w.Cfg.PushUs < 0 {
				day := 24 * time.Hour
				w.Srv.PushInterval.Store(&day)
			}
			close(done)
		}()
		// parked under lockExport (before Notify, or - diff without indexes -
		// before storeLastPush), or already returned (nothing to push)
		g := st.armed["rpc.push.beforeNotify"]
		g2 := st.armed["rpc.push.beforeStore"]
		select {
		case <-g.arrived:
		case <-g2.arrived:
		case <-done:
		case <-time.After(actWait):
			return fmt.Errorf("pushClient neither parked nor returned")
		}

	case "PushSend":
		st.open("rpc.push.beforeStore")
		st.open("rpc.push.beforeNotify")
		if st.pushDone != nil {
			select {
			case <-st.pushDone:
			case <-time.After(actWait):
				return fmt.Errorf("pushClient did not return")
			}
			st.pushDone = nil
		}

	case "RemoteSync":
		n := w.Link().MsgsWritten("s2c")
		if err := st.stepMsg("c2s"); err != nil {
			return err
		}
		l := w.Link()
		if !waitFor(actWait, func() bool { return l.MsgsWritten("s2c") > n }) {
			return fmt.Errorf("no sync answer written")
		}

	case "Deliver":
		switch s {
		case "push":
			n := w.countAny("rpc.client.applied", "rpc.client.dropped")
			if err := st.stepMsg("s2c"); err != nil {
				return err
			}
			if !waitFor(actWait, func() bool {
				return w.countAny("rpc.client.applied", "rpc.client.dropped") > n
			}) {
				return fmt.Errorf("pushed update not processed")
			}
			// per-mutation pushes log one verdict per chained update: let the
			// handler finish
			time.Sleep(2 * time.Millisecond)
		case "reply":
			st.arm("rpc.client.beforeReplyApply")
			if err := st.stepMsg("s2c"); err != nil {
				return err
			}
			if !st.arrived("rpc.client.beforeReplyApply", actWait) {
				return fmt.Errorf("caller did not get the reply")
			}
		case "sync":
			st.arm("rpc.client.sync.beforeSet")
			if err := st.stepMsg("s2c"); err != nil {
				return err
			}
			if !st.arrived("rpc.client.sync.beforeSet", actWait) {
				// Sync's length test failed: it returned without a clockSet
				if !waitFor(actWait/4, func() bool {
					return w.count("rpc.client.sync.exit") >= w.count("rpc.client.sync.enter")
				}) {
					return fmt.Errorf("sync answer not taken")
				}
				st.open("rpc.client.sync.beforeSet")
			}
		case "hello":
			n := w.count("rpc.client.hello")
			if err := st.stepMsg("s2c"); err != nil {
				return err
			}
			if !waitFor(actWait, func() bool { return w.count("rpc.client.hello") > n }) {
				return fmt.Errorf("hello not processed")
			}
		case "hsresp":
			st.arm("rpc.client.handshaked")
			if err := st.stepMsg("s2c"); err != nil {
				return err
			}
			if !st.arrived("rpc.client.handshaked", actWait) {
				return fmt.Errorf("client did not get the handshake answer")
			}
		default:
			return fmt.Errorf("unknown message kind %q", s)
		}

	case "CliApplyReply":
		n := w.countAny("rpc.client.applied", "rpc.client.dropped")
		st.open("rpc.client.beforeReplyApply")
		if !waitFor(actWait, func() bool {
			return w.countAny("rpc.client.applied", "rpc.client.dropped") > n
		}) {
			return fmt.Errorf("reply not applied")
		}
		// a rejected reply: the same goroutine requests the full sync at once
		time.Sleep(2 * time.Millisecond)
		time.Sleep(2 * time.Millisecond)

	case "CliSyncSend":
		// the client does it by itself (needsync) - wait for the request
		l := w.Link()
		if !waitFor(actWait, func() bool { return l.PendingMsgs("c2s") > 0 }) {
			return fmt.Errorf("no sync request")
		}

	case "CliSyncApply":
		st.open("rpc.client.sync.beforeSet")
		if !waitFor(actWait, func() bool {
			return w.count("rpc.client.sync.exit") >= w.count("rpc.client.sync.enter")
		}) {
			return fmt.Errorf("Sync did not return")
		}

	case "Drop":
		// the client notices at once; the server only at SrvSeesDrop (a peer that
		// vanished without a FIN)
		w.log(Event{Ev: "cut", Who: "drv", Note: "cli"})
		st.dropped = w.Link()
		st.arm("rpc.server.onDisconnect")
		st.dropped.CutCli()
		if w.syncOpen() > 0 {
			// the read loop is stuck inside a handler: nobody notices
			time.Sleep(2 * time.Millisecond)
		} else if err := waitNotState(w.ctx, w.Cli.Mach, ssC.Connected, actWait); err != nil {
			return err
		}

	case "SrvSeesDrop":
		// (a re-hello may already have made the server close the old connection:
		// then its OnDisconnect callback is parked at the gate)
		w.log(Event{Ev: "cut", Who: "drv", Note: "srv"})
		if st.dropped != nil {
			st.dropped.CutSrv()
		}
		if !st.arrived("rpc.server.onDisconnect", actWait) {
			return fmt.Errorf("OnDisconnect callback did not run")
		}
		q0 := w.Srv.Mach.QueueTick()
		st.open("rpc.server.onDisconnect")
		if !waitFor(actWait, func() bool { return w.Srv.Mach.QueueTick() > q0 }) {
			return fmt.Errorf("OnDisconnect mutation did not run")
		}
		time.Sleep(time.Millisecond)

	case "Connect":
		// wait for the retry loop to be ready for a connection
		if err := waitState(w.ctx, w.Cli.Mach, ssC.Disconnected, actWait); err != nil {
			return err
		}
		st.arm("rpc.server.onConnect")
		l := w.connect(true)
		if !waitFor(2*actWait, func() bool { return l.PendingMsgs("c2s") > 0 }) {
			return fmt.Errorf("no hello request")
		}
		if !st.arrived("rpc.server.onConnect", actWait) {
			return fmt.Errorf("OnConnect callback did not run")
		}

	case "SrvSeesConnect":
		// the callback's mutation has run once the server machine's queue ticked
		q0 := w.Srv.Mach.QueueTick()
		st.open("rpc.server.onConnect")
		if !waitFor(actWait, func() bool { return w.Srv.Mach.QueueTick() > q0 }) {
			return fmt.Errorf("OnConnect mutation did not run")
		}
		time.Sleep(time.Millisecond)

	case "CliSyncInHandler":
		// automatic: the Sync inside the handler sends its request
		l := w.Link()
		if !waitFor(actWait, func() bool { return l.PendingMsgs("c2s") > 0 }) {
			return fmt.Errorf("no sync request from the handler")
		}

	case "CliSyncFail":
		if !waitFor(actWait, func() bool { return w.inFlight() == 0 }) {
			return fmt.Errorf("the call did not return")
		}

	case "SrvHello":
		n := w.count("rpc.hello")
		if err := st.stepMsg("c2s"); err != nil {
			return err
		}
		if !waitFor(actWait, func() bool { return w.count("rpc.hello") > n }) {
			return fmt.Errorf("RemoteHello did not run")
		}

	case "SrvHandshake":
		n := w.count("rpc.handshake")
		if err := st.stepMsg("c2s"); err != nil {
			return err
		}
		if !waitFor(actWait, func() bool { return w.count("rpc.handshake") > n }) {
			return fmt.Errorf("RemoteHandshake did not run")
		}
		// (HandshakeDone may be REJECTED on the server: no wait for it)
		time.Sleep(2 * time.Millisecond)

	case "CliHandshakeDone":
		st.open("rpc.client.handshaked")
		if err := waitState(w.ctx, w.Cli.Mach, ssC.HandshakeDone, actWait); err != nil {
			return err
		}
		// HandshakeDoneState's clockSet
		time.Sleep(2 * time.Millisecond)

	case "CliRetry":
		l := w.Link()
		if !waitFor(2*actWait, func() bool { return l.PendingMsgs("c2s") > 0 }) {
			return fmt.Errorf("no retried request")
		}

	default:
		return fmt.Errorf("unknown action %q", a)
	}
	return nil
}
