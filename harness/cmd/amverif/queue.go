package main

import (
	"bufio"
	"encoding/json"
	"flag"
	"fmt"
	"math/rand"
	"os"
	"strings"
	"sync"

	"verifharness/queuedrv"
)

func init() { commands["queue"] = cmdQueue }

type qInit struct {
	Ev string `json:"ev"`
	queuedrv.Scenario
	Label string `json:"label"`
}

// cmdQueue forces caller interleavings on the real mutation queue.
//
//	-enum      depth-first enumeration of ALL schedules of the scenario
//	           (stateless search: every schedule is a fresh execution)
//	-random n  n random schedules
//	-sched f   schedules from a JSON file: [{"scenario":{...},"sched":[1,2,...]}]
func cmdQueue(args []string) int {
	fs := flag.NewFlagSet("queue", flag.ExitOnError)
	callers := fs.Int("callers", 2, "callers")
	muts := fs.Int("muts", 1, "mutations per caller")
	nest := fs.String("nest", "", "nested mutations, e.g. 1.1,2.1")
	veto := fs.String("veto", "", "vetoed mutations, e.g. 2.1")
	prep := fs.String("prep", "", "operations that are Eval (k odd) / CanAdd (k even), e.g. 1.1")
	noop := fs.String("noop", "", "accepted no-op mutations (add of a non-Multi state that is already active), e.g. 1.1,2.2; n1.1 = the mutation nested by 1.1")
	enum := fs.Bool("enum", false, "enumerate all schedules")
	max := fs.Int("max", 100000, "max schedules for -enum")
	random := fs.Int("random", 0, "number of random schedules")
	seed := fs.Int64("seed", 1, "seed")
	schedFile := fs.String("sched", "", "JSON file with schedules to force")
	free := fs.Int("free", 0, "free-running executions (real concurrency, no gates)")
	out := fs.String("out", "queue", "output prefix")
	shards := fs.Int("shards", 16, "shards")
	fs.Parse(args)

	parse := func(s string) [][2]int {
		var r [][2]int
		var a, b int
		for len(s) > 0 {
			n, _ := fmt.Sscanf(s, "%d.%d", &a, &b)
			if n != 2 {
				break
			}
			r = append(r, [2]int{a, b})
			i := 0
			for i < len(s) && s[i] != ',' {
				i++
			}
			if i >= len(s) {
				break
			}
			s = s[i+1:]
		}
		return r
	}
	sc := queuedrv.Scenario{Callers: *callers, MutsPer: *muts, Nest: parse(*nest), Veto: parse(*veto), Prep: parse(*prep),
		Noop: [][]int{}}
	for _, it := range strings.Split(*noop, ",") {
		var a, b int
		if n, _ := fmt.Sscanf(it, "n%d.%d", &a, &b); n == 2 {
			sc.Noop = append(sc.Noop, []int{a, b, 1})
		} else if n, _ := fmt.Sscanf(it, "%d.%d", &a, &b); n == 2 {
			sc.Noop = append(sc.Noop, []int{a, b})
		}
	}
	if sc.Nest == nil {
		sc.Nest = [][2]int{}
	}
	if sc.Veto == nil {
		sc.Veto = [][2]int{}
	}
	if sc.Prep == nil {
		sc.Prep = [][2]int{}
	}

	type job struct {
		sc     queuedrv.Scenario
		prefix []int
		label  string
	}
	var jobs []job
	switch {
	case *schedFile != "":
		data, err := os.ReadFile(*schedFile)
		if err != nil {
			fmt.Fprintln(os.Stderr, err)
			return 2
		}
		var items []struct {
			Scenario queuedrv.Scenario `json:"scenario"`
			Sched    []int             `json:"sched"`
			Label    string            `json:"label"`
		}
		if err := json.Unmarshal(data, &items); err != nil {
			fmt.Fprintln(os.Stderr, err)
			return 2
		}
		for _, it := range items {
			if it.Scenario.Nest == nil {
				it.Scenario.Nest = [][2]int{}
			}
			if it.Scenario.Veto == nil {
				it.Scenario.Veto = [][2]int{}
			}
			if it.Scenario.Prep == nil {
				it.Scenario.Prep = [][2]int{}
			}
			if it.Scenario.Noop == nil {
				it.Scenario.Noop = [][]int{}
			}
			jobs = append(jobs, job{it.Scenario, it.Sched, it.Label})
		}
	case *random > 0:
		r := rand.New(rand.NewSource(*seed))
		for i := 0; i < *random; i++ {
			n := 12 * sc.Callers * sc.MutsPer
			p := make([]int, n)
			for j := range p {
				p[j] = 1 + r.Intn(sc.Callers)
			}
			jobs = append(jobs, job{sc, p, fmt.Sprintf("rnd%d", i)})
		}
	}

	files := make([]*bufio.Writer, *shards)
	var fhs []*os.File
	for k := 0; k < *shards; k++ {
		f, err := os.Create(fmt.Sprintf("%s.%d.ndjson", *out, k))
		if err != nil {
			fmt.Fprintln(os.Stderr, err)
			return 2
		}
		fhs = append(fhs, f)
		files[k] = bufio.NewWriterSize(f, 1<<20)
	}
	var wmu sync.Mutex
	nexec, nlines, nstuck := 0, 0, 0
	distinct := map[string]bool{}
	write := func(sc queuedrv.Scenario, label string, lines []any, taken []int) {
		wmu.Lock()
		defer wmu.Unlock()
		key := fmt.Sprint(sc, taken)
		if distinct[key] {
			return
		}
		distinct[key] = true
		enc := json.NewEncoder(files[nexec%*shards])
		enc.Encode(qInit{"qinit", sc, label})
		nlines++
		for _, l := range lines {
			enc.Encode(l)
			nlines++
			if e, ok := l.(queuedrv.EndEv); ok && e.Stuck {
				nstuck++
			}
		}
		nexec++
	}

	if *free > 0 {
		var wg sync.WaitGroup
		sem := make(chan struct{}, 4)
		for i := 0; i < *free; i++ {
			wg.Add(1)
			sem <- struct{}{}
			go func(i int) {
				defer wg.Done()
				defer func() { <-sem }()
				lines := queuedrv.RunFree(sc.Callers, sc.MutsPer, *seed*1000+int64(i))
				fsc := queuedrv.Scenario{Callers: sc.Callers, MutsPer: sc.MutsPer, Nest: [][2]int{}, Veto: [][2]int{}, Prep: [][2]int{}, Noop: [][]int{}}
				write(fsc, fmt.Sprintf("free%d", i), lines, []int{i})
			}(i)
		}
		wg.Wait()
	} else if *enum {
		// stateless DFS over schedules
		var prefix []int
		count := 0
		for count < *max {
			lines, taken, enabled := queuedrv.Run(sc, prefix)
			write(sc, fmt.Sprintf("enum%d", count), lines, taken)
			count++
			// backtrack: last position with an untried alternative
			i := len(taken) - 1
			for ; i >= 0; i-- {
				next := -1
				for _, e := range enabled[i] {
					if e > taken[i] {
						next = e
						break
					}
				}
				if next >= 0 {
					prefix = append(append([]int{}, taken[:i]...), next)
					break
				}
			}
			if i < 0 {
				break
			}
		}
	} else {
		var wg sync.WaitGroup
		sem := make(chan struct{}, 16)
		for _, j := range jobs {
			wg.Add(1)
			sem <- struct{}{}
			go func(j job) {
				defer wg.Done()
				defer func() { <-sem }()
				lines, taken, _ := queuedrv.Run(j.sc, j.prefix)
				write(j.sc, j.label, lines, taken)
			}(j)
		}
		wg.Wait()
	}
	for k := range files {
		files[k].Flush()
		fhs[k].Close()
	}
	fmt.Printf("{\"executions\":%d,\"lines\":%d,\"stuck\":%d}\n", nexec, nlines, nstuck)
	return 0
}
