------------------------------ MODULE Machine ------------------------------
(* The sequential machine: one caller goroutine, the mutation queue, the      *)
(* drain loop of processQueue (machine.go:2028-2142) at transition            *)
(* granularity, handlers that accept / veto and may themselves mutate.        *)
(* (The races of several callers on the queue flag live in Queue.tla.)        *)
(*                                                                            *)
(* Actions = the code's steps:                                                *)
(*   Call      Add/Remove/Set -> queueMutation (append, queue tick assigned)  *)
(*             CanAdd/CanRemove -> PrependMut (no tick)                       *)
(*   Step      one iteration of the drain loop: pop, newTransition,           *)
(*             emitEvents, prepend the auto mutation, append what handlers    *)
(*             queued                                                         *)
(*   Return    loop exit, flag released, first result returned                *)
EXTENDS Props, TLC

CONSTANTS Transitive,    \* repaired resolver: transitive Add, no re-adding (fix: C02)
          TopoSort,      \* repaired After ordering (fix: C05)
          ExitFix,       \* Exit veto in an auto transition cancels, no panic (fix: C07)
          SelfFix,       \* a self-handler veto of an Auto state never cancels an auto
                         \* transition, no self handler is skipped (fix: C07)
          LoopFix,       \* handler loop restarted after a panic in an Exception tx (fix: C08)
          EndFix,        \* final-phase rollback also from a failing End handler (fix: C08)
          AutoFaultFix,  \* a panic in a negotiation handler cancels a partially accepted
                         \* auto transition too (fix: C08)
          OrderedAuto,   \* auto mutation calls states in index order (fix: C11)
          OrderedTopo,   \* Require topology visits states in index order (fix: C11)
          QueueLimit

Fx == [transitive |-> Transitive, toposort |-> TopoSort, exitfix |-> ExitFix,
       selffix |-> SelfFix, loopfix |-> LoopFix, endfix |-> EndFix, autofault |-> AutoFaultFix]

TopoSet(s, i) == IF OrderedTopo THEN {TopoIndexOrder(s, i)} ELSE TopoChoices(s, i)

VARIABLES sch, idx, topo, hs,      \* configuration, fixed by Init
          active, clock, qtick,    \* machine state
          queue, running,          \* mutation queue, drain in progress
          veto, nest,              \* handler script of the current call
          pan, stall,              \* handlers that panic / overrun their timeout
          dead,                    \* subset of stall: the handler does not return within
                                   \* HandlerDeadline either (machine.go:2437-2465)
          wedged,                  \* the handler goroutine is gone
          backoff,                 \* Machine.Backoff(): a HandlerDeadline was hit recently
          first,                   \* result of the first transition of the drain
          atCall,                  \* state snapshot when the call was issued
          firstTx,                 \* observation of the call's own transition
          prev, obs,               \* previous / current observation
          verdict,                 \* property formulas evaluated on the last step
          ncalls

cfgVars   == <<sch, idx, topo, hs>>
machVars  == <<active, clock, qtick>>
vars == <<sch, idx, topo, hs, active, clock, qtick, queue, running, veto, nest,
          pan, stall, dead, wedged, backoff,
          first, atCall, firstTx, prev, obs, verdict, ncalls>>

None == [kind |-> "none"]

Mut(type, called, auto, check, tick) ==
  [type |-> type, called |-> called, auto |-> auto, check |-> check, tick |-> tick]

MutCore(m) == [type |-> m.type, called |-> m.called, auto |-> m.auto, check |-> m.check]

(* The property formulas (Props.tla) evaluated on one observation.  The       *)
(* verdict vector is a state variable so that TLC's VIEW may hide the bulky   *)
(* observation while a failing formula still yields a new, checked state.     *)
AllTrue ==
  [c01 |-> TRUE, c01pred |-> TRUE,
   c02req |-> TRUE, c02rem |-> TRUE, c02add |-> TRUE, c02act |-> TRUE,
   c02deact |-> TRUE, c02none |-> TRUE,
   c03 |-> TRUE, c05 |-> TRUE,
   c07follows |-> TRUE, c07only |-> TRUE, c07judged |-> TRUE,
   c08 |-> TRUE, c14 |-> TRUE, c14last |-> TRUE, nocrash |-> TRUE, nohang |-> TRUE]

TxVerdict(p, o) ==
  IF o.faulted
  THEN \* "a transition without handler faults" is the premise of C01's step
       \* rule, C02, C05, C07, C14: a faulted transition is judged by C08 only
       [AllTrue EXCEPT !.c08 = C08_Tx(idx, o)]
  ELSE
  [AllTrue EXCEPT
     !.c01 = C01_Tx(sch, idx, o),
     !.c01pred = ((o.accepted /\ ~o.mut.check /\ ~o.mut.auto) => o.tp = o.ta),
     !.c02req = C02_RequireClosed(sch, o),
     !.c02rem = C02_NoRemoveConflict(sch, o),
     !.c02add = C02_AddSatisfied(sch, o),
     !.c02act = C02_ActivationJustified(sch, o),
     !.c02deact = C02_DeactivationJustified(sch, o),
     !.c02none = C02_NothingWithoutTx(o),
     !.c05 = C05_Tx(sch, idx, hs, o),
     !.c07follows = C07_AutoFollows(sch, idx, p, o),
     !.c07only = C07_OnlyWhenDemanded(sch, idx, p, o),
     !.c07judged = C07_JudgedIndividually(Fx, sch, topo, hs, o),
     !.c08 = C08_Parity(idx, o),
     !.c14 = C14_Tx(p, o)]

RetVerdict(p, o) ==
  [AllTrue EXCEPT
     !.c03 = C03_Call(o.call),
     !.c07follows = C07_AutoFollows(sch, idx, p, o),
     !.c14last = ((p.kind = "tx" /\ ~p.faulted) => p.ta = o.mtime)]

Pending(q) == Len(SelectSeq(q, LAMBDA m : m.tick > 0))

InitWith(s, i, t, h) ==
  /\ sch = s /\ idx = i /\ topo = t /\ hs = h
  /\ active = <<>>
  /\ clock = [n \in SSet(i) |-> 0]
  /\ qtick = 1
  /\ queue = <<>> /\ running = FALSE
  /\ veto = {} /\ nest = <<>>
  /\ pan = {} /\ stall = {} /\ dead = {} /\ wedged = FALSE /\ backoff = FALSE
  /\ first = "none" /\ atCall = None /\ firstTx = None
  /\ prev = None /\ obs = [kind |-> "init"]
  /\ verdict = AllTrue
  /\ ncalls = 0

(* detectQueueDuplicates -> IsQueued(type, states, withoutArgsOnly, strict,   *)
(* 0, isCheck=false, PositionAny) on the current queue (machine.go:2623).     *)
IsDup(q, type, called) ==
  \E k \in 1..Len(q) :
     /\ ~q[k].check /\ ~q[k].auto /\ q[k].type = type
     /\ Len(q[k].called) = Len(called)
     /\ SEvery(q[k].called, called)

(* A public mutation call from the (single) user goroutine on an idle machine *)
CallFD(type, called, check, v, nst, pn, stl, dd) ==
  /\ ~running
  /\ running' = TRUE
  /\ veto' = v /\ nest' = nst
  /\ pan' = pn /\ stall' = stl /\ dead' = dd
  \* a backing-off machine refuses the call: Canceled, nothing is queued
  \* (machine.go: `if m.disposing.Load() || m.Backoff() { return Canceled }`)
  /\ first' = IF backoff THEN "canceled" ELSE "none"
  /\ firstTx' = None
  /\ queue' = IF backoff THEN queue
              ELSE IF check THEN <<Mut(type, called, FALSE, TRUE, 0)>> \o queue
              ELSE Append(queue, Mut(type, called, FALSE, FALSE,
                                     qtick + Pending(queue) + 1))
  /\ atCall' = [kind |-> "call",
                mut |-> [type |-> type, called |-> called, auto |-> FALSE, check |-> check],
                active |-> active, time |-> TimeOf(idx, clock), qtick |-> qtick,
                refused |-> backoff]
  /\ prev' = prev
  /\ obs' = [kind |-> "call", mut |-> atCall'.mut]
  /\ verdict' = AllTrue
  /\ ncalls' = ncalls + 1
  /\ UNCHANGED <<cfgVars, machVars, wedged, backoff>>

(* the environment: a handler deadline was hit (backoff starts) / the backoff  *)
(* period is over                                                              *)
SetBackoff(b) ==
  /\ ~running
  /\ backoff' = b
  /\ UNCHANGED <<cfgVars, machVars, queue, running, veto, nest, pan, stall, dead, wedged,
                 first, atCall, firstTx, prev, obs, verdict, ncalls>>

CallF(type, called, check, v, nst, pn, stl) == CallFD(type, called, check, v, nst, pn, stl, {})

Call(type, called, check, v, nst) == CallF(type, called, check, v, nst, {}, {})

AutoOrders(S) ==
  IF S = {} THEN {<<>>}
  ELSE IF OrderedAuto THEN {SelectSeq(idx, LAMBDA n : n \in S)}
  ELSE SPerms(S)

(* mutations queued by handler bodies, in call order.  nest is a sequence of  *)
(* [at |-> <<b, h>>, type, called]; each fires whenever its handler runs.     *)
(* Machine.Add/Remove/Set from inside a handler: queueMutation + a lost CAS.  *)
NestedAppend(q, hlog, qt) ==
  LET RECURSIVE Go(_, _)
      Go(i, qq) ==
        IF i > Len(hlog) THEN qq
        ELSE LET hits == SelectSeq(nest, LAMBDA x : x.at = <<hlog[i].b, hlog[i].h>>)
                 see == hlog[i].see          \* what Is/Any answer inside that handler
                 isErr == SHas(see, "Exception")
                 RECURSIVE Ins(_, _)
                 Ins(k, q2) ==
                   IF k > Len(hits) THEN q2
                   ELSE LET x == hits[k]
                            multi == \E j \in 1..Len(x.called) : sch[x.called[j]].multi
                            hasExc == SHas(x.called, "Exception")
                            \* queue limit (machine.go:862-867, 1092-1097, 1138): one
                            \* Exception is let in (Add when not in error, Remove when in error)
                            full == Len(q2) >= QueueLimit /\
                                    ~(x.type = "add" /\ hasExc /\ ~isErr) /\
                                    ~(x.type = "remove" /\ hasExc /\ isErr)
                            \* Remove of inactive states during a transition with an
                            \* empty queue returns Executed without queueing (1099-1112)
                            shortcut == x.type = "remove" /\ q2 = <<>>
                                        /\ \A j \in 1..Len(x.called) : ~SHas(see, x.called[j])
                        IN IF full \/ shortcut THEN Ins(k + 1, q2)
                           ELSE IF ~multi /\ IsDup(q2, x.type, x.called) THEN Ins(k + 1, q2)
                           ELSE Ins(k + 1, Append(q2, Mut(x.type, x.called, FALSE, FALSE,
                                                         qt + Pending(q2) + 1)))
             IN Go(i + 1, Ins(1, qq))
  IN Go(1, q)

(* scripted handler mutations are one-shot: they fire the first time their     *)
(* handler body runs in the call                                              *)
NestLeft(hlog) ==
  SelectSeq(nest, LAMBDA x : ~\E i \in 1..Len(hlog) : <<hlog[i].b, hlog[i].h>> = x.at)

TxObs(mut, r, qt, vt) ==
  LET n == Len(r.hlog) IN
  [kind |-> "tx",
   mut |-> MutCore(mut),
   accepted |-> r.accepted,
   before |-> active,
   after |-> r.active,
   tb |-> r.tBefore,
   ta |-> IF mut.check THEN r.tBefore ELSE r.tAfter,
   tp |-> r.tPred,
   mtime |-> r.tAfter,
   target |-> r.target, target0 |-> r.target0,
   exits |-> r.exits, enters |-> r.enters,
   hlog |-> [i \in 1..n |->
              [b |-> r.hlog[i][1], h |-> r.hlog[i][2],
               see |-> IF i <= r.negLen THEN active ELSE r.active]],
   vetoed |-> {<<r.hlog[i][1], r.hlog[i][2]>> : i \in 1..n} \cap vt,
   applied |-> r.applied,
   tlog |-> <<"init", "start">> \o (IF r.applied THEN <<"finals">> ELSE <<>>) \o <<"end">>,
   result |-> r.result,
   pan |-> pan, stall |-> stall, vetoedOnly |-> vt,
   faulted |-> r.fault = "fault",
   qtick |-> qt]

(* handlers a transition would invoke when nobody vetoes (candidates for the  *)
(* bounded model's veto choice)                                               *)
NegCandidates ==
  IF queue = <<>> THEN {}
  ELSE LET r0 == RunTx(Fx, sch, idx, topo, hs,
                       [active |-> active, clock |-> clock], Head(queue), {})
       IN {r0.hlog[i] : i \in 1..r0.negLen}

(* HandlerDeadline (machine.go:2437-2465): the stalled handler did not return   *)
(* within the grace period either.  processHandlers forks a fresh handler      *)
(* loop, DROPS THE WHOLE QUEUE (queue = nil, queueTicksPending = 0), queues     *)
(* add:Exception through EvAddErr (an ordinary append: it gets the next queue   *)
(* tick; mustParseStates folds S{Exception, Exception} into one) and only then  *)
(* starts the backoff, so that this one mutation is let in.  The transition     *)
(* itself ends like any timeout: Canceled.                                      *)
DeadHit(r) == r.fired \cap dead # {}

DeadlineQueue(qt) == <<Mut("add", <<"Exception">>, FALSE, FALSE, qt + 1)>>

StepV(vt) ==
  /\ running /\ queue # <<>>
  /\ LET mut == Head(queue)
         r == RunTxF(Fx, sch, idx, topo, hs,
                     [active |-> active, clock |-> clock, wedged |-> wedged], mut,
                     [veto |-> vt, pan |-> pan, stall |-> stall])
         qt == qtick + (IF mut.tick > 0 THEN 1 ELSE 0)
         o == TxObs(mut, r, qt, vt)
         excs == [i \in 1..r.nexc |-> Mut("add", <<"Exception">>, FALSE, FALSE, 0)]
     IN IF r.crash \/ r.hang
        THEN \* crash: slices.Delete(-1) panic on the caller goroutine (pinned
             \* code); hang: the handler goroutine is gone, the call never
             \* returns.  Either way the machine is lost.
             /\ obs' = [kind |-> IF r.crash THEN "crash" ELSE "hang", mut |-> MutCore(mut)]
             /\ verdict' = [AllTrue EXCEPT !.nocrash = ~r.crash, !.nohang = ~r.hang]
             /\ queue' = <<>> /\ running' = FALSE
             /\ UNCHANGED <<cfgVars, machVars, veto, nest, pan, stall, dead, wedged, backoff, first, atCall,
                            firstTx, prev, ncalls>>
        ELSE
          /\ active' = r.active /\ clock' = r.clock /\ qtick' = qt
          /\ wedged' = r.wedged /\ backoff' = (backoff \/ DeadHit(r))
          /\ \E order \in AutoOrders(r.autoSet) :
               queue' = IF DeadHit(r) THEN DeadlineQueue(qt)
                        ELSE excs \o (IF r.autoSet = {} THEN <<>>
                                      ELSE <<Mut("add", order, TRUE, FALSE, 0)>>)
                             \o NestedAppend(Tail(queue), o.hlog, qt)
          /\ first' = IF first = "none" THEN r.result ELSE first
          /\ firstTx' = IF firstTx = None THEN o ELSE firstTx
          /\ prev' = IF obs.kind = "tx" THEN obs ELSE prev
          /\ obs' = o
          /\ verdict' = TxVerdict(IF obs.kind = "tx" THEN obs ELSE prev, o)
          /\ pan' = pan \ r.fired /\ stall' = stall \ r.fired /\ dead' = dead \ r.fired
          /\ nest' = NestLeft(o.hlog)
          /\ UNCHANGED <<cfgVars, running, veto, atCall, ncalls>>

RetObs ==
  [kind |-> "ret",
   res |-> first,
   mtime |-> TimeOf(idx, clock),
   call |-> [mut |-> atCall.mut,
             res |-> first,
             selfMutating |-> nest # <<>>, refused |-> atCall.refused,
             before |-> atCall.active, tb |-> atCall.time, qb |-> atCall.qtick,
             after |-> active, ta |-> TimeOf(idx, clock), qa |-> qtick,
             after1 |-> IF firstTx = None THEN active ELSE firstTx.after,
             target |-> IF firstTx = None THEN <<>> ELSE firstTx.target]]

Return ==
  /\ running /\ queue = <<>>
  /\ running' = FALSE
  /\ prev' = IF obs.kind = "tx" THEN obs ELSE prev
  /\ obs' = RetObs
  /\ verdict' = RetVerdict(IF obs.kind = "tx" THEN obs ELSE prev, RetObs)
  /\ first' = "none" /\ atCall' = None /\ firstTx' = None
  /\ UNCHANGED <<cfgVars, machVars, queue, veto, nest, pan, stall, dead, wedged, backoff, ncalls>>

Step == StepV(veto)

---------------------------------------------------------------------------
(* Invariants: one per property formula (see TxVerdict / RetVerdict).         *)
Inv_C01 == verdict.c01
Inv_C01_State ==   \* the machine state itself, in every state of the model
  /\ \A i \in 1..Len(idx) : IsActiveTick(clock[idx[i]]) <=> SHas(active, idx[i])
  /\ SIsUniq(active)
Inv_C01_Predicted == verdict.c01pred
Inv_C02_RequireClosed         == verdict.c02req
Inv_C02_NoRemoveConflict      == verdict.c02rem
Inv_C02_AddSatisfied          == verdict.c02add
Inv_C02_ActivationJustified   == verdict.c02act
Inv_C02_DeactivationJustified == verdict.c02deact
Inv_C02_NothingWithoutTx      == verdict.c02none
Inv_C03 == verdict.c03
Inv_C05 == verdict.c05
Inv_C07_AutoFollows      == verdict.c07follows
Inv_C07_OnlyWhenDemanded == verdict.c07only
Inv_C07_Judged           == verdict.c07judged
Inv_C14      == verdict.c14
Inv_C14_Last == verdict.c14last
Inv_NoCrash  == verdict.nocrash
(* C11 on the model: one behaviour per history - the topology is unique and    *)
(* the next transition has exactly one way to queue its auto mutation          *)
Inv_C11 ==
  /\ Cardinality(TopoSet(sch, idx)) = 1
  /\ (running /\ queue # <<>>) =>
       LET r == RunTxF(Fx, sch, idx, topo, hs,
                       [active |-> active, clock |-> clock, wedged |-> wedged], Head(queue),
                       [veto |-> veto, pan |-> pan, stall |-> stall])
       IN Cardinality(AutoOrders(r.autoSet)) = 1
Inv_NoHang   == verdict.nohang
Inv_C08      == verdict.c08
=============================================================================
