-------------------------- MODULE TraceSupervisor --------------------------
(* Trace validation of REAL supervisor executions (harness/supdrv) against    *)
(* Supervisor.tla.  The state of the specification FOLLOWS the log; at every  *)
(* line                                                                       *)
(*   drift : what the specification's own step (PoolTx = the relations of the *)
(*           real schema, the gates, the handler bodies `Eff`) predicts from  *)
(*           the logged pre-state differs from what the real code did         *)
(*   viol  : a formula of property C15 is FALSE on the LOGGED values          *)
(* Handler-internal steps (which mutation a handler queued, what a goroutine  *)
(* did in between) are not logged; they show up as later lines.               *)
(* Lines (see harness/supdrv):                                                *)
(*   init   pool settings of the case                          (reset)        *)
(*   tx     one supervisor transition (tracer TransitionEnd): mutation,       *)
(*          worker it names, accepted, handlers run, active states before /   *)
(*          after, and the verif accessor's samples of len(workers),          *)
(*          len(readyWorkers()) at TransitionInit (t0, r0), right after a     *)
(*          PoolReady gate ran (rg) and at TransitionEnd (t, r, ws)           *)
(*   q      a KillingWorker / ErrWorker / WorkerKilled mutation was queued    *)
(*   fork / forkret / kill   the TestFork / TestKill seams were called        *)
(*   wtx    one transition of a worker machine (work-status group)            *)
(*   env    a step of the harness script (informational)                      *)
(*   end    the case is over (the script ended with a settle)                 *)
EXTENDS Supervisor

CONSTANTS TraceFile

Trace == ndJsonDeserialize(TraceFile)

VARIABLES l, viol, drift, stat,
          kreq,     \* [done: workers whose KillingWorker handler ran / TestKill was called,
                    \*  pend: kill requests queued and not executed yet (a request whose
                    \*        transition is CANCELED requested nothing)]
          over,     \* workers whose counted errors exceeded WorkerErrKill
          deliv,    \* worker -> errors delivered for it while tracked (set of pairs)
          ord       \* the order of the two events of a fork: [set: workers SetWorkerState
                    \* (with a WorkerInfo) has run for, early: workers whose WorkerForkedState
                    \* ran before that].  Plain sets: the worker records are rebuilt from the
                    \* log at every line and must not refer to their predecessors (TLC keeps
                    \* function constructors lazy; the view is <<l>> only).

tvars == <<vars, l, viol, drift, stat, kreq, over, deliv, ord>>

Line == Trace[l]

Stat0 == [cases |-> 0, tx |-> 0, faulted |-> 0, gates |-> 0, predicted |-> 0,
          activations |-> 0, withdrawals |-> 0, kept |-> 0, short |-> 0, stale |-> 0,
          forks |-> 0, forkrejects |-> 0, kills |-> 0, errs |-> 0, errlost |-> 0,
          overmax |-> 0, wtx |-> 0, unstable |-> 0,
          \* the two events of one fork in the unusual order: WorkerForkedState ran
          \* for a worker without a boot entry / SetWorkerState ran for a fork whose
          \* worker had announced itself already / the map grew in another handler
          forkedfirst |-> 0, lateset |-> 0, grewoutside |-> 0, forkeddropped |-> 0]

CfgOf(x) == [min |-> x.min, max |-> x.max, warm |-> x.warm, errkill |-> x.errkill,
             gate |-> FALSE, errmulti |-> FALSE]           \* the gates as the code has them

ResetTo(x) ==
  /\ cfg' = CfgOf(x)
  /\ active' = <<>>
  /\ wk' = [f \in {} |-> NoWorker]
  /\ kreq' = [done |-> {}, pend |-> <<>>] /\ over' = {} /\ deliv' = {}
  /\ ord' = [set |-> {}, early |-> {}]

TraceInit ==
  /\ l = 2 /\ viol = {} /\ drift = {}
  /\ Trace[1].ev = "init"
  /\ cfg = CfgOf(Trace[1])
  /\ active = <<>>
  /\ wk = [f \in {} |-> NoWorker]
  /\ queue = <<>> /\ norm = NormIdle /\ hb = HbIdle /\ cnt = Cnt0
  /\ bad = {} /\ wit = {} /\ hist = <<>>
  /\ kreq = [done |-> {}, pend |-> <<>>] /\ over = {} /\ deliv = {}
  /\ ord = [set |-> {}, early |-> {}]
  /\ stat = [Stat0 EXCEPT !.cases = 1]

D(name) == {<<l, name>>}
When(c, name) == IF c THEN D(name) ELSE {}
Inc(c) == IF c THEN 1 ELSE 0

DelivOf(d, w) == IF \E p \in d : p[1] = w THEN (CHOOSE p \in d : p[1] = w)[2] ELSE 0
DelivInc(d, w) == {p \in d : p[1] # w} \cup {<<w, DelivOf(d, w) + 1>>}

EvInit ==
  /\ Line.ev = "init"
  /\ ResetTo(Line)
  /\ stat' = [stat EXCEPT !.cases = @ + 1]
  /\ UNCHANGED <<queue, norm, hb, cnt, bad, wit, hist, viol, drift>>

Ran(x, kind, st) == \E i \in 1..Len(x.hs) : x.hs[i][1] = kind /\ x.hs[i][2] = st

(* the worker map as logged: id -> [inmap, errs]                              *)
LoggedMap(x, c) ==
  [f \in {x.ws[i].id : i \in 1..Len(x.ws)} |->
     LET e == x.ws[CHOOSE i \in 1..Len(x.ws) : x.ws[i].id = f]
     IN <<e.st, Cap(e.errs, c.errkill + 2)>>]
SpecMap(w) == [f \in Tracked(w) |-> <<w[f].inmap, w[f].errs>>]

(* the specification's worker records, overwritten by what the log says       *)
FollowMap(w, x, c) ==
  LET ids == {x.ws[i].id : i \in 1..Len(x.ws)}
      E(f) == x.ws[CHOOSE i \in 1..Len(x.ws) : x.ws[i].id = f]
  IN [f \in DOMAIN w \cup ids |->
        IF f \in ids
        THEN [NoWorker EXCEPT !.inmap = E(f).st, !.errs = Cap(E(f).errs, c.errkill + 2),
                              !.nrdy = E(f).nrdy]
        ELSE [NoWorker EXCEPT !.inmap = "none"]]

(* the model mutation a logged transition corresponds to                      *)
ModelMut(x) ==
  LET c == x.called
      one(s) == Len(c) = 1 /\ c[1] = s
  IN IF x.op # "add" THEN M("OTHER")
     ELSE IF one("SetWorker") THEN MS("SET", x.w, IF x.info THEN "info" ELSE "del")
     ELSE IF one("WorkerForked") THEN MW("FORKED", x.w)
     ELSE IF one("WorkerKilled") THEN MW("KILLED", x.w)
     ELSE IF one("KillingWorker") THEN MW("KILLING", x.w)
     ELSE IF SHas(c, "ErrWorker")
          THEN MS("ERR", x.w, IF x.killerr THEN "kill" ELSE IF x.lk THEN "inj" ELSE "boot")
     ELSE M("OTHER")

MapHandlers == {"SetWorker", "WorkerForked", "WorkerKilled", "ErrWorker", "KillingWorker"}

MinOf(S) == CHOOSE a \in S : \A b \in S : a <= b
MaxOf(S) == CHOOSE a \in S : \A b \in S : a >= b

(* one supervisor transition                                                  *)
EvTx ==
  /\ Line.ev = "tx"
  /\ LET x == Line
         c == cfg
         before == KeepK(x.before)
         after == KeepK(x.after)
         calledK == KeepK(x.called)
         allK == Len(calledK) = Len(x.called)
         finalRan == \E i \in 1..Len(x.hs) : x.hs[i][1] \in {"state", "end"}
         faulted == ~x.acc /\ finalRan          \* a final handler overran / panicked
         lastH == IF x.hs = <<>> THEN <<"none", "">> ELSE <<x.hs[Len(x.hs)][1], x.hs[Len(x.hs)][2]>>
         vetoed == ~x.acc /\ ~faulted /\ lastH[1] \in {"enter", "exit"}
         veto == IF vetoed THEN {<<1, lastH>>} ELSE {}
         mut == [type |-> x.op, called |-> calledK, auto |-> x.auto, check |-> FALSE]
         predict == ~faulted /\ calledK # <<>> /\ x.op \in {"add", "remove"}
         r == PoolTx(SchCode, TopoCode, before, mut, veto)
         \* handlers of pool states the specification expects / the log shows
         specH == [i \in 1..Len(r.hlog) |-> r.hlog[i][2]]
         logH == SelectSeq([i \in 1..Len(x.hs) |-> <<x.hs[i][1], x.hs[i][2]>>],
                           LAMBDA h : h[2] \in PoolK /\ h[1] \in {"enter", "exit", "state", "end"})
         \* ---- the gates: decision of the real handler vs the specification's
         \* gate on the logged samples.  A gate whose sample moved during the
         \* transition (the replica of a worker is updated concurrently) is
         \* not compared.
         rs == {x.r0, x.r} \cup (IF x.rg >= 0 THEN {x.rg} ELSE {})
         stable == Cardinality(rs) = 1
         gateRan(k, s) == Ran(x, k, s)
         gateVeto(k, s) == vetoed /\ lastH = <<k, s>>
         dGate ==
           UNION {
             When(gateRan("enter", "ForkWorker") /\
                  (gateVeto("enter", "ForkWorker") = ForkGate(c, x.t0, 0)), "gate.ForkWorkerEnter"),
             When(gateRan("enter", "ForkingWorker") /\
                  (gateVeto("enter", "ForkingWorker") = ForkGate(c, x.t0, 0)), "gate.ForkingWorkerEnter"),
             When(gateRan("enter", "PoolReady") /\ stable /\
                  (gateVeto("enter", "PoolReady") = PoolReadyEnterGate(c, x.r0)), "gate.PoolReadyEnter"),
             When(gateRan("exit", "PoolReady") /\ stable /\
                  (gateVeto("exit", "PoolReady") = PoolReadyExitGate(c, x.r0)), "gate.PoolReadyExit")}
         ngates == Inc(gateRan("enter", "ForkWorker")) + Inc(gateRan("enter", "ForkingWorker"))
                   + Inc(gateRan("enter", "PoolReady") /\ stable)
                   + Inc(gateRan("exit", "PoolReady") /\ stable)
         \* ---- the handler bodies on the worker map
         m == ModelMut(x)
         wk0 == IF m.w # 0 /\ m.w \notin DOMAIN wk
                THEN [f \in DOMAIN wk \cup {m.w} |-> IF f \in DOMAIN wk THEN wk[f] ELSE NoWorker]
                ELSE wk
         ranMap == SelectSeq([i \in 1..Len(x.hs) |-> IF x.hs[i][1] = "state" THEN x.hs[i][2] ELSE ""],
                             LAMBDA s : s \in MapHandlers)
         acc == RunHandlers(c, [wk |-> wk0, q |-> <<>>, norm |-> NormIdle, hb |-> HbIdle,
                                nf |-> MaxForks, tf |-> 0], ranMap, m, <<>>)
         logged == LoggedMap(x, c)
         \* the order of the two events of one fork
         forkedNoBoot == m.k = "FORKED" /\ m.w # 0 /\ Ran(x, "state", "WorkerForked") /\ wk0[m.w].inmap # "boot"
         forkedFirst == forkedNoBoot /\ m.w \notin ord.set
         forkedDropped == forkedNoBoot /\ m.w \in ord.set
         lateSet == m.k = "SET" /\ m.w # 0 /\ m.src = "info" /\ Ran(x, "state", "SetWorker") /\ m.w \in ord.early
         grew == x.t > x.t0 /\ ~Ran(x, "state", "SetWorker")
         setInfo == m.k = "SET" /\ m.w # 0 /\ m.src = "info" /\ Ran(x, "state", "SetWorker")
         d == UNION {
                When(SSet(before) # SSet(active), "tx.continuity"),
                When(x.t0 # Cardinality(Tracked(wk)), "tx.tracked-continuity"),
                When(x.t # Len(x.ws), "tx.sample"),
                When(x.max # c.max \/ x.mineff # MinEff(c), "tx.settings"),
                When(predict /\ allK /\ r.accepted # x.acc, "tx.accepted"),
                When(predict /\ SSet(r.active) # SSet(after), "tx.active"),
                When(~predict /\ ~faulted /\ SSet(before) # SSet(after), "tx.active-untouched"),
                When(predict /\ allK /\ specH # logH, "tx.handlers"),
                When(SpecMap(acc.wk) # logged, "tx.workers"),
                \* Supervisor!MapGrowsOnlyBySet on the logged samples; an entry per
                \* worker id (a fork tracked under two keys shows as a repeated id)
                When(grew, "tx.map-grew-outside-SetWorker"),
                When(Cardinality({x.ws[i].id : i \in 1..Len(x.ws)}) # Len(x.ws), "tx.fork-tracked-twice"),
                dGate}
         \* ---- the formulas of C15 on the logged values
         prB == SHas(x.before, "PoolReady")
         prA == SHas(x.after, "PoolReady")
         forkRan == Ran(x, "state", "ForkingWorker") \/ Ran(x, "state", "ForkWorker")
         errCounted == SHas(x.called, "ErrWorker") /\ x.op = "add" /\ x.acc /\ x.lk /\ ~x.killerr
         v == UNION {
                When(x.t > x.max \/ x.t0 > x.max, "WithinMax"),
                When(forkRan /\ ~(x.t0 < x.max), "NoForkAtMax"),
                \* weak reading of "at that moment": any of the samples taken
                \* during the transition is enough
                When(~prB /\ prA /\ MaxOf(rs) < x.mineff, "PoolReadyHonest"),
                When(prB /\ ~prA /\ SHas(x.after, "Start") /\ MinOf(rs) >= x.mineff, "PoolReadyKept"),
                When(Cardinality(SSet(x.after) \cap GroupPoolStatus) > 1, "GroupsExclusive.PoolStatus"),
                When(Cardinality(SSet(x.after) \cap GroupPoolNormalized) > 1,
                     "GroupsExclusive.PoolNormalized")}
         newOver == {x.ws[i].id : i \in {j \in 1..Len(x.ws) : x.ws[j].errs > c.errkill}}
     IN /\ active' = after
        \* TLCEval: TLC keeps a function constructor lazy, and the domain of this one is
        \* built from the domain of its predecessor; with the view <<l>> nothing ever
        \* normalises it, so a case of some hundred transitions nests that deep and
        \* overflows the Java stack
        /\ wk' = TLCEval(FollowMap(wk0, x, c))
        /\ ord' = [set |-> IF setInfo THEN ord.set \cup {m.w} ELSE ord.set,
                    early |-> IF forkedFirst THEN ord.early \cup {m.w} ELSE ord.early]
        /\ kreq' = [done |-> IF Ran(x, "state", "KillingWorker") THEN kreq.done \cup {x.w} ELSE kreq.done,
                    pend |-> IF x.op = "add" /\ SHas(x.called, "KillingWorker")
                             THEN SWithout(kreq.pend, x.w) ELSE kreq.pend]
        /\ over' = over \cup newOver
        /\ deliv' = IF errCounted THEN DelivInc(deliv, x.w) ELSE deliv
        /\ drift' = drift \cup d
        /\ viol' = viol \cup v
        /\ stat' = [stat EXCEPT
                      !.tx = @ + 1,
                      !.faulted = @ + Inc(faulted),
                      !.gates = @ + ngates,
                      !.predicted = @ + Inc(predict),
                      !.activations = @ + Inc(~prB /\ prA),
                      !.withdrawals = @ + Inc(prB /\ ~prA),
                      !.kept = @ + Inc(gateVeto("exit", "PoolReady")),
                      !.short = @ + Inc(gateVeto("enter", "PoolReady")),
                      !.stale = @ + Inc(prA /\ x.r < x.mineff),
                      !.forks = @ + Inc(Ran(x, "state", "ForkingWorker")),
                      !.forkrejects = @ + Inc(gateVeto("enter", "ForkWorker") \/
                                              gateVeto("enter", "ForkingWorker")),
                      !.errs = @ + Inc(errCounted),
                      !.errlost = @ + Inc(errCounted /\ ~Ran(x, "state", "ErrWorker")),
                      !.overmax = @ + Inc(x.t > x.max),
                      !.unstable = @ + Inc(~stable),
                      !.forkedfirst = @ + Inc(forkedFirst),
                      !.lateset = @ + Inc(lateSet),
                      !.forkeddropped = @ + Inc(forkedDropped),
                      !.grewoutside = @ + Inc(grew)]
        /\ UNCHANGED <<cfg, queue, norm, hb, cnt, bad, wit, hist>>

(* a kill request / an error / a kill confirmation reached the queue          *)
EvQ ==
  /\ Line.ev = "q"
  /\ kreq' = IF Line.state = "KillingWorker" /\ Line.op = "add"
              THEN [kreq EXCEPT !.pend = Append(@, Line.w)] ELSE kreq
  /\ UNCHANGED <<vars, viol, drift, stat, over, deliv, ord>>

EvKill ==
  /\ Line.ev = "kill"
  /\ kreq' = [kreq EXCEPT !.done = @ \cup {Line.w}]
  /\ stat' = [stat EXCEPT !.kills = @ + 1]
  /\ UNCHANGED <<vars, viol, drift, over, deliv, ord>>

(* a worker machine's transition: the work-status group                       *)
EvWtx ==
  /\ Line.ev = "wtx"
  /\ viol' = viol \cup When(Cardinality(SSet(Line.after) \cap GroupWorkStatus) > 1,
                            "GroupsExclusive.WorkStatus")
  /\ stat' = [stat EXCEPT !.wtx = @ + 1]
  /\ UNCHANGED <<vars, drift, kreq, over, deliv, ord>>

(* end of a case (after a settle): the kill formulas                          *)
EvEnd ==
  /\ Line.ev = "end"
  /\ LET asked(w) == w \in kreq.done \/ SHas(kreq.pend, w)
         owed1 == {w \in over : ~asked(w)}
         owed2 == {p[1] : p \in {q \in deliv : q[2] > cfg.errkill /\ ~asked(q[1])}}
     IN viol' = viol \cup When(owed1 # {}, "KillRequested")
                     \cup When(owed2 # {}, "KillRequestedDelivered")
  /\ UNCHANGED <<vars, drift, stat, kreq, over, deliv, ord>>

EvOther ==
  /\ Line.ev \in {"fork", "forkret", "env"}
  /\ UNCHANGED <<vars, viol, drift, stat, kreq, over, deliv, ord>>

Done ==
  /\ l = Len(Trace) + 1
  /\ PrintT(<<"RESULT", ToJson([lines |-> Len(Trace), viol |-> viol, drift |-> drift,
                                stat |-> stat])>>)
  /\ UNCHANGED <<vars, viol, drift, stat, kreq, over, deliv, ord>>

TraceNext ==
  \/ /\ l <= Len(Trace)
     /\ (EvInit \/ EvTx \/ EvQ \/ EvKill \/ EvWtx \/ EvEnd \/ EvOther)
     /\ l' = l + 1
  \/ (Done /\ l' = l + 1)

TraceSpec == TraceInit /\ [][TraceNext]_tvars

TraceView == <<l>>
=============================================================================
