package main

import (
	"bufio"
	"context"
	"encoding/json"
	"flag"
	"fmt"
	"os"
	"sync"

	"verifharness/rpcdrv"
)

func init() { commands["rpcsync"] = cmdRpcSync }

// cmdRpcSync executes RPC sync cases (one JSON object per line of -in) on a
// real rpc.Server + rpc.Client pair each, cases run -workers wide, and writes
// ndjson trace shards <out>.<k>.ndjson for TLC (cases are concatenated, every
// case starts with an "init" line) plus <out>.outcomes.json.
func cmdRpcSync(args []string) int {
	fs := flag.NewFlagSet("rpcsync", flag.ExitOnError)
	in := fs.String("in", "", "cases, one JSON object per line")
	out := fs.String("out", "rpcsync", "output prefix")
	shards := fs.Int("shards", 1, "number of output shards")
	workers := fs.Int("workers", 16, "cases executed concurrently")
	verbose := fs.Bool("v", false, "print the event log of every case")
	tla := fs.Bool("tla", false, "print the TLC lines of every case")
	fs.Parse(args)

	fh, err := os.Open(*in)
	if err != nil {
		fmt.Fprintln(os.Stderr, err)
		return 2
	}
	defer fh.Close()
	var cases []*rpcdrv.Case
	sc := bufio.NewScanner(fh)
	sc.Buffer(make([]byte, 1<<20), 1<<26)
	for sc.Scan() {
		if len(sc.Bytes()) == 0 {
			continue
		}
		c := &rpcdrv.Case{}
		if err := json.Unmarshal(sc.Bytes(), c); err != nil {
			fmt.Fprintln(os.Stderr, "bad case:", err)
			return 2
		}
		cases = append(cases, c)
	}

	ctx := context.Background()
	outs := make([]*rpcdrv.Outcome, len(cases))
	var wg sync.WaitGroup
	next := make(chan int)
	for w := 0; w < *workers; w++ {
		wg.Add(1)
		go func() {
			defer wg.Done()
			for i := range next {
				outs[i] = rpcdrv.Run(ctx, cases[i])
			}
		}()
	}
	for i := range cases {
		next <- i
	}
	close(next)
	wg.Wait()

	files := make([]*bufio.Writer, *shards)
	var fhs []*os.File
	for k := range files {
		f, err := os.Create(fmt.Sprintf("%s.%d.ndjson", *out, k))
		if err != nil {
			fmt.Fprintln(os.Stderr, err)
			return 2
		}
		fhs = append(fhs, f)
		files[k] = bufio.NewWriterSize(f, 1<<20)
	}
	type caseOut struct {
		*rpcdrv.Outcome
		Shard int `json:"shard"`
		Line  int `json:"line"` // 1-based first line of the case in its shard
		N     int `json:"n"`
	}
	lineNo := make([]int, *shards)
	var index []caseOut
	for i, o := range outs {
		k := i % *shards
		index = append(index, caseOut{Outcome: o, Shard: k, Line: lineNo[k] + 1,
			N: len(o.Lines)})
		for _, l := range o.Lines {
			files[k].WriteString(l)
			files[k].WriteByte('\n')
			lineNo[k]++
		}
		if *tla {
			for _, l := range o.Lines {
				fmt.Println(l)
			}
		}
		if *verbose {
			fmt.Printf("== %s completed=%v %s blocked=%v wall=%dms\n", o.Label,
				o.Completed, o.Why, o.Blocked, o.WallMs)
			for _, l := range o.Debug {
				fmt.Println("  ", l)
			}
		}
	}
	for k := range files {
		files[k].Flush()
		fhs[k].Close()
	}
	b, _ := json.Marshal(index)
	if err := os.WriteFile(*out+".outcomes.json", b, 0o644); err != nil {
		fmt.Fprintln(os.Stderr, err)
		return 2
	}
	return 0
}
