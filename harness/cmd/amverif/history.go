package main

import (
	"bufio"
	"encoding/json"
	"flag"
	"fmt"
	"math/rand"
	"os"
	"strings"
	"sync"

	"verifharness/histdrv"
)

func init() { commands["history"] = cmdHistory }

// cmdHistory generates history workloads (or reads explicit ones with -in),
// runs each on every requested backend (same workload, one block per backend,
// blocks of a case adjacent in the same shard) and writes ndjson shards
// <out>.<k>.ndjson for spec/TraceHistory.tla plus <out>.cases.json.
func cmdHistory(args []string) int {
	fs := flag.NewFlagSet("history", flag.ExitOnError)
	seed := fs.Int64("seed", 1, "seed")
	n := fs.Int("n", 100, "number of cases")
	maxMuts := fs.Int("maxmuts", 8, "max mutations per history")
	backends := fs.String("backends", "memory,bbolt", "comma separated: memory,bbolt,badger,gorm")
	out := fs.String("out", "hist", "output prefix")
	shards := fs.Int("shards", 1, "number of output shards")
	workers := fs.Int("workers", 16, "cases run in parallel")
	crash := fs.Bool("crash", false, "crash points: copy+reopen the store after every Sync")
	tmp := fs.String("tmp", os.TempDir(), "directory for the stores")
	in := fs.String("in", "", "run the cases of this json file (list of cases) instead of generating")
	restarts := fs.Int("restarts", 0, "additional cases whose workload goes on across process restarts (persistent backends)")
	maxProcs := fs.Int("maxprocs", 3, "restart cases: max processes per store")
	fs.Parse(args)

	var cases []*histdrv.Case
	if *in != "" {
		bt, err := os.ReadFile(*in)
		if err != nil {
			fmt.Fprintln(os.Stderr, err)
			return 2
		}
		if err := json.Unmarshal(bt, &cases); err != nil {
			fmt.Fprintln(os.Stderr, err)
			return 2
		}
	} else {
		r := rand.New(rand.NewSource(*seed))
		for i := 0; i < *n; i++ {
			cases = append(cases, histdrv.GenCase(r, i+1, *maxMuts))
		}
		// their own stream: the regular cases of a seed do not depend on -restarts
		rr := rand.New(rand.NewSource(*seed*7919 + 13))
		for i := 0; i < *restarts; i++ {
			cases = append(cases, histdrv.GenRestartCase(rr, *n+i+1, *maxProcs))
		}
	}
	bks := strings.Split(*backends, ",")

	results := make([][]any, len(cases))
	var wg sync.WaitGroup
	sem := make(chan struct{}, *workers)
	for i, c := range cases {
		wg.Add(1)
		sem <- struct{}{}
		go func(i int, c *histdrv.Case) {
			defer wg.Done()
			defer func() { <-sem }()
			var evs []any
			for _, b := range bks {
				evs = append(evs, histdrv.Run(c, b, histdrv.Opts{TmpDir: *tmp, Crash: *crash})...)
			}
			results[i] = evs
		}(i, c)
	}
	wg.Wait()

	lines := 0
	ws := make([]*bufio.Writer, *shards)
	fsx := make([]*os.File, *shards)
	for k := range ws {
		f, err := os.Create(fmt.Sprintf("%s.%d.ndjson", *out, k))
		if err != nil {
			fmt.Fprintln(os.Stderr, err)
			return 2
		}
		fsx[k] = f
		ws[k] = bufio.NewWriterSize(f, 1<<20)
	}
	for i, evs := range results {
		w := ws[i%*shards]
		for _, ev := range evs {
			bt, err := json.Marshal(ev)
			if err != nil {
				fmt.Fprintln(os.Stderr, err)
				return 2
			}
			w.Write(bt)
			w.WriteByte('\n')
			lines++
		}
	}
	for k := range ws {
		ws[k].Flush()
		fsx[k].Close()
	}
	bt, _ := json.Marshal(cases)
	if err := os.WriteFile(*out+".cases.json", bt, 0o644); err != nil {
		fmt.Fprintln(os.Stderr, err)
		return 2
	}
	blocks := 0
	for _, evs := range results {
		for _, ev := range evs {
			if _, ok := ev.(histdrv.CaseEv); ok {
				blocks++
			}
		}
	}
	st, _ := json.Marshal(map[string]any{"cases": len(cases), "backends": bks, "lines": lines,
		"blocks": blocks})
	fmt.Println(string(st))
	return 0
}
