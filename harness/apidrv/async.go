package apidrv

import (
	"context"
	"fmt"
	"math/rand"
	"runtime"
	"sync"
	"time"

	amhelp "github.com/pancsta/asyncmachine-go/pkg/helpers"
	am "github.com/pancsta/asyncmachine-go/pkg/machine"
)

// The async helpers (AddAsync / Add1Async / EvAddAsync / EvAdd1Async) against
// the step model of spec/ApiAlgebra.tla, Part 3b: the helper's own steps
// (bind the subscription, mutate, wait) versus an environment that activates
// the wait state W
//
//	self / rel   inside the helper's own transition,
//	drain        from a final handler, in the same queue drain,
//	later        from another goroutine once the mutation has been processed,
//	remove       (another goroutine only DE-activates W: nothing to report),
//	prequeued    from a mutation that already sits in the queue at the call,
//	never        not at all,
//
// with W active before or not, plain or Multi, the helper's mutation run at
// once / queued behind a blocked handler / on a disposed machine, accepted or
// vetoed, on a live / never ending / already cancelled ctx.  The driver plays
// the environment: it expires the live ctx itself, and only after the helper
// had every chance to see what happened.

type AsyncScenario struct {
	Via   string `json:"via"`
	Pre   bool   `json:"pre"`
	Multi bool   `json:"multi"`
	Mode  string `json:"mode"`
	Veto  bool   `json:"veto"`
	Ctx   string `json:"ctx"`
}

// AsyncShape: refinements the model does not distinguish (arity and order of
// the added states, length of the relation / handler chain leading to W).
type AsyncShape struct {
	NAdd  int    `json:"nadd"`
	WPos  string `json:"wpos"`
	Depth int    `json:"depth"`
	Rep   int    `json:"rep"`
}

type AsyncLine struct {
	Ev    string        `json:"ev"`
	Fn    string        `json:"fn"`
	Sc    AsyncScenario `json:"sc"`
	Shape AsyncShape    `json:"shape"`
	Add   am.S          `json:"add"`
	// observed on the machine
	T0      uint64 `json:"t0"`      // tick of W at the call
	Te      uint64 `json:"te"`      // tick of W when the ctx was expired (= t1 otherwise)
	T1      uint64 `json:"t1"`      // tick of W when the helper returned / was given up
	Mut     string `json:"mut"`     // the helper's mutation: accepted | refused | none
	Expired bool   `json:"expired"` // the ctx ended before the helper returned
	Ret     string `json:"ret"`     // true | false | blocked | panic: .. | stall: ..
}

var (
	AsyncVias  = []string{"self", "rel", "drain", "later", "remove", "prequeued", "never"}
	AsyncModes = []string{"direct", "queued", "disposed"}
	AsyncCtxs  = []string{"live", "background", "cancelled"}
)

type asyncFn struct {
	name   string
	single bool
	call   func(ctx context.Context, m *am.Machine, wait string, add am.S, args am.A) bool
}

func asyncFns() []asyncFn {
	return []asyncFn{
		{"AddAsync", false, func(ctx context.Context, m *am.Machine, w string, add am.S, args am.A) bool {
			return amhelp.AddAsync(ctx, m, w, add, args)
		}},
		{"Add1Async", true, func(ctx context.Context, m *am.Machine, w string, add am.S, args am.A) bool {
			return amhelp.Add1Async(ctx, m, w, add[0], args)
		}},
		{"EvAddAsync", false, func(ctx context.Context, m *am.Machine, w string, add am.S, args am.A) bool {
			return amhelp.EvAddAsync(ctx, nil, m, w, add, args)
		}},
		{"EvAdd1Async", true, func(ctx context.Context, m *am.Machine, w string, add am.S, args am.A) bool {
			return amhelp.EvAdd1Async(ctx, nil, m, w, add[0], args)
		}},
	}
}

type asyncHandlers struct {
	m       *am.Machine
	entered chan struct{}
	release chan struct{}
	veto    bool
	drain   int
}

func (h *asyncHandlers) AEnter(e *am.Event) bool { return !h.veto }
func (h *asyncHandlers) AState(e *am.Event) {
	switch h.drain {
	case 1:
		h.m.Add1("W", nil)
	case 2:
		h.m.Add1("B", nil)
	}
}
func (h *asyncHandlers) BState(e *am.Event) {
	if h.drain == 2 {
		h.m.Add1("W", nil)
	}
}
func (h *asyncHandlers) GateState(e *am.Event) {
	close(h.entered)
	<-h.release
}

// asyncTracer tells the driver where the helper's mutation (marked by its
// args) is: queued, processed (and how), queue drained afterwards.
type asyncTracer struct {
	*am.TracerNoOp
	mx       sync.Mutex
	queued   chan struct{}
	ended    chan struct{}
	drained  chan struct{}
	accepted bool
	isEnded  bool
	isDrain  bool
	isQueued bool
}

func isHelperMut(mut *am.Mutation) bool {
	return mut != nil && mut.Args != nil && mut.Args["helper"] != nil
}

func (t *asyncTracer) MutationQueued(_ am.Api, mut *am.Mutation) {
	if !isHelperMut(mut) {
		return
	}
	t.mx.Lock()
	defer t.mx.Unlock()
	if !t.isQueued {
		t.isQueued = true
		close(t.queued)
	}
}

func (t *asyncTracer) TransitionEnd(tx *am.Transition) {
	if !isHelperMut(tx.Mutation) || tx.Mutation.IsCheck {
		return
	}
	t.mx.Lock()
	defer t.mx.Unlock()
	if !t.isEnded {
		t.isEnded = true
		t.accepted = tx.IsAccepted.Load()
		close(t.ended)
	}
}

func (t *asyncTracer) QueueEnd(_ am.Api) {
	t.mx.Lock()
	defer t.mx.Unlock()
	if t.isEnded && !t.isDrain {
		t.isDrain = true
		close(t.drained)
	}
}

const (
	asyncStall  = 8 * time.Second         // a driver-side wait that must succeed
	asyncGrace  = 2500 * time.Millisecond // time the helper gets to report an activation
	asyncSettle = 30 * time.Millisecond   // time it gets when there is nothing to report
)

func acts(tick uint64) uint64 { return (tick + 1) / 2 }

// RunAsyncCase executes one helper in one scenario on a fresh machine.
func RunAsyncCase(af asyncFn, sc AsyncScenario, sh AsyncShape, jitter *rand.Rand) AsyncLine {
	schema := am.Schema{"W": {Multi: sc.Multi}, "A": {}, "A2": {}, "B": {}, "Gate": {}, "D": {}}
	h := &asyncHandlers{entered: make(chan struct{}), release: make(chan struct{}), veto: sc.Veto}
	switch sc.Via {
	case "rel":
		if sh.Depth == 2 {
			schema["A"] = am.State{Add: am.S{"B"}}
			schema["B"] = am.State{Add: am.S{"W"}}
		} else {
			schema["A"] = am.State{Add: am.S{"W"}}
		}
	case "drain":
		h.drain = sh.Depth
	}
	m := am.New(context.Background(), schema, &am.Opts{HandlerTimeout: time.Hour})
	h.m = m
	m.HandlersBind(h)
	tr := &asyncTracer{TracerNoOp: &am.TracerNoOp{Id: "async"}, queued: make(chan struct{}),
		ended: make(chan struct{}), drained: make(chan struct{})}
	m.BindTracer(tr)
	released := false
	defer func() {
		if !released {
			close(h.release)
		}
		m.Dispose()
	}()

	// the added states
	var add am.S
	first := "A"
	if sc.Via == "self" {
		first = "W"
	}
	switch {
	case sh.NAdd == 1:
		add = am.S{first}
	case sc.Via == "self" && sh.WPos == "first":
		add = am.S{"W", "A"}
	case sc.Via == "self":
		add = am.S{"A", "W"}
	case sh.WPos == "first":
		add = am.S{"A2", "A"}
	default:
		add = am.S{"A", "A2"}
	}
	line := AsyncLine{Ev: "async", Fn: af.name, Sc: sc, Shape: sh, Add: add, Mut: "none"}

	nap := func() {
		if jitter != nil {
			switch jitter.Intn(3) {
			case 0:
				runtime.Gosched()
			case 1:
				time.Sleep(time.Duration(jitter.Intn(300)) * time.Microsecond)
			}
		}
	}
	stalled := func(what string) AsyncLine {
		line.Ret = "stall: " + what
		line.T1 = m.Tick("W")
		line.Te = line.T1
		return line
	}
	waitFor := func(ch <-chan struct{}) bool {
		select {
		case <-ch:
			return true
		case <-time.After(asyncStall):
			return false
		}
	}
	// what "another goroutine" does: a new activation of W whatever its state
	cycle := func() {
		if m.Is1("W") && !sc.Multi {
			m.Remove1("W", nil)
		}
		m.Add1("W", nil)
	}

	if sc.Pre {
		m.Add1("W", nil)
	}
	line.T0 = m.Tick("W")
	switch sc.Mode {
	case "disposed":
		m.Dispose()
		<-m.WhenDisposed()
	case "queued":
		go m.Add1("Gate", nil)
		if !waitFor(h.entered) {
			return stalled("gate")
		}
		if sc.Via == "prequeued" {
			cycle()
		}
	}

	// the ctx: "live" ends when the driver says so, "background" never does
	// within the observation, "cancelled" has ended before the call
	ctx, expire := context.WithCancel(context.Background())
	defer expire()
	if sc.Ctx == "cancelled" {
		expire()
	}
	type result struct {
		ret  string
		tick uint64
	}
	res := make(chan result, 1)
	go func() {
		defer func() {
			if r := recover(); r != nil {
				res <- result{fmt.Sprint("panic: ", r), m.Tick("W")}
			}
		}()
		nap()
		v := af.call(ctx, m, "W", add, am.A{"helper": true})
		res <- result{fmt.Sprint(v), m.Tick("W")}
	}()

	// the environment
	switch sc.Mode {
	case "direct":
		if !waitFor(tr.ended) || !waitFor(tr.drained) {
			return stalled("the helper's mutation was not processed")
		}
		switch sc.Via {
		case "later":
			nap()
			cycle()
		case "remove":
			nap()
			m.Remove1("W", nil)
		}
	case "queued":
		if !waitFor(tr.queued) {
			return stalled("the helper's mutation was not queued")
		}
		switch sc.Via {
		case "later":
			cycle()
		case "remove":
			m.Remove1("W", nil)
		}
		nap()
		released = true
		close(h.release)
		if !waitFor(tr.ended) || !waitFor(tr.drained) {
			return stalled("the queue was not drained")
		}
	}
	tr.mx.Lock()
	if tr.isEnded {
		if tr.accepted {
			line.Mut = "accepted"
		} else {
			line.Mut = "refused"
		}
	}
	tr.mx.Unlock()

	// the environment is quiet now: W does not change any more
	now := m.Tick("W")
	first1 := asyncSettle
	if acts(now) > acts(line.T0) {
		first1 = asyncGrace
	}
	take := func(r result) AsyncLine {
		line.Ret, line.T1 = r.ret, r.tick
		if !line.Expired {
			line.Te = line.T1
		}
		return line
	}
	select {
	case r := <-res:
		return take(r)
	case <-time.After(first1):
	}
	if sc.Ctx == "live" {
		line.Expired = true
		line.Te = m.Tick("W")
		expire()
		select {
		case r := <-res:
			return take(r)
		case <-time.After(asyncGrace):
		}
	} else {
		select {
		case r := <-res:
			return take(r)
		case <-time.After(100 * time.Millisecond):
		}
	}
	line.Ret = "blocked"
	line.T1 = m.Tick("W")
	if !line.Expired {
		line.Te = line.T1
	}
	return line
}

// AsyncScenarios: the scenario space of the specification (ApiAlgebra.tla,
// AsyncScenarios), in a fixed order.
func AsyncScenarios() []AsyncScenario {
	bools := []bool{false, true}
	var out []AsyncScenario
	for _, mode := range AsyncModes {
		for _, via := range AsyncVias {
			for _, pre := range bools {
				for _, multi := range bools {
					for _, veto := range bools {
						for _, c := range AsyncCtxs {
							if via == "prequeued" && mode != "queued" {
								continue
							}
							if mode == "disposed" && (via != "never" || veto || pre || multi) {
								continue
							}
							out = append(out, AsyncScenario{via, pre, multi, mode, veto, c})
						}
					}
				}
			}
		}
	}
	return out
}

type asyncJob struct {
	af asyncFn
	sc AsyncScenario
	sh AsyncShape
}

func asyncJobs(reps int) []asyncJob {
	var jobs []asyncJob
	for _, af := range asyncFns() {
		for _, sc := range AsyncScenarios() {
			nadds := []int{1, 2}
			if af.single {
				nadds = []int{1}
			}
			depths := []int{1}
			if sc.Via == "rel" || sc.Via == "drain" {
				depths = []int{1, 2}
			}
			for _, n := range nadds {
				if sc.Veto && sc.Via == "self" && n == 1 {
					// the only added state is W itself: nothing the harness could
					// veto once W is active; the veto runs with two added states
					continue
				}
				poss := []string{"last"}
				if n == 2 {
					poss = []string{"last", "first"}
				}
				for _, p := range poss {
					for _, d := range depths {
						for r := 0; r < reps; r++ {
							jobs = append(jobs, asyncJob{af, sc, AsyncShape{n, p, d, r}})
						}
					}
				}
			}
		}
	}
	return jobs
}

// RunAsync runs every (helper, scenario, shape); reps > 1 repeats each case
// with scheduling jitter drawn from the seed.
func RunAsync(o *Out, seed int64, reps int) {
	jobs := asyncJobs(reps)
	lines := make([]AsyncLine, len(jobs))
	sem := make(chan struct{}, 32)
	var wg sync.WaitGroup
	for i, j := range jobs {
		sem <- struct{}{}
		wg.Add(1)
		go func(i int, j asyncJob) {
			defer wg.Done()
			defer func() { <-sem }()
			var jit *rand.Rand
			if j.sh.Rep > 0 || seed%2 == 0 {
				jit = rand.New(rand.NewSource(seed*1000003 + int64(i)))
			}
			lines[i] = RunAsyncCase(j.af, j.sc, j.sh, jit)
		}(i, j)
	}
	wg.Wait()
	for _, l := range lines {
		o.Emit(l)
		o.Stats["async:"+l.Fn]++
		o.Stats["async-ret:"+l.Ret]++
	}
}
