#!/usr/bin/env python3
"""Confirm a seeded breaking change and run checks against it.

usage: tryseed.py <seed-id> <seedout-dir> <worktree> <prop> [<prop> ...]
  seedout-dir contains patch.diff, demo_test.go (or demo/), notes.md
Steps (all in the scratch worktree, never in /repo):
  1 patch applies, library builds, tests of the touched packages pass
  2 demonstration FAILS with the patch and PASSES without it
  3 ./check <prop> --tier quick with VERIF_REPO=<worktree> for every prop
Writes /verif/seeded/<seed-id>/{patch.diff, demo_test.go, notes.md, meta.json}.
"""
import json, os, re, shutil, subprocess, sys, time

GO = "/root/go/pkg/mod/golang.org/toolchain@v0.0.1-go1.25.0.linux-amd64/bin/go"
ENV = dict(os.environ, GOFLAGS="-mod=mod", GOPROXY="off", GOSUMDB="off", GOTOOLCHAIN="local")


def sh(cmd, cwd=None, timeout=1800, env=None):
    p = subprocess.run(cmd, cwd=cwd, env=env or ENV, stdout=subprocess.PIPE, stderr=subprocess.STDOUT,
                       text=True, timeout=timeout)
    return p.returncode, p.stdout


def main():
    sid, sdir, wt, props = sys.argv[1], sys.argv[2], sys.argv[3], sys.argv[4:]
    meta = dict(id=sid, properties=props, worktree=wt, steps={})
    patch = os.path.join(sdir, "patch.diff")
    sh(["git", "checkout", "--", "."], cwd=wt)
    touched = sorted({os.path.dirname(m) for m in re.findall(r"^\+\+\+ b/(\S+)", open(patch).read(), re.M)})
    pkgs = ["./" + t for t in touched if t.startswith("pkg/") or t.startswith("tools/")]
    demo = os.path.join(sdir, "demo_test.go")
    demo_pkg = None
    if os.path.exists(demo):
        m = re.search(r"^package (\w+)", open(demo).read(), re.M)
        # place the demo in the first touched package whose package name matches
        for t in touched:
            gofiles = [f for f in os.listdir(os.path.join(wt, t)) if f.endswith(".go")]
            if gofiles:
                pm = re.search(r"^package (\w+)", open(os.path.join(wt, t, gofiles[0])).read(), re.M)
                if pm and (pm.group(1) == m.group(1) or pm.group(1) + "_test" == m.group(1)):
                    demo_pkg = t
                    break
        demo_pkg = os.environ.get("SEED_DEMO_PKG") or demo_pkg
        if not demo_pkg:
            # the notes usually say where the demonstration goes
            notes = os.path.join(sdir, "notes.md")
            nm = re.search(r"`((?:pkg|tools)/[\w/]+)/zz_seed\w*_test\.go`", open(notes).read()) if os.path.exists(notes) else None
            demo_pkg = nm.group(1) if nm else touched[0]

    def run_demo():
        dst = os.path.join(wt, demo_pkg, "zz_seed_test.go")
        shutil.copy(demo, dst)
        try:
            tags = ["-tags", os.environ["SEED_DEMO_TAGS"]] if os.environ.get("SEED_DEMO_TAGS") else []
            rc, out = sh([GO, "test"] + tags + ["-vet=off", "-count=1", "-run", "Seed", "-timeout", "300s",
                          "./" + demo_pkg], cwd=wt)
        finally:
            os.remove(dst)
        return rc, out[-1500:]

    # without the patch
    if demo_pkg:
        rc, out = run_demo()
        meta["steps"]["demo_without_patch"] = dict(rc=rc, tail=out[-400:])
    rc, out = sh(["git", "apply", patch], cwd=wt)
    meta["steps"]["apply"] = rc
    if rc != 0:
        print("patch does not apply:", out)
        return 2
    try:
        rc, out = sh([GO, "build", "./pkg/..."], cwd=wt)
        meta["steps"]["build"] = rc
        # SEED_TEST_RUN: restrict the package tests to those that pass on the unchanged tree
        # (pkg/node has a test that always fails and one that hangs at the pinned commit)
        sel = ["-run", os.environ["SEED_TEST_RUN"]] if os.environ.get("SEED_TEST_RUN") else []
        meta["steps"]["package_tests_selection"] = os.environ.get("SEED_TEST_RUN", "all")
        rc, out = sh([GO, "test", "-vet=off", "-count=1"] + sel + pkgs, cwd=wt)
        if rc != 0:  # timing-sensitive suites are flaky on a loaded machine: one retry
            rc, out = sh([GO, "test", "-vet=off", "-count=1"] + sel + pkgs, cwd=wt)
        meta["steps"]["package_tests"] = dict(rc=rc, tail=out[-600:])
        if demo_pkg:
            rc, out = run_demo()
            meta["steps"]["demo_with_patch"] = dict(rc=rc, tail=out[-600:])
        meta["checks"] = {}
        env = dict(os.environ, VERIF_REPO=wt)
        if os.environ.get("VERIF_HARNESS_SUBSET"):
            env["VERIF_HARNESS_SUBSET"] = os.environ["VERIF_HARNESS_SUBSET"]
        for p in props:
            t0 = time.time()
            rc, out = sh(["./check", p, "--tier", "quick"], cwd="/verif", env=env, timeout=3600)
            lines = [l for l in out.splitlines() if l.startswith(("VIOLATION", "SPEC-DRIFT", "KNOWN", "INCONCLUSIVE", p + " tier"))]
            meta["checks"][p] = dict(rc=rc, wall_s=round(time.time() - t0), lines=lines[:12],
                                     detail=[l for l in out.splitlines() if l.startswith("  ")][:3])
            print(sid, p, "rc=%d" % rc, lines[-1:] )
    finally:
        sh(["git", "checkout", "--", "."], cwd=wt)
    ok_demo = (not demo_pkg) or (meta["steps"].get("demo_without_patch", {}).get("rc") == 0 and
                                 meta["steps"].get("demo_with_patch", {}).get("rc") != 0)
    meta["confirmed"] = bool(meta["steps"].get("build") == 0 and meta["steps"]["package_tests"]["rc"] == 0 and ok_demo)
    meta["detected_by"] = [p for p, c in meta.get("checks", {}).items() if c["rc"] == 1]
    out = os.path.join("/verif/seeded", sid)
    os.makedirs(out, exist_ok=True)
    shutil.copy(patch, os.path.join(out, "patch.diff"))
    for f in ("demo_test.go", "notes.md"):
        if os.path.exists(os.path.join(sdir, f)):
            shutil.copy(os.path.join(sdir, f), os.path.join(out, f))
    notes = os.path.join(sdir, "notes.md")
    meta["what_it_needs"] = open(notes).read()[:1500] if os.path.exists(notes) else ""
    json.dump(meta, open(os.path.join(out, "meta.json"), "w"), indent=1)
    print(sid, "confirmed" if meta["confirmed"] else "NOT CONFIRMED", "detected_by", meta["detected_by"])
    return 0


if __name__ == "__main__":
    sys.exit(main())
