------------------------------- MODULE Pipes -------------------------------
(* C18 - pipes make the target follow the source.                            *)
(*                                                                            *)
(* Transcription of pkg/states/pipes/pipes.go AS THE CODE IS, together with   *)
(* the parts of the target machine's mutation entry points that decide what   *)
(* happens to a forwarded mutation (machine.go: queueMutation's duplicate     *)
(* detection, Remove/EvRemove's "none of the states is active" shortcut,      *)
(* processQueue's pop-then-run loop).  One action per critical section:       *)
(*                                                                            *)
(*   SrcMutate   a source transition reaches its final phase: the clock is    *)
(*               mutated, the final handlers FooEnd / FooState (AnyState for  *)
(*               BindAny) that a pipe bound become pending                    *)
(*   SrcHandler  ONE pipe handler runs on the source's handler goroutine:     *)
(*               flat variants first read the target (target.Is / Not1) and   *)
(*               may skip; then the mutation is forwarded either INLINE       *)
(*               (flat + local target, BindAny: the handler itself calls the  *)
(*               target) or FORKED (`go target.EvAdd(...)`): a new in-flight  *)
(*               event                                                        *)
(*   Deliver     an in-flight event reaches the target's mutation method:     *)
(*               ANY in-flight event, in any order - the Go scheduler runs    *)
(*               the forked goroutines in any order (ForwardInOrder = FALSE); *)
(*               the target drops it (duplicate / shortcut), runs it (idle),  *)
(*               or queues it (busy)                                          *)
(*   TgtApply    the target finishes the transition it is running             *)
(*   TgtPop      the target's queue loop pops the next queued mutation, or    *)
(*               ends (processQueue: `for queueLen > 0 { pop; run }`)         *)
(*   TgtExt      somebody else mutates an unrelated state of the target       *)
(*                                                                            *)
(* The target has no relations and no negotiation handlers: it never vetoes   *)
(* (premise of the property).  Repairs are CONSTANT flags; the value that     *)
(* describes the code at the pinned commit is given in brackets.              *)
(* Not modelled (the queue's own business, property C04): the window between  *)
(* processQueue leaving its loop and resetting queueProcessing, in which a    *)
(* mutation can be appended and left without a processor; the harness logs    *)
(* such a stranded mutation (quiet.tq > 0) and the formulas still decide.     *)
(* Code anchors: pipes.go add() 39-80, remove() 100-135, BindAny 145-186;     *)
(* machine.go queueMutation 1290-1313 (duplicates), EvRemove 3262-3275        *)
(* (shortcut), processQueue 2028-2142.                                        *)
EXTENDS Integers, Sequences, FiniteSets

CONSTANTS
  ForwardInOrder,  \* [FALSE] forked events reach the target in fork order
  AnyExact,        \* [TRUE since 4d48d95] BindAny skips iff the target's active set, read at
                   \*         handler time, EQUALS the transition's target states
                   \*         (am.StatesEqual(target.ActiveStates(nil), states));
                   \*         FALSE: the former superset test target.Is(states)
  AnyFresh,        \* [FALSE] ... and nothing forwarded earlier is still pending at the target
  Dedupe,          \* [TRUE]  queueMutation drops a mutation equal to a queued one (no args, no Multi)
  DedupeCounter,   \* [FALSE] ... but not when a counter-mutation is queued behind it
  RemoveShortcut,  \* [TRUE]  Remove of states that are all inactive is dropped while a
                   \*         transition runs and the queue is empty
  FlatFresh,       \* [FALSE] flat variants skip only when nothing is pending for the state
  AnyForkRemote    \* [FALSE] BindAny forks when the target is not local

VARIABLES
  cfg,       \* the bindings: [mode, states, multi, tmulti, flat, local, addonly, slow, pipes]
             \* pipes = set of [b, s, add, rem]: binding call b (one HandlersBind of the
             \* source) pipes source state s: FooState adds `add`, FooEnd removes `rem`.
             \* SEVERAL binding calls of one kind between the same two machines are
             \* allowed (two BindMany calls with equally long lists, one source state
             \* bound into two target states): machine.go bindHandlers APPENDS a binding
             \* whatever its id is (the ids pipes.go generates are not unique), every
             \* binding's handlers run.  add = {Exception, t} for a target state
             \* named Err* (pipes.go add()), rem = {t} ALWAYS (remove()).
  src,       \* [piped source state -> tick]; odd = active
  srcPend,   \* pipe handler invocations of the running source transition still to run
  tgt,       \* set of active target states
  inflight,  \* forwarded events not yet delivered (ids make it a multiset)
  tq,        \* the target's queue
  cur,       \* the mutation the target's queue loop has popped and is running, or None
  running,   \* the target's queue loop is active (machine.go: m.t # nil, queueProcessing)
  procInl,   \* the target's queue loop runs on the SOURCE's handler goroutine (inline call)
  nid,       \* next event id
  nsrc       \* number of source mutations so far

vars == <<cfg, src, srcPend, tgt, inflight, tq, cur, running, procInl, nid, nsrc>>

None == [id |-> 0]
ExtState == "X"

Active(t) == t % 2 = 1
SrcActive(s_) == {s \in DOMAIN s_ : Active(s_[s])}

---------------------------------------------------------------------------
(* pure operators, shared with the trace specification                        *)

(* a source machine without relations: Add / Remove of a set of states        *)
SrcStep(c, s_, op, S) ==
  LET enters == IF op = "add" THEN {s \in S : ~Active(s_[s]) \/ s \in c.multi} ELSE {}
      exits  == IF op = "remove" THEN {s \in S : Active(s_[s])} ELSE {}
      nxt == [s \in DOMAIN s_ |->
                IF s \in exits THEN s_[s] + 1
                ELSE IF s \in enters THEN (IF Active(s_[s]) THEN s_[s] + 2 ELSE s_[s] + 1)
                ELSE s_[s]]
  IN  [src |-> nxt, enters |-> enters, exits |-> exits]

(* final handlers the pipes bound, for a transition with these enters / exits: *)
(* one per PIPE (binding call x source state), not one per source state        *)
Handlers(c, enters, exits, after, args) ==
  IF c.mode = "any"
  THEN {[op |-> "set", st |-> "Any", b |-> 1, sts |-> after, args |-> args]}
  ELSE {[op |-> "remove", st |-> p.s, b |-> p.b, sts |-> p.rem, args |-> args] :
           p \in {q \in c.pipes : ~c.addonly /\ q.s \in exits}}
       \cup {[op |-> "add", st |-> p.s, b |-> p.b, sts |-> p.add, args |-> args] :
           p \in {q \in c.pipes : q.s \in enters}}

HName(h) == IF h.op = "set" THEN "AnyState"
            ELSE IF h.op = "add" THEN h.st \o "State" ELSE h.st \o "End"

Pending(sts, fl, q, c_) ==
  \/ \E e \in fl : e.sts \cap sts # {}
  \/ \E i \in 1..Len(q) : q[i].sts \cap sts # {}
  \/ (c_ # None /\ c_.sts \cap sts # {})

(* what ONE pipe handler does, given what it can read from the target         *)
Outcome(c, t, fl, q, c_, h) ==
  IF c.mode = "any"
  THEN [skip |-> IF AnyExact
                 THEN t = h.sts /\ (AnyFresh => (fl = {} /\ q = <<>> /\ c_ = None))
                 ELSE h.sts \subseteq t,                  \* target.Is(states)
        inl  |-> ~(AnyForkRemote /\ ~c.local),            \* target.Set(...) in the handler
        args |-> h.args]
  ELSE [skip |-> /\ c.flat
                 /\ \/ h.op = "add" /\ h.sts \subseteq t          \* target.Is(names)
                    \/ h.op = "remove" /\ h.sts \cap t = {}       \* target.Not1(state)
                 /\ (FlatFresh => ~Pending(h.sts, fl, q, c_)),
        inl  |-> c.flat /\ c.local,
        args |-> ~c.flat /\ h.args]       \* flat passes nil, non-flat passes e.Args

Apply(t, e) == CASE e.op = "add" -> t \cup e.sts
                 [] e.op = "remove" -> t \ e.sts
                 [] e.op = "set" -> e.sts

(* a queued mutation after which re-applying b is NOT redundant                 *)
Counter(a, b) == /\ ~(a.op = b.op /\ a.sts = b.sts)
                 /\ (a.op = "set" \/ b.op = "set" \/ a.sts \cap b.sts # {})

(* what the target's mutation method does with a mutation that reaches it     *)
EnqKind(c, t, q, run, e) ==
  LET shortcut == /\ RemoveShortcut /\ e.op = "remove"       \* lenQueue == 0 && m.Transition() != nil
                  /\ q = <<>> /\ run /\ e.sts \cap t = {}      \* && !m.Any(states)
      dup == /\ Dedupe /\ ~e.args /\ e.sts \cap c.tmulti = {}
             /\ \E i \in 1..Len(q) :
                  /\ q[i].op = e.op /\ q[i].sts = e.sts /\ ~q[i].args
                  /\ (DedupeCounter => ~\E j \in (i+1)..Len(q) : Counter(q[j], e))
  IN  IF shortcut \/ dup THEN "drop" ELSE IF ~run THEN "run" ELSE "queue"

InOrderOK(fl, e) == \A o \in fl : (~o.ext /\ ~e.ext) => e.id <= o.id

---------------------------------------------------------------------------
(* actions                                                                    *)

SrcHeld == procInl \/ \E e \in inflight : e.inl

SrcMutate(op, S, args) ==
  /\ srcPend = {} /\ ~SrcHeld
  /\ LET r == SrcStep(cfg, src, op, S) IN
       /\ src' = r.src
       /\ srcPend' = Handlers(cfg, r.enters, r.exits, SrcActive(r.src), args)
  /\ nsrc' = nsrc + 1
  /\ UNCHANGED <<cfg, tgt, inflight, tq, cur, running, procInl, nid>>

SrcHandler(h) ==
  /\ h \in srcPend /\ ~SrcHeld
  /\ srcPend' = srcPend \ {h}
  /\ LET o == Outcome(cfg, tgt, inflight, tq, cur, h) IN
       IF o.skip THEN UNCHANGED <<inflight, nid>>
       ELSE /\ inflight' = inflight \cup
                 {[id |-> nid, op |-> h.op, sts |-> h.sts, inl |-> o.inl, args |-> o.args,
                   ext |-> FALSE, sn |-> nsrc]}
            /\ nid' = nid + 1
  /\ UNCHANGED <<cfg, src, tgt, tq, cur, running, procInl, nsrc>>

Deliver(e) ==
  /\ e \in inflight
  /\ ForwardInOrder => InOrderOK(inflight, e)
  /\ inflight' = inflight \ {e}
  /\ LET k == EnqKind(cfg, tgt, tq, running, e) IN
       CASE k = "drop"  -> UNCHANGED <<tgt, tq, cur, running, procInl>>
         [] k = "queue" -> (tq' = Append(tq, e) /\ UNCHANGED <<tgt, cur, running, procInl>>)
         [] k = "run"   -> IF cfg.slow
                           THEN (cur' = e /\ running' = TRUE /\ procInl' = e.inl /\ UNCHANGED <<tgt, tq>>)
                           ELSE (tgt' = Apply(tgt, e) /\ UNCHANGED <<tq, cur, running, procInl>>)
  /\ UNCHANGED <<cfg, src, srcPend, nid, nsrc>>

TgtApply ==
  /\ cur # None
  /\ tgt' = Apply(tgt, cur)
  /\ cur' = None
  /\ UNCHANGED <<cfg, src, srcPend, inflight, tq, running, procInl, nid, nsrc>>

TgtPop ==
  /\ running /\ cur = None
  /\ IF tq = <<>> THEN running' = FALSE /\ procInl' = FALSE /\ UNCHANGED <<tq, cur>>
     ELSE cur' = Head(tq) /\ tq' = Tail(tq) /\ UNCHANGED <<running, procInl>>
  /\ UNCHANGED <<cfg, src, srcPend, tgt, inflight, nid, nsrc>>

TgtExt ==
  /\ cfg.slow
  /\ inflight' = inflight \cup
       {[id |-> nid, op |-> "add", sts |-> {ExtState}, inl |-> FALSE, args |-> TRUE,
         ext |-> TRUE, sn |-> 0]}
  /\ nid' = nid + 1
  /\ UNCHANGED <<cfg, src, srcPend, tgt, tq, cur, running, procInl, nsrc>>

InitWith(c) ==
  /\ cfg = c
  /\ src = [s \in c.states |-> 0]
  /\ srcPend = {} /\ tgt = {} /\ inflight = {} /\ tq = <<>> /\ cur = None
  /\ running = FALSE /\ procInl = FALSE /\ nid = 1 /\ nsrc = 0

---------------------------------------------------------------------------
(* the property                                                               *)

srcQuiet == srcPend = {}
Quiescent == srcQuiet /\ inflight = {} /\ tq = <<>> /\ cur = None /\ ~running

(* evaluated on any (source ticks / active set, target active set) pair: the  *)
(* trace specification applies the same operators to the LOGGED values        *)
(* judged per PIPE: every pipe of every binding call follows its source state  *)
FollowsOn(c, sact, t) ==
  \A p \in c.pipes :
     /\ p.s \in sact => p.add \subseteq t
     /\ ~c.addonly => (p.rem \subseteq t => p.s \in sact)
  \* BindErr only pipes Add (c.addonly): the weaker reading "an active source
  \* Exception implies the target error state" is taken for it

MirrorsOn(sact, t) == t \ {ExtState} = sact

FollowsAtQuiescence ==
  (cfg.mode = "pair" /\ srcQuiet /\ inflight = {} /\ tq = <<>> /\ cur = None /\ ~running)
     => FollowsOn(cfg, SrcActive(src), tgt)

BindAnyMirrors ==
  (cfg.mode = "any" /\ Quiescent) => MirrorsOn(SrcActive(src), tgt)

(* the source transition never waits for a call on a NON-LOCAL target (which  *)
(* may take arbitrarily long).  Weaker reading, consistent with              *)
(* pkg/states/README.md ("won't block the source transition, it will be       *)
(* queued instead") and the TODO "check IsLocal and dont fork": an inline     *)
(* call on a LOCAL target queues or runs at once and is not "blocking".       *)
(* It is never canceled: SrcMutate has no failing branch.                     *)
SourceNeverBlocked == ~\E e \in inflight : e.inl /\ ~cfg.local
=============================================================================
