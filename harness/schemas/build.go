package schemas

// Function-level conformance of the schema BUILDERS the shipped schemas are
// assembled with (State.Extend / StateAdd, State.Set / SetRels / StateSet,
// Schema.Merge / SchemaMerge): the real functions are called on an enumerated
// input space and the results are logged for spec/TraceSchemaBuild.tla.

import (
	"bufio"
	"encoding/json"
	"io"
	"math/rand"

	am "github.com/pancsta/asyncmachine-go/pkg/machine"
)

// RelJ is a relation list with its nil-ness (nil = "not mentioned").
type RelJ struct {
	Nil bool     `json:"nil"`
	V   []string `json:"v"`
}

type BStateJ struct {
	Auto    bool `json:"auto"`
	Multi   bool `json:"multi"`
	Require RelJ `json:"require"`
	Add     RelJ `json:"add"`
	Remove  RelJ `json:"remove"`
	After   RelJ `json:"after"`
}

func relJ(s am.S) RelJ {
	if s == nil {
		return RelJ{Nil: true, V: []string{}}
	}
	return RelJ{V: append([]string{}, s...)}
}

func bstateJ(s am.State) BStateJ {
	return BStateJ{Auto: s.Auto, Multi: s.Multi, Require: relJ(s.Require), Add: relJ(s.Add),
		Remove: relJ(s.Remove), After: relJ(s.After)}
}

// the values one relation slot takes
var relVals = []am.S{nil, {}, {"A"}, {"B"}, {"A", "B"}, {"B", "C"}}

func mkState(auto, multi bool, rels [4]am.S) am.State {
	cl := func(s am.S) am.S {
		if s == nil {
			return nil
		}
		return append(am.S{}, s...)
	}
	return am.State{Auto: auto, Multi: multi, Require: cl(rels[0]), Add: cl(rels[1]),
		Remove: cl(rels[2]), After: cl(rels[3])}
}

type buildEv struct {
	Ev    string              `json:"ev"`
	Fn    string              `json:"fn"`
	Src   *BStateJ             `json:"src,omitempty"`
	Ov    *BStateJ             `json:"ov,omitempty"`
	Auto  bool                `json:"auto"`
	Multi bool                `json:"multi"`
	Res   *BStateJ             `json:"res,omitempty"`
	Ins   []map[string]BStateJ `json:"ins,omitempty"`

	Out   map[string]BStateJ   `json:"out,omitempty"`
	Panic string              `json:"panic"`
}

// listEv: one call of a list builder (Recv: the receiver, empty for SAdd)
type listEv struct {
	Ev    string `json:"ev"`
	Fn    string `json:"fn"`
	Recv  RelJ   `json:"recv"`
	Lists []RelJ `json:"lists"`
	Got   RelJ   `json:"got"`
	Panic string `json:"panic"`
}

func bschemaJ(s am.Schema) map[string]BStateJ {
	out := map[string]BStateJ{}
	for k, v := range s {
		out[k] = bstateJ(v)
	}
	return out
}

// RunBuilders writes one event per call. For every relation slot, every pair of
// (source value, overlay value) is taken while the other slots and the flags
// are drawn at random; plus fully random pairs; Merge over 2-3 small schemas
// with overlapping keys.
func RunBuilders(w io.Writer, seed int64, nRandom int) (n int, err error) {
	r := rand.New(rand.NewSource(seed))
	bw := bufio.NewWriter(w)
	defer bw.Flush()
	emit := func(e any) {
		b, _ := json.Marshal(e)
		bw.Write(b)
		bw.WriteByte('\n')
		n++
	}
	rnd := func() [4]am.S {
		var x [4]am.S
		for i := range x {
			x[i] = relVals[r.Intn(len(relVals))]
		}
		return x
	}
	call := func(fn string, src, ov am.State, auto, multi bool) {
		sj, oj := bstateJ(src), bstateJ(ov)
		e := buildEv{Ev: "state", Fn: fn, Src: &sj, Ov: &oj, Auto: auto, Multi: multi}
		func() {
			defer func() {
				if p := recover(); p != nil {
					e.Panic = "panic"
				}
			}()
			var res am.State
			switch fn {
			case "Extend":
				res = src.Extend(ov)
			case "StateAdd":
				res = am.StateAdd(src, ov)
			case "Set":
				res = src.Set(auto, multi, ov)
			case "StateSet":
				res = am.StateSet(src, auto, multi, ov)
			case "SetRels":
				res = src.SetRels(ov)
			}
			rj := bstateJ(res)
			e.Res = &rj
		}()
		emit(e)
	}
	fns := []string{"Extend", "StateAdd", "Set", "StateSet", "SetRels"}
	for slot := 0; slot < 4; slot++ {
		for _, sv := range relVals {
			for _, ov := range relVals {
				for _, fn := range fns {
					s, o := rnd(), rnd()
					s[slot], o[slot] = sv, ov
					call(fn, mkState(r.Intn(2) == 0, r.Intn(2) == 0, s),
						mkState(r.Intn(2) == 0, r.Intn(2) == 0, o), r.Intn(2) == 0, r.Intn(2) == 0)
				}
			}
		}
	}
	// the overlay mentions ONE relation only (how shipped schemas use Extend)
	for slot := 0; slot < 4; slot++ {
		for _, fn := range fns {
			for k := 0; k < 6; k++ {
				var o [4]am.S
				o[slot] = relVals[2+r.Intn(len(relVals)-2)]
				call(fn, mkState(r.Intn(2) == 0, r.Intn(2) == 0, rnd()), mkState(false, false, o),
					r.Intn(2) == 0, r.Intn(2) == 0)
			}
		}
	}
	for i := 0; i < nRandom; i++ {
		call(fns[i%len(fns)], mkState(r.Intn(2) == 0, r.Intn(2) == 0, rnd()),
			mkState(r.Intn(2) == 0, r.Intn(2) == 0, rnd()), r.Intn(2) == 0, r.Intn(2) == 0)
	}
	// the list builders relations are written with (`Remove: SAdd(groupA, groupB)`,
	// `group.Add(other)`, `group.Add1("X")`): every arity 0..3 over a few lists
	lvals := []am.S{nil, {}, {"A"}, {"B", "A"}, {"A", "B", "C"}, {"C", "C"}}
	var argLists [][]am.S
	argLists = append(argLists, []am.S{})
	for _, a := range lvals {
		argLists = append(argLists, []am.S{a})
		for _, b := range lvals {
			argLists = append(argLists, []am.S{a, b})
		}
	}
	for i := 0; i < 12; i++ {
		argLists = append(argLists, []am.S{lvals[r.Intn(len(lvals))], lvals[r.Intn(len(lvals))], lvals[r.Intn(len(lvals))]})
	}
	clone := func(l am.S) am.S {
		if l == nil {
			return nil
		}
		return append(am.S{}, l...)
	}
	for _, args := range argLists {
		ls := []RelJ{}
		for _, a := range args {
			ls = append(ls, relJ(a))
		}
		// SAdd(lists...)
		func() {
			e := listEv{Ev: "list", Fn: "SAdd", Lists: ls, Recv: relJ(nil), Got: relJ(nil)}
			defer func() {
				if p := recover(); p != nil {
					e.Panic = "panic"
				}
				emit(e)
			}()
			in := []am.S{}
			for _, a := range args {
				in = append(in, clone(a))
			}
			e.Got = relJ(am.SAdd(in...))
		}()
		// recv.Add(lists...)
		for _, recv := range lvals {
			func() {
				e := listEv{Ev: "list", Fn: "S.Add", Recv: relJ(recv), Lists: ls, Got: relJ(nil)}
				defer func() {
					if p := recover(); p != nil {
						e.Panic = "panic"
					}
					emit(e)
				}()
				in := []am.S{}
				for _, a := range args {
					in = append(in, clone(a))
				}
				e.Got = relJ(clone(recv).Add(in...))
			}()
		}
	}

	// Merge
	keys := []string{"A", "B", "C"}
	mkSchema := func() am.Schema {
		s := am.Schema{}
		for _, k := range keys {
			if r.Intn(3) > 0 {
				s[k] = mkState(r.Intn(2) == 0, r.Intn(2) == 0, rnd())
			}
		}
		if len(s) == 0 {
			s["A"] = mkState(false, false, rnd())
		}
		return s
	}
	for i := 0; i < nRandom/4+40; i++ {
		k := 2 + r.Intn(2)
		var ins []am.Schema
		for j := 0; j < k; j++ {
			ins = append(ins, mkSchema())
		}
		for _, fn := range []string{"Merge", "SchemaMerge"} {
			e := buildEv{Ev: "merge", Fn: fn}
			for _, s := range ins {
				e.Ins = append(e.Ins, bschemaJ(s))
			}
			func() {
				defer func() {
					if p := recover(); p != nil {
						e.Panic = "panic"
					}
				}()
				var out am.Schema
				if fn == "Merge" {
					out = ins[0].Merge(ins[1:]...)
				} else {
					out = am.SchemaMerge(ins...)
				}
				e.Out = bschemaJ(out)
			}()
			emit(e)
		}
	}
	return n, nil
}
