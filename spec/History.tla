------------------------------ MODULE History ------------------------------
(* pkg/history as the code actually is: the tracer's TransitionEnd (match    *)
(* rule, record construction, rotation / write-behind queue / GC) and         *)
(* FindLatest, one specification for the four backends ("memory", "bbolt",    *)
(* "badger", "gorm"); plus the READING of property C17 (formulas at the end). *)
(*                                                                            *)
(* Machine states are 1-based machine indexes, a machine time is a sequence   *)
(* of ticks over them.  A tracking configuration is                           *)
(*   [called, calledEx, changed, changedEx, rejected, tracked, qtracked,      *)
(*    max, batch]                                                             *)
(* `tracked` is the record order the memory chose (ParseStates returns Go map *)
(* order), `qtracked` the states IsTracked/ValidateQuery accept.              *)
(* A transition is [called, tb, ta, accepted, check, mtype, machTick, mi].    *)
(*                                                                            *)
(* The flags model the unrepaired tree when TRUE (history.go / bbolt.go /     *)
(* badger.go / gorm.go at the pinned commit) and the obvious repair when      *)
(* FALSE.                                                                     *)
EXTENDS Integers, Sequences, FiniteSets, AmSeq

CONSTANTS
  FilterNoop,       \* memory, bbolt, badger FindLatest: the state conditions
                    \* `continue` the INNER loop -> no-ops (history.go:865-897)
  InactiveMachIdx,  \* same three: Inactive indexes MTimeTracked with the
                    \* MACHINE index (mach.Index1) -> index out of range panic
  AllowInverted,    \* bbolt, badger: both allow-lists test `!listed`;
                    \* gorm: the Called allow-list only
  SkipOldest,       \* bbolt, badger FindLatest: the oldest stored record is
                    \* only ever `older`, never evaluated (when >= 2 records)
  GcKeepsLess,      \* bbolt, badger GC deletes ids <= nextId-Max: Max-1 stay
  GormNoGc,         \* gorm never adds to Saved: checkGc never fires
  GormBadColumns,   \* gorm: MTimeDiff / MTimeRecordDiff / MTime name columns
                    \* that do not exist (SQL error), MTimeTrackedDiff compares
                    \* the JSON column
  KvNoResume,       \* bbolt GetMachine decodes into a nil pointer: a reopened
                    \* store restarts NextId from 1
  KvMTimeMachIdx    \* bbolt, badger: the MTimeStates condition filters the
                    \* tracked slice with MACHINE indexes (mach.Index)

KV == {"bbolt", "badger"}
Persistent == {"bbolt", "badger", "gorm"}

---------------------------------------------------------------------------
(* machine time helpers (am.Time)                                             *)
IsActive(t) == t % 2 = 1
TSum(t) == SSum(t, DOMAIN t)
TFilter(t, idxs) == [i \in 1..Len(idxs) |-> t[idxs[i]]]
TDiff(a, b) == [i \in 1..Len(a) |-> a[i] - b[i]]
ChangedSet(tx) == {i \in 1..Len(tx.ta) : tx.ta[i] # tx.tb[i]}
MinOf(a, b) == IF a < b THEN a ELSE b
MaxOf(a, b) == IF a > b THEN a ELSE b
Take(s, n) == SubSeq(s, 1, MinOf(n, Len(s)))

---------------------------------------------------------------------------
(* TransitionEnd: the match rule                                              *)
Gate(cfg, tx) == (tx.accepted \/ cfg.rejected) /\ ~tx.check

HitL(list, S) == \E i \in 1..Len(list) : list[i] \in S

(* the loops of history.go:356-377 (inv = FALSE) and of bbolt.go:195-216     *)
(* (inv = TRUE): every branch that fires assigns the same value, so the      *)
(* `break` does not matter                                                    *)
SeqStep(m, list, ex, S, inv) ==
  IF ex THEN (IF HitL(list, S) THEN FALSE ELSE m)
  ELSE IF inv THEN (IF \E i \in 1..Len(list) : list[i] \notin S THEN TRUE ELSE m)
  ELSE (IF HitL(list, S) THEN TRUE ELSE m)

ReadSeq(cfg, tx, invC, invH) ==
  LET m0 == (cfg.changedEx \/ cfg.changed = <<>>) /\ (cfg.calledEx \/ cfg.called = <<>>)
      m1 == SeqStep(m0, cfg.called, cfg.calledEx, SSet(tx.called), invC)
  IN  SeqStep(m1, cfg.changed, cfg.changedEx, ChangedSet(tx), invH)

MatchImpl(b, cfg, tx) ==
  /\ Gate(cfg, tx)
  /\ ReadSeq(cfg, tx, AllowInverted /\ b \in {"bbolt", "badger", "gorm"},
                      AllowInverted /\ b \in KV)

(* The property says "every transition that matches a history configuration"  *)
(* without defining the combination of the four lists.  Three readings are     *)
(* consistent with the BaseConfig godoc ("Called is a list of mutation states  *)
(* required to track a transition", "CalledExclude flips Called to be a        *)
(* blocklist"):                                                                *)
(*   And : both lists must be satisfied                                        *)
(*   Or  : no block-list is hit and (there is no allow-list or one is hit)     *)
(*   Seq : the reference (in-memory) implementation's sequential rule          *)
(* A record is REQUIRED only when all three say "match" and FORBIDDEN only     *)
(* when all three say "no match" (the weaker reading).                         *)
ListOk(list, ex, S) == list = <<>> \/ (IF ex THEN ~HitL(list, S) ELSE HitL(list, S))
ReadAnd(cfg, tx) ==
  /\ ListOk(cfg.called, cfg.calledEx, SSet(tx.called))
  /\ ListOk(cfg.changed, cfg.changedEx, ChangedSet(tx))
ReadOr(cfg, tx) ==
  LET cs == SSet(tx.called)
      ch == ChangedSet(tx)
      allowC == cfg.called # <<>> /\ ~cfg.calledEx
      allowH == cfg.changed # <<>> /\ ~cfg.changedEx
  IN  /\ (cfg.called # <<>> /\ cfg.calledEx) => ~HitL(cfg.called, cs)
      /\ (cfg.changed # <<>> /\ cfg.changedEx) => ~HitL(cfg.changed, ch)
      /\ \/ ~allowC /\ ~allowH
         \/ allowC /\ HitL(cfg.called, cs)
         \/ allowH /\ HitL(cfg.changed, ch)
MustMatch(cfg, tx) ==
  Gate(cfg, tx) /\ ReadAnd(cfg, tx) /\ ReadOr(cfg, tx) /\ ReadSeq(cfg, tx, FALSE, FALSE)
MustNotMatch(cfg, tx) ==
  ~Gate(cfg, tx) \/ (~ReadAnd(cfg, tx) /\ ~ReadOr(cfg, tx) /\ ~ReadSeq(cfg, tx, FALSE, FALSE))

---------------------------------------------------------------------------
(* TransitionEnd: the record.  prev = the previously created record of this   *)
(* memory instance (m.db[len-1] / m.lastRec) or None: the first record a      *)
(* process creates has no predecessor, also on a re-opened store (pf).        *)
None == [none |-> TRUE]

MkRec(cfg, tx, prev, id) ==
  LET mt  == TFilter(tx.ta, cfg.tracked)
      mtb == TFilter(tx.tb, cfg.tracked)
      sum == TSum(tx.ta)
  IN  [id |-> id, sum |-> sum, tsum |-> TSum(mt),
       dsum |-> sum - TSum(tx.tb), tdsum |-> TSum(mt) - TSum(mtb),
       rdsum |-> IF prev = None THEN 0 ELSE sum - prev.sum,
       mt |-> mt, mtd |-> TDiff(mt, mtb),
       machTick |-> tx.machTick, mtype |-> tx.mtype, mi |-> tx.mi,
       pf |-> (prev = None)]

(* the fields the property speaks about ("tracked times equal the machine's   *)
(* time after that transition") vs. the derived ones (conformance only)       *)
Faithful(e, r) == e.mt = r.mt /\ e.sum = r.sum /\ e.tsum = r.tsum
SameDerived(e, r) ==
  /\ e.dsum = r.dsum /\ e.tdsum = r.tdsum /\ e.rdsum = r.rdsum /\ e.mtd = r.mtd
  /\ e.machTick = r.machTick /\ e.mtype = r.mtype

(* rotation of the in-process slice (history.go:435-439)                      *)
RotateAppend(db, r, max) ==
  Append(IF Len(db) >= max THEN Tail(db) ELSE db, r)

(* the bound the write-behind backends are held to: GC is attempted at a       *)
(* batch flush once more than 1.5*Max records were saved since the last GC     *)
(* (the counter lags one batch behind), and leaves Max records -> the weaker   *)
(* reading of "stays bounded by MaxRecords" for them is                        *)
PBound(max, batch) == max + (3 * max) \div 2 + 2 * batch

---------------------------------------------------------------------------
(* queries.  A query is                                                       *)
(*  [fn, act, actd, inact, deact, tk, lo, hi, mts, limit]                     *)
(* the visible log L is a sequence of records, oldest first; `made` is the    *)
(* sequence of all records this memory instance created (made[k].id = k).     *)
TIdx(cfg, s) == SIndex(cfg.tracked, s)

Act(cfg, e, s) == IsActive(e.mt[TIdx(cfg, s)])

(* "Activated is a set of states that were activated during the transition":   *)
(* three readings exist in the code base                                       *)
(*   A  the state is active and its tick moved in THIS transition (godoc)      *)
(*   B  active, and not active in the previous stored record (history.go)      *)
(*   C  active, and its tick differs from the previously created record (gorm) *)
(*   C' as C, the previously created record OF THE SAME PROCESS (gorm keeps    *)
(*      it in memory: the first record after a restart has no predecessor;     *)
(*      the same as C on a store that was never re-opened)                     *)
ActdA(cfg, e, s) == Act(cfg, e, s) /\ e.mtd[TIdx(cfg, s)] > 0
ActdB(cfg, L, p, s) == Act(cfg, L[p], s) /\ (p = 1 \/ ~Act(cfg, L[p - 1], s))
ActdC(cfg, made, e, s) ==
  /\ Act(cfg, e, s)
  /\ (e.id <= 1 \/ e.id > Len(made) + 1
      \/ made[e.id - 1].mt[TIdx(cfg, s)] # e.mt[TIdx(cfg, s)])
ProcFirst(made, e) == e.id <= 1 \/ (e.id <= Len(made) /\ made[e.id].pf)
ActdP(cfg, made, e, s) ==
  /\ Act(cfg, e, s)
  /\ (ProcFirst(made, e) \/ e.id > Len(made) + 1
      \/ made[e.id - 1].mt[TIdx(cfg, s)] # e.mt[TIdx(cfg, s)])
DeactA(cfg, e, s) == ~Act(cfg, e, s) /\ e.mtd[TIdx(cfg, s)] > 0
DeactB(cfg, L, p, s) == ~Act(cfg, L[p], s) /\ (p = 1 \/ Act(cfg, L[p - 1], s))
DeactC(cfg, made, e, s) ==
  /\ ~Act(cfg, e, s)
  /\ e.id > 1 /\ e.id <= Len(made) + 1
  /\ made[e.id - 1].mt[TIdx(cfg, s)] # e.mt[TIdx(cfg, s)]

DeactP(cfg, made, e, s) == DeactC(cfg, made, e, s) /\ ~ProcFirst(made, e)

InRange(v, q) == q.lo <= v /\ v <= q.hi

(* human-time ranges are expressed by the harness as "from right before        *)
(* mutation lo to right before mutation hi"; mi = the mutation that made e     *)
TimeOk(cfg, e, q) ==
  CASE q.tk = "none"  -> TRUE
    [] q.tk = "sum"   -> InRange(e.sum, q)
    [] q.tk = "tsum"  -> InRange(e.tsum, q)
    [] q.tk = "diff"  -> InRange(e.dsum, q)
    [] q.tk = "tdiff" -> InRange(e.tdsum, q)
    [] q.tk = "rdiff" -> InRange(e.rdsum, q)
    [] q.tk = "mtick" -> InRange(e.machTick, q)
    [] q.tk = "htime" -> q.lo <= e.mi /\ e.mi < q.hi
    [] q.tk = "mtime" -> InRange(e.mt[TIdx(cfg, q.mts[1])], q)

All(list, P(_)) == \A i \in 1..Len(list) : P(list[i])

(* definitely satisfies q (under every reading)                                *)
CondIn(cfg, made, L, p, q) ==
  LET e == L[p] IN
  /\ All(q.act, LAMBDA s : Act(cfg, e, s))
  /\ All(q.inact, LAMBDA s : ~Act(cfg, e, s))
  /\ All(q.actd, LAMBDA s : ActdA(cfg, e, s) /\ ActdB(cfg, L, p, s) /\ ActdC(cfg, made, e, s)
                            /\ ActdP(cfg, made, e, s))
  /\ All(q.deact, LAMBDA s : DeactA(cfg, e, s) /\ DeactB(cfg, L, p, s) /\ DeactC(cfg, made, e, s)
                             /\ DeactP(cfg, made, e, s))
  /\ TimeOk(cfg, e, q)

(* satisfies q under at least one reading                                      *)
CondMay(cfg, made, L, p, q) ==
  LET e == L[p] IN
  /\ All(q.act, LAMBDA s : Act(cfg, e, s))
  /\ All(q.inact, LAMBDA s : ~Act(cfg, e, s))
  /\ All(q.actd, LAMBDA s : ActdA(cfg, e, s) \/ ActdB(cfg, L, p, s) \/ ActdC(cfg, made, e, s)
                            \/ ActdP(cfg, made, e, s))
  /\ All(q.deact, LAMBDA s : DeactA(cfg, e, s) \/ DeactB(cfg, L, p, s) \/ DeactC(cfg, made, e, s)
                             \/ DeactP(cfg, made, e, s))
  /\ TimeOk(cfg, e, q)

(* which condition kinds position p definitely fails                           *)
FailKinds(cfg, made, L, p, q) ==
  LET e == L[p] IN
  UNION {
    IF All(q.act, LAMBDA s : Act(cfg, e, s)) THEN {} ELSE {"Active"},
    IF All(q.inact, LAMBDA s : ~Act(cfg, e, s)) THEN {} ELSE {"Inactive"},
    IF All(q.actd, LAMBDA s : ActdA(cfg, e, s) \/ ActdB(cfg, L, p, s) \/ ActdC(cfg, made, e, s)
                              \/ ActdP(cfg, made, e, s))
      THEN {} ELSE {"Activated"},
    IF All(q.deact, LAMBDA s : DeactA(cfg, e, s) \/ DeactB(cfg, L, p, s) \/ DeactC(cfg, made, e, s)
                               \/ DeactP(cfg, made, e, s))
      THEN {} ELSE {"Deactivated"},
    IF TimeOk(cfg, e, q) THEN {} ELSE {q.tk}}

IdsOf(L, P) == {L[p].id : p \in P}
PosOf(L, id) == IF \E p \in 1..Len(L) : L[p].id = id
                THEN CHOOSE p \in 1..Len(L) : L[p].id = id ELSE 0

(* newest first = descending position                                          *)
RECURSIVE DescIds(_, _)
DescIds(L, P) ==
  IF P = {} THEN <<>>
  ELSE LET m == CHOOSE x \in P : \A y \in P : y <= x
       IN <<L[m].id>> \o DescIds(L, P \ {m})

(* FindLatest(q) == the newest-first filter of the log by the conjunction of   *)
(* q's conditions, cut at the limit                                            *)
FindSpec(cfg, made, L, q) ==
  LET P == {p \in 1..Len(L) : CondIn(cfg, made, L, p, q)}
      d == DescIds(L, P)
  IN  IF q.limit > 0 THEN Take(d, q.limit) ELSE d

---------------------------------------------------------------------------
(* THE PROPERTY (C17), evaluated on what the real backends returned            *)

(* QueryExact: inclusion AND exclusion                                         *)
QueryExact(cfg, made, L, q, res) ==
  LET In  == {p \in 1..Len(L) : CondIn(cfg, made, L, p, q)}
      May == {p \in 1..Len(L) : CondMay(cfg, made, L, p, q)}
  IN  IF q.limit = 0
      THEN IdsOf(L, In) \subseteq SSet(res) /\ SSet(res) \subseteq IdsOf(L, May)
      ELSE \E M \in SUBSET (May \ In) : res = Take(DescIds(L, In \cup M), q.limit)

NewestFirst(res) == \A i, j \in 1..Len(res) : i < j => res[i] > res[j]

(* the *Between helpers: FindLatest(limit 1) found something                   *)
BetweenExact(cfg, made, L, q, bres) ==
  LET In  == {p \in 1..Len(L) : CondIn(cfg, made, L, p, q)}
      May == {p \in 1..Len(L) : CondMay(cfg, made, L, p, q)}
  IN  (In # {} => bres) /\ (May = {} => ~bres)

(* Bounded: exactly for the in-process slice, PBound for the others            *)
BoundedExact(max, nmade, ids) ==
  /\ Len(ids) = MinOf(max, nmade)
  /\ \A i \in 1..Len(ids) : ids[i] = nmade - Len(ids) + i
BoundedLoose(max, batch, ids) == Len(ids) <= PBound(max, batch)
(* ... across process restarts.  The rotation threshold counts the records     *)
(* THIS process has written (Saved / SavedGc start from 0 in a re-opened        *)
(* memory), so the weaker reading for a store that was re-opened is: until the  *)
(* process has rotated once it adds at most PBound records to what it found     *)
(* (`opened` records), from its first rotation on the absolute bound holds.     *)
(* On a store that was never re-opened (opened = 0) this is BoundedLoose.       *)
BoundedLooseR(max, batch, ids, opened, rotated) ==
  Len(ids) <= PBound(max, batch) + (IF rotated THEN 0 ELSE opened)
(* A rotation that ran to completion rotates out EVERYTHING but the newest     *)
(* MaxRecords - whichever process wrote the old records.  `nextBefore` = the   *)
(* NextId at a moment before the rotation started, when no write was in        *)
(* flight.  The rotation knew a newest id >= nextBefore and left nothing       *)
(* older than the MaxRecords below it; a write-behind batch that lands AFTER   *)
(* the rotation (both are forked by the same TransitionEnd) brings records     *)
(* that were still queued at that moment, i.e. the `batch - 1` ids below       *)
(* nextBefore at most (the weaker reading, as the 2*batch of PBound).          *)
RotationTrims(max, batch, nextBefore, ids) ==
  \A i \in 1..Len(ids) : ids[i] > nextBefore - MaxOf(max, batch)
(* rotation removes OLD records only: the newest min(Max, n) written survive   *)
KeepsNewest(max, nwritten, ids) ==
  \A k \in (MaxOf(1, nwritten - max + 1))..nwritten : SHas(ids, k)
(* in execution order, no duplicate                                            *)
InOrder(ids) == \A i, j \in 1..Len(ids) : i < j => ids[i] < ids[j]

(* A machine rebuilt with Import from an Export                                *)
(* x.ta: the ticks of the rebuilt machine read BY NAME (in the exporter's      *)
(* order), x.tapos: its positional Time() - Import adopts the exported name    *)
(* order, so both equal the exported time whatever order the importing        *)
(* machine had its names in before (same, reversed, never verified)            *)
ImportRestores(x) ==
  /\ x.err = ""
  /\ x.ta = x.tb
  /\ x.tapos = x.tb
  /\ SSet(x.aa) = SSet(x.ab)
  /\ SSet(x.aa) = {i \in 1..Len(x.ta) : IsActive(x.ta[i])}
  /\ x.mta = x.mtb + 1

---------------------------------------------------------------------------
(* FindLatest as the code is (conformance / prediction)                        *)

(* the records a K/V FindLatest walks: from nextId-1 downwards while present   *)
RECURSIVE KvRun(_, _)
KvRun(L, id) ==
  IF id < 1 \/ PosOf(L, id) = 0 THEN <<>> ELSE KvRun(L, id - 1) \o <<L[PosOf(L, id)]>>

ImplVisible(b, L, nextId) ==
  IF b \in KV
  THEN LET run == KvRun(L, nextId - 1)
       IN  IF SkipOldest /\ Len(run) >= 2 THEN Tail(run) ELSE run
  ELSE L

ImplCond(b, cfg, made, L, V, p, q) ==
  LET e == V[p]
      lp == PosOf(L, e.id)   \* `older` is the stored predecessor
  IN
  /\ IF b = "gorm"
     THEN /\ All(q.act, LAMBDA s : Act(cfg, e, s))
          /\ All(q.inact, LAMBDA s : ~Act(cfg, e, s))
          \* m.lastRec: the previous record THIS memory object created
          /\ All(q.actd, LAMBDA s : ActdP(cfg, made, e, s))
          /\ All(q.deact, LAMBDA s : DeactP(cfg, made, e, s))
     ELSE IF FilterNoop THEN TRUE
     ELSE /\ All(q.act, LAMBDA s : Act(cfg, e, s))
          /\ All(q.inact, LAMBDA s : ~Act(cfg, e, s))
          /\ All(q.actd, LAMBDA s : ActdB(cfg, L, lp, s))
          /\ All(q.deact, LAMBDA s : DeactB(cfg, L, lp, s))
  /\ IF b = "gorm" /\ GormBadColumns /\ q.tk = "tdiff" THEN FALSE
     ELSE IF b \in KV /\ KvMTimeMachIdx /\ q.tk = "mtime"
       \* Time.Filter skips an index beyond the slice: the tick reads as 0
       THEN InRange(IF q.mts[1] <= Len(e.mt) THEN e.mt[q.mts[1]] ELSE 0, q)
     ELSE TimeOk(cfg, e, q)

QStates(q) == SSet(q.act) \cup SSet(q.actd) \cup SSet(q.inact) \cup SSet(q.deact) \cup SSet(q.mts)

FindImpl(b, cfg, made, L, nextId, q) ==
  LET V == ImplVisible(b, L, nextId)
      P == {p \in 1..Len(V) : ImplCond(b, cfg, made, L, V, p, q)}
      d == DescIds(V, P)
  IN  IF ~(QStates(q) \subseteq SSet(cfg.qtracked))
        THEN [status |-> "err", errk |-> "not-tracked", res |-> <<>>]
      ELSE IF b = "gorm" /\ GormBadColumns /\ q.tk \in {"diff", "rdiff", "mtime"}
        THEN [status |-> "err", errk |-> "sql-no-such-column", res |-> <<>>]
      ELSE IF b # "gorm" /\ InactiveMachIdx /\ V # <<>>
              /\ \E i \in 1..Len(q.inact) : q.inact[i] > Len(cfg.tracked)
        THEN [status |-> "panic", errk |-> "", res |-> <<>>]
      ELSE [status |-> "ok", errk |-> "",
            res |-> IF q.limit > 0 THEN Take(d, q.limit) ELSE d]
=============================================================================
