package dbgdrv

import (
	"context"
	"fmt"
	"math/rand"
	"net"
	"net/rpc"
	"os"
	"runtime"
	"sync"
	"sync/atomic"
	"time"

	am "github.com/pancsta/asyncmachine-go/pkg/machine"
	"github.com/pancsta/asyncmachine-go/pkg/telemetry/dbg"

	"verifharness/gen"
	"verifharness/rec"
	"verifharness/seqdrv"
)

// ---------------------------------------------------------------------------
// capture server: receives exactly what pkg/telemetry/dbg puts on the wire

// Capture is a loopback net/rpc server speaking the am-dbg protocol
// ("RPCServer.DbgMsgSchema", "RPCServer.DbgMsgTx").  It stores the decoded
// messages per machine id, in arrival order.
type Capture struct {
	mu      sync.Mutex
	ln      net.Listener
	Schemas map[string][]*dbg.DbgMsgStruct
	Msgs    map[string][]*dbg.DbgMsgTx
}

// RPCServer is the receiver type; its name is part of the protocol.
type RPCServer struct{ c *Capture }

func (r *RPCServer) DbgMsgSchema(msg *dbg.DbgMsgStruct, _ *string) error {
	r.c.mu.Lock()
	defer r.c.mu.Unlock()
	r.c.Schemas[msg.ID] = append(r.c.Schemas[msg.ID], msg)
	return nil
}

func (r *RPCServer) DbgMsgTx(msg *dbg.DbgMsgTx, _ *string) error {
	r.c.mu.Lock()
	defer r.c.mu.Unlock()
	r.c.Msgs[msg.MachineID] = append(r.c.Msgs[msg.MachineID], msg)
	return nil
}

func NewCapture() (*Capture, string, error) {
	ln, err := net.Listen("tcp4", "127.0.0.1:0")
	if err != nil {
		return nil, "", err
	}
	c := &Capture{ln: ln, Schemas: map[string][]*dbg.DbgMsgStruct{}, Msgs: map[string][]*dbg.DbgMsgTx{}}
	go func() {
		for {
			conn, err := ln.Accept()
			if err != nil {
				return
			}
			srv := rpc.NewServer()
			_ = srv.RegisterName("RPCServer", &RPCServer{c: c})
			go srv.ServeConn(conn)
		}
	}()
	return c, ln.Addr().String(), nil
}

func (c *Capture) Close() { _ = c.ln.Close() }

func (c *Capture) Count(id string) (int, int) {
	c.mu.Lock()
	defer c.mu.Unlock()
	return len(c.Schemas[id]), len(c.Msgs[id])
}

func (c *Capture) Take(id string) ([]*dbg.DbgMsgStruct, []*dbg.DbgMsgTx) {
	c.mu.Lock()
	defer c.mu.Unlock()
	return c.Schemas[id], c.Msgs[id]
}

// ---------------------------------------------------------------------------
// source machine

// SrcTx is what the recording tracer saw at the N-th TransitionEnd.
type SrcTx struct {
	Check    bool     `json:"check"`
	Auto     bool     `json:"auto"`
	Accepted bool     `json:"acc"`
	Mtime    []uint64 `json:"mtime"`
	Active   []int    `json:"active"`
	Type     string   `json:"type"`
	Called   []int    `json:"called"`
}

// countTracer counts MutationQueued callbacks the dbg tracer will forward.
type countTracer struct {
	*am.TracerNoOp
	queued atomic.Int64
}

func (t *countTracer) MutationQueued(m am.Api, mut *am.Mutation) {
	if mut.IsCheck && !m.SemLogger().IsCan() {
		return
	}
	t.queued.Add(1)
}

// SourceCase is a generated machine plus its call history.
type SourceCase struct {
	Id    string
	Case  *gen.Case
	Can   bool // log Can* (check) transitions
	Steps bool // log transition steps (touched states)
}

// GenSource generates schema + handlers + calls.  The schema may contain an
// "Err*" state (error index), Multi and Auto states; the calls contain
// vetoes (canceled transitions), nested mutations from handlers (queued
// records), checks and Exception.
func GenSource(r *rand.Rand, id string, ncalls int) *SourceCase {
	n := 2 + r.Intn(3)
	names, sch := gen.RandSchema(r, n, 0.25, true, false)
	if r.Float64() < 0.6 {
		// rename the last state to an Err-prefixed one
		old := names[len(names)-1]
		nw := "ErrNet"
		ren := func(l am.S) am.S {
			out := am.S{}
			for _, x := range l {
				if x == old {
					x = nw
				}
				out = append(out, x)
			}
			return out
		}
		sch2 := am.Schema{}
		for k, st := range sch {
			st.Require, st.Add, st.Remove, st.After = ren(st.Require), ren(st.Add), ren(st.Remove), ren(st.After)
			if k == old {
				k = nw
				// error states must be activatable on their own
				st.Require = nil
			}
			sch2[k] = st
		}
		sch = sch2
		names = ren(names)
	}
	c := &gen.Case{Names: names, Schema: sch, On: true, Label: id}
	idx := gen.Index(c)
	c.Binds = []rec.Binding{gen.RandBinding(r, idx, 0.7)}
	c.Calls = gen.RandCalls(r, c, ncalls, 0.35, 2)
	// nested mutations issued from handlers -> queued records
	for i := range c.Calls {
		if r.Float64() < 0.35 && len(c.Binds[0].Fin)+len(c.Binds[0].Neg) > 0 {
			var h rec.HName
			if len(c.Binds[0].Fin) > 0 && r.Float64() < 0.6 {
				h = c.Binds[0].Fin[r.Intn(len(c.Binds[0].Fin))]
			} else if len(c.Binds[0].Neg) > 0 {
				h = c.Binds[0].Neg[r.Intn(len(c.Binds[0].Neg))]
			} else {
				continue
			}
			typ := []string{"add", "remove", "set"}[r.Intn(3)]
			c.Calls[i].Nest = append(c.Calls[i].Nest, gen.NestAt{At: []any{1, h}, Type: typ,
				Called: am.S{names[r.Intn(len(names))]}})
		}
	}
	return &SourceCase{Id: id, Case: c, Can: r.Float64() < 0.75, Steps: r.Float64() < 0.8}
}

// SourceRun is the outcome of running one source machine against addr.
type SourceRun struct {
	Index  am.S
	Src    []SrcTx
	Queued int // MutationQueued callbacks forwarded
	Sent   int // expected number of DbgMsgTx messages
	mach   *am.Machine
}

func idxs(index am.S, states am.S) []int {
	out := []int{}
	for i, n := range index {
		for _, s := range states {
			if s == n {
				out = append(out, i)
			}
		}
	}
	return out
}

// RunSource builds the machine (recording tracer + dbg tracer dialing addr),
// performs the calls and returns what the recording tracer saw.  The machine
// stays alive (connection open) until Dispose is called.
func RunSource(sc *SourceCase, addr string) (*SourceRun, error) {
	c := sc.Case
	index := gen.Index(c)
	r := rec.NewRecorder()
	ct := &countTracer{TracerNoOp: &am.TracerNoOp{Id: "verif-cnt"}}
	m := am.New(context.Background(), c.Schema, &am.Opts{
		Id:             sc.Id,
		Tracers:        []am.Tracer{r, ct},
		HandlerTimeout: 5 * time.Second,
	})
	r.Mach = m
	if err := m.VerifyStates(index); err != nil {
		return nil, err
	}
	for i, b := range c.Binds {
		if err := r.Bind(m, i+1, b); err != nil {
			return nil, err
		}
	}
	m.SemLogger().EnableCan(sc.Can)
	m.SemLogger().EnableSteps(sc.Steps)
	go func() {
		for range m.ErrInternal() {
		}
	}()
	if err := dbg.TransitionsToDbg(m, addr); err != nil {
		return nil, err
	}
	run := &SourceRun{Index: index, mach: m}
	// nested mutations are issued ONCE per call from the recorder's handler hook
	// (rec's own Nest script re-fires on every invocation: a FooState handler
	// adding a Multi Foo would never terminate)
	var nmu sync.Mutex
	once := map[string][]gen.NestAt{}
	r.OnHandler = func(b int, h rec.HName, e *am.Event) {
		nmu.Lock()
		k := rec.SKey(b, h)
		ns := once[k]
		delete(once, k)
		nmu.Unlock()
		for _, n := range ns {
			switch n.Type {
			case "add":
				e.Machine().Add(n.Called, nil)
			case "remove":
				e.Machine().Remove(n.Called, nil)
			case "set":
				e.Machine().Set(n.Called, nil)
			}
		}
	}
	for i := range c.Calls {
		call := &c.Calls[i]
		nmu.Lock()
		once = map[string][]gen.NestAt{}
		for _, n := range call.Nest {
			k := rec.SKey(n.At[0].(int), n.At[1].(rec.HName))
			once[k] = append(once[k], n)
		}
		nmu.Unlock()
		r.SetScript(scriptOf(call))
		res, pan := seqdrv.DoCall(m, call)
		if os.Getenv("DBGDRV_DUMP") != "" && res == "hang" {
			buf := make([]byte, 1<<20)
			buf = buf[:runtime.Stack(buf, true)]
			os.Stderr.Write(buf)
		}
		if pan != "" || res == "hang" {
			return nil, fmt.Errorf("source machine call %d: %s %s", i, res, pan)
		}
	}
	for _, l := range r.Take() {
		tx, ok := l.(*rec.TxJ)
		if !ok {
			continue
		}
		if tx.Mut.Check && !sc.Can {
			continue // the dbg tracer does not forward checks without IsCan
		}
		run.Src = append(run.Src, SrcTx{Check: tx.Mut.Check, Auto: tx.Mut.Auto, Accepted: tx.Accepted,
			Mtime: append([]uint64{}, tx.Mtime...), Active: idxs(index, tx.After),
			Type: tx.Mut.Type, Called: idxs(index, tx.Mut.Called)})
	}
	run.Queued = int(ct.queued.Load())
	run.Sent = len(run.Src) + run.Queued
	return run, nil
}

func (s *SourceRun) Dispose() {
	if s.mach != nil {
		s.mach.Dispose()
	}
}

// scriptOf mirrors seqdrv's unexported helper (vetoes only; nesting is done by RunSource).
func scriptOf(call *gen.Call) *rec.Script {
	sc := &rec.Script{Veto: map[string]bool{}, Panic: map[string]any{},
		Nest: map[string][]rec.NestedMut{}, Stall: map[string]chan struct{}{}}
	for _, v := range call.Veto {
		sc.Veto[rec.SKey(v[0].(int), v[1].(rec.HName))] = true
	}
	return sc
}
