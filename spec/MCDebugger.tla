----------------------------- MODULE MCDebugger -----------------------------
(* Bounded models of Debugger.tla.                                           *)
(*                                                                            *)
(* Model = "derive": streams of records over NStates states (the last one is  *)
(*   Exception) built by Ingest steps; per-state tick deltas from Deltas,     *)
(*   queue tick advancing or not, steps touching the changed states.  With    *)
(*   NonMono the stream may also go BACK in queue tick / machine time (what a *)
(*   real machine never does): used only to show that the look-up formulas    *)
(*   really depend on monotonicity.  Invariants: the transcription of         *)
(*   hParseMsg / GetTransitionStates equals the declarative derivation, the   *)
(*   transcribed binary searches equal the linear scans.                      *)
(*                                                                            *)
(* Model = "cursor": streams of record KINDS (transition, canceled, empty,    *)
(*   check, queued, queued-auto, auto accepted / canceled, health) ingested   *)
(*   one by one, interleaved with at most MaxCmds commands (Fwd/Back 1..2,    *)
(*   ScrollToTx, filter toggles, tail toggle) from every reachable cursor     *)
(*   position.  Invariants: FilterSound, FwdBackIdentity, cursor range.       *)
(*   With Emit the explored command sequences are printed (B2: the Go driver  *)
(*   replays them on the real debugger).  The tool "scrollid" adds jumps by   *)
(*   transition id for EVERY id of the stream, also the ones whose record has *)
(*   not been ingested yet (refused, asked again after the ingestion).        *)
(*                                                                            *)
(* Model = "lookup": a store that GROWS between look-ups: Ingest steps        *)
(*   interleaved with at most MaxCmds TxIndex look-ups of every id (held,     *)
(*   still to come, never coming) and ClearCache; the per-client cache is a   *)
(*   variable.  Invariants: every answer equals the scan over the ids held at *)
(*   that moment, every cached answer stays the scan's answer, the stateless  *)
(*   look-ups equal their scans after every growth.  With CacheMisses (not    *)
(*   the code) the first formula must FAIL (sensitivity).                     *)
(*                                                                            *)
(* Model = "filter": streams of records of EVERY kind -- auto x queued x      *)
(*   canceled x check, plus empty and health transitions; a non-queued auto   *)
(*   record executes the latest queued auto mutation (accepted or canceled),  *)
(*   a non-queued manual one the pending queued manual mutation.  Invariant:  *)
(*   for EVERY set of filter states the transcription of hFilterTx (the       *)
(*   else-if chain followed by independent ifs) shows a record iff no active  *)
(*   filter names one of its features, judged on every prefix of the stream.  *)
EXTENDS Debugger, Json

CONSTANTS Model, NStates, MaxRecs, Deltas, NonMono, MaxCmds, Kinds, Tools, Emit, InitF, Attack,
          ShardMod, ShardIdx

VARIABLES recs, v, ncmd, hist, ok,
          txc,    \* the client's txCache: a set of <<id, index>> pairs
          lkok    \* verdict of the last transition-id look-up

mvars == <<recs, v, ncmd, hist, ok, txc, lkok>>

(* constant values (a .cfg cannot hold them) *)
D01 == {0, 1}
D012 == {0, 1, 2}
KindsAll == {"tx", "cx", "em", "ck", "qu", "qa", "aa", "ac", "he"}
KindsCore == {"tx", "cx", "ck", "qa", "ac", "he"}
KindsMin == {"tx", "ck", "qa", "ac"}
KindsCk == {"tx", "ck"}
ToolsCk == {"health", "checks"}
ToolsAll == {"canceled", "queued", "auto", "empty", "health", "checks", "outgroup", "tail"}
ToolsCore == {"auto", "health", "checks", "canceled", "tail"}
ToolsMin == {"auto", "health", "checks"}
(* the filters that interact on queued / auto / canceled records *)
KindsQueue == {"tx", "qu", "qa", "aa", "ac"}
ToolsQueue == {"auto", "queued", "canceled"}
(* ... together with jumps by transition id on the growing store *)
ToolsQueueId == {"auto", "queued", "canceled", "scrollid"}
(* jumps by transition id on a growing store *)
KindsId == {"tx", "ck"}
ToolsId == {"checks", "scrollid"}
NoKinds == {}

(* --------------------------------------------------------------------- *)
(* derive model                                                            *)

DSch == [n |-> NStates, err |-> {NStates - 1}, health |-> {}]

Last(s) == s[Len(s)]

DeltaVecs == [0..(NStates - 1) -> Deltas]

DRec(prev, dv, qstep, reset) ==
  LET pc == IF prev = <<>> THEN [i \in 1..NStates |-> 0] ELSE Last(prev).clocks
      c == IF reset THEN [i \in 1..NStates |-> 0] ELSE [i \in 1..NStates |-> pc[i] + dv[i - 1]]
      pq == IF prev = <<>> THEN 1 ELSE Last(prev).qt
      ch == {i \in 0..(NStates - 1) : dv[i] > 0}
      \* steps: every changed state as a source; the first changed one also points to state 0
      st == [k \in 1..Cardinality(ch) |->
               LET s == CHOOSE x \in ch : Cardinality({y \in ch : y < x}) = k - 1
               IN  <<s, IF k = 1 THEN 0 ELSE -1>>]
  IN  [id |-> Len(prev), clocks |-> c, qt |-> pq + qstep, mqt |-> 0, tok |-> 0, queued |-> FALSE,
       auto |-> FALSE, check |-> FALSE, acc |-> TRUE, called |-> <<0>>, steps |-> st, ht |-> Len(prev)]

DeriveNext ==
  /\ Len(recs) < MaxRecs
  /\ \E dv \in DeltaVecs, qstep \in (IF NonMono THEN {-1, 0, 1} ELSE {0, 1}),
        reset \in (IF NonMono THEN BOOLEAN ELSE {FALSE}) :
        /\ (IF Len(recs) = 0 THEN TRUE ELSE Last(recs).qt + qstep >= 0)
        /\ recs' = Append(recs, DRec(recs, dv, qstep, reset))
  /\ UNCHANGED <<v, ncmd, hist, ok, txc, lkok>>

Ing == Ingested(DSch, recs)
Qts == [i \in 1..Len(recs) |-> recs[i].qt]
Sums == [i \in 1..Len(recs) |-> Ing.parsed[i].sum]
Ids == [i \in 1..Len(recs) |-> recs[i].id]

(* the transcription of hParseMsg agrees with the declarative derivation *)
Inv_DerivedConsistent ==
  Model = "derive" => DerivedConsistent(DSch, recs, Ing.parsed, Ing.errors)

(* binary searches = linear scans, given what a machine guarantees *)
LookupEqualsScanOn(qts, sums, errors) ==
  /\ \A q \in 0..(IF qts = <<>> THEN 1 ELSE Max(DRange(qts)) + 1) :
        CodeTxAtQueueTick(qts, q) = ScanTxAtQueueTick(qts, q)
  /\ \A s \in 0..(IF sums = <<>> THEN 1 ELSE Max(DRange(sums)) + 1) :
        CodeTxAtMachTime(sums, s) = ScanTxAtMachTime(sums, s)
  /\ \A tx \in 0..Len(qts), d \in 1..(Len(qts) + 1) :
        CodeHadErrSinceTx(errors, tx, d) = ScanHadErrSinceTx(errors, tx, d)

Inv_LookupEqualsScan ==
  Model \in {"derive", "lookup"} =>
     ((Monotone(Qts) /\ Monotone(Sums)) => LookupEqualsScanOn(Qts, Sums, Ing.errors))

(* expected to be VIOLATED with NonMono: the look-ups are scans only on monotone input *)
Inv_LookupEqualsScanAlways ==
  Model = "derive" => LookupEqualsScanOn(Qts, Sums, Ing.errors)

(* a real stream is monotone; the model builds only such streams unless NonMono *)
Inv_ModelMonotone ==
  (Model = "derive" /\ ~NonMono) => (Monotone(Qts) /\ Monotone(Sums) /\ TicksMonotone(recs))

(* --------------------------------------------------------------------- *)
(* lookup model: the store grows between two look-ups of the same key      *)

LookupNext ==
  \/ /\ Len(recs) < MaxRecs
     /\ \E d \in {0, 1}, qstep \in {0, 1} :
          recs' = Append(recs, DRec(recs, [i \in 0..(NStates - 1) |-> IF i = 0 THEN d ELSE 0], qstep, FALSE))
     /\ UNCHANGED <<v, ncmd, hist, ok, txc, lkok>>
  \/ /\ ncmd < MaxCmds
     \* ids 0..Len(recs)-1 are held, the ones up to MaxRecs-1 may still come, MaxRecs never does
     /\ \E id \in 0..MaxRecs :
          LET r == CodeTxIndex(txc, Ids, id)
          IN  /\ txc' = r.cache
              /\ lkok' = (r.res = ScanTxIndex(Ids, id))
     /\ ncmd' = ncmd + 1
     /\ UNCHANGED <<recs, v, hist, ok>>
  \/ \* Client.ClearCache (the GC handler)
     /\ txc # {}
     /\ txc' = {}
     /\ UNCHANGED <<recs, v, ncmd, hist, ok, lkok>>

Inv_TxIndexEqualsScan == lkok
Inv_CacheSound == CacheSound(txc, IF Model = "cursor" THEN [i \in 1..Len(recs) |-> recs[i].id] ELSE Ids)

(* --------------------------------------------------------------------- *)
(* cursor model                                                            *)

CSch == [n |-> 4, err |-> {3}, health |-> {2}]

(* filters after Start: CLI defaults (--filter-group) / without the group filter *)
InitFDefault == {"FilterAutoCanceledTx", "FilterChecks", "FilterHealth", "FilterOutGroup"}
InitFNoGroup == {"FilterAutoCanceledTx", "FilterChecks", "FilterHealth"}
(* reachable by toggles from the defaults; used as a start to keep runs short *)
InitFChecks == {"FilterChecks", "FilterHealth"}

QtNow(rs) == IF rs = <<>> THEN 1 ELSE Last(rs).qt
NTok(rs) == Cardinality({i \in 1..Len(rs) : rs[i].queued /\ rs[i].auto})

KRec(kind, rs) ==
  LET b == [id |-> Len(rs), kind |-> kind, queued |-> FALSE, auto |-> FALSE, check |-> FALSE,
            acc |-> TRUE, tok |-> 0, mqt |-> 0, qt |-> QtNow(rs), called |-> <<0>>, diff |-> 0]
  IN  CASE kind = "tx" -> [b EXCEPT !.qt = QtNow(rs) + 1, !.diff = 1]
        [] kind = "cx" -> [b EXCEPT !.qt = QtNow(rs) + 1, !.acc = FALSE]
        [] kind = "em" -> [b EXCEPT !.qt = QtNow(rs) + 1]
        [] kind = "ck" -> [b EXCEPT !.check = TRUE]
        [] kind = "qu" -> [b EXCEPT !.queued = TRUE, !.mqt = QtNow(rs) + 1]
        [] kind = "qa" -> [b EXCEPT !.queued = TRUE, !.auto = TRUE, !.tok = NTok(rs) + 1, !.called = <<1>>]
        [] kind = "aa" -> [b EXCEPT !.auto = TRUE, !.tok = NTok(rs), !.diff = 1, !.called = <<1>>]
        [] kind = "ac" -> [b EXCEPT !.auto = TRUE, !.tok = NTok(rs), !.acc = FALSE, !.called = <<1>>]
        [] kind = "he" -> [b EXCEPT !.qt = QtNow(rs) + 1, !.diff = 1, !.called = <<2>>]

Diffs(rs) == [i \in 1..Len(rs) |-> rs[i].diff]
CIds(rs) == [i \in 1..Len(rs) |-> rs[i].id]

(* --------------------------------------------------------------------- *)
(* filter model: every kind of record x every set of filter states         *)

(* a record from its flags; var: "" / "em" (changes no tick) / "he" (calls   *)
(* Healthcheck).  Linking as a machine does it: a queued auto mutation takes  *)
(* a new token, a non-queued auto record carries the latest token (= executes *)
(* it); a queued manual mutation names the next queue tick, a non-queued      *)
(* manual transition (no check) advances the queue tick (= executes it).      *)
FRec(f, rs) ==
  LET manual == ~f.queued /\ ~f.auto /\ ~f.check
  IN  [id |-> Len(rs), kind |-> "f", queued |-> f.queued, auto |-> f.auto, check |-> f.check,
       acc |-> f.acc,
       tok |-> IF f.auto THEN (IF f.queued THEN NTok(rs) + 1 ELSE NTok(rs)) ELSE 0,
       mqt |-> IF f.queued /\ ~f.auto THEN QtNow(rs) + 1 ELSE 0,
       qt |-> IF manual THEN QtNow(rs) + 1 ELSE QtNow(rs),
       called |-> IF f.var = "he" THEN <<2>> ELSE IF f.auto THEN <<1>> ELSE <<0>>,
       diff |-> IF f.acc /\ ~f.queued /\ ~f.check /\ f.var # "em" THEN 1 ELSE 0]
FFlags ==
  {[auto |-> a, queued |-> q, acc |-> c, check |-> k, var |-> ""] : a, q, c, k \in BOOLEAN}
  \cup {[auto |-> FALSE, queued |-> FALSE, acc |-> TRUE, check |-> FALSE, var |-> x] : x \in {"em", "he"}}

FilterNext ==
  /\ Len(recs) < MaxRecs
  /\ \E f \in FFlags : recs' = Append(recs, FRec(f, recs))
  /\ UNCHANGED <<v, ncmd, hist, ok, txc, lkok>>

(* the else-if chain + independent ifs = "no active filter names a feature of *)
(* the record", for every set of filter states, every record, every prefix     *)
Inv_FilterTxEqualsPass ==
  Model = "filter" =>
     \A F \in SUBSET FilterNames : \A idx \in 0..(Len(recs) - 1) : \A upto \in (idx + 1)..Len(recs) :
        CodeFilterTx(F, CSch, recs, Diffs(recs), upto, idx) = FilterPass(F, CSch, recs, Diffs(recs), upto, idx)
(* ... and the re-filtered view is sound and complete for every set of filters *)
Inv_RefilteredExact ==
  Model = "filter" =>
     \A F \in SUBSET FilterNames :
        LET fl == Refiltered(F, CSch, recs, Diffs(recs))
            w == [cursor |-> 0, tail |-> FALSE, F |-> F, filtered |-> fl]
        IN  /\ Ascending(fl)
            /\ FilteredSound(w, CSch, recs, Diffs(recs))
            /\ FilteredSoundPrefix(w, CSch, recs, Diffs(recs))
            /\ \A i \in 0..(Len(recs) - 1) :
                  FilterPass(F, CSch, recs, Diffs(recs), Len(recs), i) => DHas(fl, i)

Cmds ==
  {[op |-> "fwd", k |-> k] : k \in 1..2} \cup {[op |-> "back", k |-> k] : k \in 1..2}
  \cup {[op |-> "scroll", k |-> k] : k \in 1..MaxRecs}
  \cup {[op |-> "toggle", tool |-> t] : t \in Tools \ {"tail", "scrollid"}}
  \cup (IF "tail" \in Tools THEN {[op |-> "tail"]} ELSE {})
  \* jump by the id of the k-th record of the stream, ingested already or not
  \cup (IF "scrollid" \in Tools THEN {[op |-> "scrollid", k |-> k] : k \in 1..MaxRecs} ELSE {})

CmdEnabled(c) ==
  LET n == Len(recs)
  IN  CASE c.op = "fwd" -> FwdEnabled(v, n, c.k)
        [] c.op = "back" -> BackEnabled(v, n, c.k)
        [] c.op = "scroll" -> ScrollEnabled(v, n, c.k)
        [] OTHER -> TRUE

CmdApply(c) ==
  LET n == Len(recs)
  IN  CASE c.op = "fwd" -> DoFwd(v, n, c.k)
        [] c.op = "back" -> DoBack(v, n, c.k)
        [] c.op = "scroll" -> DoScroll(v, n, c.k)
        [] c.op = "tail" -> DoTail(v, n)
        [] c.op = "toggle" -> DoToggle(v, CSch, recs, Diffs(recs), c.tool)
        \* a refused jump (the id is not held) is a step too: TxIndex was asked
        [] c.op = "scrollid" -> DoScrollId(v, n, txc, CIds(recs), c.k - 1).v

ViewJ(w) == [cursor |-> w.cursor, tail |-> w.tail, filters |-> w.F, filtered |-> w.filtered]

CursorStep ==
  \/ /\ Len(recs) < MaxRecs
     /\ \E kind \in Kinds :
          LET r2 == Append(recs, KRec(kind, recs))
              v2 == DoIngest(v, CSch, r2, Diffs(r2), 1)
          IN  /\ recs' = r2
              /\ v' = v2
              /\ ok' = (Selects("ingest", v, v2) => FilterSound(v2, CSch, r2, Diffs(r2)))
              /\ hist' = IF Emit THEN Append(hist, [a |-> "ingest", kind |-> kind, v |-> ViewJ(v2)])
                         ELSE hist
     /\ UNCHANGED <<ncmd, txc, lkok>>
  \/ /\ ncmd < MaxCmds
     /\ Len(recs) >= 1
     /\ \E c \in Cmds :
          /\ CmdEnabled(c)
          /\ LET v2 == CmdApply(c)
             IN  /\ v' = v2
                 /\ ok' = (Selects(c.op, v, v2) => FilterSound(v2, CSch, recs, Diffs(recs)))
                 /\ hist' = IF Emit THEN Append(hist, [a |-> "cmd", cmd |-> c, v |-> ViewJ(v2)])
                            ELSE hist
          /\ IF c.op = "scrollid"
             THEN LET r == DoScrollId(v, Len(recs), txc, CIds(recs), c.k - 1)
                  IN  /\ txc' = r.cache
                      /\ lkok' = (r.res = ScanTxIndex(CIds(recs), c.k - 1) /\ JumpLands(r.v, CIds(recs), c.k - 1))
             ELSE UNCHANGED <<txc, lkok>>
     /\ ncmd' = ncmd + 1
     /\ UNCHANGED recs

(* a debugger whose handler panicked makes no further step *)
CursorNext ==
  /\ NoPanic(v, Len(recs))
  /\ CursorStep

(* the verdict of the last step (computed unprimed inside the action) *)
Inv_FilterSound == ok
Inv_NoPanic == Model = "cursor" => NoPanic(v, Len(recs))
Inv_FilteredSound ==
  Model = "cursor" => (CodeFiltersActive(v.F) => FilteredSound(v, CSch, recs, Diffs(recs)))
Inv_FwdBackIdentity ==
  Model = "cursor" => \A k \in 1..2 : FwdBackIdentity(v, CSch, recs, Diffs(recs), k)
Inv_CursorRange ==
  Model = "cursor" =>
     /\ v.cursor \in 0..Len(recs)
     /\ Ascending(v.filtered)
     /\ DRange(v.filtered) \subseteq 0..(Len(recs) - 1)

(* B2 emission: every explored behaviour that ends with its last command *)
(* a hash of the behaviour that tells kinds, tools and amounts apart (the shards *)
(* of a small model must not be empty)                                          *)
KindSeq == <<"tx", "cx", "em", "ck", "qu", "qa", "aa", "ac", "he">>
ToolSeq == <<"canceled", "queued", "auto", "empty", "health", "checks", "outgroup">>
OpSeq == <<"fwd", "back", "scroll", "toggle", "tail", "scrollid">>
SeqNo(sq, x) == CHOOSE i \in 1..Len(sq) : sq[i] = x
ACode(h) == IF h.a = "ingest" THEN SeqNo(KindSeq, h.kind)
            ELSE 10 + 10 * SeqNo(OpSeq, h.cmd.op)
                 + (IF h.cmd.op = "toggle" THEN SeqNo(ToolSeq, h.cmd.tool) ELSE 0)
                 + (IF "k" \in DOMAIN h.cmd THEN h.cmd.k ELSE 0)
RECURSIVE HMix(_, _)
HMix(i, acc) == IF i > Len(hist) THEN acc ELSE HMix(i + 1, (acc * 31 + ACode(hist[i])) % 1000003)
HCode == HMix(1, 7)
EmitInv ==
  (Emit /\ ncmd = MaxCmds /\ hist # <<>> /\ Last(hist).a = "cmd" /\ HCode % ShardMod = ShardIdx)
     => PrintT(<<"SEQ", ToJson(hist)>>)

(* B3: with Attack set, the first behaviour that breaks the formula on the    *)
(* model of the code is printed (and the invariant fails): a schedule to be   *)
(* replayed on the real debugger                                              *)
AttackInv ==
  IF \/ (Attack = "FilterSound" /\ ~ok /\ NoPanic(v, Len(recs)))
     \/ (Attack = "NoPanic" /\ ~NoPanic(v, Len(recs)))
     \/ (Attack = "TxIndex" /\ ~lkok)
  THEN PrintT(<<"SEQ", ToJson(hist)>>) /\ FALSE
  ELSE TRUE

(* --------------------------------------------------------------------- *)

MCInit ==
  /\ recs = <<>>
  /\ v = [cursor |-> 0, tail |-> TRUE, F |-> InitF, filtered |-> <<>>]
  /\ ncmd = 0
  /\ hist = <<>>
  /\ ok = TRUE
  /\ txc = {}
  /\ lkok = TRUE

MCNext == CASE Model = "derive" -> DeriveNext
            [] Model = "lookup" -> LookupNext
            [] Model = "filter" -> FilterNext
            [] OTHER -> CursorNext

MCSpec == MCInit /\ [][MCNext]_mvars

MCView == <<recs, v, ncmd, hist, ok, txc, lkok>>
=============================================================================
