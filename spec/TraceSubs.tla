----------------------------- MODULE TraceSubs -----------------------------
(* Validation of subscription scenarios recorded from the REAL machine        *)
(* (harness/subsdrv) against Subs.tla.                                         *)
(*                                                                            *)
(* The machine part of the state (active, clock, queue tick) follows the log; *)
(* the bookkeeping of the subscription manager is the specification's own.    *)
(* After every operation the harness probes every channel and every state     *)
(* context:                                                                   *)
(*   drift : the set of closed channels / cancelled contexts differs from     *)
(*           what the specification's bookkeeping says                        *)
(*   viol  : a channel is closed although the property says it must be open   *)
(*           (spurious), or open although it must be closed (lost), judged    *)
(*           by the ghost `should` that depends only on the logged machine    *)
(*           history; a state context whose cancellation does not match       *)
(*           "tick changed since creation"; a subscription call that panics.  *)
EXTENDS Subs, Json

CONSTANT TraceFile
Trace == ndJsonDeserialize(TraceFile)

VARIABLES l, viol, drift, nsc
tvars == <<vars, l, viol, drift, nsc>>
Line == Trace[l]

SetOf(s) == {s[i] : i \in 1..Len(s)}

TraceInit == Init /\ l = 1 /\ viol = {} /\ drift = {} /\ nsc = 0

EvScenario ==
  /\ Line.ev \in {"scenario", "sinit"}
  /\ IF Line.ev = "sinit"
     THEN /\ active' = {} /\ clock' = [s \in States |-> 0]
          /\ subClock' = [s \in States |-> 0] /\ aliased' = TRUE
          /\ phase' = "idle" /\ pend' = [kind |-> "none"]
          /\ binds' = <<>> /\ sctx' = <<>> /\ dead' = {}
          /\ qtick' = 1 /\ disposed' = FALSE /\ crashed' = FALSE
          /\ nsc' = nsc + 1
     ELSE UNCHANGED <<vars, nsc>>
  /\ UNCHANGED <<viol, drift>>

TimesOf(x) == [s \in DOMAIN x.times |-> x.times[s]]
(* args are logged as a sequence of <<key, value>> pairs                      *)
ArgsOf(a) == {<<a[i][1], a[i][2]>> : i \in 1..Len(a)}

EvSub ==
  /\ Line.ev = "sub"
  /\ LET x == Line IN
     IF x.panic
     THEN \* the real call panicked
          /\ viol' = viol \cup {<<l, "subscribe-panics">>}
          /\ drift' = drift \cup (IF x.kind = "whenquery" /\ x.ctx # 0 /\ x.ctx \notin dead /\ ~QueryFixed
                                  THEN {} ELSE {<<l, "panic-unpredicted">>})
          /\ UNCHANGED vars
     ELSE
       /\ CASE x.kind \in {"when", "whennot"} ->
                 SubWhen(SetOf(x.states), x.kind = "whennot", x.ctx)
            [] x.kind = "whentime" -> SubWhenTime(TimesOf(x), x.ctx)
            [] x.kind = "whenquery" ->
                 SubWhenQuery([kind |-> x.q.kind, state |-> x.q.state, n |-> x.q.n], x.ctx)
            [] x.kind = "whenqueue" -> SubWhenQueue(x.tick)
            [] x.kind = "whenargs" -> SubWhenArgs(x.state, ArgsOf(x.args), x.ctx)
            [] x.kind = "whenqueueends" -> SubWhenQueueEnds
            [] x.kind = "whenticks" -> SubWhenTicks(x.state, x.delta, x.ctx)
            [] x.kind = "whennextactive" -> SubWhenNextActive(x.state, x.ctx)
       /\ LET nb == binds'[Len(binds')]
              nbClosed == IF nb.alias = 0 THEN nb.closed ELSE binds[nb.alias].closed
              ctxDead == nb.ctx # 0 /\ nb.ctx \in dead
          IN
          /\ drift' = drift \cup
               (IF crashed' THEN {<<l, "crash-predicted">>} ELSE {}) \cup
               (IF ~crashed' /\ nbClosed # x.closedNow THEN {<<l, "closedNow">>} ELSE {})
          /\ viol' = viol \cup
               (IF ~crashed' /\ x.closedNow /\ ~nb.should /\ ~ctxDead
                THEN {<<l, "spurious-at-subscribe">>} ELSE {})
               \* inside the window the wake-up of the running transition is still due
               \cup (IF ~crashed' /\ ~x.closedNow /\ nb.should /\ phase = "idle"
                     THEN {<<l, "lost-at-subscribe">>} ELSE {})
  /\ UNCHANGED nsc

EvSctx ==
  /\ Line.ev = "sctx" /\ SubStateCtx(Line.state) /\ UNCHANGED <<viol, drift, nsc>>

EvCancel ==
  /\ Line.ev = "cancel"
  /\ IF Line.ctx \in dead THEN UNCHANGED vars ELSE CtxCancel(Line.ctx)
  /\ UNCHANGED <<viol, drift, nsc>>

TxOf(x) == [accepted |-> x.accepted, check |-> x.check, ticked |-> x.ticked,
            args |-> ArgsOf(x.args),
            activated |-> SetOf(x.activated), deactivated |-> SetOf(x.deactivated),
            newActive |-> SetOf(x.newActive) \cap States,
            newClock |-> [s \in States |-> x.newClock[s]]]

EvApply ==
  /\ Line.ev = "apply"
  /\ TxApply(TxOf(Line.tx))
  /\ UNCHANGED <<viol, drift, nsc>>

EvProcess ==
  /\ Line.ev = "process" /\ TxProcess /\ UNCHANGED <<viol, drift, nsc>>

EvSetSchema ==
  /\ Line.ev = "setschema"
  /\ IF Line.err THEN UNCHANGED vars ELSE SetSchema
  /\ UNCHANGED <<viol, drift, nsc>>

EvDispose ==
  /\ Line.ev = "dispose" /\ Dispose /\ UNCHANGED <<viol, drift, nsc>>

(* the scenario never came back: a mutation or a subscription call is blocked *)
(* for good (watchdog of the driver, 90 s for a scenario that takes ms)       *)
EvHung ==
  /\ Line.ev = "hung"
  /\ viol' = viol \cup {<<l, "machine-stuck">>}
  /\ UNCHANGED <<vars, drift, nsc>>

(* the mutation call itself panicked (processing the subscriptions)           *)
EvMutatorPanic ==
  /\ Line.ev = "mutator-panic"
  /\ viol' = viol \cup {<<l, "mutation-panics">>}
  /\ UNCHANGED <<vars, drift, nsc>>

(* the probe: compare with the bookkeeping (drift) and with the property      *)
(* (viol).  Inside the window (phase = "applied") the property makes no       *)
(* demand yet - only "never closes while it has not held".                    *)
EvProbe ==
  /\ Line.ev = "probe"
  /\ LET closedL == SetOf(Line.closed)
         cancL == SetOf(Line.canceled)
         ids == 1..Len(binds)
         specClosed == {i \in ids : ClosedOf(i)}
         \* spurious: closed, yet the condition never held, no ctx end, no dispose.
         \* In the window the condition may have just become true (the wake-up
         \* is not due yet but would not be spurious either).
         nowHolds(i) == ShouldAfter(binds[i], [none |-> 0])
         spurious == {i \in closedL \cap ids : ~(binds[i].should \/ disposed \/ CtxDead(i) \/
                                                  (phase = "applied" /\ nowHolds(i)))}
         lost == IF phase = "idle" THEN {i \in ids \ closedL : binds[i].should \/ disposed} ELSE {}
         cids == 1..Len(sctx)
         \* judged at quiescent points only: inside the window the transition
         \* has not finished cancelling the contexts of the states it changed
         ctxBad == IF phase # "idle" THEN {} ELSE
                   {i \in cids :
                      LET o == CtxOrigin(i) IN
                      (i \in cancL) # (clock[sctx[o].state] # sctx[o].tick \/ disposed)}
     IN /\ drift' = drift \cup (IF closedL = specClosed THEN {} ELSE {<<l, "closed-set">>})
                          \cup (IF phase # "idle" \/ cancL = {i \in cids : sctx[CtxOrigin(i)].canceled}
                                THEN {} ELSE {<<l, "ctx-set">>})
        /\ viol' = viol \cup {<<l, "spurious">> : i \in spurious} \cup {<<l, "lost">> : i \in lost}
                        \cup {<<l, "statectx">> : i \in ctxBad}
  /\ UNCHANGED <<vars, nsc>>

Done ==
  /\ l = Len(Trace) + 1
  /\ PrintT(<<"RESULT", ToJson([lines |-> Len(Trace), ntx |-> nsc, viol |-> viol, drift |-> drift])>>)
  /\ UNCHANGED <<vars, viol, drift, nsc>>

TraceNext ==
  \/ /\ l <= Len(Trace)
     /\ (EvScenario \/ EvSub \/ EvSctx \/ EvCancel \/ EvApply \/ EvProcess \/ EvSetSchema
         \/ EvDispose \/ EvProbe \/ EvHung \/ EvMutatorPanic)
     /\ l' = l + 1
  \/ (Done /\ l' = l + 1)

TraceSpec == TraceInit /\ [][TraceNext]_tvars
TraceView == <<l>>
=============================================================================
