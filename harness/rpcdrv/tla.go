package rpcdrv

import (
	"encoding/json"
	"slices"
)

// Rendering of the event log for spec/TraceRpcSync.tla: one JSON object per
// line, every field of a line kind always present (TLC's Json module builds
// records; a missing field would be an evaluation error).
//
// Numbers: TLC's integers are 32 bit. A tick that went through a WRAPPED uint32
// diff is 2^32 off its true value; the specification models the uint32 field
// with W32 = 2^20 instead of 2^32 (both are multiples of 256, the only thing
// the checksum sees). enc maps v = hi*2^32 + lo to hi*2^20 + lo', where lo' is
// lo for small lo and 2^20-k for lo = 2^32-k (small k): sums and differences
// of encoded values are the encodings of the sums and differences.
const (
	w32Spec = 1 << 20
)

func enc(v uint64) int64 {
	hi := int64(v >> 32)
	lo := int64(v & 0xffffffff)
	if lo >= (1<<32)-(1<<19) {
		lo = lo - (1 << 32) + w32Spec
	}
	return hi*w32Spec + lo
}

func encT(t []uint64) []int64 {
	r := make([]int64, len(t))
	for i, v := range t {
		r[i] = enc(v)
	}
	return r
}

type tlaU struct {
	I  []int   `json:"i"`
	D  []int64 `json:"d"`
	Q  int     `json:"q"`
	Ck int     `json:"ck"`
}

func tlaUpd(u *Upd) tlaU {
	r := tlaU{I: []int{}, D: []int64{}, Q: u.Q, Ck: u.Ck}
	for k, i := range u.I {
		r.I = append(r.I, i)
		r.D = append(r.D, enc(u.D[k]))
	}
	return r
}

func tlaUpds(e *Event) []tlaU {
	r := []tlaU{}
	if e.U != nil {
		r = append(r, tlaUpd(e.U))
	}
	for i := range e.Us {
		r = append(r, tlaUpd(&e.Us[i]))
	}
	return r
}

type m = map[string]any

func nz(s []string) []string {
	if s == nil {
		return []string{}
	}
	return s
}

func snapFields(o m, pfx string, s *Snap) {
	if s == nil {
		s = &Snap{Nil: true}
	}
	t := encT(s.T)
	if t == nil {
		t = []int64{}
	}
	o[pfx+"t"] = t
	o[pfx+"q"] = int64(s.Q)
	o[pfx+"m"] = int64(s.M)
	o[pfx+"nil"] = s.Nil
}

// project maps a clock indexed by SrcNames to the index space of `names`.
func project(t []uint64, names []string) []uint64 {
	r := make([]uint64, len(names))
	for i, n := range names {
		if k := slices.Index([]string(SrcNames), n); k >= 0 && k < len(t) {
			r[i] = t[k]
		}
	}
	return r
}

// TlaLines renders the log for TLC.
func (w *World) TlaLines(forced bool, label string) []string {
	evs := w.Events()
	var out []string
	put := func(o m) {
		b, _ := json.Marshal(o)
		out = append(out, string(b))
	}
	// the client's state list: the index space of every vector on the wire
	var names []string
	for i := range evs {
		e := &evs[i]
		switch e.Ev {
		case "init":
			put(m{"ev": "init", "label": label, "forced": forced,
				"schema": e.Cfg.Schema, "shallow": e.Cfg.Shallow,
				"mutations": e.Cfg.Mutations, "push": e.Cfg.PushUs != 0,
				// the real debounce + the real push ticker (not the schedule's `push`)
				"ticker": e.Cfg.PushUs > 0,
				"skipped": nz(e.Cfg.Skipped), "allowednil": e.Cfg.Allowed == nil,
				"allowed": nz(e.Cfg.Allowed), "srcnames": []string(SrcNames)})
		case "rpc.hello":
			o := m{"ev": "hello", "tracked": nz(e.Tracked)}
			snapFields(o, "", e.To)
			put(o)
		case "rpc.client.hello":
			names = e.Names
			o := m{"ev": "chello", "tracked": nz(e.Tracked), "names": nz(e.Names)}
			snapFields(o, "", e.To)
			put(o)
		case "rpc.handshake":
			put(m{"ev": "handshake"})
		case "rpc.client.handshaked":
			put(m{"ev": "chandshaked"})
		case "rpc.tracer.snapshot":
			o := m{"ev": "snap"}
			snapFields(o, "", e.To)
			put(o)
		case "rpc.push.beforeNotify":
			put(m{"ev": "notify", "us": tlaUpds(e)})
		case "rpc.lastpush.store":
			o := m{"ev": "store", "kind": e.Kind}
			snapFields(o, "f", e.From)
			snapFields(o, "t", e.To)
			put(o)
		case "rpc.remote.afterReply":
			put(m{"ev": "reply", "us": tlaUpds(e), "res": e.Res})
		case "rpc.client.beforeReplyApply":
			put(m{"ev": "gotreply", "us": tlaUpds(e), "res": e.Res})
		case "rpc.client.applied":
			o := m{"ev": "applied", "u": tlaUpd(e.U), "acc": *e.Acc}
			snapFields(o, "f", e.From)
			snapFields(o, "t", e.To)
			put(o)
		case "rpc.client.dropped":
			put(m{"ev": "dropped", "us": tlaUpds(e)})
		case "rpc.client.clockSet":
			o := m{"ev": "set"}
			snapFields(o, "f", e.From)
			snapFields(o, "t", e.To)
			put(o)
		case "rpc.client.sync.enter":
			put(m{"ev": "syncenter"})
		case "rpc.client.sync.exit":
			put(m{"ev": "syncexit"})
		case "rpc.client.sync.beforeSet":
			o := m{"ev": "syncgot"}
			snapFields(o, "", e.To)
			put(o)
		case "src":
			o := m{"ev": "src", "res": e.Res, "op": e.Op, "states": nz(e.States)}
			s := *e.To
			s.T = project(s.T, names)
			snapFields(o, "", &s)
			put(o)
		case "cli.call":
			put(m{"ev": "call", "id": e.Call, "op": e.Op, "states": nz(e.States)})
		case "cli.ret":
			o := m{"ev": "ret", "id": e.Call, "res": e.Res,
				"cready": slices.Contains(e.States2, ssC.Ready)}
			snapFields(o, "", e.To)
			put(o)
		case "cli.sync":
			put(m{"ev": "synccall", "id": e.Call})
		case "cli.syncret":
			o := m{"ev": "syncret", "id": e.Call, "ok": *e.Ok}
			snapFields(o, "", e.To)
			put(o)
		case "probe":
			src := *e.From
			src.T = project(src.T, e.Names)
			o := m{"ev": "probe", "note": e.Note, "quiescent": e.Note == "quiescent",
				"cready":  slices.Contains(e.States, ssC.Ready),
				"sready":  slices.Contains(e.Tracked, ssS.Ready),
				"blocked": e.Call, "syncopen": e.Open, "names": nz(e.Names),
				"mact": nz(e.MAct), "sact": nz(e.SAct), "mtk": e.MTk}
			if e.MTk == nil {
				o["mtk"] = []uint64{}
			}
			snapFields(o, "s", &src)
			snapFields(o, "m", e.To)
			put(o)
		case "cut":
			put(m{"ev": "cut"})
		case "connect":
			put(m{"ev": "connect"})
		case "end":
			put(m{"ev": "end", "completed": *e.Ok, "blocked": e.Call})
		}
	}
	return out
}
