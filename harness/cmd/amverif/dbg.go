package main

import (
	"bufio"
	"encoding/json"
	"errors"
	"flag"
	"fmt"
	"math/rand"
	"os"
	"strings"
	"sync"

	am "github.com/pancsta/asyncmachine-go/pkg/machine"

	"verifharness/dbgdrv"
)

func init() { commands["dbg"] = cmdDbg }

// cmdDbg drives a real headless am-dbg (property C16) and writes ndjson shards
// <out>.<k>.ndjson for spec/TraceDebugger.tla; the last stdout line is a JSON
// summary.
//
//	-mode stream  real telemetry of generated machines, captured from the wire,
//	              fed through the ingestion states in batches with commands
//	-mode tcp     several machines concurrently over loopback TCP through the
//	              real RPC server (debounced queue), several clients
//	-mode replay  TLC-generated behaviours (record kinds + commands) from -in
//	-mode lookup  the pure look-up functions over generated record lists, and
//	              over ONE list that grows between look-ups of the same key
//	-mode filters every kind of record x a walk through every reachable set of
//	              filter states (ToggleTool), -steps toggles at most per case
func cmdDbg(args []string) int {
	fs := flag.NewFlagSet("dbg", flag.ExitOnError)
	mode := fs.String("mode", "stream", "stream|tcp|replay|lookup|filters")
	steps := fs.Int("steps", 400, "filters: toggles per case at most")
	extra := fs.Int("extra", 4, "filters: records on top of one of every kind")
	parts := fs.Int("parts", 1, "filters: the sets of filter states are dealt to this many cases")
	seed := fs.Int64("seed", 1, "seed")
	n := fs.Int("n", 50, "cases (stream, lookup) / groups (tcp)")
	calls := fs.Int("calls", 8, "calls per source machine")
	cmds := fs.Int("cmds", 8, "commands per batch")
	clients := fs.Int("clients", 3, "clients per tcp group")
	workers := fs.Int("workers", 8, "parallel debuggers")
	out := fs.String("out", "dbg", "output prefix")
	in := fs.String("in", "", "replay: file with one behaviour (JSON array) per line")
	initf := fs.String("initf", "default", "default|nogroup|checks|none")
	impEvery := fs.Int("imp", 4, "export/import every n-th case")
	tmp := fs.String("tmp", os.TempDir(), "scratch directory")
	only := fs.Int("only", -1, "stream: run only the case with this index")
	fs.Parse(args)

	F := dbgdrv.DefaultInitF
	if *initf == "nogroup" {
		F = dbgdrv.NoGroupInitF
	} else if *initf == "checks" {
		F = dbgdrv.ChecksInitF
	} else if *initf == "none" {
		F = am.S{}
	}
	var err error
	sum := map[string]any{}
	switch *mode {
	case "stream":
		err = dbgStream(*seed, *n, *calls, *cmds, *workers, *out, *tmp, F, *impEvery, *only, sum)
	case "tcp":
		err = dbgTcp(*seed, *n, *clients, *calls, *out, *tmp, sum)
	case "replay":
		err = dbgReplay(*in, *workers, *out, *tmp, F, sum)
	case "lookup":
		err = dbgLookup(*seed, *n, *out, sum)
	case "filters":
		err = dbgFilters(*seed, *n, *workers, *extra, *steps, *parts, *out, *tmp, F, *only, sum)
	default:
		err = fmt.Errorf("unknown mode %s", *mode)
	}
	if err != nil {
		fmt.Fprintln(os.Stderr, "dbg driver:", err)
		return 2
	}
	b, _ := json.Marshal(sum)
	fmt.Println(string(b))
	return 0
}

func dbgStream(seed int64, n, calls, cmds, workers int, out, tmp string, F am.S, impEvery, only int, sum map[string]any) error {
	if only >= 0 {
		workers, n = 1, only+1
	}
	capt, addr, err := dbgdrv.NewCapture()
	if err != nil {
		return err
	}
	defer capt.Close()
	var wg sync.WaitGroup
	errs := make([]error, workers)
	nlines := make([]int, workers)
	nbroken := make([]int, workers)
	nretry := make([]int, workers)
	for w := 0; w < workers; w++ {
		wg.Add(1)
		go func(w int) {
			defer wg.Done()
			dir, err := os.MkdirTemp(tmp, "dbgdrv-")
			if err != nil {
				errs[w] = err
				return
			}
			defer os.RemoveAll(dir)
			s, err := dbgdrv.NewSession(dir, fmt.Sprintf("w%d", w), F)
			if err != nil {
				errs[w] = err
				return
			}
			defer func() { s.Close() }()
			k := 0
			again := false
			for i := w; i < n; i += workers {
				if only >= 0 && i != only {
					continue
				}
				r := rand.New(rand.NewSource(seed*1_000_003 + int64(i)))
				label := fmt.Sprintf("s%d-%d", seed, i)
				if again {
					label += "r"
				}
				mark := len(s.Lines)
				if err := dbgdrv.StreamCase(s, capt, addr, r, label, calls, cmds); err != nil {
					if !errors.Is(err, dbgdrv.ErrBroken) {
						// a stall of the driver / debugger without a panic: not a verdict.
						// The case is retried once on a fresh debugger.
						if again {
							errs[w] = fmt.Errorf("case %s (second attempt): %w", label, err)
							return
						}
						old := s
						nretry[w]++
						s, err = dbgdrv.NewSession(fmt.Sprintf("%s/r%d", dir, nretry[w]), fmt.Sprintf("w%d", w), F)
						if err != nil {
							errs[w] = err
							return
						}
						s.Lines = old.Lines[:mark]
						old.Close()
						again = true
						i -= workers
						continue
					}
					// a handler of the debugger panicked: the line is logged, replace the debugger
					old := s
					nbroken[w]++
					s, err = dbgdrv.NewSession(fmt.Sprintf("%s/b%d", dir, nbroken[w]), fmt.Sprintf("w%d", w), F)
					if err != nil {
						errs[w] = err
						return
					}
					s.Lines = old.Lines
					old.Close()
					again = false
					continue
				}
				again = false
				k++
				if impEvery > 0 && k%impEvery == 0 {
					if err := s.H.ExportImport(&s.Lines, dir); err != nil {
						errs[w] = fmt.Errorf("export/import after %s: %w", label, err)
						return
					}
				}
			}
			nlines[w] = len(s.Lines)
			errs[w] = dbgdrv.WriteLines(fmt.Sprintf("%s.%d.ndjson", out, w), s.Lines)
		}(w)
	}
	wg.Wait()
	tot := 0
	for w := range errs {
		if errs[w] != nil {
			return errs[w]
		}
		tot += nlines[w]
	}
	nb := 0
	for _, x := range nbroken {
		nb += x
	}
	nr := 0
	for _, x := range nretry {
		nr += x
	}
	sum["cases"], sum["lines"], sum["shards"], sum["broken"], sum["retried"] = n, tot, workers, nb, nr
	return nil
}

func dbgTcp(seed int64, groups, clients, calls int, out, tmp string, sum map[string]any) error {
	var lines []any
	for g := 0; g < groups; g++ {
		dir, err := os.MkdirTemp(tmp, "dbgdrv-")
		if err != nil {
			return err
		}
		h, err := dbgdrv.NewHeadless(dir, fmt.Sprintf("t%d", g), "")
		if err != nil {
			os.RemoveAll(dir)
			return err
		}
		r := rand.New(rand.NewSource(seed*7919 + int64(g)))
		err = dbgdrv.TcpGroup(h, r, fmt.Sprintf("t%d-%d", seed, g), clients, calls, &lines)
		if err == nil {
			err = h.ExportImport(&lines, dir)
		}
		h.Close()
		os.RemoveAll(dir)
		if err != nil {
			return fmt.Errorf("tcp group %d: %w", g, err)
		}
	}
	sum["cases"], sum["lines"], sum["shards"] = groups*clients, len(lines), 1
	return dbgdrv.WriteLines(out+".0.ndjson", lines)
}

func dbgReplay(in string, workers int, out, tmp string, F am.S, sum map[string]any) error {
	f, err := os.Open(in)
	if err != nil {
		return err
	}
	defer f.Close()
	var seqs [][]dbgdrv.SeqStep
	sc := bufio.NewScanner(f)
	sc.Buffer(make([]byte, 1<<20), 1<<26)
	for sc.Scan() {
		t := strings.TrimSpace(sc.Text())
		if t == "" {
			continue
		}
		var seq []dbgdrv.SeqStep
		if err := json.Unmarshal([]byte(t), &seq); err != nil {
			return err
		}
		seqs = append(seqs, seq)
	}
	var wg sync.WaitGroup
	errs := make([]error, workers)
	nlines := make([]int, workers)
	mism := make([][]string, workers)
	nbrk := make([]int, workers)
	nrty := make([]int, workers)
	for w := 0; w < workers; w++ {
		wg.Add(1)
		go func(w int) {
			defer wg.Done()
			dir, err := os.MkdirTemp(tmp, "dbgdrv-")
			if err != nil {
				errs[w] = err
				return
			}
			defer os.RemoveAll(dir)
			s, err := dbgdrv.NewSession(dir, fmt.Sprintf("r%d", w), F)
			if err != nil {
				errs[w] = err
				return
			}
			defer func() { s.Close() }()
			again := false
			for i := w; i < len(seqs); i += workers {
				mark := len(s.Lines)
				m, err := dbgdrv.ReplaySeq(s, fmt.Sprintf("q%d", i), seqs[i])
				if err != nil && errors.Is(err, dbgdrv.ErrBroken) {
					old := s
					nbrk[w]++
					s, err = dbgdrv.NewSession(fmt.Sprintf("%s/b%d", dir, nbrk[w]), fmt.Sprintf("r%d", w), F)
					if err != nil {
						errs[w] = err
						return
					}
					s.Lines = old.Lines
					old.Close()
					again = false
					continue
				}
				if err != nil {
					// a stall without a panic: not a verdict; retried once on a fresh debugger
					if again {
						errs[w] = fmt.Errorf("behaviour %d (second attempt): %w", i, err)
						return
					}
					old := s
					nrty[w]++
					s, err = dbgdrv.NewSession(fmt.Sprintf("%s/r%d", dir, nrty[w]), fmt.Sprintf("r%d", w), F)
					if err != nil {
						errs[w] = err
						return
					}
					s.Lines = old.Lines[:mark]
					old.Close()
					again = true
					i -= workers
					continue
				}
				again = false
				mism[w] = append(mism[w], m...)
			}
			nlines[w] = len(s.Lines)
			errs[w] = dbgdrv.WriteLines(fmt.Sprintf("%s.%d.ndjson", out, w), s.Lines)
		}(w)
	}
	wg.Wait()
	tot := 0
	all := []string{}
	for w := range errs {
		if errs[w] != nil {
			return errs[w]
		}
		tot += nlines[w]
		all = append(all, mism[w]...)
	}
	nb := 0
	for _, x := range nbrk {
		nb += x
	}
	nr := 0
	for _, x := range nrty {
		nr += x
	}
	sum["broken"], sum["retried"] = nb, nr
	sum["cases"], sum["lines"], sum["shards"], sum["mismatches"] = len(seqs), tot, workers, len(all)
	if len(all) > 20 {
		all = all[:20]
	}
	sum["mismatch_samples"] = all
	return nil
}

func dbgLookup(seed int64, n int, out string, sum map[string]any) error {
	r := rand.New(rand.NewSource(seed))
	var lines []any
	// every length 0..6 several times, then longer lists
	for i := 0; i < n; i++ {
		ln := i % 7
		if i >= n/2 {
			ln = 7 + r.Intn(10)
		}
		lines = append(lines, dbgdrv.LookupCase(r, ln, i%5 != 4))
	}
	// a store that grows between two look-ups of the same key: every length 0..6,
	// then longer ones
	grown := 0
	for i := 0; i < n/4; i++ {
		ln := i % 7
		if i >= n/8 {
			ln = 7 + r.Intn(8)
		}
		lines = append(lines, dbgdrv.TxSeqCase(r, ln))
		grown++
	}
	sum["cases"], sum["lines"], sum["shards"], sum["growing"] = n+grown, len(lines), 1, grown
	return dbgdrv.WriteLines(out+".0.ndjson", lines)
}

func dbgFilters(seed int64, n, workers, extra, steps, parts int, out, tmp string, F am.S, only int, sum map[string]any) error {
	if only >= 0 {
		workers, n = 1, only+1
	}
	if workers > n {
		workers = n
	}
	var wg sync.WaitGroup
	errs := make([]error, workers)
	nlines := make([]int, workers)
	nbroken := make([]int, workers)
	nretry := make([]int, workers)
	var mu sync.Mutex
	allSets := map[string]int{}
	for w := 0; w < workers; w++ {
		wg.Add(1)
		go func(w int) {
			defer wg.Done()
			dir, err := os.MkdirTemp(tmp, "dbgdrv-")
			if err != nil {
				errs[w] = err
				return
			}
			defer os.RemoveAll(dir)
			s, err := dbgdrv.NewSession(dir, fmt.Sprintf("f%d", w), F)
			if err != nil {
				errs[w] = err
				return
			}
			defer func() { s.Close() }()
			again := false
			for i := w; i < n; i += workers {
				if only >= 0 && i != only {
					continue
				}
				r := rand.New(rand.NewSource(seed*1_000_033 + int64(i)))
				label := fmt.Sprintf("m%d-%d", seed, i)
				mark := len(s.Lines)
				sets, err := dbgdrv.FilterMatrixCase(s, r, label, extra, steps, parts, i%parts)
				mu.Lock()
				for k := range sets {
					allSets[k]++
				}
				mu.Unlock()
				if err != nil {
					brokenDbg := errors.Is(err, dbgdrv.ErrBroken)
					if !brokenDbg && again {
						errs[w] = fmt.Errorf("case %s (second attempt): %w", label, err)
						return
					}
					old := s
					nretry[w]++
					s, err = dbgdrv.NewSession(fmt.Sprintf("%s/n%d", dir, nretry[w]), fmt.Sprintf("f%d", w), F)
					if err != nil {
						errs[w] = err
						return
					}
					if brokenDbg {
						// a handler of the debugger panicked: the line is logged, go on
						nbroken[w]++
						s.Lines = old.Lines
						again = false
					} else {
						// a stall without a panic: not a verdict, retried once
						s.Lines = old.Lines[:mark]
						again = true
						i -= workers
					}
					old.Close()
					continue
				}
				again = false
			}
			nlines[w] = len(s.Lines)
			errs[w] = dbgdrv.WriteLines(fmt.Sprintf("%s.%d.ndjson", out, w), s.Lines)
		}(w)
	}
	wg.Wait()
	tot, nb, nr := 0, 0, 0
	for w := range errs {
		if errs[w] != nil {
			return errs[w]
		}
		tot += nlines[w]
		nb += nbroken[w]
		nr += nretry[w] - nbroken[w]
	}
	sum["cases"], sum["lines"], sum["shards"], sum["broken"], sum["retried"] = n, tot, workers, nb, nr
	sum["filter_sets_visited"] = len(allSets)
	return nil
}
