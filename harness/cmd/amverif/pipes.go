package main

import (
	"bufio"
	"encoding/json"
	"flag"
	"fmt"
	"os"
	"sync"

	"verifharness/pipesdrv"
)

func init() { commands["pipes"] = cmdPipes }

// cmdPipes executes pipe cases (one JSON object per line of -in) on real
// machines and writes ndjson trace shards <out>.<k>.ndjson for TLC plus
// <out>.outcomes.json (realizability / stuck gates per case).
func cmdPipes(args []string) int {
	fs := flag.NewFlagSet("pipes", flag.ExitOnError)
	in := fs.String("in", "", "cases, one JSON object per line")
	out := fs.String("out", "pipes", "output prefix")
	shards := fs.Int("shards", 1, "number of output shards")
	workers := fs.Int("workers", 8, "cases executed concurrently")
	fs.Parse(args)

	fh, err := os.Open(*in)
	if err != nil {
		fmt.Fprintln(os.Stderr, err)
		return 2
	}
	defer fh.Close()
	var cases []*pipesdrv.Case
	sc := bufio.NewScanner(fh)
	sc.Buffer(make([]byte, 1<<20), 1<<26)
	for sc.Scan() {
		if len(sc.Bytes()) == 0 {
			continue
		}
		c := &pipesdrv.Case{}
		if err := json.Unmarshal(sc.Bytes(), c); err != nil {
			fmt.Fprintln(os.Stderr, "bad case:", err)
			return 2
		}
		cases = append(cases, c)
	}

	outs := make([]*pipesdrv.Outcome, len(cases))
	var wg sync.WaitGroup
	next := make(chan int)
	for w := 0; w < *workers; w++ {
		wg.Add(1)
		go func() {
			defer wg.Done()
			for i := range next {
				outs[i] = pipesdrv.Run(cases[i])
			}
		}()
	}
	for i := range cases {
		next <- i
	}
	close(next)
	wg.Wait()

	files := make([]*bufio.Writer, *shards)
	var fhs []*os.File
	for k := range files {
		f, err := os.Create(fmt.Sprintf("%s.%d.ndjson", *out, k))
		if err != nil {
			fmt.Fprintln(os.Stderr, err)
			return 2
		}
		fhs = append(fhs, f)
		files[k] = bufio.NewWriterSize(f, 1<<20)
	}
	lines, stuck, unreal := 0, 0, 0
	for i, o := range outs {
		if o.Stuck != "" {
			stuck++
		}
		if o.Unreal != "" {
			unreal++
		}
		w := files[i%*shards]
		for _, l := range o.Lines {
			w.WriteString(l)
			w.WriteByte('\n')
			lines++
		}
	}
	for k := range files {
		files[k].Flush()
		fhs[k].Close()
	}
	of, err := os.Create(*out + ".outcomes.json")
	if err != nil {
		fmt.Fprintln(os.Stderr, err)
		return 2
	}
	json.NewEncoder(of).Encode(outs)
	of.Close()
	b, _ := json.Marshal(map[string]int{"cases": len(cases), "lines": lines, "stuck": stuck, "unreal": unreal})
	fmt.Println(string(b))
	return 0
}
