------------------------------ MODULE Debugger ------------------------------
(* am-dbg's per-client transition store, its derived index, the index        *)
(* look-ups and the cursor / filter machine, AS THE CODE IS                   *)
(*   tools/debugger/debugger.go        hParseMsg, hFilterTx, hFilterTxCursor1 *)
(*   pkg/helpers/help.go               GetTransitionStates                    *)
(*   tools/debugger/server/dbg_server.go  TxAtQueueTick, TxAtMachTime,        *)
(*                      TxIndex, TxAtHTime, HadErrSinceTx, FilterIndexByCursor1,*)
(*                      TxExecutedBy                                          *)
(*   tools/debugger/dbg_handlers.go    Fwd / Back / ScrollToTx / ToggleTool / *)
(*                      ToolToggled / ClientMsg / TailMode                    *)
(*                                                                            *)
(* Every function exists twice: a TRANSCRIPTION of the Go code (names start   *)
(* with Code...: the loops, the else-if chains, sort.Search and               *)
(* slices.BinarySearchFunc step by step) and a DECLARATIVE meaning (names     *)
(* start with Scan.../Spec...: what a linear scan / a set comprehension over  *)
(* consecutive records gives).  The property formulas compare the two, on the *)
(* bounded model (MCDebugger) and on values logged from the real debugger     *)
(* (TraceDebugger).                                                           *)
(*                                                                            *)
(* Indexes are 0-based as in Go (state indexes, record indexes, look-up       *)
(* results, Errors, MsgTxsFiltered); the cursor is 1-based as CursorTx1.      *)
(*                                                                            *)
(* A record (DbgMsgTx) is [id, clocks, qt, mqt, tok, queued, auto, check,     *)
(* acc, called, steps, ht]; a schema is [n, err, health]: number of states,   *)
(* the indexes of Exception / Err* states, the indexes of Healthcheck /       *)
(* Heartbeat.                                                                 *)
EXTENDS Integers, Sequences, FiniteSets, TLC

CONSTANTS
  ChecksInGroup,   \* FALSE = code: filtersActive() looks at DebuggerGroups.Filters,
                   \*   which lacks FilterChecks; TRUE = repaired
  Refilter,        \* FALSE = code: ClientMsg appends to MsgTxsFiltered by looking at the
                   \*   records received SO FAR (a queued auto mutation whose execution
                   \*   is canceled later stays listed); TRUE = repaired (re-filter)
  NextBounded,     \* FALSE = code: hNextTx() indexes MsgTxs[hNextTxIdx()] and
                   \*   hFilterTxCursor1 returns cursor+1 unchecked when no filter of the
                   \*   group is active; TRUE = repaired (nil past the last record)
  CacheMisses      \* FALSE = code: TxIndex stores in its per-client cache only what the
                   \*   scan FOUND (an id that is looked up before its record arrives is
                   \*   scanned for again next time); TRUE = a cache that also remembers
                   \*   misses -- NOT the code: used to show that the transition-id formulas
                   \*   depend on it (sensitivity) and to let TLC produce the miss / ingest /
                   \*   hit schedules that are replayed on the real debugger

Min(S) == CHOOSE x \in S : \A y \in S : x <= y
Max(S) == CHOOSE x \in S : \A y \in S : x >= y
DRange(s) == {s[i] : i \in 1..Len(s)}
DHas(s, x) == \E i \in 1..Len(s) : s[i] = x
(* slices.Index, 0-based, -1 when absent *)
DIndex(s, x) == IF DHas(s, x) THEN Min({i \in 1..Len(s) : s[i] = x}) - 1 ELSE -1

RECURSIVE DSum(_)
DSum(s) == IF s = <<>> THEN 0 ELSE s[1] + DSum(Tail(s))

(* --------------------------------------------------------------------- *)
(* clocks                                                                  *)

Odd(t) == t % 2 = 1
(* am.Time.Tick: out of bound falls back to 0 *)
Tick(c, i) == IF i + 1 <= Len(c) THEN c[i + 1] ELSE 0
(* DbgMsgTx.Is1 *)
IsAt(c, i) == i >= 0 /\ i + 1 <= Len(c) /\ Odd(c[i + 1])
ActiveSet(c) == {i \in 0..(Len(c) - 1) : Odd(c[i + 1])}

(* --------------------------------------------------------------------- *)
(* hParseMsg + GetTransitionStates                                         *)

(* transcription: the loop over the index with its if / else-if / else-if *)
RECURSIVE CodeAddRem(_, _, _, _, _, _)
CodeAddRem(hasPrev, before, after, n, i, acc) ==
  IF i >= n THEN acc
  ELSE
    LET isB == hasPrev /\ Odd(Tick(before, i))
        isA == Odd(Tick(after, i))
    IN  IF isB /\ ~isA
        THEN CodeAddRem(hasPrev, before, after, n, i + 1,
                        [acc EXCEPT !.removed = Append(@, i)])
        ELSE IF ~isB /\ isA
        THEN CodeAddRem(hasPrev, before, after, n, i + 1,
                        [acc EXCEPT !.added = Append(@, i)])
        ELSE IF hasPrev /\ Tick(before, i) # Tick(after, i)
        THEN \* "treat multi states as added"
             CodeAddRem(hasPrev, before, after, n, i + 1,
                        [acc EXCEPT !.added = Append(@, i)])
        ELSE CodeAddRem(hasPrev, before, after, n, i + 1, acc)

(* SlicesUniq over the from / to state NAMES of the steps, then              *)
(* StatesToIndexes: a step entry is a state index, -1 for "no state" or -2   *)
(* for a name outside the index (the global Any handlers), which             *)
(* slices.Index turns into -1 in StatesTouched.  All such names are "Any".   *)
TIdx(x) == IF x = -2 THEN -1 ELSE x
RECURSIVE CodeTouched(_, _)
CodeTouched(steps, acc) ==
  IF steps = <<>> THEN acc
  ELSE LET s == steps[1]
           a1 == IF s[1] # -1 /\ ~DHas(acc, TIdx(s[1])) THEN Append(acc, TIdx(s[1])) ELSE acc
           a2 == IF s[2] # -1 /\ ~DHas(a1, TIdx(s[2])) THEN Append(a1, TIdx(s[2])) ELSE a1
       IN  CodeTouched(Tail(steps), a2)

(* one hParseMsg: prevSum is MsgTxsParsed[idx-1].TimeSum (0 for idx 0) *)
CodeParse(hasPrev, prevClocks, prevSum, rec, n) ==
  LET sum == DSum(rec.clocks)
      before == IF hasPrev THEN prevClocks ELSE <<>>
  IN  IF sum < DSum(before)
      THEN \* "time after < time before": an error is raised, the rest is faked
           [sum |-> sum, diff |-> 0, added |-> <<>>, removed |-> <<>>, touched |-> <<>>,
            degenerate |-> TRUE]
      ELSE LET ar == CodeAddRem(hasPrev, before, rec.clocks, n, 0,
                                [added |-> <<>>, removed |-> <<>>])
           IN  [sum |-> sum, diff |-> sum - prevSum, added |-> ar.added,
                removed |-> ar.removed, touched |-> CodeTouched(rec.steps, <<>>),
                degenerate |-> FALSE]

IsErrRec(sch, rec) == \E e \in sch.err : IsAt(rec.clocks, e)

(* the whole ingestion: parsed list and the error list.  hParseMsg reads     *)
(* MsgTxsParsed[idx-1].TimeSum, which is the clock sum of record idx-1 on     *)
(* both of its paths, and prepends idx to Errors (=> descending).  Written    *)
(* without an accumulating recursion (TLC evaluates accumulators lazily and   *)
(* overflows the Java stack on long traces).                                  *)
SortedDesc(S) == [k \in 1..Cardinality(S) |-> CHOOSE x \in S : Cardinality({y \in S : y > x}) = k - 1]
SortedAsc(S) == [k \in 1..Cardinality(S) |-> CHOOSE x \in S : Cardinality({y \in S : y < x}) = k - 1]
Ingested(sch, recs) ==
  LET parsed == [i \in 1..Len(recs) |->
                   CodeParse(i > 1, IF i > 1 THEN recs[i - 1].clocks ELSE <<>>,
                             IF i > 1 THEN DSum(recs[i - 1].clocks) ELSE 0, recs[i], sch.n)]
      E == {i \in 1..Len(recs) : ~parsed[i].degenerate /\ IsErrRec(sch, recs[i])}
  IN  [parsed |-> parsed, errors |-> SortedDesc({i - 1 : i \in E})]

(* declarative meaning: what follows from two consecutive records *)
SpecAdded(hasPrev, before, after, n) ==
  {i \in 0..(n - 1) :
     LET b == hasPrev /\ Odd(Tick(before, i))
         a == Odd(Tick(after, i))
     IN  (~b /\ a) \/ (b = a /\ hasPrev /\ Tick(before, i) # Tick(after, i))}
SpecRemoved(hasPrev, before, after, n) ==
  {i \in 0..(n - 1) : hasPrev /\ Odd(Tick(before, i)) /\ ~Odd(Tick(after, i))}
(* the states the steps name (a non-state name, "Any", is no state) *)
SpecTouched(steps) ==
  {steps[k][1] : k \in {j \in 1..Len(steps) : steps[j][1] >= 0}} \cup
  {steps[k][2] : k \in {j \in 1..Len(steps) : steps[j][2] >= 0}}
RealStates(s) == {x \in DRange(s) : x >= 0}
SpecErrors(sch, recs) == {i \in 0..(Len(recs) - 1) : IsErrRec(sch, recs[i + 1])}

Ascending(s) == \A i, j \in 1..Len(s) : i < j => s[i] < s[j]
Descending(s) == \A i, j \in 1..Len(s) : i < j => s[i] > s[j]
NoDup(s) == \A i, j \in 1..Len(s) : i # j => s[i] # s[j]

SumsMonotone(recs) == \A i \in 2..Len(recs) : DSum(recs[i - 1].clocks) <= DSum(recs[i].clocks)
TicksMonotone(recs) ==
  \A i \in 2..Len(recs) : \A k \in 0..(Len(recs[i].clocks) - 1) :
     Tick(recs[i - 1].clocks, k) <= Tick(recs[i].clocks, k)

(* DerivedConsistent on ONE parsed record (p as logged / as transcribed):    *)
(* time sum and diff, added / removed / touched, given the two records.       *)
DerivedOne(hasPrev, prevClocks, rec, n, p) ==
  LET sum == DSum(rec.clocks)
      psum == IF hasPrev THEN DSum(prevClocks) ELSE 0
  IN  /\ p.sum = sum
      /\ sum >= psum =>
           /\ p.diff = sum - psum
           /\ Ascending(p.added) /\ Ascending(p.removed) /\ NoDup(p.touched)
           /\ DRange(p.added) = SpecAdded(hasPrev, prevClocks, rec.clocks, n)
           /\ DRange(p.removed) = SpecRemoved(hasPrev, prevClocks, rec.clocks, n)
           /\ RealStates(p.touched) = SpecTouched(rec.steps)

DerivedConsistent(sch, recs, parsed, errors) ==
  /\ Len(parsed) = Len(recs)
  /\ \A i \in 1..Len(recs) :
       DerivedOne(i > 1, IF i > 1 THEN recs[i - 1].clocks ELSE <<>>, recs[i], sch.n, parsed[i])
  /\ Descending(errors)
  /\ SumsMonotone(recs) => DRange(errors) = SpecErrors(sch, recs)

(* --------------------------------------------------------------------- *)
(* look-ups                                                                *)

(* sort.Search(n, f): smallest i in [0, n) with f(i), n when none --        *)
(* transcription of the loop; P is the predicate as a boolean sequence      *)
RECURSIVE GoSearch(_, _, _)
GoSearch(P, i, j) ==
  IF i < j
  THEN LET h == (i + j) \div 2
       IN  IF ~P[h + 1] THEN GoSearch(P, h + 1, j) ELSE GoSearch(P, i, h)
  ELSE i
SortSearch(P) == GoSearch(P, 0, Len(P))

(* slices.BinarySearchFunc(xs, target, cmp) on a sequence of naturals *)
RECURSIVE GoBin(_, _, _, _)
GoBin(xs, t, i, j) ==
  IF i < j
  THEN LET h == (i + j) \div 2
       IN  IF xs[h + 1] < t THEN GoBin(xs, t, h + 1, j) ELSE GoBin(xs, t, i, h)
  ELSE i
BinarySearch(xs, t) ==
  LET i == GoBin(xs, t, 0, Len(xs))
  IN  [idx |-> i, found |-> i < Len(xs) /\ xs[i + 1] = t]

(* TxAtQueueTick *)
CodeTxAtQueueTick(qts, q) ==
  IF Len(qts) = 0 THEN -1
  ELSE LET i == SortSearch([k \in 1..Len(qts) |-> qts[k] >= q])
       IN  IF i = Len(qts) THEN Len(qts) - 1 ELSE i
ScanTxAtQueueTick(qts, q) ==
  IF Len(qts) = 0 THEN -1
  ELSE LET S == {k \in 1..Len(qts) : qts[k] >= q}
       IN  IF S = {} THEN Len(qts) - 1 ELSE Min(S) - 1

(* TxAtHTime (both "closer one" branches return i) *)
CodeTxAtHTime(hts, t) == CodeTxAtQueueTick(hts, t)
ScanTxAtHTime(hts, t) == ScanTxAtQueueTick(hts, t)

(* TxAtMachTime *)
CodeTxAtMachTime(sums, s) ==
  LET r == BinarySearch(sums, s) IN IF r.found THEN r.idx ELSE 0
ScanTxAtMachTime(sums, s) ==
  LET S == {k \in 1..Len(sums) : sums[k] = s} IN IF S = {} THEN 0 ELSE Min(S) - 1

(* TxIndex.  The store only GROWS between two look-ups of the same id (records *)
(* are appended by ClientMsg; the GC handler that trims it calls ClearCache),   *)
(* so the declarative meaning is always the scan over the ids held NOW.         *)
ScanTxIndex(ids, id) == DIndex(ids, id)
(* transcription: the per-client txCache is a set of <<id, index>> pairs; a hit *)
(* is answered from it, otherwise the loop over MsgTxs runs and stores what it  *)
(* found                                                                        *)
TxCached(cache, id) == \E p \in cache : p[1] = id
CodeTxIndex(cache, ids, id) ==
  IF TxCached(cache, id)
  THEN [res |-> (CHOOSE p \in cache : p[1] = id)[2], cache |-> cache]
  ELSE LET i == DIndex(ids, id)
       IN  IF i >= 0 THEN [res |-> i, cache |-> cache \cup {<<id, i>>}]
           ELSE [res |-> -1, cache |-> IF CacheMisses THEN cache \cup {<<id, -1>>} ELSE cache]
(* every cached answer is the answer of a scan over the ids held now *)
CacheSound(cache, ids) == \A p \in cache : p[2] = ScanTxIndex(ids, p[1])

(* HadErrSinceTx *)
CodeHadErrSinceTx(errors, tx, dist) ==
  IF DHas(errors, tx) THEN TRUE
  ELSE LET i == SortSearch([k \in 1..Len(errors) |-> errors[k] < tx])
       IN  IF i >= Len(errors) THEN FALSE ELSE tx - errors[i + 1] < dist
ScanHadErrSinceTx(errors, tx, dist) ==
  \E e \in DRange(errors) : e = tx \/ (e < tx /\ tx - e < dist)

(* FilterIndexByCursor1 *)
SpecFilterIndex(filtered, cursor1) == IF cursor1 = 0 THEN 0 ELSE DIndex(filtered, cursor1 - 1)

(* TxExecutedBy(idx): 0-based index of the executing record, -1 for nil *)
ExecutedBy(recs, idx) ==
  LET tx == recs[idx + 1]
      S == {j \in (idx + 2)..Len(recs) :
              /\ ~recs[j].queued
              /\ \/ recs[j].qt = tx.mqt
                 \/ (recs[j].tok > 0 /\ recs[j].tok = tx.tok)}
  IN  IF ~tx.queued \/ S = {} THEN -1 ELSE Min(S) - 1

Monotone(xs) == \A i \in 2..Len(xs) : xs[i - 1] <= xs[i]

(* --------------------------------------------------------------------- *)
(* filters                                                                 *)

FilterNames == {"FilterCanceledTx", "FilterAutoTx", "FilterAutoCanceledTx", "FilterEmptyTx",
                "FilterHealth", "FilterQueuedTx", "FilterOutGroup", "FilterChecks"}
(* states.DebuggerGroups.Filters *)
GroupFilters == {"FilterAutoTx", "FilterCanceledTx", "FilterEmptyTx", "FilterHealth",
                 "FilterOutGroup", "FilterQueuedTx", "FilterAutoCanceledTx"}

(* filtersActive() *)
CodeFiltersActive(F) ==
  F \cap (IF ChecksInGroup THEN GroupFilters \cup {"FilterChecks"} ELSE GroupFilters) # {}
(* a filter that hides transitions is on (no group is ever selected by the   *)
(* drivers, so FilterOutGroup alone hides nothing)                            *)
SpecFiltersActive(F) == F \ {"FilterOutGroup"} # {}

(* hFilterTx(c, idx, filters) evaluated over the records recs[1..upto]; diffs *)
(* is MsgTxsParsed[*].TimeDiff; no group selected                             *)
FilterPass(F, sch, recs, diffs, upto, idx) ==
  LET tx == recs[idx + 1]
      view == SubSeq(recs, 1, upto)
      ex == ExecutedBy(view, idx)
  IN  /\ ~("FilterAutoTx" \in F /\ tx.auto)
      /\ ~("FilterAutoCanceledTx" \in F /\ tx.auto /\ ~tx.acc)
      /\ ~("FilterAutoCanceledTx" \in F /\ tx.auto /\ tx.queued /\ ex # -1 /\ ~view[ex + 1].acc)
      /\ ~("FilterCanceledTx" \in F /\ ~tx.acc)
      /\ ~("FilterQueuedTx" \in F /\ tx.queued)
      /\ ~("FilterChecks" \in F /\ tx.check)
      /\ ~("FilterEmptyTx" \in F /\ diffs[idx + 1] = 0 /\ ~tx.queued /\ tx.acc)
      /\ ~("FilterHealth" \in F /\ Len(tx.called) = 1 /\ tx.called[1] \in sch.health)

(* the same function as a TRANSCRIPTION of the Go code: the if / else-if /     *)
(* else-if chain of the three auto clauses (only the FIRST clause whose test   *)
(* holds is entered; the third one returns false only when the executing       *)
(* record was canceled and otherwise FALLS THROUGH), followed by INDEPENDENT   *)
(* ifs.  FilterPass above is the declarative meaning (a record is shown iff no *)
(* active filter names one of its features); MCDebugger's "filter" model       *)
(* compares the two for every set of filters and every kind of record.         *)
CodeFilterTx(F, sch, recs, diffs, upto, idx) ==
  LET tx == recs[idx + 1]
      view == SubSeq(recs, 1, upto)
      autoChain ==   \* TRUE: one of the chain's "return false" was reached
        IF "FilterAutoTx" \in F /\ tx.auto THEN TRUE
        ELSE IF "FilterAutoCanceledTx" \in F /\ tx.auto /\ ~tx.acc THEN TRUE
        ELSE IF "FilterAutoCanceledTx" \in F /\ tx.auto /\ tx.queued
        THEN LET ex == ExecutedBy(view, idx) IN ex # -1 /\ ~view[ex + 1].acc
        ELSE FALSE
  IN  IF autoChain THEN FALSE
      ELSE IF "FilterCanceledTx" \in F /\ ~tx.acc THEN FALSE
      ELSE IF "FilterQueuedTx" \in F /\ tx.queued THEN FALSE
      ELSE IF "FilterChecks" \in F /\ tx.check THEN FALSE
      ELSE IF "FilterEmptyTx" \in F /\ diffs[idx + 1] = 0 /\ ~tx.queued /\ tx.acc THEN FALSE
      ELSE IF "FilterHealth" \in F /\ Len(tx.called) = 1 /\ tx.called[1] \in sch.health THEN FALSE
      ELSE TRUE

(* hFilterClientTxs: the full re-filter *)
Refiltered(F, sch, recs, diffs) ==
  SortedAsc({i \in 0..(Len(recs) - 1) : CodeFilterTx(F, sch, recs, diffs, Len(recs), i)})

(* hIsTxSkipped *)
Skipped(F, filtered, idx) == CodeFiltersActive(F) /\ ~DHas(filtered, idx)

(* hFilterTxCursor1(c, newCursor1, back) with c.CursorTx1 = cur, len(c.MsgTxs) = n *)
RECURSIVE FilterCursor(_, _, _, _, _, _)
FilterCursor(F, filtered, n, cur, new, back) ==
  IF ~CodeFiltersActive(F) THEN new
  ELSE IF new < 1 THEN 0
  ELSE IF new > n THEN (IF ~Skipped(F, filtered, cur - 1) THEN cur ELSE 0)
  ELSE IF Skipped(F, filtered, new - 1)
       THEN FilterCursor(F, filtered, n, cur, IF back THEN new - 1 ELSE new + 1, back)
       ELSE new

(* --------------------------------------------------------------------- *)
(* the view: [cursor, tail, F, filtered] over n records                    *)

(* ToggleTool on a filter tool *)
ToolFilter == [canceled |-> "FilterCanceledTx", queued |-> "FilterQueuedTx",
               empty |-> "FilterEmptyTx", health |-> "FilterHealth",
               outgroup |-> "FilterOutGroup", checks |-> "FilterChecks"]
Flip(F, f) == IF f \in F THEN F \ {f} ELSE F \cup {f}
Toggled(F, tool) ==
  IF tool = "auto"
  THEN \* none -> auto -> auto-canceled -> none
       IF "FilterAutoTx" \in F THEN (F \ {"FilterAutoTx"}) \cup {"FilterAutoCanceledTx"}
       ELSE IF "FilterAutoCanceledTx" \in F THEN F \ {"FilterAutoCanceledTx"}
       ELSE F \cup {"FilterAutoTx"}
  ELSE Flip(F, ToolFilter[tool])

(* FwdEnter / FwdState *)
FwdEnabled(v, n, k) == v.cursor + k <= n
DoFwd(v, n, k) == [v EXCEPT !.cursor = FilterCursor(v.F, v.filtered, n, v.cursor, v.cursor + k, FALSE)]
(* BackEnter / BackState *)
BackEnabled(v, n, k) == v.cursor - k >= 0
DoBack(v, n, k) == [v EXCEPT !.cursor = FilterCursor(v.F, v.filtered, n, v.cursor, v.cursor - k, TRUE)]
(* ScrollToTxEnter / ScrollToTxState by cursor position (also removes TailMode) *)
ScrollEnabled(v, n, c1) == c1 > 0 /\ n >= c1
DoScroll(v, n, c1) ==
  [v EXCEPT !.cursor = FilterCursor(v.F, v.filtered, n, v.cursor, c1, FALSE), !.tail = FALSE]
(* ScrollToTxEnter / ScrollToTxState by transition id: TxIndex is asked in the *)
(* negotiation (refused when it answers -1) and again in the handler.          *)
DoScrollId(v, n, cache, ids, id) ==
  LET r == CodeTxIndex(cache, ids, id)
  IN  [v |-> IF r.res > -1 THEN DoScroll(v, n, r.res + 1) ELSE v, cache |-> r.cache, res |-> r.res]
(* ToolTail: TailModeState jumps to the last shown record *)
DoTail(v, n) ==
  IF v.tail THEN [v EXCEPT !.tail = FALSE]
  ELSE [v EXCEPT !.tail = TRUE,
                 !.cursor = FilterCursor(v.F, v.filtered, n, v.cursor, n, TRUE)]
(* ToggleToolState on a filter + ToolToggledState(filterTxs).  Switching     *)
(* FilterCanceledTx / FilterQueuedTx OFF also removes FilterEmptyTx (their    *)
(* End handlers), but that mutation is queued BEHIND ToolToggled: the         *)
(* re-filter and the cursor fix still see FilterEmptyTx.                      *)
DoToggle(v, sch, recs, diffs, tool) ==
  LET F2 == Toggled(v.F, tool)
      n == Len(recs)
      fl == IF CodeFiltersActive(F2) THEN Refiltered(F2, sch, recs, diffs) ELSE v.filtered
      c1 == IF v.tail THEN FilterCursor(F2, fl, n, v.cursor, n, TRUE) ELSE v.cursor
      c2 == FilterCursor(F2, fl, n, c1, c1, TRUE)
      F3 == IF tool \in {"canceled", "queued"} /\ ToolFilter[tool] \in v.F
            THEN F2 \ {"FilterEmptyTx"} ELSE F2
  IN  [v EXCEPT !.F = F3, !.filtered = fl, !.cursor = c2]
(* ClientMsgState for the selected client: k records appended (recs is the   *)
(* list AFTER the append)                                                     *)
DoIngest(v, sch, recs, diffs, k) ==
  LET n0 == Len(recs) - k
      \* each new record is judged against the records received up to it
      inc == SortedAsc({i \in n0..(Len(recs) - 1) :
                          CodeFilterTx(v.F, sch, recs, diffs, IF Refilter THEN Len(recs) ELSE i + 1, i)})
      fl == IF Refilter /\ CodeFiltersActive(v.F) THEN Refiltered(v.F, sch, recs, diffs)
            ELSE v.filtered \o inc
      c == IF v.tail THEN FilterCursor(v.F, fl, Len(recs), v.cursor, Len(recs), TRUE) ELSE v.cursor
  IN  [v EXCEPT !.filtered = fl, !.cursor = c]

(* hNextTxIdx() / hNextTx(): called by hUpdateTimelines / hUpdateTxBars on   *)
(* every redraw (ClientMsg, ToolToggled, Fwd, Back, ScrollToTx, TailMode,    *)
(* ClientSelected ...)                                                       *)
NextTxIdx(v, n) == FilterCursor(v.F, v.filtered, n, v.cursor, v.cursor + 1, FALSE) - 1
NextTxPanics(v, n) == ~NextBounded /\ NextTxIdx(v, n) >= n
(* NoPanic: no handler of the debugger machine panics while it ingests or    *)
(* navigates (a panic aborts the handler half way and raises Exception)      *)
NoPanic(v, n) == ~NextTxPanics(v, n)

(* --------------------------------------------------------------------- *)
(* property formulas                                                       *)

(* FilterSound: the transition under the cursor matches the active filters *)
(* (matching as hFilterTx defines it, over all the records held).           *)
(* Weak reading: it is required whenever the debugger SELECTS a transition  *)
(* -- a command or the tail-follow moved the cursor, or a filter toggle     *)
(* re-validated the current position -- not while the cursor merely rests   *)
(* on a record that later telemetry re-classifies (a queued auto mutation   *)
(* whose execution turns out canceled).                                     *)
FilterSound(v, sch, recs, diffs) ==
  (SpecFiltersActive(v.F) /\ v.cursor > 0 /\ v.cursor <= Len(recs))
     => FilterPass(v.F, sch, recs, diffs, Len(recs), v.cursor - 1)
Selects(op, vOld, vNew) == op = "toggle" \/ vNew.cursor # vOld.cursor

(* ... and so does everything the filtered view lists while it is in use *)
FilteredSound(v, sch, recs, diffs) ==
  SpecFiltersActive(v.F) =>
     \A k \in 1..Len(v.filtered) :
        v.filtered[k] < Len(recs) => FilterPass(v.F, sch, recs, diffs, Len(recs), v.filtered[k])

(* ... and, weaker, at EVERY moment (also right after an ingestion, where the  *)
(* code judges a record only against the records received up to it): what the  *)
(* filtered view lists passes the active filters judged on the records up to   *)
(* the listed one.  This leaves out exactly the forward-looking clause (a       *)
(* queued auto mutation whose execution is canceled by a LATER record).         *)
FilteredSoundPrefix(v, sch, recs, diffs) ==
  SpecFiltersActive(v.F) =>
     \A k \in 1..Len(v.filtered) :
        v.filtered[k] < Len(recs) => FilterPass(v.F, sch, recs, diffs, v.filtered[k] + 1, v.filtered[k])

(* a jump by transition id shows the transition a scan finds, when it can be   *)
(* shown (no filter state on, or the filtered view lists it)                   *)
JumpLands(v, ids, id) ==
  LET i == ScanTxIndex(ids, id)
  IN  (i >= 0 /\ (v.F = {} \/ DHas(v.filtered, i))) => v.cursor = i + 1

Shown(v, sch, recs, diffs) ==
  /\ v.cursor > 0 /\ v.cursor <= Len(recs)
  /\ (SpecFiltersActive(v.F) => FilterPass(v.F, sch, recs, diffs, Len(recs), v.cursor - 1))

(* FwdBackIdentity (weak reading, docs: Fwd/Back step one SHOWN transition): *)
(* from a shown transition, a step forward that moved, then a step back,     *)
(* returns to it.  With no filter active any amount k returns.               *)
FwdBackIdentity(v, sch, recs, diffs, k) ==
  LET n == Len(recs)
      v1 == DoFwd(v, n, k)
  IN  (Shown(v, sch, recs, diffs) /\ FwdEnabled(v, n, k) /\ v1.cursor # v.cursor
       /\ (k = 1 \/ ~CodeFiltersActive(v.F)))
        => (BackEnabled(v1, n, k) /\ DoBack(v1, n, k).cursor = v.cursor)
=============================================================================
