#!/usr/bin/env python3
"""C10 - RPC clock diffs round-trip exactly and the checksum catches any drift.

design half : TLC explores spec/MCRpcDiff.tla (the specification's own encoder
              and decoder, spec/RpcDiff.tla) exhaustively within small constants:
              (a) the code as it is satisfies RoundTrip / DriftRejected / Applied
                  wherever no message field truncates, for deep clocks and a
                  last push as long as the schema (Inv_Sound),
              (b) with the repair flags it satisfies them everywhere (Inv_All),
              (c) the specification PREDICTS a failing case in each defect class
                  (Inv_Predict is violated) - predictions, never verdicts.
binding half: harness/rpcdiff runs the REAL sourceTracer.TransitionEnd,
              Server.RemoteHello, Server.newMsgMutation (calcUpdate /
              calcUpdateMutations / genDeepUpdate / genShallowUpdate),
              Client.updateStatesSchema, Client.clockFromUpdate and
              Client.clockUpdate(Mutations) on enumerated and sampled cases and
              logs one ndjson line per case; TLC (spec/TraceRpcDiff.tla) compares
              every stage with the specification (-> SPEC-DRIFT) and evaluates
              the property formulas on the code's output (-> VIOLATION).
"""
import glob, json, os, shutil, sys, time
import concurrent.futures as cf
from collections import Counter

sys.path.insert(0, os.path.dirname(os.path.abspath(__file__)))
import tlcrun
from common import *

PROP = "C10"
# the tree carries the first-push repair (fix: C10, see findings/known_findings.jsonl)
ASIS = dict(FixFirstPush=True, FixShallowSum=False, WideFields=False)
FIXED = dict(FixFirstPush=True, FixShallowSum=True, WideFields=True)
FORMULAS = ["RoundTrip", "DriftRejected", "Applied"]


# ---------------------------------------------------------------------------
# design half

def mc_plan(tier):
    small = dict(Shallows="<-BoolF", Kinds="<-KindsReg", BaseT="<-BaseTTwo", Deltas="<-DeltaSmall",
                 Deltas2="<-DeltaOne", BaseQ="<-BaseQOne", DQs="<-DQSmall", BaseM="<-BaseMSmall",
                 DMs="<-DMSmall", DriftSet="<-DriftTwo", Expect="none", MutsSet="<-BoolBoth")
    mix = dict(Shallows="<-BoolBoth", Kinds="<-KindsAll", BaseT="<-BaseTTwo", Deltas="<-DeltaMix",
               Deltas2="<-DeltaOne", BaseQ="<-BaseQOne", DQs="<-DQMix", BaseM="<-BaseMZero",
               DMs="<-DMMix", DriftSet="<-DriftTwo", Expect="none", MutsSet="<-BoolBoth")
    runs = []
    if tier == "quick":
        runs.append(("as-is, sound domain: n<=2, deep, hello/next, deltas 0..4, chains of 2",
                     dict(ASIS, NMax=2, **dict(small, DQs="<-DQTwo", BaseM="<-BaseMZero")),
                     ["Inv_Sound"], None, 8))
        runs.append(("repaired, everything: n<=2, deep+shallow, all kinds, deltas {0,1,2^32}, "
                     "dq {1,65537}, dm {0,257}", dict(FIXED, NMax=2, **mix), ["Inv_All"], None, 4))
        pn = 2
    else:
        runs.append(("as-is, sound domain: n<=2, deep, hello/next, deltas 0..4, chains of 2, "
                     "drift residues {1,2,127,128,255}",
                     dict(ASIS, NMax=2, **dict(small, DriftSet="<-DriftFew")), ["Inv_Sound"], None, 4))
        runs.append(("as-is, sound domain: n<=3, deep, hello/next, deltas 0..4",
                     dict(ASIS, NMax=3, **dict(small, DQs="<-DQTwo", BaseM="<-BaseMZero",
                                                MutsSet="<-BoolF")),
                     ["Inv_Sound"], None, 8))
        runs.append(("as-is, sound domain: n<=2, all 255 drift residues",
                     dict(ASIS, NMax=2, **dict(small, DriftSet="<-DriftAll", Deltas="<-DeltaMix",
                                                MutsSet="<-BoolF", DQs="<-DQTwo",
                                                BaseM="<-BaseMZero")),
                     ["Inv_Sound"], None, 4))
        runs.append(("as-is, sound domain with boundary values: n<=2, deltas {0,1,2^32-1,2^32,"
                     "2^32+1}, dq up to 65537, dm up to 257",
                     dict(ASIS, NMax=2, **dict(small, Deltas="<-DeltaBig", DQs="<-DQBig",
                                                DMs="<-DMBig", BaseQ="<-BaseQBig", MutsSet="<-BoolF")),
                     ["Inv_Sound"], None, 4))
        runs.append(("repaired, everything: n<=3", dict(FIXED, NMax=3, **mix), ["Inv_All"], None, 8))
        runs.append(("repaired, boundary values: n<=2",
                     dict(FIXED, NMax=2, **dict(mix, Deltas="<-DeltaBig", DQs="<-DQBig",
                                                 DMs="<-DMBig", MutsSet="<-BoolF")),
                     ["Inv_All"], None, 4))
        pn = 3
    for cls in ("shallow", "firstpush", "short", "trunc"):
        runs.append(("as-is, prediction: a case of class '%s' fails" % cls,
                     dict(ASIS, NMax=pn, **dict(mix, Expect=cls, MutsSet="<-BoolF")),
                     ["Inv_Predict"], cls, 2))
    return runs


def run_mc(tier, rep):
    plan = mc_plan(tier)

    def one(item):
        label, consts, invs, expect, workers = item
        r = tlcrun.run_tlc("MCRpcDiff", dict(spec="MCSpec", consts=consts, invariants=invs),
                           workers=workers, timeout=240 if tier == "quick" else 1500,
                           java_opts="-Xmx3g -XX:ParallelGCThreads=2")
        return item, r

    states = trans = 0
    runs = []
    predicted = []
    with cf.ThreadPoolExecutor(max_workers=len(plan)) as ex:
        results = list(ex.map(one, plan))
    for (label, consts, invs, expect, workers), r in results:
        runs.append(dict(config=label, states_generated=r["states"], distinct=r["distinct"],
                         wall_s=round(r["wall"], 1), violated=r["violated"],
                         timed_out=r["timed_out"]))
        if r["errors"] and not r["violated"]:
            raise Inconclusive("TLC error in '%s': %s\n%s" % (label, r["errors"][:3], r["out"][-2000:]))
        if r["timed_out"]:
            raise Inconclusive("TLC timed out in '%s'" % label)
        if expect is None:
            if r["violated"]:
                raise Inconclusive("specification violates %s in '%s':\n%s" % (
                    list(r["violated"]), label, r["out"][-3000:]))
            if not r["completed"]:
                raise Inconclusive("TLC did not complete '%s':\n%s" % (label, r["out"][-2000:]))
        elif r["violated"]:
            predicted.append(expect)
        states += r["distinct"]
        trans += r["states"]
    rep.coverage["mc_runs"] = runs
    rep.coverage["states"] = states
    rep.coverage["transitions"] = trans
    rep.coverage["spec_predicted_defect_classes"] = sorted(predicted)
    return predicted


# ---------------------------------------------------------------------------
# binding half

def num(limbs):
    v = 0
    for i, l in enumerate(limbs):
        v |= l << (16 * i)
    return v


def classify(x):
    """Cause features of a case, computed from its INPUTS only (configuration and
    source clocks): which true differences do not fit their message field, and
    whether the last push was empty / shorter than the schema."""
    n = x["n"]
    tracked = [i for i in range(n)
               if (x["allowedNil"] or i in x["allowed"]) and i not in x["skipped"]]
    first = dict(t=[num(v) for v in x["first"]["t"]], q=num(x["first"]["q"]), m=num(x["first"]["m"]))
    if x["kind"] == "nil":
        prev = dict(t=[], q=0, m=0)
    elif x["kind"] == "hello":
        prev = dict(first, m=0)          # the handshake does not carry the machine tick
    else:
        prev = first
    wrap = set()
    for s in x["snaps"]:
        cur = dict(t=[num(v) for v in s["t"]], q=num(s["q"]), m=num(s["m"]))
        if (cur["q"] - prev["q"]) % 2**64 >= 2**16:
            wrap.add("qtick")
        if (cur["m"] - prev["m"]) % 2**32 >= 2**8:
            wrap.add("machtick")
        if not x["shallow"]:
            for i in tracked:
                before = prev["t"][i] if i < len(prev["t"]) else 0
                if (cur["t"][i] - before) % 2**64 >= 2**32:
                    wrap.add("tick")
        if not x["muts"]:
            break
        prev = cur
    lastpush = {"hello": "full", "next": "full", "nil": "empty", "short": "shorter"}[x["kind"]]
    # one root cause per case, most general first
    if x["shallow"]:
        cause = "shallow-checksum"
    elif wrap:
        cause = "field-truncation"
    elif lastpush != "full":
        cause = "lastpush-" + lastpush
    else:
        cause = "unexplained"
    return dict(cause=cause, fields="+".join(sorted(wrap)) or "none",
                detail=dict(clocks="shallow" if x["shallow"] else "deep",
                            schema="synced" if x["schema"] else "none", lastpush=lastpush,
                            partial=len(tracked) < n, panic=bool(x["panic"])))


def case_of(x):
    """The harness input (rpcdiff.Case) that reproduces a logged case, with the
    logged drifted mirrors turned back into drifts."""
    probes = []
    mt = [num(v) for v in x["mirror"]["t"]]
    for p in x["probes"]:
        pt = [num(v) for v in p["mirror"]["t"]]
        diff = [i for i in range(len(mt)) if pt[i] != mt[i]]
        probes.append(dict(state=diff[0] if diff else -1,
                           dt=(pt[diff[0]] - mt[diff[0]]) % 2**64 if diff else 0,
                           dq=(num(p["mirror"]["q"]) - num(x["mirror"]["q"])) % 2**64,
                           dm=(num(p["mirror"]["m"]) - num(x["mirror"]["m"])) % 2**32))
    c = {k: x[k] for k in ("id", "kind", "n", "n1", "allowedNil", "allowed", "skipped", "schema",
                           "shallow", "muts")}
    c.update(
        first=dict(t=[num(v) for v in x["first"]["t"]], q=num(x["first"]["q"]), m=num(x["first"]["m"])),
        snaps=[dict(t=[num(v) for v in s["t"]], q=num(s["q"]), m=num(s["m"])) for s in x["snaps"]],
        probes=probes, autoProbe=False)
    return c


def generate(binary, tier, outdir, sd):
    if tier == "quick":
        plan = [("exh", ["-nmin", "1", "-nmax", "3", "-maxd", "4"], 16),
                ("exh", ["-nmin", "4", "-nmax", "4", "-maxd", "3"], 16),
                ("first", ["-nmin", "1", "-nmax", "3", "-maxd", "2"], 16),
                ("rnd", ["-n", "6000"], 16)]
    else:
        plan = [("exh", ["-nmin", "1", "-nmax", "5", "-maxd", "4"], 64),
                ("first", ["-nmin", "1", "-nmax", "4", "-maxd", "2"], 64),
                ("rnd", ["-n", "100000"], 64)]
    stats = []
    nshard = max(p[2] for p in plan)
    files = [os.path.join(outdir, "all.%d.ndjson" % k) for k in range(nshard)]
    for k, (mode, args, shards) in enumerate(plan):
        pref = os.path.join(outdir, "%s%d" % (mode, k))
        rc, out = run([binary, "rpcdiff", "-mode", mode, "-seed", str(sd * 100 + k), "-out", pref,
                       "-shards", str(nshard)] + args, timeout=1200)
        if rc != 0:
            raise Inconclusive("driver failed (%s): %s" % (mode, out[-2000:]))
        st = json.loads(out.strip().splitlines()[-1])
        st["mode"] = mode
        stats.append(st)
        # one TLC process per shard: append this mode's shard k to the merged shard k
        for j in range(nshard):
            part = "%s.%d.ndjson" % (pref, j)
            with open(files[j], "ab") as dst, open(part, "rb") as src:
                shutil.copyfileobj(src, dst)
            os.remove(part)
    return files, stats


def validate(files, rep, consts=ASIS):
    """Returns (lines, drifted mirrors, found, samples); found maps a signature
    (json) to [count, replay object, text] of its first occurrence."""
    old = os.environ.get("JAVA_TOOL_OPTIONS")
    os.environ["JAVA_TOOL_OPTIONS"] = "-Xmx2g -XX:ParallelGCThreads=2"   # 16 JVMs side by side
    try:
        res = tlcrun.validate_traces("TraceRpcDiff", consts, files, timeout=3000)
    finally:
        if old is None:
            del os.environ["JAVA_TOOL_OPTIONS"]
        else:
            os.environ["JAVA_TOOL_OPTIONS"] = old
    lines = nprobe = 0
    found = {}
    samples = []
    for r in res:
        if r["result"] is None:
            raise Inconclusive("trace validation did not finish for %s (rc=%s):\n%s" % (
                r["file"], r["rc"], r["out"][-3000:]))
        nl = sum(1 for _ in open(r["file"]))
        if r["result"]["lines"] != nl:
            raise Inconclusive("trace %s not fully consumed" % r["file"])
        lines += nl
        nprobe += r["result"]["nprobe"]
        want = {}
        for l, f in r["result"]["viol"]:
            want.setdefault(l, []).append(("viol", f))
        for l, f in r["result"]["drift"]:
            want.setdefault(l, []).append(("drift", f))
        if not want and len(samples) >= 3:
            continue
        with open(r["file"]) as fh:
            for i, line in enumerate(fh, 1):
                if i not in want:
                    if len(samples) < 3 and '"ix":[]' not in line and '"acc":true' in line:
                        x = json.loads(line)
                        samples.append({k: x[k] for k in ("kind", "n", "schema", "shallow", "srvIdx",
                                                          "first", "snaps", "msgs", "acc", "after")})
                    continue
                x = json.loads(line)
                for what, f in want[i]:
                    if what == "drift":
                        rep.drift.append("%s line %d (case %d, %s): stage %s differs from the "
                                         "specification" % (os.path.basename(r["file"]), i, x["id"],
                                                            x["kind"], f))
                        continue
                    feat = classify(x)
                    sig = dict(formula=f, cause=feat["cause"], fields=feat["fields"])
                    if feat["cause"].startswith("lastpush"):
                        sig["schema"] = feat["detail"]["schema"]
                        sig["panic"] = feat["detail"]["panic"]
                    key = json.dumps(sig, sort_keys=True)
                    if key in found:
                        found[key][0] += 1
                        continue
                    c = case_of(x)
                    msg = x["msgs"][0] if x["msgs"] else None
                    found[key] = [1, dict(kind="rpcdiff", property=PROP, formula=f, case=c),
                                  "%s false on the real codec: kind=%s n=%d tracked=%s schema=%s "
                                  "shallow=%s muts=%s first=%s snaps=%s -> msg=%s accepted=%s after=%s "
                                  "(%s)" % (f, x["kind"], x["n"], x["srvIdx"], x["schema"],
                                            x["shallow"], x["muts"], json.dumps(c["first"]),
                                            json.dumps(c["snaps"]), json.dumps(msg), x["acc"],
                                            json.dumps(x["after"]), json.dumps(feat))]
    return lines, nprobe, found, samples


def check(tier):
    rep = Report(PROP, tier, "model_checking")
    sd = seed()
    binary = build_harness()
    d = scratch(PROP)
    try:
        # the design half runs beside the binding half
        with cf.ThreadPoolExecutor(max_workers=1) as bg:
            mc = bg.submit(run_mc, tier, rep)
            try:
                files, stats = generate(binary, tier, d, sd)
                lines, nprobe, found, samples = validate(files, rep)
            finally:
                predicted = mc.result()
        for key in sorted(found):
            cnt, obj, text = found[key]
            rep.violation(json.loads(key), obj, "%s  [%d cases with this signature]" % (text, cnt))
        ncases = sum(s["cases"] for s in stats)
        rep.coverage.update(
            traces_validated_against_impl=ncases,
            evaluations=ncases + sum(s["probes"] for s in stats),
            drifted_mirrors_in_precondition=nprobe,
            distinct_nontrivial=sum(s["distinct_nontrivial"] for s in stats),
            driver_stats=stats, trace_lines=lines,
            violations_by_signature={k: v[0] for k, v in sorted(found.items())},
            rule="case = (state count 1..6, allow/skip lists, schema synced or not, deep/shallow, "
                 "per-mutation chain or not, kind of first snapshot hello|next|nil|short, first "
                 "source clock, successive source clock(s)); exhaustive part: every tracked "
                 "subset x mode x every per-state delta vector in 0..4 for n<=3 and 0..3 for n=4 "
                 "(quick) / 0..4 for n<=5 (thorough), first-push and grown-schema cases with every value vector in 0..2; "
                 "sampled part: n<=6, random lists with unknown/duplicate names, deltas at the "
                 "2^8/2^16/2^32 boundaries, chains of 1..4 per-mutation updates; every case is also "
                 "applied to 2..7 drifted mirrors incl. the drift that makes a rejected message "
                 "pass; distinct = distinct (configuration, clocks, message) measured by the "
                 "driver; non-trivial = the message carries a tick / queue tick / machine tick, "
                 "was rejected or the encoder panicked",
            samples=samples or [dict(note="no accepted non-empty sample")],
            formulas=FORMULAS, exhaustive=False)
        rep.assumptions += [
            "TLC explores the bounded model completely only within the stated constants",
            "the source machine's clock is a settable am.Api (pkg/rpc/verif_on.go); everything else "
            "is the unmodified server / tracer / client / network machine code, without the network",
            "mirror 'holding the first snapshot' = what the real handshake leaves in the network "
            "machine (tracked states' ticks, zeros elsewhere) plus the last push's queue and "
            "machine tick; empty last push = all-zero mirror",
            "shallow clocks: 'tick sum' of the drift precondition is read as both the held ticks "
            "and the synchronised 0/1 clocks (weaker reading)",
        ]
        rep.notes.append("specification (code as is) predicted failing cases in classes %s" % predicted)
    finally:
        shutil.rmtree(d, ignore_errors=True)
    return rep.finish()


def replay(path):
    obj = json.load(open(path))
    rep = Report(PROP, os.environ.get("VERIF_TIER", "quick"), "model_checking")
    binary = build_harness()
    d = scratch(PROP + "-replay")
    try:
        case = dict(obj["case"])
        inp = os.path.join(d, "case.ndjson")
        with open(inp, "w") as f:
            f.write(json.dumps(case) + "\n")
        rc, out = run([binary, "rpcdiff", "-mode", "file", "-in", inp, "-out", os.path.join(d, "r")])
        if rc != 0:
            raise Inconclusive(out)
        # only the stored formula counts for the replay verdict
        rep2 = Report(PROP, rep.tier, "model_checking")
        lines, nprobe, found, samples = validate([os.path.join(d, "r.0.ndjson")], rep2)
        if any(json.loads(k)["formula"] == obj["formula"] for k in found):
            rep.violations.append((dict(formula=obj["formula"]), path,
                                   "replayed case still violates %s" % obj["formula"]))
        rep.drift = rep2.drift
        rep.coverage.update(evaluations=1, distinct_nontrivial=2, rule="replay", samples=[case],
                            states=1, transitions=1, traces_validated_against_impl=1)
    finally:
        shutil.rmtree(d, ignore_errors=True)
    return rep.finish()


if __name__ == "__main__":
    sys.exit(check(sys.argv[1] if len(sys.argv) > 1 else "quick"))
