#!/usr/bin/env python3
"""C09 - RPC mirror converges (pkg/rpc: server pushes, mutation replies, full syncs,
drops and reconnects).

design half : spec/RpcSync.tla models the clock-sync PROTOCOL as the code is, one
              action per critical section (SrcMutate+TracerSnapshot, PushTry/PushSend
              under lockExport, RemoteMutCompute under lockExport, ReplySend after the
              unlock, RemoteSync, the client's blocking read loop Deliver, the calling
              goroutine's CliApplyReply / CliSyncApply, Drop / Connect / hello /
              handshake).  Every defect found in the code is a CONSTANT flag.
              spec/MCRpcSync.tla:
                - all repair flags ON : ConvergedAtQuiescence, ResyncAfterDrift,
                  NoForeverBlock, ReadYourWrite are invariants of every sync
                  configuration, EventuallyConverged (<>[]) holds under weak fairness
                  of the protocol steps on the unconstrained specification
                  (MCRpcSyncLive) - the formulas are satisfiable, the model is not
                  vacuous;
                - flags as the code is: TLC prints the action history of every
                  violating state (predictions).
binding half: real rpc.Server + rpc.Client + NetworkMachine over an in-memory
              connection the harness owns (harness/rpcdrv): message-by-message
              delivery per direction, cut, gates at the hook points of
              pkg/rpc/verif_sync_on.go.
              B3: every selected TLC history is FORCED on the real pair action by
                  action; TLC (spec/TraceRpcSync.tla) validates the recorded trace
                  against the operators the model is built from and evaluates the
                  formulas on the LOGGED clocks at the quiescence the harness observed.
              B1: free-running histories per sync mode (schema / no schema, allow /
                  skip lists, shallow, per-mutation, push interval 0 / N, drops with
                  automatic reconnect), validated the same way; the debounce family
                  (debounce_cases): real push interval + real ticker, reconnects, then a
                  burst inside one interval, then silence - PushDeliveredAtQuiescence
                  (the model's "the pusher is live") judged on the logged snapshots.
A VIOLATION is a formula that is false on values the real pair produced at an
observed quiescence of a COMPLETED schedule; an incomplete schedule, a dead
driver or a TLC failure is inconclusive (exit 2).
"""
import concurrent.futures as cf
import json, os, random, re, shutil, sys, time
from collections import Counter, OrderedDict, defaultdict

sys.path.insert(0, os.path.dirname(os.path.abspath(__file__)))
import tlcrun
from common import *

PROP = "C09"

FLAGS = ["FixPushDriftSync", "FixEmptyPush", "FixQueueFlush", "FixSyncAsync", "FixSyncRebase",
         "FixShallowSum", "FixHsGate", "FixHsRequire", "FixApplyInOrder"]
CODE = {f: False for f in FLAGS}     # pkg/rpc at the pinned commit
REP = {f: True for f in FLAGS}       # every repair applied
FORMULAS = ["ConvergedAtQuiescence", "ResyncAfterDrift", "NoForeverBlock", "ReadYourWrite",
            "PushDeliveredAtQuiescence"]
TRACE_ONLY_FORMULAS = ["ActivityAtQuiescence",   # judged on the logged Is() of the mirror
                       "PushDeliveredAtQuiescence"]   # invariant of the model by construction (the pusher
                                                      # is live); judged on the real debounce + ticker
TRACE_FLAGS = dict(FixQueueFlush=False, FixShallowSum=False)

# sync configurations of the model and the harness configuration that realises them
CONFIGS = OrderedDict([
    ("deep", dict(m=dict(Schema=True, Shallow=False, PerMutation=False, PushEnabled=True, Skipped="<-SkippedC"),
                  h=dict(schema=True, skipped=["C"], push_us=-1))),
    ("deepall", dict(m=dict(Schema=True, Shallow=False, PerMutation=False, PushEnabled=True, Skipped="<-NoStates"),
                     h=dict(schema=True, push_us=-1))),
    ("muts", dict(m=dict(Schema=True, Shallow=False, PerMutation=True, PushEnabled=True, Skipped="<-SkippedC"),
                  h=dict(schema=True, skipped=["C"], mutations=True, push_us=-1))),
    ("shallow", dict(m=dict(Schema=True, Shallow=True, PerMutation=False, PushEnabled=True, Skipped="<-SkippedC"),
                     h=dict(schema=True, skipped=["C"], shallow=True, push_us=-1))),
    ("noschema", dict(m=dict(Schema=False, Shallow=False, PerMutation=False, PushEnabled=True, Skipped="<-SkippedC"),
                      h=dict(schema=False, skipped=["C"], push_us=-1))),
    ("nopush", dict(m=dict(Schema=True, Shallow=False, PerMutation=False, PushEnabled=False, Skipped="<-SkippedC"),
                    h=dict(schema=True, skipped=["C"], push_us=0))),
])

BIG = dict(MaxMut=3, MaxCli=2, MaxPush=2, MaxDrop=1, MaxSync=2)
MID = dict(MaxMut=3, MaxCli=2, MaxPush=2, MaxDrop=0, MaxSync=2)
DROP = dict(MaxMut=2, MaxCli=2, MaxPush=2, MaxDrop=1, MaxSync=2)
SMALL = dict(MaxMut=2, MaxCli=1, MaxPush=2, MaxDrop=1, MaxSync=2)
LIVE = dict(MaxMut=2, MaxCli=1, MaxPush=6, MaxDrop=1, MaxSync=4)

TIERS = dict(
    quick=dict(
        verify=[("deep", MID), ("deep", DROP), ("muts", MID), ("shallow", SMALL), ("noschema", SMALL),
                ("nopush", SMALL), ("deepall", SMALL)],
        live=[("deep", LIVE)],
        emit=[("deep", SMALL), ("deep", MID), ("muts", MID), ("shallow", SMALL), ("noschema", MID),
              ("nopush", MID), ("deepall", SMALL)],
        per_emit=14, free=96, debounce=14, workers=16),
    thorough=dict(
        verify=[(c, BIG) for c in CONFIGS] + [("deep", dict(MID, MaxMut=4, MaxPush=3))],
        live=[("deep", LIVE), ("muts", LIVE), ("noschema", LIVE), ("deepall", LIVE), ("shallow", LIVE)],
        emit=[(c, b) for c in CONFIGS for b in (SMALL, MID)] + [("deep", BIG), ("muts", DROP)],
        per_emit=60, free=600, debounce=60, workers=16),
)


def mc_consts(cfgname, bounds, flags, emit=False, maxemit=0):
    c = dict(Tracked="<-TrackedAB", ExtraTracked=3)
    c.update(CONFIGS[cfgname]["m"])
    c.update(bounds)
    c.update(flags)
    c.update(Emit=emit, MaxEmit=maxemit)
    return c


# ---------------------------------------------------------------------------
# design half

def design_verify(rep, tier):
    """All repairs on: the formulas are invariants; liveness under fairness."""
    T = TIERS[tier]
    jobs = []
    for name, b in T["verify"]:
        jobs.append(("inv", name, b))
    for name, b in T["live"]:
        jobs.append(("live", name, b))

    def one(job):
        kind, name, b = job
        if kind == "inv":
            return job, tlcrun.run_tlc("MCRpcSync", dict(
                spec="MCSpec", consts=mc_consts(name, b, REP), view="MCView",
                invariants=["TypeOK", "Holds"]), workers=4, timeout=900)
        c = mc_consts(name, b, REP)
        del c["Emit"], c["MaxEmit"]
        return job, tlcrun.run_tlc("MCRpcSyncLive", dict(
            spec="FairSpec", consts=c, invariants=["TypeOK"],
            properties=["EventuallyConverged"]), workers=4, timeout=900)

    runs, states, trans = [], 0, 0
    with cf.ThreadPoolExecutor(max_workers=4) as ex:
        for job, r in ex.map(one, jobs):
            kind, name, b = job
            if r["timed_out"] or not r["completed"] or (r["errors"] and not r["violated"]
                                                        and "Temporal" not in " ".join(r["errors"])):
                raise Inconclusive("TLC failed on %s/%s: %s\n%s" % (kind, name, r["errors"][:3],
                                                                   r["out"][-1500:]))
            if r["violated"] or any("Temporal" in e for e in r["errors"]):
                raise Inconclusive("the repaired specification violates %s in %s/%s (spec wrong?):\n%s" % (
                    list(r["violated"]) or "EventuallyConverged", kind, name, r["out"][-2500:]))
            runs.append(dict(kind=kind, config=name, bounds=b, states=r["states"],
                             distinct=r["distinct"], wall=round(r["wall"], 1)))
            states += r["distinct"]
            trans += r["states"]
    rep.coverage["mc_runs"] = runs
    rep.coverage["states"] = states
    rep.coverage["transitions"] = trans
    rep.coverage["mc_formulas"] = FORMULAS + ["EventuallyConverged (<>[] under WF of the protocol steps)"]


RE_CEX = re.compile(r'^<<"CEX", "(.*)">>$', re.M)


def design_emit(rep, tier):
    """Flags as the code is: TLC's violating states with their action histories."""
    T = TIERS[tier]

    def one(job):
        name, b = job
        r = tlcrun.run_tlc("MCRpcSync", dict(
            spec="MCSpec", consts=mc_consts(name, b, CODE, emit=True, maxemit=100000), view="MCView",
            invariants=["TypeOK", "EmitCex"]), workers=1, timeout=900, continue_=True)
        return job, r

    shapes = OrderedDict()   # (config, viol, action sequence) -> history
    runs = []
    with cf.ThreadPoolExecutor(max_workers=8) as ex:
        for job, r in ex.map(one, T["emit"]):
            name, b = job
            if r["timed_out"] or not r["completed"] or r["errors"]:
                raise Inconclusive("TLC schedule generation failed on %s: %s\n%s" % (
                    name, r["errors"][:3], r["out"][-1500:]))
            n = 0
            for m in RE_CEX.finditer(r["out"]):
                s = m.group(1).replace('\\\\', '\x00').replace('\\"', '"').replace('\x00', '\\')
                j = json.loads(s)
                n += 1
                hist = [(h["a"], h["s"]) for h in j["hist"]]
                key = (name, tuple(sorted(j["viol"])),
                       tuple(a + (":" + s_ if a == "Deliver" else "") for a, s_ in hist))
                if key not in shapes or len(hist) < len(shapes[key]["hist"]):
                    shapes[key] = dict(config=name, viol=sorted(j["viol"]), hist=hist)
            runs.append(dict(config=name, bounds=b, states=r["distinct"], cex=n, wall=round(r["wall"], 1)))
    rep.coverage["prediction_runs"] = runs
    rep.coverage["predicted_shapes"] = len(shapes)
    by = Counter()
    for k in shapes:
        for v in k[1]:
            by[(k[0], v)] += 1
    rep.coverage["predicted_by_config_formula"] = {"%s/%s" % k: v for k, v in sorted(by.items())}
    if not shapes:
        raise Inconclusive("the specification of the code as it is predicts nothing: flags or model broken")
    return shapes


def features(hist):
    """What a history exercises (used to pick DIVERSE schedules)."""
    acts = [a for a, _ in hist]
    f = set()
    if "Drop" in acts:
        f.add("drop")
    if "CliCall" in acts:
        f.add("cli")
    if "CliSyncSend" in acts:
        f.add("sync")
    if ("SrcMutate", "reject") in hist or ("CliCall", "reject") in hist:
        f.add("reject")
    if ("SrcMutate", "C") in hist or ("CliCall", "C") in hist:
        f.add("skipped")
    # reply computed, push computed later, push delivered first
    if "RemoteMutCompute" in acts and "ReplySend" in acts:
        i, j = acts.index("RemoteMutCompute"), len(acts) - 1 - acts[::-1].index("ReplySend")
        if "PushSend" in acts[i:j]:
            f.add("reorder")
    if "CliRetry" in acts:
        f.add("retry")
    return tuple(sorted(f))


def select_schedules(shapes, tier, rnd):
    """Per (config, violated set, feature set) the shortest histories first, the rest sampled."""
    T = TIERS[tier]
    groups = defaultdict(list)
    for key, sh in shapes.items():
        groups[(sh["config"], tuple(sh["viol"]), features(sh["hist"]))].append(sh)
    per_cfg = defaultdict(list)
    for (cfgname, _, _), lst in sorted(groups.items()):
        lst.sort(key=lambda s: (len(s["hist"]), s["hist"]))
        per_cfg[cfgname].append(lst)
    chosen = []
    for cfgname, lists in per_cfg.items():
        budget = T["per_emit"] * sum(1 for n, _ in T["emit"] if n == cfgname)
        first = [l[0] for l in lists]
        rest = [s for l in lists for s in l[1:]]
        rnd.shuffle(rest)
        chosen += (first + rest)[:max(budget, len(first))] if len(first) <= budget else first[:budget]
    return chosen


def schedule_case(i, sh):
    steps = [dict(k="stepmode")]
    for a, s in sh["hist"]:
        steps.append(dict(k="act", a=a, s=s))
    # the ticker keeps calling pushClient; then the quiescence observation
    steps += [dict(k="free"), dict(k="settle", ms=4000), dict(k="push"), dict(k="settle", ms=4000),
              dict(k="push"), dict(k="settle", ms=4000), dict(k="probe", p="quiescent")]
    return dict(label="b3-%s-%d" % (sh["config"], i), cfg=CONFIGS[sh["config"]]["h"], forced=True,
                steps=steps, predicted=sh["viol"], config=sh["config"],
                hist=" ".join(a + (":" + s if s else "") for a, s in sh["hist"]))


# ---------------------------------------------------------------------------
# B1: free-running histories

def info_cases():
    """Scenarios outside the premise of the property, run for the record (evidence notes):
    a reply stalled beyond the client's CallTimeout; a peer that vanished without a FIN."""
    stall = dict(label="info-stall", cfg=dict(schema=True, push_us=-1, call_timeout_ms=300, call_retries=1),
                 forced=False, config="info", mode="info/stall", steps=[
        dict(k="hold", d="s2c"), dict(k="cli", op="add", states=["A"], id=1, **{"async": True}),
        dict(k="cliwait", id=1, ms=2500, opt=True), dict(k="probe", p="stalled"),
        dict(k="unhold", d="s2c"), dict(k="cliwait", id=1, ms=3000, opt=True),
        dict(k="settle", ms=4000), dict(k="probe", p="quiescent")])
    late = dict(label="info-latedisc", cfg=dict(schema=True, push_us=-1), forced=False, config="info",
                mode="info/latedisc", steps=[
        dict(k="src", op="add", states=["A"]), dict(k="push"), dict(k="settle"),
        dict(k="cut", d="cli"), dict(k="waitdisc"), dict(k="connect"), dict(k="waitready", opt=True),
        dict(k="src", op="add", states=["B"]), dict(k="cut", d="oldsrv"), dict(k="autoconn"),
        dict(k="settle", us=400000, ms=6000), dict(k="waitready", opt=True, ms=4000),
        dict(k="push"), dict(k="settle", ms=4000), dict(k="probe", p="quiescent")])
    return [stall, late]


def free_cases(n, rnd):
    modes = []
    for schema in (True, False):
        for lists in ("none", "skip", "allow"):
            for kind in ("deep", "shallow", "muts"):
                for push in (0, 300, 3000):
                    modes.append((schema, lists, kind, push))
    rnd.shuffle(modes)
    cases = []
    for i in range(n):
        schema, lists, kind, push = modes[i % len(modes)]
        h = dict(schema=schema, push_us=push)
        if lists == "skip":
            h["skipped"] = ["C"]
        elif lists == "allow":
            # the allow list in ANY order (the index space is the source's, not the list's)
            h["allowed"] = rnd.sample(["A", "B", "D"], 3)
        if kind == "shallow":
            h["shallow"] = True
        elif kind == "muts":
            h["mutations"] = True
        visible = ["A", "B"] + (["C"] if lists == "none" else []) + ["D"]
        active = set()
        steps = []
        drops = rnd.random() < 0.25
        if drops:
            steps.append(dict(k="autoconn"))
        nops = rnd.randint(3, 8)
        cid = 0
        for k in range(nops):
            who = "cli" if rnd.random() < 0.4 else "src"
            pool = ["A", "B", "C", "D"] if who == "src" else visible
            s = rnd.choice(pool)
            if s == "D":
                op = "add"                      # always rejected (Z is never active)
            elif s in active:
                op = "remove"
                active.discard(s)
            else:
                op = "add"
                active.add(s)
            if who == "cli":
                cid += 1
                steps.append(dict(k="cli", op=op, states=[s], id=cid, ms=6000))
            else:
                steps.append(dict(k="src", op=op, states=[s]))
            if rnd.random() < 0.5:
                steps.append(dict(k="sleep", us=rnd.choice([50, 400, 2000, 6000])))
            if drops and rnd.random() < 0.2:
                steps.append(dict(k="cut"))
                if rnd.random() < 0.6:
                    # the source changes the ACTIVITY of a state while the client is away
                    s2 = rnd.choice(["A", "B"])
                    if s2 in active:
                        active.discard(s2)
                        steps.append(dict(k="src", op="remove", states=[s2]))
                    else:
                        active.add(s2)
                        steps.append(dict(k="src", op="add", states=[s2]))
                steps.append(dict(k="waitready", ms=5000))
        if push == 0 or rnd.random() < 0.2:
            # pushes disabled: only a reply or a sync exports the last local change
            cid += 1
            if rnd.random() < 0.5:
                steps.append(dict(k="clisync", id=cid, ms=6000))
            else:
                s = rnd.choice(["A", "B"])
                op = "remove" if s in active else "add"
                steps.append(dict(k="cli", op=op, states=[s], id=cid, ms=6000))
        idle = max(60000, 12 * push)
        steps += [dict(k="settle", us=idle, ms=6000), dict(k="probe", p="quiescent")]
        cases.append(dict(label="b1-%d" % i, cfg=h, forced=False, steps=steps, config="free",
                          mode="%s/%s/%s/push%d%s" % ("schema" if schema else "noschema", lists, kind,
                                                      push, "/drops" if drops else "")))
    return cases


def debounce_cases(n, rnd):
    """The debounce of pushClient ("too often": a source change that follows a push or a reply by
    less than PushInterval is not pushed by the tracer's goroutine but left to the push ticker) with
    the REAL interval and the REAL ticker: 0-2 drops with a re-handshake on the same server, then a
    burst of >= 2 source-side changes inside ONE push interval (after a push-free pause the first
    one is exported at once, the others are debounced; or the burst follows a client mutation, whose
    reply opens the debounce window), then silence for >= 12 intervals and the quiescence probe."""
    cases = []
    for i in range(n):
        push = rnd.choice([30000, 60000])
        schema = rnd.random() < 0.7
        lists = rnd.choice(["none", "skip", "allow"])
        h = dict(schema=schema, push_us=push)
        if lists == "skip":
            h["skipped"] = ["C"]
        elif lists == "allow":
            h["allowed"] = rnd.sample(["A", "B", "D"], 3)
        reconnects = [1, 2, 1, 0][i % 4]
        opener = "cli" if i % 3 == 2 else "src"
        active = set()
        cid = 0
        steps = [dict(k="autoconn")] if reconnects else []

        def toggle(who, s):
            nonlocal cid
            op = "remove" if s in active else "add"
            (active.discard if s in active else active.add)(s)
            if who == "cli":
                cid += 1
                return dict(k="cli", op=op, states=[s], id=cid, ms=6000)
            return dict(k="src", op=op, states=[s])

        def burst():
            out = []
            if rnd.random() < 0.7:
                out.append(dict(k="sleep", us=2 * push))     # the previous push is older than the interval
            out.append(toggle(opener, rnd.choice(["A", "B"])))
            if opener == "src":
                # the tracer's goroutine exports the first change (else it may run after the whole
                # burst and export it in one diff: nothing debounced)
                out.append(dict(k="sleep", us=push // 8))
            for _ in range(rnd.randint(1, 2)):               # inside the interval: debounced
                out.append(toggle("src", rnd.choice(["A", "B"])))
            return out

        if reconnects == 0 or rnd.random() < 0.5:
            steps += burst()
            steps.append(dict(k="settle", us=max(60000, 12 * push), ms=8000))
        for _ in range(reconnects):
            steps.append(dict(k="cut", d=rnd.choice(["", "cli"])))
            steps.append(dict(k="waitready", ms=6000))
            steps.append(dict(k="settle", us=max(60000, 3 * push), ms=6000))
        if reconnects:
            steps += burst()
        steps += [dict(k="settle", us=max(60000, 12 * push), ms=8000), dict(k="probe", p="quiescent")]
        cases.append(dict(label="b1-deb-%d" % i, cfg=h, forced=False, steps=steps, config="free",
                          mode="debounce/%s/%s/push%d/reconnects%d/%s-burst" % (
                              "schema" if schema else "noschema", lists, push, reconnects, opener)))
    return cases


# ---------------------------------------------------------------------------
# driver + validation

REQUIRED_POINTS = ["rpc.tracer.snapshot", "rpc.lastpush.store", "rpc.push.beforeNotify",
                   "rpc.remote.afterReply", "rpc.client.applied", "rpc.client.clockSet",
                   "rpc.hello", "rpc.client.hello", "rpc.client.beforeReplyApply"]


def run_driver(binary, cases, d, tag, workers, shards=16):
    inp = os.path.join(d, tag + ".cases.ndjson")
    with open(inp, "w") as f:
        for c in cases:
            f.write(json.dumps(dict(label=c["label"], cfg=c["cfg"], forced=c["forced"], steps=c["steps"])) + "\n")
    shards = max(1, min(shards, len(cases)))
    out = os.path.join(d, tag)
    rc, o = run([binary, "rpcsync", "-in", inp, "-out", out, "-shards", str(shards),
                 "-workers", str(workers)], timeout=1500)
    if rc != 0:
        i = o.find("panic:")
        raise Inconclusive("rpcsync driver failed (rc=%s): %s" % (rc, o[i:i + 3000] if i >= 0 else o[-2000:]))
    outcomes = json.load(open(out + ".outcomes.json"))
    files = ["%s.%d.ndjson" % (out, k) for k in range(shards)]
    return outcomes, files


def validate(files):
    files = [f for f in files if os.path.getsize(f) > 0]
    res = tlcrun.validate_traces("TraceRpcSync", TRACE_FLAGS, files, timeout=900)
    viol, drift = defaultdict(set), defaultdict(set)
    stat = Counter()
    lines = 0
    for r in res:
        if r["result"] is None:
            raise Inconclusive("trace validation did not finish for %s (rc=%s):\n%s" % (
                r["file"], r["rc"], r["out"][-2500:]))
        lines += r["result"]["lines"]
        for ln, label, name in r["result"]["viol"]:
            viol[label].add(name)
        for ln, label, name in r["result"]["drift"]:
            drift[label].add(name)
        for k, v in r["result"]["stat"].items():
            stat[k] += v
    return viol, drift, stat, lines


def case_lines(files, outcome):
    f = files[outcome["shard"]]
    out = []
    with open(f) as fh:
        for i, l in enumerate(fh, 1):
            if i >= outcome["line"] + outcome["n"]:
                break
            if i >= outcome["line"]:
                out.append(json.loads(l))
    return out


def cause_of(case, lines, names):
    """Coarse root cause of a violation, decided from what the CODE logged (not from the
    schedule), first match wins.  It only serves to tell findings apart."""
    cfg = case["cfg"]
    evs = [l["ev"] for l in lines]
    if "NoForeverBlock" in names:
        if any(l["ev"] == "probe" and l.get("syncopen", 0) > 0 for l in lines):
            return "sync_inside_blocking_handler"
        return "call_never_returns"
    if "PushDeliveredAtQuiescence" in names:
        # TLC's verdict on the logged snapshots / lastPushData: a change nobody exported, both sides
        # handshaken; told apart by whether the client had re-handshaken before (measured)
        hs = sum(1 for l in lines if l["ev"] == "chandshaked")
        return "debounced_push_never_delivered" + ("_after_reconnect" if hs >= 2 else "")
    if cfg.get("mutations"):
        for l in lines:
            if l["ev"] in ("notify", "reply"):
                if any(d >= (1 << 19) for u in l["us"] for d in u["d"]) or any(u["q"] >= 32768 for u in l["us"]):
                    return "mutation_queue_never_flushed"
    if any(l["ev"] == "probe" and l["quiescent"] and l["cready"] and not l["sready"] for l in lines):
        return "server_handshake_rejected"
    if "dropped" in evs:
        return "update_before_client_handshake_dropped"
    if cfg.get("shallow"):
        return "shallow_checksum"
    # a Sync that returned without setting the clock (length test)
    i = 0
    while i < len(lines):
        if lines[i]["ev"] == "syncenter":
            j = i + 1
            while j < len(lines) and lines[j]["ev"] != "syncexit":
                j += 1
            if j < len(lines) and not any(l["ev"] == "set" for l in lines[i:j]):
                return "sync_fails_length_check"
            i = j
        i += 1
    # a full sync that copied ticks of states that are not synchronised into the mirror
    tracked = names_ = None
    for l in lines:
        if l["ev"] == "chello":
            tracked, names_ = set(l["tracked"]), l["names"]
        if l["ev"] == "set" and names_ and len(l["tt"]) == len(names_):
            if any(v != 0 and names_[k] not in tracked for k, v in enumerate(l["tt"])):
                return "sync_copies_untracked_ticks"
    # lastPushData advanced without a Notify
    pending = False
    for l in lines:
        if l["ev"] == "notify":
            pending = True
        elif l["ev"] == "store":
            if l["kind"] == "push" and not pending and l["tq"] > l["fq"]:
                return "empty_diff_advances_lastpush"
            pending = False
    # a full sync that the server's lastPushData does not know about
    hs = 0
    for l in lines:
        if l["ev"] == "chandshaked":
            hs += 1
        if l["ev"] == "syncenter" and hs:
            return "sync_not_rebased"
    if "reply" in evs and "notify" in evs:
        return "push_overtakes_reply"
    return "other"


def judge(rep, cases, outcomes, files, viol, drift, seen, suspects=None):
    """Turn TLC's verdicts on the logged values into violations; return statistics.
    suspects: list collecting (case, formula) of violations on NON-conforming traces; they
    are not reported here but re-run alone (recheck_suspects) - on a starved host a
    logging-order artefact can make a trace of the unchanged code look non-conforming."""
    by_label = {c["label"]: c for c in cases}
    n_viol = 0
    confirmed, incomplete = Counter(), []
    for o in outcomes:
        c = by_label[o["label"]]
        names = viol.get(o["label"], set())
        if not o["completed"]:
            incomplete.append((o["label"], o.get("why", "")))
        if not names:
            continue
        lines = case_lines(files, o)
        drifts = drift.get(o["label"], set())
        cause = cause_of(c, lines, names | drifts)
        for name in sorted(names):
            # conforms: every logged step of the case is the step the specification of the code AS IT
            #           IS takes (no drift), i.e. the defect is one of the modelled ones; a change of
            #           behaviour shows as conforms=false and is never matched by a known finding
            sig = dict(formula=name, cause=cause, conforms=not drifts)
            key = (name, cause, sig["conforms"])
            confirmed[key] += 1
            n_viol += 1
            if drifts and suspects is not None:
                if not any(c2["label"] == c["label"] and n2 == name for c2, n2 in suspects) and \
                        sum(1 for c2, n2 in suspects if n2 == name) < 6:
                    suspects.append((c, name))
                continue
            if key in seen:
                continue
            seen[key] = o["label"]
            probe = [l for l in lines if l["ev"] == "probe"][-1:] or [{}]
            text = "%s false on the real Server+Client (%s, cause=%s%s, cfg=%s%s): source %s / mirror %s at quiescence" % (
                name, o["label"], cause, "" if not drifts else ", code deviates from the spec: %s" % sorted(drifts),
                json.dumps(c["cfg"], sort_keys=True),
                ", history: " + c["hist"] if c.get("hist") else "",
                probe[0].get("st"), probe[0].get("mt"))
            rep.violation(sig, dict(property=PROP, signature=sig, case=dict(
                label=c["label"], cfg=c["cfg"], forced=c["forced"], steps=c["steps"]),
                hist=c.get("hist"), predicted=c.get("predicted"), observed=lines), text)
    return n_viol, confirmed, incomplete


def recheck_suspects(rep, binary, d, suspects, seen):
    """A formula false on a trace that does NOT conform to the specification of the code as
    it is: run the case alone, twice more.  Reported (never matched by a known finding,
    whose signatures say conforms=true) only when the formula is false and the trace
    non-conforming every time; when the reruns conform, they are judged like any other."""
    if not suspects:
        return
    cases = []
    for c, _ in suspects:
        if all(c["label"] != x["label"] for x in cases):
            cases.append(c)
    runs = []
    for k in range(2):
        out, files = run_driver(binary, cases, d, "re%d" % k, 2, shards=1)
        viol, drift, stat, lines = validate(files)
        runs.append((out, files, viol, drift))
    kept = 0
    for c, name in suspects:
        again = [name in viol.get(c["label"], set()) for _, _, viol, _ in runs]
        dr = [bool(drift.get(c["label"])) for _, _, _, drift in runs]
        done = [any(o["label"] == c["label"] and o["completed"] for o in out) for out, _, _, _ in runs]
        if all(again) and all(dr) and all(done):
            out, files, viol, drift = runs[-1]
            sub_out = [o for o in out if o["label"] == c["label"]]
            judge(rep, [c], sub_out, files, {c["label"]: {name}}, drift, seen)
            kept += 1
        elif all(again) and all(done):
            # reproduces on conforming traces: an ordinary (possibly known) violation
            k = dr.index(False)
            out, files, viol, drift = runs[k]
            sub_out = [o for o in out if o["label"] == c["label"]]
            judge(rep, [c], sub_out, files, {c["label"]: {name}}, {}, seen)
        else:
            rep.notes.append("%s on a non-conforming trace of %s did not reproduce when run alone "
                             "(formula false %s, drift %s): no verdict" % (name, c["label"], again, dr))
    rep.coverage["suspects_rechecked"] = dict(total=len(suspects), reproduced_nonconforming=kept)


def check(tier):
    rep = Report(PROP, tier, "model_checking")
    rep.assumptions += [
        "TLC explores the bounded model completely only within the stated constants (2 tracked + 1 skipped state, "
        "<= 3-4 source mutations of which <= 2 client-issued, <= 2-3 pushes, <= 1 drop, <= 2 syncs)",
        "a diff is modelled as tracked ticks of snapshot TO minus FROM, modulo W32 = 2^20 standing in for 2^32 "
        "(uint32 field), queue ticks modulo 2^16, checksum modulo 256; index spaces of the message are C10's",
        "the server notices a drop before the client's next connection is accepted (the late case costs one more "
        "reconnect cycle on the code and is not modelled)",
        "quiescence on the real pair = nothing logged at any hook point for the idle period (>= 60 ms and >= 12 push "
        "intervals), every gate open, free delivery; a call still open then is given the client's own failsafe bound "
        "((retries+1) x CallTimeout) before it counts as blocked",
        "ReplyTruthful / ReadYourWrite are judged for calls whose reply reached the client (a call that fails with "
        "the connection returns Canceled by contract); shallow clocks compare parity only",
        "with pushes disabled (interval 0) convergence is required only once the last source change was exported "
        "by a reply or a sync (weaker reading)",
    ]
    try:
        binary = build_harness()
        rnd = random.Random(seed() * 7919 + 13)
        T = TIERS[tier]
        d = scratch("c09")
        try:
            t0 = time.time()
            with cf.ThreadPoolExecutor(max_workers=2) as ex:
                fv = ex.submit(design_verify, rep, tier)
                fe = ex.submit(design_emit, rep, tier)
                shapes = fe.result()
                fv.result()
            rep.coverage["design_wall_s"] = round(time.time() - t0, 1)

            chosen = select_schedules(shapes, tier, rnd)
            b3 = [schedule_case(i, sh) for i, sh in enumerate(chosen)]
            b1 = free_cases(T["free"], rnd) + debounce_cases(T["debounce"], rnd) + info_cases()
            t1 = time.time()
            with cf.ThreadPoolExecutor(max_workers=2) as ex:
                f3 = ex.submit(run_driver, binary, b3, d, "b3", T["workers"])
                f1 = ex.submit(run_driver, binary, b1, d, "b1", T["workers"])
                out3, files3 = f3.result()
                out1, files1 = f1.result()
            rep.coverage["driver_wall_s"] = round(time.time() - t1, 1)

            points = set(p for o in out3 + out1 for p in (o.get("points") or []))
            missing = [p for p in REQUIRED_POINTS if p not in points]
            if missing:
                raise Inconclusive("hook points never reached (call sites missing in pkg/rpc?): %s" % missing)

            t2 = time.time()
            viol3, drift3, stat3, lines3 = validate(files3)
            viol1, drift1, stat1, lines1 = validate(files1)
            rep.coverage["validation_wall_s"] = round(time.time() - t2, 1)

            for o in out1:
                if o["label"] == "info-stall":
                    ls = case_lines(files1, o)
                    st = [l for l in ls if l["ev"] == "probe" and l["note"] == "stalled"]
                    if st:
                        rep.coverage["call_timeout_enforced"] = (st[0]["blocked"] == 0)
                        if st[0]["blocked"]:
                            rep.notes.append("outside the premise: a client call whose reply is stalled (connection "
                                             "up, nothing delivered) was still blocked after 2.5 s with CallTimeout "
                                             "300 ms and 1 retry: call() builds a timeout context but passes the "
                                             "parent context to rpc2")
            seen = {}
            suspects = []
            n3, conf3, inc3 = judge(rep, b3, out3, files3, viol3, drift3, seen, suspects)
            n1, conf1, inc1 = judge(rep, b1, out1, files1, viol1, drift1, seen, suspects)
            recheck_suspects(rep, binary, d, suspects, seen)

            completed3 = [o for o in out3 if o["completed"]]
            completed1 = [o for o in out1 if o["completed"]]
            # too few schedules realised: nothing can be concluded from the absence of violations
            # (violations already found on completed schedules stand)
            weak = None
            if len(completed3) < 0.6 * len(out3):
                weak = "only %d of %d forced schedules completed, e.g. %s" % (len(completed3), len(out3), inc3[:3])
            elif len(completed1) < 0.8 * len(out1):
                weak = "only %d of %d free runs completed, e.g. %s" % (len(completed1), len(out1), inc1[:3])
            if weak and not rep.violations:
                raise Inconclusive(weak)
            if weak:
                rep.drift.append("the code does not take the steps the specification predicts: " + weak)

            # prediction vs code: a completed forced schedule whose predicted formula holds on the code
            by_label = {c["label"]: c for c in b3}
            unconfirmed = []
            for o in completed3:
                c = by_label[o["label"]]
                got = viol3.get(o["label"], set())
                if not (set(c["predicted"]) & got) and not (got):
                    unconfirmed.append(o["label"])
            alld = Counter()
            for lab, ns in list(drift3.items()) + list(drift1.items()):
                for n in ns:
                    alld[n] += 1
            for n, k in sorted(alld.items()):
                rep.drift.append("%s on %d case(s): the code's step differs from the specification's" % (n, k))
            if unconfirmed:
                rep.notes.append("%d forced schedule(s) predicted to fail held on the code: %s" % (
                    len(unconfirmed), unconfirmed[:6]))

            distinct = set()
            for o in completed3:
                c = by_label[o["label"]]
                distinct.add((c["config"], c["hist"]))
            b1map = {c["label"]: c for c in b1}
            for o in completed1:
                c = b1map[o["label"]]
                distinct.add((c["mode"], json.dumps(c["steps"], sort_keys=True)))
            stat = stat3 + stat1
            rep.coverage.update(
                traces_validated_against_impl=len(completed3) + len(completed1),
                trace_lines=lines3 + lines1,
                evaluations=stat["qprobes"] + stat["rets"],
                distinct_nontrivial=len(distinct),
                rule="B3: every TLC history (flags as the code is) of a distinct (configuration, violated formulas, "
                     "feature set) class, shortest first, the rest sampled by VERIF_SEED, forced action by action on a "
                     "real Server+Client; B1: free-running random histories over schema/no schema x none/skip/allow "
                     "lists x deep/shallow/per-mutation x push interval 0/300us/3ms, a quarter with drops and automatic "
                     "reconnect; plus the debounce family: real push interval 30/60 ms and the real ticker, 0-2 "
                     "drops with re-handshake, then a burst of 2-3 source changes inside one interval (opened by a "
                     "source change or by a client mutation's reply), then >= 12 intervals of silence. A case counts when its schedule completed and a quiescent probe was judged; distinct = "
                     "different configuration + action history; every case has >= 1 source mutation and >= 1 exported "
                     "diff or sync (non-trivial).",
                exhaustive=False,
                forced_schedules=dict(total=len(out3), completed=len(completed3),
                                      reproduced=sum(1 for o in completed3 if viol3.get(o["label"])),
                                      incomplete=inc3[:8]),
                free_runs=dict(total=len(out1), completed=len(completed1),
                               violating=sum(1 for o in completed1 if viol1.get(o["label"]))),
                driver_stats=dict(stat),
                violations_by_signature={"%s/%s/conforms=%s" % k: v
                                         for k, v in sorted((conf3 + conf1).items(), key=str)},
                hook_points_seen=sorted(points),
            )
            rep.coverage["samples"] = (
                [dict(kind="forced (TLC history)", config=c["config"], predicted=c["predicted"], hist=c["hist"],
                      observed=sorted(viol3.get(c["label"], [])),
                      completed=any(o["label"] == c["label"] and o["completed"] for o in out3)) for c in b3[:4]] +
                [dict(kind="free run", mode=c["mode"], steps=c["steps"][:8],
                      observed=sorted(viol1.get(c["label"], []))) for c in b1[:2]])
        finally:
            shutil.rmtree(d, ignore_errors=True)
    except Inconclusive as e:
        print("INCONCLUSIVE property=%s: %s" % (PROP, e))
        rep.notes.append("inconclusive: " + str(e)[:3500])
        rep.coverage.setdefault("states", 0)
        rep.finish()
        return 2
    return rep.finish()


def replay(path):
    obj = json.load(open(path))
    rep = Report(PROP, "quick", "model_checking")
    try:
        binary = build_harness()
        d = scratch("c09r")
        try:
            case = obj["case"]
            case = dict(case, config="replay", hist=obj.get("hist"), predicted=[])
            out, files = run_driver(binary, [case], d, "r", 1, shards=1)
            viol, drift, stat, lines = validate(files)
            got = viol.get(case["label"], set())
            print("replay %s: completed=%s formulas false on the code: %s (stored: %s)" % (
                case["label"], out[0]["completed"], sorted(got), obj["signature"]))
            if not out[0]["completed"]:
                print("INCONCLUSIVE property=%s: the schedule did not complete: %s" % (PROP, out[0].get("why")))
                return 2
            return 1 if obj["signature"]["formula"] in got else 0
        finally:
            shutil.rmtree(d, ignore_errors=True)
    except Inconclusive as e:
        print("INCONCLUSIVE property=%s: %s" % (PROP, e))
        return 2


if __name__ == "__main__":
    sys.exit(check(sys.argv[1] if len(sys.argv) > 1 else "quick"))
