// Package gate is a cooperative scheduler over the verif hook points of
// pkg/machine: registered goroutines ("roles") park at every gate point they
// pass and run only when the scheduler steps them, so an interleaving chosen
// by TLC (or enumerated by the driver) is forced on the real machine.
package gate

import (
	"bytes"
	"runtime"
	"strconv"
	"sync"
	"time"

	am "github.com/pancsta/asyncmachine-go/pkg/machine"
)

func goid() int64 {
	var buf [64]byte
	n := runtime.Stack(buf[:], false)
	// "goroutine 123 ["
	f := bytes.Fields(buf[:n])
	if len(f) < 2 {
		return -1
	}
	id, _ := strconv.ParseInt(string(f[1]), 10, 64)
	return id
}

type Event struct {
	Role  int    `json:"role"`
	Point string `json:"point"`
}

type role struct {
	id     int
	wake   chan struct{}
	parked chan string
}

// Sched serialises roles at gate points.
type Sched struct {
	mu     sync.Mutex
	byGo   map[int64]*role
	roles  map[int]*role
	Gates  map[string]bool // points that park; others pass through
	OnPark func(role int, point string)
	// OnPoint is called for EVERY hook point of the machine, on whatever
	// goroutine passes it (record-only observers)
	OnPoint func(goid int64, point string)
	// machine filter: only hooks of this machine are considered (nil = any)
	Mach *am.Machine
	// StepTimeout bounds one step
	StepTimeout time.Duration
}

func New(gates ...string) *Sched {
	s := &Sched{byGo: map[int64]*role{}, roles: map[int]*role{}, Gates: map[string]bool{},
		StepTimeout: 3 * time.Second}
	for _, g := range gates {
		s.Gates[g] = true
	}
	return s
}

// Hook is the function to install in am.VerifHook.
func (s *Sched) Hook(m *am.Machine, point string) {
	if s.Mach != nil && m != s.Mach {
		return
	}
	if s.OnPoint != nil {
		s.OnPoint(goid(), point)
	}
	if !s.Gates[point] {
		return
	}
	s.mu.Lock()
	r := s.byGo[goid()]
	s.mu.Unlock()
	if r == nil {
		return
	}
	s.park(r, point)
}

func (s *Sched) park(r *role, point string) {
	if s.OnPark != nil {
		s.OnPark(r.id, point)
	}
	r.parked <- point
	<-r.wake
}

// Gate is a harness-side gate (e.g. "start" / "return" around a public call).
func (s *Sched) Gate(point string) {
	s.mu.Lock()
	r := s.byGo[goid()]
	s.mu.Unlock()
	if r != nil {
		s.park(r, point)
	}
}

// Go starts fn as role id; it parks at "spawn" before running.
func (s *Sched) Go(id int, fn func()) {
	r := &role{id: id, wake: make(chan struct{}), parked: make(chan string, 1)}
	s.mu.Lock()
	s.roles[id] = r
	s.mu.Unlock()
	ready := make(chan struct{})
	go func() {
		s.mu.Lock()
		s.byGo[goid()] = r
		s.mu.Unlock()
		close(ready)
		<-r.wake
		fn()
		r.parked <- "end"
	}()
	<-ready
}

// Step lets role id run to its next gate; returns the gate name, "end" when
// the role finished, or "stuck" when it did not reach a gate in time.
func (s *Sched) Step(id int) string {
	s.mu.Lock()
	r := s.roles[id]
	s.mu.Unlock()
	r.wake <- struct{}{}
	select {
	case p := <-r.parked:
		return p
	case <-time.After(s.StepTimeout):
		return "stuck"
	}
}

var (
	scheds   sync.Map // *am.Machine -> *Sched
	initOnce sync.Once
)

func dispatch(m *am.Machine, point string) {
	if v, ok := scheds.Load(m); ok {
		v.(*Sched).Hook(m, point)
	}
}

// Attach routes the hook points of machine m to this scheduler. Many
// schedulers (one per machine) can be attached at the same time.
func (s *Sched) Attach(m *am.Machine) {
	initOnce.Do(func() {
		fn := dispatch
		am.VerifHook.Store(&fn)
	})
	s.Mach = m
	scheds.Store(m, s)
}

func (s *Sched) Detach() {
	if s.Mach != nil {
		scheds.Delete(s.Mach)
	}
}
