// Package readdrv samples every public view of a machine from reader
// goroutines while transitions run (C01, concurrent readers).
package readdrv

import (
	"context"
	"math/rand"
	"regexp"
	"strconv"
	"sync"
	"time"

	am "github.com/pancsta/asyncmachine-go/pkg/machine"

	"verifharness/gate"
	"verifharness/gen"
	"verifharness/seqdrv"
)

type Sample struct {
	Ev     string         `json:"ev"`
	Parked bool           `json:"parked"` // mutator parked: the whole sample is one quiescent snapshot
	Index  am.S           `json:"index"`
	Time   []uint64       `json:"time"`
	StrAll [][]any        `json:"strall"` // [name, tick, listedActive]
	Str    [][]any        `json:"str"`    // String(): [name, tick] of the states it lists as active
	Views  *seqdrv.Views  `json:"views,omitempty"`
}

var reAct = regexp.MustCompile(`^\(([^)]*)\) \[([^\]]*)\]$`)
var reItem = regexp.MustCompile(`([A-Za-z0-9_]+):(\d+)`)

func parseAll(s string) [][]any {
	out := [][]any{}
	m := reAct.FindStringSubmatch(s)
	if m == nil {
		return out
	}
	for k, part := range m[1:] {
		for _, it := range reItem.FindAllStringSubmatch(part, -1) {
			n, _ := strconv.ParseUint(it[2], 10, 64)
			out = append(out, []any{it[1], n, k == 0})
		}
	}
	return out
}

// Run: one case; the mutator executes the calls, parking after every
// setActiveStates; a reader samples at every park, two more readers sample
// freely all the time.
func Run(c *gen.Case, r *rand.Rand) (lines []any) {
	index := gen.Index(c)
	m := am.New(context.Background(), c.Schema, &am.Opts{Id: "r", HandlerTimeout: 5 * time.Second})
	_ = m.VerifyStates(index)
	defer m.Dispose()
	lines = append(lines, map[string]any{"ev": "rinit", "label": c.Label})
	var mu sync.Mutex
	add := func(l any) { mu.Lock(); lines = append(lines, l); mu.Unlock() }
	sample := func(parked bool) Sample {
		s := Sample{Ev: "sample", Parked: parked, Index: index}
		s.StrAll = parseAll(m.StringAll())
		s.Str = [][]any{}
		for _, it := range reItem.FindAllStringSubmatch(m.String(), -1) {
			n, _ := strconv.ParseUint(it[2], 10, 64)
			s.Str = append(s.Str, []any{it[1], n})
		}
		s.Time = append([]uint64{}, m.Time(nil)...)
		if parked {
			s.Views = seqdrv.SampleViews(m, index)
		}
		return s
	}
	s := gate.New("tx.applied")
	s.Attach(m)
	defer s.Detach()
	stop := make(chan struct{})
	var wg sync.WaitGroup
	for k := 0; k < 3; k++ {
		wg.Add(1)
		go func() {
			defer wg.Done()
			var mine []any
			for {
				select {
				case <-stop:
					mu.Lock()
					// each free reader's samples form their own monotone sequence
					lines = append(lines, map[string]any{"ev": "rinit", "label": "free-reader"})
					lines = append(lines, mine...)
					mu.Unlock()
					return
				default:
				}
				if len(mine) < 900 {
					mine = append(mine, sample(false))
				}
				if len(mine)%8 == 0 {
					time.Sleep(time.Microsecond)
				}
			}
		}()
	}
	done := make(chan struct{})
	s.Go(1, func() {
		for i := range c.Calls {
			call := &c.Calls[i]
			seqdrv.DoCall(m, call)
		}
		close(done)
	})
	p := s.Step(1)
	for p != "end" && p != "stuck" {
		if p == "tx.applied" {
			add(sample(true))
		}
		p = s.Step(1)
	}
	add(sample(true))
	close(stop)
	wg.Wait()
	return
}
