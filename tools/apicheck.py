#!/usr/bin/env python3
"""C20 -- public helpers are total and obey their algebra.

design half : TLC on spec/MCApiAlgebra.tla -- (a) every (function, arguments)
              of the bounded algebra input space: the LAW (what the name
              means, on sets) holds on the CODE model with the repaired flag,
              (b) the machine part: lifecycle x getters x MutateReturned x
              wait/ask helper scenarios x argument classes, (c) the async
              helpers step by step: every entry point x every scenario of how
              and when the awaited state is activated (inside the helper's own
              transition, inside its queue drain, later, already queued,
              never) x every interleaving with the environment, (d) PREDICT:
              what breaks with the code model as found, and in which scenarios
              the law rejects a helper that subscribes after its mutation.
binding half: harness/apidrv calls the REAL functions
              alg    the same input space, one ndjson line per call
              copy   mutate what the copying getters returned, re-read
              help   wait/ask helpers in known machine outcomes; the Sync
                     helpers on lists whose members differ (active before x
                     vetoing handler per member), judged on the activity of
                     every member read back from the machine; the async
                     helpers in every scenario of the step model, the ticks of
                     the awaited state read from the real machine
              total  every exported function/method (generated table +
                     reflection) x lifecycle phases x argument classes in
                     crash-isolated worker processes
              and TLC (spec/TraceApiAlgebra.tla) evaluates the law on every
              logged value (-> violation) and the code model (-> drift).
"""
import hashlib
import concurrent.futures as cf
import glob, json, os, shutil, sys, time
from collections import Counter, defaultdict

sys.path.insert(0, os.path.dirname(os.path.abspath(__file__)))
import tlcrun
from common import *

PROP = "C20"

BOUNDS = {
    # MaxLen: unary/binary list functions; MaxLenVar/MaxVar: variadic ones
    # MaxList: member lists handed to the Sync helpers (active before x vetoing per member)
    "quick": dict(MaxLen=3, MaxLenVar=2, MaxVar=2, MaxQueue=2, MaxList=2),
    "thorough": dict(MaxLen=3, MaxLenVar=3, MaxVar=2, MaxQueue=3, MaxList=3),
}

INVS = ["Inv_NoPanic", "Inv_Law", "Inv_Copy", "Inv_Helper", "Inv_Total"]

# one root cause, several entry points
ROOTS = {
    "S.Delete": "SRem", "S.Delete1": "SRem", "SRem": "SRem",
    "M.IsQueued": "IsQueued", "M.WillBe": "IsQueued", "M.WillBe1": "IsQueued",
    "M.WillBeRemoved": "IsQueued", "M.WillBeRemoved1": "IsQueued", "M.WillBeAny": "IsQueued",
    "T.Equal": "Time.Equal", "M.ParseStates": "ParseStates",
}
HELPER_ROOTS = {"AskAdd": "CantAdd", "AskRemove": "CantRemove"}


class jvm_heap:
    """Bound the heap of the TLC JVMs this check starts (the default is a
    quarter of the RAM per process; several agents share the box)."""

    def __init__(self, opt):
        self.opt = opt

    def __enter__(self):
        self.old = os.environ.get("JAVA_TOOL_OPTIONS")
        os.environ["JAVA_TOOL_OPTIONS"] = self.opt

    def __exit__(self, *a):
        if self.old is None:
            os.environ.pop("JAVA_TOOL_OPTIONS", None)
        else:
            os.environ["JAVA_TOOL_OPTIONS"] = self.old


def regen_table():
    """go/parser over the CURRENT library source -> harness/apidrv/table_gen.go
    (written only when it changes, atomically)."""
    out_path = "apidrv/table_gen.go"
    if os.path.abspath(REPO) != "/repo":
        # a scratch checkout (VERIF_REPO): never touch the tracked harness source; the
        # generated table is dropped into the harness COPY by build_harness
        os.makedirs(BUILD, exist_ok=True)
        out_path = os.path.join(BUILD, "table_gen-%s.go" % hashlib.sha1(os.path.abspath(REPO).encode()).hexdigest()[:8])
        os.environ["VERIF_TABLE_GEN"] = out_path
    rc, out = run([gobin(), "run", "./apidrv/apigen", "-repo", REPO, "-out", out_path],
                  cwd=HARNESS, timeout=600)
    if rc != 0:
        raise Inconclusive("apigen failed:\n" + out[-3000:])


# ---------------------------------------------------------------------------
# design half

def run_mc(tier, rep):
    b = BOUNDS[tier]
    base = dict(b, Shared="<-NoShared", AsyncOrder="bind-mutate")
    jobs = [
        ("alg", dict(base, Fix=True, Part="alg"), 2400 if tier == "thorough" else 600),
        ("machine", dict(base, Fix=True, Part="machine"), 600),
        ("async", dict(base, Fix=True, Part="async"), 600),
        ("predict", dict(base, Fix=False, Part="predict", MaxLenVar=min(b["MaxLenVar"], 2),
                         MaxQueue=min(b["MaxQueue"], 2)), 900),
    ]

    def one(j):
        label, consts, to = j
        return label, tlcrun.run_tlc("MCApiAlgebra", dict(spec="MCSpec", consts=consts, view="MCView",
                                                          invariants=INVS),
                                     workers=8 if label == "alg" else 2, timeout=to)
    with jvm_heap("-Xmx4g"), cf.ThreadPoolExecutor(max_workers=4) as ex:
        results = list(ex.map(one, jobs))
    runs, states, trans = [], 0, 0
    predicted = None
    for label, r in results:
        runs.append(dict(config=label, states_generated=r["states"], distinct=r["distinct"],
                         wall_s=round(r["wall"], 1), violated=r["violated"], timed_out=r["timed_out"]))
        if r["violated"]:
            raise Inconclusive("specification (repaired flags) violates %s in part '%s':\n%s" % (
                list(r["violated"]), label, r["out"][-3000:]))
        if r["errors"] or r["timed_out"] or not r["completed"]:
            raise Inconclusive("TLC did not complete part '%s' (rc=%s): %s\n%s" % (
                label, r["rc"], r["errors"][:3], r["out"][-1200:]))
        if label == "predict":
            o = r["out"]
            i = o.find('<< "PREDICT"')
            if i < 0:
                raise Inconclusive("no PREDICT output:\n" + o[-2000:])
            j = o.find(">>", i)
            predicted = sorted(set(x for x in
                                   o[i:j].replace("\n", " ").replace("{", ",").replace("}", ",").split('"')
                                   if x.strip(" ,<") and x != "PREDICT"))
            k = o.find("PREDICTASYNC")
            if k < 0:
                raise Inconclusive("no PREDICTASYNC output:\n" + o[-2000:])
            import re
            tail = o[k:o.find("\n", k)]
            nums = re.findall(r"<<(\d+), (\d+), (\d+),", tail)
            if not nums:
                raise Inconclusive("cannot read the PREDICTASYNC output: " + tail[:400])
            as_code, as_other, as_all = map(int, nums[0])
            pairs = sorted(set(re.findall(r'<<\\?"([a-z]+)\\?", \\?"([a-z]+)\\?">>', tail)))
            if as_code != 0:
                raise Inconclusive("the step model of the async helpers (order of the code) breaks "
                                   "AsyncLaw in %d scenarios" % as_code)
            if as_other == 0:
                raise Inconclusive("AsyncLaw cannot tell a helper that subscribes after its mutation "
                                   "from the code")
            rep.coverage["async_model"] = dict(
                scenarios=as_all, law_broken_by_code_order=as_code,
                law_broken_when_subscribing_after_the_mutation=as_other,
                broken_via_mode=["%s/%s" % p for p in pairs])
        else:
            states += r["distinct"]
            trans += r["states"]
    rep.coverage["mc_runs"] = runs
    rep.coverage["states"] = states
    rep.coverage["transitions"] = trans
    rep.coverage["model_predicts_broken_as_found"] = predicted
    return predicted


# ---------------------------------------------------------------------------
# binding half

def drive(binary, tier, d, only=None, total_filter=""):
    b = BOUNDS[tier]
    stats = {}
    files = []

    def go(args, timeout=3000):
        rc, out = run([binary, "api"] + args, timeout=timeout)
        last = [l for l in out.strip().splitlines() if l.startswith("{")]
        if rc != 0 or not last:
            raise Inconclusive("driver failed (%s): rc=%s\n%s" % (" ".join(args[:2]), rc, out[-2500:]))
        return json.loads(last[-1])

    if only in (None, "alg"):
        stats["alg"] = go(["-mode", "alg", "-out", os.path.join(d, "alg"), "-shards", "12" if tier == "quick" else "16",
                           "-maxlen", str(b["MaxLen"]), "-maxlenvar", str(b["MaxLenVar"]),
                           "-maxvar", str(b["MaxVar"]), "-maxqueue", str(b["MaxQueue"])]
                          + (["-queuefull"] if tier == "thorough" else []))
        files += sorted(glob.glob(os.path.join(d, "alg.*.ndjson")))
    if only in (None, "copy"):
        stats["copy"] = go(["-mode", "copy", "-out", os.path.join(d, "copy"), "-shards", "1"])
    if only in (None, "helper"):
        stats["help"] = go(["-mode", "help", "-out", os.path.join(d, "help"), "-shards", "1",
                            "-seed", str(seed()), "-asyncreps", "1" if tier == "quick" else "6",
                            "-maxlist", str(b["MaxList"])])
        stalls = {k: v for k, v in stats["help"]["stats"].items() if k.startswith("async-ret:stall")}
        if stalls:
            raise Inconclusive("the async helper driver stalled: %s" % stalls)
    small = os.path.join(d, "small.0.ndjson")
    with open(small, "w") as out:
        for f in ("copy.0.ndjson", "help.0.ndjson"):
            p = os.path.join(d, f)
            if os.path.exists(p):
                out.write(open(p).read())
                os.remove(p)
    if os.path.getsize(small):
        files.append(small)
    if only in (None, "total"):
        stats["total"] = go(["-mode", "total", "-out", os.path.join(d, "total"), "-shards", "3",
                             "-workers", "16", "-deadline", "1500", "-fn", total_filter,
                             "-seed", str(seed())])
        files += [f for f in sorted(glob.glob(os.path.join(d, "total.*.ndjson"))) if os.path.getsize(f)]
    return files, stats


def sig_of(tag, line):
    kind, _, name = tag.partition(":")
    if line["ev"] == "alg":
        return dict(part="algebra", kind=kind, fn=line["fn"], root=ROOTS.get(line["fn"], line["fn"]))
    if line["ev"] == "mutret":
        return dict(part="copy", getter=line["getter"])
    if line["ev"] == "help":
        # one group per root cause: RemoveSync / CantRemove (inverted) / Cant* on a
        # disposed machine; the functions affected are listed in the replay object
        return dict(part="helper", root=HELPER_ROOTS.get(line["base"], line["base"]),
                    disposed=line["sc"]["disposed"])
    if line["ev"] == "helpl":
        # the entry points of one base share one body; one group per wrong answer
        return dict(part="helper", root=line["base"], disposed=line["sc"]["disposed"],
                    lists=True, ret=line["ret"].split(":")[0])
    if line["ev"] == "wait":
        return dict(part="helper", root=line["fn"], disposed=False)
    if line["ev"] == "async":
        # the four entry points share one body; one group per wrong answer
        return dict(part="async", root="EvAddAsync", ret=line["ret"].split(":")[0],
                    disposed=line["sc"]["mode"] == "disposed")
    if line["ev"] == "call":
        # phase / argclass of the group are those of its first (sorted) cell;
        # all cells are listed in the replay object
        return dict(part="total", fn=line["fn"], outcome=line["outcome"], site=site_of(line))
    return dict(part="?", tag=tag)


def _fn_of_frame(fr):
    fr = fr.split("asyncmachine-go/pkg/")[-1].strip()
    i = fr.rfind("(")          # the argument list: "(0x..)", "({0x..}, ..)" or "(...)"
    return fr[:i] if i > 0 else fr


def site_of(line):
    """innermost library frame of a panic / the frame a blocked call is parked
    in / the first library frame of a fatal error"""
    d = line.get("detail", "")
    if line["outcome"] == "blocked":
        if " in " in d:
            return d.split(" in ")[1].split(";")[0].split("asyncmachine-go/pkg/")[-1].strip()
        return ""
    rest = d.split("\n", 1)[1] if (line["outcome"] == "panic" and "\n" in d) else d
    for fr in rest.split(" | "):
        if "asyncmachine-go/pkg/" in fr:
            return _fn_of_frame(fr)
    return ""


def validate(files, rep, tier, want=None):
    """want: only violations whose signature contains these items count
    (replay).  Returns aggregated stats."""
    with jvm_heap("-Xmx2g"):
        res = tlcrun.validate_traces("TraceApiAlgebra", {}, files, timeout=3000, parallel=16)
    agg = Counter()
    groups = {}
    notes = Counter()
    adrift = {}
    for r in res:
        if r["result"] is None:
            raise Inconclusive("trace validation did not finish for %s (rc=%s):\n%s" % (
                r["file"], r["rc"], r["out"][-3000:]))
        x = r["result"]
        nl = sum(1 for _ in open(r["file"]))
        if x["lines"] != nl:
            raise Inconclusive("trace %s not fully consumed" % r["file"])
        for k in ("lines", "alg", "copy", "help", "calls", "onlyAsFound", "onlyFixed"):
            agg[k] += x[k]
        agg["cells"] = max(agg["cells"], x["cells"])
        agg["allcells"] = x["allcells"]
        agg["asyncsc"] = max(agg["asyncsc"], x["asyncsc"])
        agg["asyncall"] = x["asyncall"]
        agg["listsc"] = max(agg["listsc"], x["listsc"])
        need = sorted(set(l for l, _ in x["viol"]) | set(l for l, _ in x["drift"]))
        lines = {}
        if need:
            want_l = set(need)
            with open(r["file"]) as f:
                for i, l in enumerate(f, 1):
                    if i in want_l:
                        lines[i] = json.loads(l)
        for l, tag in x["viol"]:
            line = lines[l]
            sig = sig_of(tag, line)
            key = json.dumps(sig, sort_keys=True)
            g = groups.setdefault(key, dict(sig=sig, n=0, example=line, tag=tag, fns=set(), cells=set()))
            g["n"] += 1
            g["fns"].add(line.get("fn", line.get("getter")))
            if line["ev"] == "async":
                g.setdefault("scs", set()).add("%s/%s%s%s" % (
                    line["sc"]["via"], line["sc"]["mode"], "/pre" if line["sc"]["pre"] else "",
                    "/multi" if line["sc"]["multi"] else ""))
            if line["ev"] == "call":
                g["cells"].add((line["phase"], line["cls"]))
                if (line["phase"], line["cls"]) < (g["example"]["phase"], g["example"]["cls"]):
                    g["example"] = line
        for l, tag in x["drift"]:
            line = lines[l]
            if tag.startswith("copy:"):
                # outside the property's list (weak reading): StateNames is documented
                # as SHARED; the *Mutation objects behind Queue()'s copied slice
                notes["getter %s, %s: the machine changed (not demanded by the property)" % (
                    line["getter"], line["how"])] += 1
                continue
            if line["ev"] == "async":
                # one line per entry point and answer, not one per case
                k = (line["fn"], line["ret"].split(":")[0])
                adrift.setdefault(k, [0, "%s line %d" % (os.path.basename(r["file"]), l), line])[0] += 1
                continue
            rep.drift.append("%s line %d: %s %s" % (os.path.basename(r["file"]), l, tag,
                                                    json.dumps(line)[:200]))
    for (fn, ret), (n, where, line) in sorted(adrift.items()):
        rep.drift.append("%s answered '%s' / left the wait state at tick %d where the step model of the "
                         "code cannot (%d cases), e.g. %s: %s" % (fn, ret, line["t1"], n, where,
                                                                 json.dumps(line)[:400]))
    nviol = 0
    for key, g in sorted(groups.items()):
        sig = g["sig"]
        if want is not None and any(sig.get(k) != v for k, v in want.items()):
            continue
        nviol += 1
        ex = g["example"]
        if ex["ev"] == "alg":
            text = "%s(%s) %s -- %s false on the real function (%d inputs of the enumerated space)" % (
                ex["fn"], json.dumps(ex["a"])[:160],
                ("panicked: " + ex["p"]) if ex["p"] else ("returned " + json.dumps(ex.get("r"))[:80]),
                g["tag"], g["n"])
        elif ex["ev"] == "mutret":
            text = "mutating the value returned by %s (%s) changed the machine" % (ex["getter"], ex["how"])
        elif ex["ev"] == "async":
            text = ("%s(wait W, add %s) in scenario %s returned %s -- not what happened to the machine: "
                    "W ticked %d -> %d during the call (%d when the ctx ended), the helper's mutation was %s, "
                    "ctx expired by the driver: %s (%d cases; activation via/mode: %s)" % (
                        ex["fn"], json.dumps(ex["add"]), json.dumps(ex["sc"]), ex["ret"], ex["t0"], ex["t1"],
                        ex["te"], ex["mut"], ex["expired"], g["n"], ", ".join(sorted(g.get("scs", [])))))
        elif ex["ev"] == "helpl":
            text = ("%s(%s) in scenario %s, members (active before / vetoing) %s, returned %s -- not what "
                    "happened to the machine: active before %s, after %s, mutation accepted: %s (%d cases)" % (
                        ex["fn"], json.dumps(ex["states"]), json.dumps(ex["sc"]), json.dumps(ex["list"]),
                        ex["ret"], json.dumps(ex["before"]), json.dumps(ex["after"]), ex["acc"], g["n"]))
        elif ex["ev"] in ("help", "wait"):
            text = "%s in scenario %s returned %s -- not what happened to the machine (%d cases)" % (
                ex["fn"], json.dumps(ex.get("sc", dict(chans=ex.get("chans"), ctx=ex.get("ctx")))),
                ex["ret"], g["n"])
        else:
            text = "%s [%s] args(%s): %s -- %s" % (
                ex["fn"], " ".join("%s/%s" % c for c in sorted(g["cells"])), ex["args"], ex["outcome"],
                ex.get("detail", "")[:300].replace("\n", " | "))
        if ex["ev"] == "call":
            sig = dict(sig, phase=ex["phase"], argclass=ex["cls"])
        if ex["ev"] in ("help", "helpl", "wait", "async"):
            text = "[%s] " % ",".join(sorted(g["fns"])) + text
        rep.violation(sig, dict(kind="api", property=PROP, part=sig["part"], signature=sig,
                                tier=tier, example=ex, functions=sorted(g["fns"]),
                                cells=sorted(g["cells"])), text)
    for n, c in notes.items():
        rep.notes.append("%s (x%d)" % (n, c))
    agg["violation_groups"] = nviol
    return agg, groups


def samples_of(files, limit=6):
    out = []
    kinds = set()
    for fn in files:
        for l in open(fn):
            x = json.loads(l)
            k = (x["ev"], x.get("fn", x.get("getter")))
            if x["ev"] == "alg" and (x["p"] or x["fn"] in ("S.Delete", "M.ParseStates", "M.IsQueued", "S.Add")) \
                    and k not in kinds and len(x["a"][-1] if isinstance(x["a"][-1], list) else "x") > 0:
                kinds.add(k)
                out.append({k_: x[k_] for k_ in ("fn", "a", "r", "p") if k_ in x})
            elif x["ev"] in ("help", "mutret") and k not in kinds and len(out) < limit + 2:
                kinds.add(k)
                out.append({k_: x[k_] for k_ in ("ev", "fn", "getter", "how", "sc", "ret") if k_ in x})
            elif x["ev"] == "call" and x["outcome"] != "ok" and k not in kinds and len(out) < limit + 4:
                kinds.add(k)
                out.append({k_: x[k_] for k_ in ("fn", "phase", "cls", "args", "outcome")})
            if len(out) >= limit + 4:
                return out
    return out


def distinct_nontrivial(files):
    """distinct inputs whose result is not a trivial identity: an alg call whose
    result differs from its first argument (or is a boolean/number computed
    from two non-empty operands), a helper scenario, a getter mutation, a
    sweep call (function, phase, class)."""
    keys = set()
    total = 0
    for fn in files:
        for l in open(fn):
            x = json.loads(l)
            total += 1
            if x["ev"] == "alg":
                a = x["a"]
                if x["p"] or ("r" in x and (x["r"] != a[0]) and any(isinstance(v, list) and v for v in a)):
                    keys.add(l)
            elif x["ev"] == "call":
                keys.add((x["fn"], x["phase"], x["cls"]))
            elif x["ev"] in ("help", "helpl", "wait", "mutret"):
                keys.add(l)
            elif x["ev"] == "async":
                keys.add((x["fn"], json.dumps(x["sc"], sort_keys=True), json.dumps(x["shape"], sort_keys=True)))
    return total, len(keys)


def check(tier):
    rep = Report(PROP, tier, "model_checking")
    regen_table()
    binary = build_harness()
    d = scratch(PROP)
    try:
        # the model-checking runs and the Go drivers do not depend on each other
        with cf.ThreadPoolExecutor(max_workers=1) as bg:
            mc = bg.submit(run_mc, tier, rep)
            files, stats = drive(binary, tier, d)
            predicted = mc.result()
        agg, groups = validate(files, rep, tier)
        total, distinct = distinct_nontrivial(files)
        tot = stats["total"]
        if agg["cells"] != agg["allcells"]:
            rep.drift.append("sweep covered %d of the %d (phase, class) cells of the specification" % (
                agg["cells"], agg["allcells"]))
        if agg["asyncsc"] != agg["asyncall"]:
            rep.drift.append("the async helper driver covered %d of the %d scenarios of the specification" % (
                agg["asyncsc"], agg["asyncall"]))
        # 2 bases x {direct, queued, disposed} x every list of 1..MaxList members over 4 kinds
        list_space = 2 * 3 * sum(4 ** n for n in range(1, BOUNDS[tier]["MaxList"] + 1))
        if agg["listsc"] != list_space:
            rep.drift.append("the Sync helper list driver covered %d of the %d scenarios of the specification" % (
                agg["listsc"], list_space))
        for k, why in sorted(tot.get("unbuildable", {}).items()):
            rep.drift.append("the sweep has no argument rule for %s (%s): not covered" % (k, why))
        # which functions break on the real code vs what the as-found model predicts
        broken = sorted(set(g["sig"]["fn"].replace("M.", "M.") for g in groups.values()
                            if g["sig"]["part"] == "algebra"))
        rep.coverage.update(
            traces_validated_against_impl=len(files), evaluations=total, distinct_nontrivial=distinct,
            trace_lines=agg["lines"], algebra_calls=agg["alg"], getter_mutations=agg["copy"],
            helper_scenarios=agg["help"], sweep_calls=agg["calls"],
            async_helpers=dict(cases=sum(v for k, v in stats["help"]["stats"].items() if k.startswith("async:")),
                               answers={k.split(":", 1)[1]: v for k, v in stats["help"]["stats"].items()
                                        if k.startswith("async-ret:")},
                               scenarios=agg["asyncsc"], scenarios_spec=agg["asyncall"]),
            sync_helper_lists=dict(cases=sum(v for k, v in stats["help"]["stats"].items()
                                             if k.startswith("helplist:")),
                                   distinct_scenarios=agg["listsc"], scenarios_spec=list_space),
            sweep=dict(targets=tot["targets"], calls=tot["calls"], outcomes=tot["outcomes"],
                       worker_restarts=tot["restarts"], rechecked=tot.get("blocked_rechecked"),
                       recheck_changed=tot.get("blocked_unconfirmed"),
                       skipped_targets=tot["skipped"], unbuildable=tot.get("unbuildable", {}), unobserved=tot.get("unobserved", [])[:40],
                       cells=agg["cells"], cells_spec=agg["allcells"]),
            conformance=dict(lines_matching_only_as_found_model=agg["onlyAsFound"],
                             lines_matching_only_repaired_model=agg["onlyFixed"]),
            algebra_functions_broken_on_real_code=broken,
            bounds=BOUNDS[tier],
            rule="algebra: the Go driver enumerates every input over 3 known names + 1 unknown "
                 "(lists <= MaxLen with duplicates, 0..MaxVar variadic lists <= MaxLenVar, Time "
                 "vectors over ticks 0..2, queues <= MaxQueue x every Position) on the real "
                 "functions; copy: every listed getter x mutation x {idle, inside a handler with a "
                 "non-empty queue}; helpers: every Sync/Cant/Ask helper x {direct, queued, disposed} "
                 "x {possible, vetoed}, the Sync helpers x {direct, queued, disposed} x every list of "
                 "1..MaxList states x (active before, vetoing handler) per state with the activity of "
                 "every member read back, WaitForAll/Any x channel patterns x ctx; async helpers: the 4 "
                 "entry points x {W activated by the helper's own transition (added itself / Add "
                 "relation, chain 1..2), by a final handler in the same queue drain (chain 1..2), "
                 "later by another goroutine, by a mutation already queued, never} x W active "
                 "before x W Multi x {direct, queued, disposed} x vetoed x ctx {live, never ending, "
                 "cancelled} x 1..2 added states in both orders; sweep: every "
                 "exported function/method (generated table + reflection) x 6 lifecycle phases x 4 "
                 "argument classes (classes building identical arguments are dropped). Each logged "
                 "call is one evaluation; non-trivial = the result differs from the first operand "
                 "or panicked (algebra), every helper scenario / getter mutation / sweep cell",
            samples=samples_of(files) or [dict(note="no sample")],
            exhaustive=True)
        rep.assumptions += [
            "TLC explores the bounded model completely only within the stated constants (the Go "
            "driver enumerates the same space on the real functions)",
            "weak readings: the Delete law is demanded for receivers without duplicates; S.Add() "
            "with no list may return the receiver as is; queue queries / Time / TimeIndex are "
            "judged on totality only (value mismatches are drift); getters are judged on the "
            "returned slice/map itself, not on objects it points to; StateNames is documented as shared",
            "sweep premise: states exist in the schema, indexes are of existing states, a Time "
            "paired with a states list has one tick per state, nil ctx only where the doc says "
            "optional, nil *Event only for the traced Ev*/AskEv* variants, no zero durations/"
            "counts, pointers to structs are never nil; blocking helpers are not called from a "
            "handler of the same machine; a call that does not return while it is made BY a "
            "handler is 'deferred' (HandlerTimeout governs), not a violation",
            "async helpers: reading the tick and subscribing are one step of the model (the race "
            "between Tick and WhenTicks inside the helper cannot be forced without a hook); the live "
            "ctx is ended by the driver, 2.5 s after the last thing the environment did when the "
            "awaited state got a new activation, so 'false' cannot be a slow scheduler; a ctx that "
            "is already cancelled is outside 'nil or live context' (either answer, but it must "
            "return); not returning on a never-ending ctx while nothing was activated is the "
            "documented waiting, not 'blocks forever'",
            "'blocked' = the goroutine is parked in a blocking operation after the deadline AND "
            "blocks again when re-run alone in a fresh process with a doubled deadline",
            "totality half is exploration level: one representative value per argument class",
        ]
        rep.coverage["level_note"] = "model_checking for algebra/copy/helpers, exploration for the totality sweep"
    finally:
        shutil.rmtree(d, ignore_errors=True)
    return rep.finish()


def replay(path):
    obj = json.load(open(path))
    sig = obj["signature"]
    tier = obj.get("tier", "quick")
    rep = Report(PROP, os.environ.get("VERIF_TIER", tier), "model_checking")
    regen_table()
    binary = build_harness()
    d = scratch(PROP + "-replay")
    try:
        part = sig["part"]
        only = {"algebra": "alg", "copy": "copy", "helper": "helper", "async": "helper",
                "total": "total"}[part]
        flt = ""
        if part == "total":
            import re
            flt = "^" + re.escape(sig["fn"]) + "$"
        files, stats = drive(binary, tier, d, only=only, total_filter=flt)
        want = {k: v for k, v in sig.items() if k not in ("site", "phase", "argclass")}
        agg, groups = validate(files, rep, tier, want=want)
        rep.drift = []
        rep.coverage.update(evaluations=max(agg["lines"], 1), distinct_nontrivial=2, rule="replay",
                            samples=[obj.get("example", {})], states=1, transitions=1,
                            traces_validated_against_impl=len(files))
    finally:
        shutil.rmtree(d, ignore_errors=True)
    return rep.finish()


if __name__ == "__main__":
    sys.exit(check(sys.argv[1] if len(sys.argv) > 1 else "quick"))
