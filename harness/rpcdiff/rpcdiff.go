// Package rpcdiff drives the REAL clock-diff encoder and decoder of pkg/rpc
// (through the verif-tagged accessors of pkg/rpc/verif_on.go) over generated
// cases and logs one ndjson line per case for TLC (spec/TraceRpcDiff.tla).
//
// A case is: a sync configuration (state count, allow/skip lists, schema
// synced or not, deep/shallow, per-mutation chain or not), the source clock at
// the first snapshot, the source clock(s) at the successive snapshot(s), and a
// list of drifted mirrors. The driver
//  1. makes the server hold the first snapshot as its last push and the client
//     mirror hold it too (kind hello: via the real RemoteHello +
//     updateStatesSchema; next: hello plus an aligning push, so that the last
//     push is a tracer snapshot; nil: a fresh server's empty last push and an
//     all-zero mirror; short: the last push is a tracer snapshot of a shorter,
//     older schema),
//  2. runs the real sourceTracer.TransitionEnd per successive snapshot and the
//     real Server.newMsgMutation (calcUpdate / calcUpdateMutations),
//  3. applies the message(s) with the real Client.clockUpdate /
//     clockUpdateMutations to the exact mirror and to every drifted mirror,
//
// and logs every intermediate value.
//
// All numbers are logged as little-endian base-65536 limb lists with trailing
// zeros trimmed (0 = [], 5 = [5], 65536 = [0,1]): TLC integers are 32 bit.
package rpcdiff

import (
	"bufio"
	"context"
	"fmt"
	"hash/fnv"
	"strconv"

	am "github.com/pancsta/asyncmachine-go/pkg/machine"
	"github.com/pancsta/asyncmachine-go/pkg/rpc"
)

// Clock is a source machine clock snapshot.
type Clock struct {
	T []uint64 `json:"t"`
	Q uint64   `json:"q"`
	M uint32   `json:"m"`
}

// Probe is a drift added to the exact mirror (State -1: no tick drift).
type Probe struct {
	State int    `json:"state"` // mirror index
	DT    uint64 `json:"dt"`
	DQ    uint64 `json:"dq"`
	DM    uint32 `json:"dm"`
}

// Case is the input of one evaluation.
type Case struct {
	Id   int    `json:"id"`
	Kind string `json:"kind"` // hello | next | nil | short
	N    int    `json:"n"`
	N1   int    `json:"n1"` // short: state count of the older schema
	// Allowed / Skipped hold state numbers (>= N: a name the source lacks)
	AllowedNil bool    `json:"allowedNil"`
	Allowed    []int   `json:"allowed"`
	Skipped    []int   `json:"skipped"`
	Schema     bool    `json:"schema"`
	Shallow    bool    `json:"shallow"`
	Muts       bool    `json:"muts"`
	First      Clock   `json:"first"`
	Snaps      []Clock `json:"snaps"`
	Probes     []Probe `json:"probes"`
	// AutoProbe adds the drift that would make a rejected exact mirror pass
	AutoProbe bool `json:"autoProbe"`
}

// Name of state number k: every machine has Exception, here at index 0.
func Name(k int) string {
	if k == 0 {
		return "Exception"
	}
	return "s" + strconv.Itoa(k)
}

func names(n int) am.S {
	ret := make(am.S, n)
	for i := range ret {
		ret[i] = Name(i)
	}
	return ret
}

func nameList(ks []int, isNil bool) am.S {
	if isNil {
		return nil
	}
	ret := make(am.S, len(ks))
	for i, k := range ks {
		ret[i] = Name(k)
	}
	return ret
}

func cfgOf(c *Case, n int) rpc.VerifCfg {
	return rpc.VerifCfg{
		Names:      names(n),
		Allowed:    nameList(c.Allowed, c.AllowedNil),
		Skipped:    nameList(c.Skipped, false),
		SyncSchema: c.Schema,
		Shallow:    c.Shallow,
		Mutations:  c.Muts,
	}
}

// Stats of a run.
type Stats struct {
	Cases      int            `json:"cases"`
	Lines      int            `json:"lines"`
	Probes     int            `json:"probes"`
	Nontrivial int            `json:"nontrivial"`
	Distinct   int            `json:"distinct_nontrivial"`
	Kinds      map[string]int `json:"kinds"`
	Rejected   int            `json:"rejected"`
	Panics     int            `json:"panics"`
}

// Driver runs cases and writes ndjson.
type Driver struct {
	env   *rpc.VerifEnv
	Seen  map[uint64]struct{}
	Stats Stats
	buf   []byte
}

func NewDriver() *Driver {
	env, err := rpc.NewVerifEnv(context.Background())
	if err != nil {
		panic(err)
	}
	return &Driver{
		env:   env,
		Seen:  map[uint64]struct{}{},
		Stats: Stats{Kinds: map[string]int{}},
	}
}

type mirror struct {
	t am.Time
	q uint64
	m uint32
}

func mirrorOf(cli *rpc.VerifClient) mirror {
	t, q, m := cli.Mirror()
	return mirror{t, q, m}
}

// Run executes one case on the real code and appends its log line to w.
func (d *Driver) Run(c *Case, w *bufio.Writer) error {
	env := d.env
	if c.N1 == 0 || c.Kind != "short" {
		c.N1 = c.N
	}
	cfg := cfgOf(c, c.N)
	srv, err := rpc.NewVerifServer(env, cfg)
	if err != nil {
		return err
	}
	cli, err := rpc.NewVerifClient(env, cfg)
	if err != nil {
		return err
	}

	// ----- 1. first snapshot on both sides
	var helloT am.Time
	switch c.Kind {
	case "hello", "next":
		srv.SetClock(c.First.T, c.First.Q, c.First.M)
		hello, err := srv.Hello()
		if err != nil {
			return err
		}
		cli.Hello(hello)
		if c.Kind == "next" {
			// aligning push: last push becomes the tracer's snapshot of First
			srv.TransitionEnd(am.MutationAdd, nil)
			if _, p := srv.Respond(); p != "" {
				return fmt.Errorf("case %d: aligning push panicked: %s", c.Id, p)
			}
			helloT, _, _ = cli.Mirror()
			cli.SetMirror(helloT, c.First.Q, c.First.M)
		}
	case "nil":
		srv.SetClock(make(am.Time, c.N), 0, 0)
		hello, err := srv.Hello()
		if err != nil {
			return err
		}
		cli.Hello(hello)
		srv.Reset()
		srv.Activate()
	case "short":
		old, err := rpc.NewVerifServer(env, cfgOf(c, c.N1))
		if err != nil {
			return err
		}
		old.SetClock(c.First.T, c.First.Q, c.First.M)
		old.Activate()
		old.TransitionEnd(am.MutationAdd, nil)
		oldSnap := old.Latest()
		padded := make(am.Time, c.N)
		copy(padded, c.First.T)
		srv.SetClock(padded, c.First.Q, c.First.M)
		hello, err := srv.Hello()
		if err != nil {
			return err
		}
		cli.Hello(hello)
		helloT, _, _ = cli.Mirror()
		cli.SetMirror(helloT, c.First.Q, c.First.M)
		srv.SetLastPush(oldSnap)
	default:
		return fmt.Errorf("unknown kind %q", c.Kind)
	}
	_, srvIdx := srv.Tracked()
	_, cliIdx := cli.Tracked()
	last := srv.LastPush()
	mir := mirrorOf(cli)

	// ----- 2. successive snapshots and the message(s)
	for _, s := range c.Snaps {
		srv.SetClock(s.T, s.Q, s.M)
		srv.TransitionEnd(am.MutationAdd, nil)
	}
	var datas []*rpc.VerifSnap
	if c.Muts {
		datas = srv.Queue()
	} else {
		datas = []*rpc.VerifSnap{srv.Latest()}
	}
	msg, panicked := srv.Respond()
	var msgs []rpc.MsgSrvUpdate
	if msg != nil {
		if c.Muts {
			msgs = msg.Mutations.Updates
		} else {
			msgs = []rpc.MsgSrvUpdate{*msg.Update}
		}
	}

	// ----- 3. decode
	type decT struct {
		mirror
		ck uint8
	}
	var decs []decT
	type probeT struct {
		before, after mirror
		acc           bool
		panicked      string
	}
	var probes []probeT
	acc := false
	after := mir
	accPanic := ""
	if msg != nil {
		cur := mir
		for i := range msgs {
			t, q, m := cli.ClockFromUpdate(&msgs[i], cur.t, cur.q, cur.m)
			cur = mirror{t, q, m}
			decs = append(decs, decT{cur, cli.Check(t, q, m)})
		}
		plist := append([]Probe{}, c.Probes...)
		if c.AutoProbe && len(decs) > 0 {
			// the drift that makes the FIRST message's checksum pass
			dd := msgs[0].Checksum - decs[0].ck
			if dd != 0 {
				plist = append(plist, Probe{State: -1, DQ: uint64(dd)})
			}
		}
		for _, p := range plist {
			b := mirror{append(am.Time{}, mir.t...), mir.q + p.DQ, mir.m + p.DM}
			if p.State >= 0 {
				if p.State >= len(b.t) {
					continue
				}
				b.t[p.State] += p.DT
			}
			cli.SetMirror(b.t, b.q, b.m)
			ok, pp := cli.Apply(msg)
			probes = append(probes, probeT{b, mirrorOf(cli), ok, pp})
		}
		cli.SetMirror(mir.t, mir.q, mir.m)
		acc, accPanic = cli.Apply(msg)
		after = mirrorOf(cli)
	}

	// ----- log
	b := d.buf[:0]
	b = append(b, `{"id":`...)
	b = strconv.AppendInt(b, int64(c.Id), 10)
	b = append(b, `,"kind":"`...)
	b = append(b, c.Kind...)
	b = append(b, `","n":`...)
	b = strconv.AppendInt(b, int64(c.N), 10)
	b = append(b, `,"n1":`...)
	b = strconv.AppendInt(b, int64(c.N1), 10)
	b = append(b, `,"allowedNil":`...)
	b = strconv.AppendBool(b, c.AllowedNil)
	b = append(b, `,"allowed":`...)
	b = appInts(b, c.Allowed)
	b = append(b, `,"skipped":`...)
	b = appInts(b, c.Skipped)
	b = append(b, `,"schema":`...)
	b = strconv.AppendBool(b, c.Schema)
	b = append(b, `,"shallow":`...)
	b = strconv.AppendBool(b, c.Shallow)
	b = append(b, `,"muts":`...)
	b = strconv.AppendBool(b, c.Muts)
	b = append(b, `,"first":`...)
	b = appClock(b, c.First.T, c.First.Q, c.First.M)
	b = append(b, `,"snaps":[`...)
	for i, s := range c.Snaps {
		if i > 0 {
			b = append(b, ',')
		}
		b = appClock(b, s.T, s.Q, s.M)
	}
	cfgEnd := len(b)
	b = append(b, `],"srvIdx":`...)
	b = appInts(b, srvIdx)
	b = append(b, `,"cliIdx":`...)
	b = appInts(b, cliIdx)
	b = append(b, `,"last":`...)
	b = appSnap(b, last)
	b = append(b, `,"mirror":`...)
	b = appClock(b, mir.t, mir.q, mir.m)
	b = append(b, `,"datas":[`...)
	for i, s := range datas {
		if i > 0 {
			b = append(b, ',')
		}
		b = appSnap(b, s)
	}
	b = append(b, `],"panic":`...)
	b = strconv.AppendBool(b, panicked != "")
	msgStart := len(b)
	b = append(b, `,"msgs":[`...)
	for i := range msgs {
		if i > 0 {
			b = append(b, ',')
		}
		m := &msgs[i]
		b = append(b, `{"ix":[`...)
		for k, ix := range m.Indexes {
			if k > 0 {
				b = append(b, ',')
			}
			b = strconv.AppendInt(b, int64(ix), 10)
		}
		b = append(b, `],"tk":[`...)
		for k, tk := range m.Ticks {
			if k > 0 {
				b = append(b, ',')
			}
			b = appU(b, uint64(tk))
		}
		b = append(b, `],"q":`...)
		b = appU(b, uint64(m.QueueTick))
		b = append(b, `,"m":`...)
		b = appU(b, uint64(m.MachTick))
		b = append(b, `,"ck":`...)
		b = appU(b, uint64(m.Checksum))
		b = append(b, '}')
	}
	b = append(b, ']')
	msgEnd := len(b)
	b = append(b, `,"dec":[`...)
	for i, x := range decs {
		if i > 0 {
			b = append(b, ',')
		}
		b = appClockCk(b, x.t, x.q, x.m, x.ck)
	}
	b = append(b, `],"acc":`...)
	b = strconv.AppendBool(b, acc)
	b = append(b, `,"accPanic":`...)
	b = strconv.AppendBool(b, accPanic != "")
	b = append(b, `,"after":`...)
	b = appClock(b, after.t, after.q, after.m)
	b = append(b, `,"probes":[`...)
	for i, p := range probes {
		if i > 0 {
			b = append(b, ',')
		}
		b = append(b, `{"mirror":`...)
		b = appClock(b, p.before.t, p.before.q, p.before.m)
		b = append(b, `,"after":`...)
		b = appClock(b, p.after.t, p.after.q, p.after.m)
		b = append(b, `,"acc":`...)
		b = strconv.AppendBool(b, p.acc)
		b = append(b, '}')
	}
	b = append(b, `]}`...)
	b = append(b, '\n')
	d.buf = b
	if _, err := w.Write(b); err != nil {
		return err
	}

	// ----- stats
	st := &d.Stats
	st.Cases++
	st.Lines++
	st.Probes += len(probes)
	st.Kinds[c.Kind]++
	if panicked != "" || accPanic != "" {
		st.Panics++
	}
	if !acc {
		st.Rejected++
	}
	nontrivial := panicked != "" || !acc
	for i := range msgs {
		if len(msgs[i].Indexes) > 0 || msgs[i].QueueTick != 0 || msgs[i].MachTick != 0 {
			nontrivial = true
		}
	}
	if nontrivial {
		st.Nontrivial++
		// distinct: configuration + first/second snapshots + message
		// (the id is dropped)
		h := fnv.New64a()
		h.Write(b[indexByte(b, ','):cfgEnd])
		h.Write(b[msgStart:msgEnd])
		key := h.Sum64()
		if _, ok := d.Seen[key]; !ok {
			d.Seen[key] = struct{}{}
			st.Distinct++
		}
	}
	return nil
}

func indexByte(s []byte, c byte) int {
	for i := 0; i < len(s); i++ {
		if s[i] == c {
			return i
		}
	}
	return -1
}

// appU appends v as trimmed little-endian base-65536 limbs.
func appU(b []byte, v uint64) []byte {
	b = append(b, '[')
	first := true
	for v != 0 {
		if !first {
			b = append(b, ',')
		}
		first = false
		b = strconv.AppendUint(b, v&0xffff, 10)
		v >>= 16
	}
	return append(b, ']')
}

func appInts(b []byte, xs []int) []byte {
	b = append(b, '[')
	for i, x := range xs {
		if i > 0 {
			b = append(b, ',')
		}
		b = strconv.AppendInt(b, int64(x), 10)
	}
	return append(b, ']')
}

func appTime(b []byte, t []uint64) []byte {
	b = append(b, '[')
	for i, x := range t {
		if i > 0 {
			b = append(b, ',')
		}
		b = appU(b, x)
	}
	return append(b, ']')
}

func appClock(b []byte, t []uint64, q uint64, m uint32) []byte {
	b = append(b, `{"t":`...)
	b = appTime(b, t)
	b = append(b, `,"q":`...)
	b = appU(b, q)
	b = append(b, `,"m":`...)
	b = appU(b, uint64(m))
	return append(b, '}')
}

func appClockCk(b []byte, t []uint64, q uint64, m uint32, ck uint8) []byte {
	b = appClock(b, t, q, m)
	b = b[:len(b)-1]
	b = append(b, `,"ck":`...)
	b = appU(b, uint64(ck))
	return append(b, '}')
}

func appSnap(b []byte, s *rpc.VerifSnap) []byte {
	if s == nil {
		s = &rpc.VerifSnap{NilTime: true}
	}
	b = append(b, `{"nil":`...)
	b = strconv.AppendBool(b, s.NilTime)
	b = append(b, `,"t":`...)
	b = appTime(b, s.Time)
	b = append(b, `,"q":`...)
	b = appU(b, s.QueueTick)
	b = append(b, `,"m":`...)
	b = appU(b, uint64(s.MachTick))
	b = append(b, `,"sum":`...)
	b = appU(b, s.TrackedSum)
	b = append(b, `,"ck":`...)
	b = appU(b, uint64(s.Checksum))
	b = append(b, `,"idx":`...)
	b = appInts(b, s.TrackedIdxs)
	return append(b, '}')
}
