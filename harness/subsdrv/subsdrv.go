// Package subsdrv drives subscriptions (When*, NewStateCtx) against
// transitions of a real machine, with the subscriber placed before a
// transition, inside the window between setActiveStates and
// processSubscriptions (verif hooks tx.applied / pq.beforeSubs), or after it,
// and records everything for spec/TraceSubs.tla.
package subsdrv

import (
	"context"
	"fmt"
	"math/rand"
	"sort"
	"sync"
	"time"

	am "github.com/pancsta/asyncmachine-go/pkg/machine"

	"verifharness/gate"
)

type Query struct {
	Kind  string `json:"kind"` // ge | active | inactive
	State string `json:"state"`
	N     uint64 `json:"n"`
}

type Op struct {
	Op     string            `json:"op"` // sub | sctx | cancel | tx | setschema | dispose
	Kind   string            `json:"kind,omitempty"`
	States am.S              `json:"states,omitempty"`
	Delta  int               `json:"delta,omitempty"`
	Q      *Query            `json:"q,omitempty"`
	Ctx    int               `json:"ctx"`
	State  string            `json:"state,omitempty"`
	Type   string            `json:"type,omitempty"`
	Veto   bool              `json:"veto,omitempty"`
	Args   map[string]int    `json:"args,omitempty"` // tx: mutation args; sub whenargs: requested args
	Window []Op              `json:"window,omitempty"`
}

type Scenario struct {
	States am.S `json:"states"`
	Multi  am.S `json:"multi"`
	Ops    []Op `json:"ops"`
}

type recTracer struct {
	*am.TracerNoOp
	mu   sync.Mutex
	last *am.Transition
	info map[string]any
}

func (t *recTracer) TransitionEnd(tx *am.Transition) {
	t.mu.Lock()
	defer t.mu.Unlock()
	m := tx.Machine
	names := m.StateNames()
	clk := map[string]uint64{}
	for i, n := range names {
		if i < len(tx.TimeAfter) {
			clk[n] = tx.TimeAfter[i]
		}
	}
	acc := tx.IsAccepted.Load()
	act, deact := am.S{}, am.S{}
	if acc && !tx.Mutation.IsCheck {
		act = append(act, tx.Enters...)
		deact = append(deact, tx.Exits...)
	}
	t.info = map[string]any{
		"accepted": acc, "check": tx.Mutation.IsCheck, "ticked": tx.Mutation.QueueTick > 0,
		"activated": act, "deactivated": deact, "auto": tx.Mutation.IsAuto,
	}
}

func toA(a map[string]int) am.A {
	if a == nil {
		return nil
	}
	out := am.A{}
	for k, v := range a {
		out[k] = v
	}
	return out
}

// argPairs: [[key, value], ...] sorted by key (a JSON object with free keys is
// awkward on the TLA+ side)
func argPairs(a map[string]int) [][]any {
	out := [][]any{}
	keys := []string{}
	for k := range a {
		keys = append(keys, k)
	}
	sort.Strings(keys)
	for _, k := range keys {
		out = append(out, []any{k, a[k]})
	}
	return out
}

// RunWatched is Run under a watchdog: a scenario that does not come back (a
// subscription call or a mutation blocked for good) is reported as one "hung"
// event instead of hanging the driver.
func RunWatched(sc Scenario, limit time.Duration) []any {
	ch := make(chan []any, 1)
	go func() { ch <- Run(sc) }()
	select {
	case l := <-ch:
		return l
	case <-time.After(limit):
		return []any{
			map[string]any{"ev": "sinit", "states": sc.States, "multi": sc.Multi},
			map[string]any{"ev": "hung", "after_s": int(limit.Seconds())},
		}
	}
}

// Run executes the scenario and returns the event lines.
func Run(sc Scenario) (lines []any) {
	schema := am.Schema{}
	names := am.S{}
	for _, s := range sc.States {
		st := am.State{}
		for _, mm := range sc.Multi {
			if mm == s {
				st.Multi = true
			}
		}
		schema[s] = st
		names = append(names, s)
	}
	names = append(names, am.StateException)
	tr := &recTracer{TracerNoOp: &am.TracerNoOp{Id: "subs"}}
	m := am.New(context.Background(), schema, &am.Opts{Id: "s", Tracers: []am.Tracer{tr},
		HandlerTimeout: 5 * time.Second})
	_ = m.VerifyStates(names)
	disposed := false
	defer func() {
		if !disposed {
			m.Dispose()
		}
	}()
	var vmu sync.Mutex
	veto := map[string]bool{}
	neg := map[string]am.HandlerNegotiation{}
	for _, s := range sc.States {
		s := s
		neg[s+"Enter"] = func(e *am.Event) bool { vmu.Lock(); defer vmu.Unlock(); return !veto[s] }
		neg[s+"Exit"] = func(e *am.Event) bool { vmu.Lock(); defer vmu.Unlock(); return !veto[s] }
	}
	_, _ = m.HandlersBindMaps(neg, map[string]am.HandlerFinal{})

	lines = append(lines, map[string]any{"ev": "sinit", "states": sc.States, "multi": sc.Multi})
	var chans []<-chan struct{}
	var sctxs []context.Context
	ctxs := map[int]context.Context{}
	cancels := map[int]context.CancelFunc{}
	getCtx := func(id int) context.Context {
		if id == 0 {
			return nil
		}
		if c, ok := ctxs[id]; ok {
			return c
		}
		c, cancel := context.WithCancel(context.Background())
		ctxs[id], cancels[id] = c, cancel
		return c
	}
	probe := func() {
		closed := []int{}
		for i, ch := range chans {
			select {
			case <-ch:
				closed = append(closed, i+1)
			default:
			}
		}
		canceled := []int{}
		for i, c := range sctxs {
			if c.Err() != nil {
				canceled = append(canceled, i+1)
			}
		}
		clk := map[string]uint64{}
		if !disposed {
			for k, v := range m.Clock(nil) {
				clk[k] = v
			}
		}
		lines = append(lines, map[string]any{"ev": "probe", "closed": closed, "canceled": canceled})
	}
	clockNow := func() map[string]uint64 {
		clk := map[string]uint64{}
		for _, s := range sc.States {
			clk[s] = m.Tick(s)
		}
		return clk
	}
	doSub := func(op Op) {
		ev := map[string]any{"ev": "sub", "kind": op.Kind, "ctx": op.Ctx}
		var ch <-chan struct{}
		panicked := false
		func() {
			defer func() {
				if r := recover(); r != nil {
					panicked = true
					ev["panicmsg"] = fmt.Sprint(r)
				}
			}()
			switch op.Kind {
			case "when":
				ev["states"] = op.States
				ch = m.When(op.States, getCtx(op.Ctx))
			case "whennot":
				ev["states"] = op.States
				ch = m.WhenNot(op.States, getCtx(op.Ctx))
			case "whentime":
				t := m.Tick(op.State) + uint64(op.Delta)
				ev["times"] = map[string]uint64{op.State: t}
				ch = m.WhenTime1(op.State, t, getCtx(op.Ctx))
			case "whenticks":
				// the target tick is the SPECIFICATION's to compute
				ev["state"], ev["delta"] = op.State, op.Delta
				ch = m.WhenTicks(op.State, op.Delta, getCtx(op.Ctx))
			case "whennextactive":
				ev["state"] = op.State
				ch = m.WhenNextActive(op.State, getCtx(op.Ctx))
			case "whenargs":
				ev["state"], ev["args"] = op.State, argPairs(op.Args)
				ch = m.WhenArgs(op.State, toA(op.Args), getCtx(op.Ctx))
			case "whenqueueends":
				ch = m.WhenQueueEnds()
			case "whenquery":
				q := *op.Q
				if q.Kind == "ge" {
					q.N = m.Tick(q.State) + uint64(op.Delta)
				}
				ev["q"] = q
				ch = m.WhenQuery(func(c am.Clock) bool {
					switch q.Kind {
					case "ge":
						return c[q.State] >= q.N
					case "active":
						return am.IsActiveTick(c[q.State])
					default:
						return !am.IsActiveTick(c[q.State])
					}
				}, getCtx(op.Ctx))
			case "whenqueue":
				tick := m.QueueTick() + uint64(op.Delta)
				ev["tick"] = tick
				ch = m.WhenQueue(am.Result(tick))
			}
		}()
		ev["panic"] = panicked
		if panicked {
			lines = append(lines, ev)
			return
		}
		chans = append(chans, ch)
		closedNow := false
		select {
		case <-ch:
			closedNow = true
		default:
		}
		ev["closedNow"] = closedNow
		lines = append(lines, ev)
	}
	doSimple := func(op Op) {
		switch op.Op {
		case "sub":
			doSub(op)
		case "sctx":
			c := m.NewStateCtx(op.State)
			sctxs = append(sctxs, c)
			lines = append(lines, map[string]any{"ev": "sctx", "state": op.State})
		case "cancel":
			getCtx(op.Ctx)
			cancels[op.Ctx]()
			lines = append(lines, map[string]any{"ev": "cancel", "ctx": op.Ctx})
		}
		probe()
	}

	s := gate.New("tx.applied", "pq.beforeSubs")
	s.Attach(m)
	defer s.Detach()

	for _, op := range sc.Ops {
		switch op.Op {
		case "sub", "sctx", "cancel":
			doSimple(op)
		case "setschema":
			ns := m.Schema()
			ns["Z"] = am.State{}
			nn := append(append(am.S{}, sc.States...), "Z", am.StateException)
			err := m.SetSchema(ns, nn)
			lines = append(lines, map[string]any{"ev": "setschema", "err": err != nil})
			probe()
		case "dispose":
			m.Dispose()
			select {
			case <-m.WhenDisposed():
			case <-time.After(5 * time.Second):
			}
			disposed = true
			lines = append(lines, map[string]any{"ev": "dispose"})
			probe()
		case "tx":
			vmu.Lock()
			for k := range veto {
				delete(veto, k)
			}
			if op.Veto {
				for _, st := range op.States {
					veto[st] = true
				}
			}
			vmu.Unlock()
			before := clockNow()
			activeBefore := m.ActiveStates(nil)
			done := make(chan struct{})
			role := 1
			s.Go(role, func() {
				defer func() {
					if r := recover(); r != nil {
						lines = append(lines, map[string]any{"ev": "mutator-panic", "msg": fmt.Sprint(r)})
						close(done)
					}
				}()
				if op.Type == "add" {
					m.Add(op.States, toA(op.Args))
				} else {
					m.Remove(op.States, toA(op.Args))
				}
				close(done)
			})
			p := s.Step(role)
			var noProbe bool
			emitApply := func() {
				tr.mu.Lock()
				info := tr.info
				tr.info = nil
				tr.mu.Unlock()
				after := clockNow()
				act := m.ActiveStates(nil)
				if act == nil {
					act = am.S{}
				}
				tx := map[string]any{"newClock": after, "newActive": act, "args": argPairs(op.Args)}
				if info != nil {
					for k, v := range info {
						tx[k] = v
					}
				} else {
					// parked at tx.applied: TransitionEnd has not run yet -> accepted
					enters, exits := am.S{}, am.S{}
					for _, st := range op.States {
						was := false
						for _, a := range activeBefore {
							if a == st {
								was = true
							}
						}
						if op.Type == "add" && (after[st] != before[st]) {
							enters = append(enters, st)
						}
						if op.Type == "remove" && was {
							exits = append(exits, st)
						}
					}
					tx["accepted"], tx["check"], tx["ticked"] = true, false, true
					tx["activated"], tx["deactivated"], tx["auto"] = enters, exits, false
				}
				lines = append(lines, map[string]any{"ev": "apply", "tx": tx})
				if !noProbe {
					probe()
				}
			}
			emitApplyNoProbe := func() { noProbe = true; emitApply(); noProbe = false }
			if p == "tx.applied" {
				emitApply()
				for _, w := range op.Window {
					doSimple(w)
				}
				p = s.Step(role)
				if p == "pq.beforeSubs" {
					p = s.Step(role)
				}
				tr.mu.Lock()
				tr.info = nil
				tr.mu.Unlock()
			} else {
				// canceled (or no change): the mutator ran through
				if p == "pq.beforeSubs" {
					p = s.Step(role)
				}
				// there was no window: the whole transition is over already
				for p != "end" && p != "stuck" {
					p = s.Step(role)
				}
				select {
				case <-done:
				case <-time.After(3 * time.Second):
				}
				emitApplyNoProbe()
				lines = append(lines, map[string]any{"ev": "process"})
				probe()
				for _, w := range op.Window {
					doSimple(w)
				}
				continue
			}
			for p != "end" && p != "stuck" {
				p = s.Step(role)
			}
			select {
			case <-done:
			case <-time.After(3 * time.Second):
			}
			lines = append(lines, map[string]any{"ev": "process"})
			probe()
		}
	}
	return
}

// SharedCtx biases RandScenario towards waits that SHARE one context: every
// subscription takes context 1, most are When / WhenNot / WhenTime /
// WhenNextActive on few states, and the context is canceled at most once,
// late - so that one binding of the context completes by a state match while
// its siblings are still waiting when the context ends.
var SharedCtx = false

// RandScenario builds a random scenario.
func RandScenario(r *rand.Rand, nops int, withSchema, withDispose bool) Scenario {
	sc := Scenario{States: am.S{"A", "B", "C"}, Multi: am.S{"B"}}
	pickStates := func() am.S {
		for {
			var s am.S
			for _, n := range sc.States {
				if r.Intn(3) == 0 {
					s = append(s, n)
				}
			}
			if len(s) > 0 {
				return s
			}
		}
	}
	one := func() string { return sc.States[r.Intn(len(sc.States))] }
	randSub := func() Op {
		ctx := 0
		if r.Intn(3) == 0 {
			ctx = 1 + r.Intn(2)
		}
		argSets := []map[string]int{{}, {"a": 1}, {"a": 1, "b": 2}, {"b": 2}, {"a": 2}}
		kind := r.Intn(13)
		if SharedCtx {
			ctx = 1
			kind = []int{0, 0, 1, 2, 2, 3, 5, 6, 9, 4}[r.Intn(10)]
			if kind <= 2 {
				if r.Intn(3) > 0 {
					return Op{Op: "sub", Kind: []string{"when", "when", "whennot"}[kind], States: am.S{one()}, Ctx: ctx}
				}
			}
		}
		switch kind {
		case 9, 10:
			return Op{Op: "sub", Kind: "whenargs", State: one(), Args: argSets[r.Intn(len(argSets))], Ctx: ctx}
		case 11:
			return Op{Op: "sub", Kind: "whenqueueends"}
		case 12:
			return Op{Op: "sub", Kind: "whenargs", State: "B", Args: argSets[1+r.Intn(2)], Ctx: ctx}
		case 0, 1:
			return Op{Op: "sub", Kind: "when", States: pickStates(), Ctx: ctx}
		case 2:
			return Op{Op: "sub", Kind: "whennot", States: pickStates(), Ctx: ctx}
		case 3:
			return Op{Op: "sub", Kind: "whentime", State: one(), Delta: 1 + r.Intn(3), Ctx: ctx}
		case 4:
			return Op{Op: "sub", Kind: "whenticks", State: one(), Delta: 1 + r.Intn(2), Ctx: ctx}
		case 5:
			return Op{Op: "sub", Kind: "whennextactive", State: one(), Ctx: ctx}
		case 6:
			k := []string{"ge", "active", "inactive"}[r.Intn(3)]
			return Op{Op: "sub", Kind: "whenquery", Q: &Query{Kind: k, State: one()}, Delta: 1 + r.Intn(2), Ctx: ctx}
		case 7:
			return Op{Op: "sub", Kind: "whenqueue", Delta: 1 + r.Intn(2)}
		default:
			return Op{Op: "sctx", State: one()}
		}
	}
	didSchema := false
	for i := 0; i < nops; i++ {
		switch x := r.Intn(10); {
		case x < 4:
			sc.Ops = append(sc.Ops, randSub())
		case x < 5 && SharedCtx:
			if i >= nops/2 {
				sc.Ops = append(sc.Ops, Op{Op: "cancel", Ctx: 1})
			} else {
				sc.Ops = append(sc.Ops, randSub())
			}
		case x < 5:
			sc.Ops = append(sc.Ops, Op{Op: "cancel", Ctx: 1 + r.Intn(2)})
		case x == 5 && withSchema && !didSchema:
			didSchema = true
			sc.Ops = append(sc.Ops, Op{Op: "setschema"})
		default:
			tx := Op{Op: "tx", Type: []string{"add", "add", "remove"}[r.Intn(3)], States: pickStates(),
				Veto: r.Intn(5) == 0}
			if tx.Type == "add" && r.Intn(2) == 0 {
				tx.Args = []map[string]int{{"a": 1}, {"a": 1, "b": 2}, {"b": 2}, {"a": 2}, {"a": 1, "b": 2, "c": 3}}[r.Intn(5)]
			}
			for k := r.Intn(3); k > 0; k-- {
				if r.Intn(4) == 0 && !(SharedCtx && i < nops/2) {
					tx.Window = append(tx.Window, Op{Op: "cancel", Ctx: 1 + r.Intn(2)})
				} else {
					tx.Window = append(tx.Window, randSub())
				}
			}
			sc.Ops = append(sc.Ops, tx)
		}
	}
	if withDispose {
		sc.Ops = append(sc.Ops, Op{Op: "dispose"})
	}
	_ = sort.Strings
	return sc
}
