package rpcdrv

import (
	"context"
	"encoding/json"
	"fmt"
	"net"
	"slices"
	"sync"
	"sync/atomic"
	"time"

	am "github.com/pancsta/asyncmachine-go/pkg/machine"
	"github.com/pancsta/asyncmachine-go/pkg/rpc"
	ssrpc "github.com/pancsta/asyncmachine-go/pkg/rpc/states"
)

var (
	ssC = ssrpc.ClientStates
	ssS = ssrpc.ServerStates
)

// ---------------------------------------------------------------------------
// configuration

// Cfg is one sync configuration (the "configurations" quantifier of C09).
type Cfg struct {
	// Schema: the client syncs the schema (false: ClientOpts.NoSchema).
	Schema bool `json:"schema"`
	// Allowed / Skipped state lists (nil: not set).
	Allowed []string `json:"allowed"`
	Skipped []string `json:"skipped"`
	Shallow bool     `json:"shallow"`
	// Mutations: per-mutation sync (ClientOpts.SyncMutations).
	Mutations bool `json:"mutations"`
	// PushUs: Server.PushInterval in microseconds. 0: pushes disabled.
	// -1: "manual" - the interval is practically infinite and only the `push`
	// step of a schedule (the ticker's role) pushes.
	PushUs int `json:"push_us"`
	// CallTimeoutMs / CallRetries: Client.CallTimeout / CallRetries (0: 1000 ms
	// and 1 retry, so that "blocked" can be told within seconds: a call the
	// code promises to give up after (retries+1) timeouts).
	CallTimeoutMs int `json:"call_timeout_ms,omitempty"`
	CallRetries   int `json:"call_retries,omitempty"`
}

// BlockBound is how long a client call may legitimately take by the client's
// own failsafe parameters (timeouts and retry delays), with a margin.
func (c *Cfg) BlockBound() time.Duration {
	to, re := c.CallTimeoutMs, c.CallRetries
	if to == 0 {
		to = 1000
	}
	if re == 0 {
		re = 1
	}
	return time.Duration((re+1)*to+re*50+400) * time.Millisecond
}

// Source schema: A, B are always tracked, C is the state partial configs skip,
// D requires Z and Z is never set: Add(D) is a mutation the source always
// REJECTS (Canceled; only the queue tick moves).
var SrcNames = am.S{"A", "B", "C", "D", "Z", am.StateException}

func srcSchema() am.Schema {
	return am.Schema{
		"A":               {},
		"B":               {},
		"C":               {},
		"D":               {Require: am.S{"Z"}},
		"Z":               {},
		am.StateException: {Multi: true},
	}
}

// ---------------------------------------------------------------------------
// events

// Snap is a clock snapshot as logged.
type Snap struct {
	T []uint64 `json:"t"`
	Q uint64   `json:"q"`
	M uint32   `json:"m"`
	// Nil: nil tracerData / nil time
	Nil bool `json:"nil,omitempty"`
}

// Upd is a diff message as logged.
type Upd struct {
	I  []int    `json:"i"`
	D  []uint64 `json:"d"`
	Q  int      `json:"q"`
	M  int      `json:"m"`
	Ck int      `json:"ck"`
}

// Event is one ndjson line.
type Event struct {
	Seq int    `json:"seq"`
	Ev  string `json:"ev"`
	// who: "srv" | "cli" | "drv"
	Who  string `json:"who,omitempty"`
	Kind string `json:"kind,omitempty"`
	From *Snap  `json:"from,omitempty"`
	To   *Snap  `json:"to,omitempty"`
	U    *Upd   `json:"u,omitempty"`
	Us   []Upd  `json:"us,omitempty"`
	// mutation steps
	Op     string   `json:"op,omitempty"`
	States []string `json:"states,omitempty"`
	Res    string   `json:"res,omitempty"`
	Ok     *bool    `json:"ok,omitempty"`
	Acc    *bool    `json:"acc,omitempty"`
	// call id of a client mutation
	Call    int      `json:"call,omitempty"`
	Tracked []string `json:"tracked,omitempty"`
	Names   []string `json:"names,omitempty"`
	Note    string   `json:"note,omitempty"`
	Cfg     *Cfg     `json:"cfg,omitempty"`
	// States2: the client machine's active states when a call returned
	States2 []string `json:"cstates,omitempty"`
	// MAct / SAct: active states of the network machine (Is) and of the source (probe)
	MAct []string `json:"mact,omitempty"`
	SAct []string `json:"sact,omitempty"`
	// MTk: the mirror's ticks read state by state (Tick / Clock), probe only
	MTk []uint64 `json:"mtk,omitempty"`
	// Open: Client.Sync calls entered and not returned (probe)
	Open int `json:"open,omitempty"`
	// goroutine-independent wall time in us since world start (debug only)
	Us64 int64 `json:"us64,omitempty"`
}

func snapOf(s *rpc.VerifSyncSnap) *Snap {
	if s == nil {
		return nil
	}
	t := make([]uint64, len(s.Time))
	copy(t, s.Time)
	return &Snap{T: t, Q: s.QueueTick, M: s.MachTick, Nil: s.Nil || s.NilTime}
}

func updOf(u *rpc.MsgSrvUpdate) *Upd {
	if u == nil {
		return nil
	}
	r := &Upd{Q: int(u.QueueTick), M: int(u.MachTick), Ck: int(u.Checksum),
		I: []int{}, D: []uint64{}}
	for k, i := range u.Indexes {
		r.I = append(r.I, int(i))
		r.D = append(r.D, uint64(u.Ticks[k]))
	}
	return r
}

func bp(b bool) *bool { return &b }

// ---------------------------------------------------------------------------
// gates

type gate struct {
	arrived chan struct{}
	release chan struct{}
	once    sync.Once
}

// ---------------------------------------------------------------------------
// world

// World is one source machine + Server + Client + in-memory network.
type World struct {
	Cfg  Cfg
	Name string
	ctx  context.Context
	stop context.CancelFunc

	Src *am.Machine
	Srv *rpc.Server
	Cli *rpc.Client
	lis *Listener

	mu     sync.Mutex
	link   *Link
	links  []*Link
	events []Event
	t0     time.Time
	gates  map[string]*gate
	// activity counter: bumped on every hook event
	activity atomic.Int64
	// client calls in flight
	calls   map[int]*cliCall
	nextCal int
	// auto reconnect: provide a new link whenever the client is Disconnected
	autoConn atomic.Bool
	autoDone chan struct{}
}

type cliCall struct {
	done chan struct{}
	res  am.Result
}

var (
	worlds   sync.Map // owner (*rpc.Server | *rpc.Client) -> *World
	hookOnce sync.Once
)

func installHook() {
	hookOnce.Do(func() {
		fn := func(ev *rpc.VerifSyncEvent) {
			w, ok := worlds.Load(ev.Owner)
			if !ok {
				return
			}
			w.(*World).onHook(ev)
		}
		rpc.VerifSyncHook.Store(&fn)
	})
}

func resName(r am.Result) string {
	switch r {
	case am.Executed:
		return "executed"
	case am.Canceled:
		return "canceled"
	default:
		return "queued"
	}
}

func (w *World) log(e Event) {
	w.mu.Lock()
	e.Seq = len(w.events)
	e.Us64 = time.Since(w.t0).Microseconds()
	w.events = append(w.events, e)
	w.mu.Unlock()
	w.activity.Add(1)
}

func (w *World) onHook(ev *rpc.VerifSyncEvent) {
	e := Event{Ev: ev.Point, Kind: ev.Kind, From: snapOf(ev.From),
		To: snapOf(ev.To), U: updOf(ev.Update)}
	if _, isSrv := ev.Owner.(*rpc.Server); isSrv {
		e.Who = "srv"
	} else {
		e.Who = "cli"
	}
	if ev.Updates != nil {
		e.Us = []Upd{}
		for i := range ev.Updates.Updates {
			e.Us = append(e.Us, *updOf(&ev.Updates.Updates[i]))
		}
	}
	switch ev.Point {
	case "rpc.remote.afterReply", "rpc.client.beforeReplyApply":
		e.Res = resName(ev.Result)
	case "rpc.client.applied":
		e.Acc = bp(ev.Accepted)
	case "rpc.hello", "rpc.client.hello":
		e.Tracked = slices.Clone(ev.Tracked)
		e.Names = slices.Clone(ev.Names)
	}
	// gate? The goroutine parks BEFORE the event is logged: the log then shows
	// the point where the step takes effect (after the release). Exception: the
	// diff about to be notified was computed on arrival.
	early := ev.Point == "rpc.push.beforeNotify"
	if early {
		w.log(e)
	}
	w.mu.Lock()
	g := w.gates[ev.Point]
	if g != nil {
		delete(w.gates, ev.Point)
	}
	w.mu.Unlock()
	if g != nil {
		w.activity.Add(1)
		close(g.arrived)
		select {
		case <-g.release:
		case <-w.ctx.Done():
		}
	}
	if ev.Point == "rpc.push.beforeStore" || ev.Point == "rpc.server.onConnect" ||
		ev.Point == "rpc.server.onDisconnect" {
		return // pure gates
	}
	if !early {
		w.log(e)
	}
}

// NewWorld builds (does not start) the pair.
func NewWorld(parent context.Context, name string, cfg Cfg) (*World, error) {
	installHook()
	ctx, cancel := context.WithCancel(parent)
	w := &World{Cfg: cfg, Name: name, ctx: ctx, stop: cancel, t0: time.Now(),
		gates: map[string]*gate{}, calls: map[int]*cliCall{}}

	src := am.New(ctx, srcSchema(), &am.Opts{Id: "ns-" + name})
	if err := src.VerifyStates(SrcNames); err != nil {
		cancel()
		return nil, err
	}
	w.Src = src

	s, err := rpc.NewServer(ctx, "", name, src, &rpc.ServerOpts{Parent: src})
	if err != nil {
		cancel()
		return nil, err
	}
	w.lis = NewListener(name)
	var l net.Listener = w.lis
	s.Listener.Store(&l)
	var iv time.Duration
	switch {
	case cfg.PushUs < 0:
		iv = 24 * time.Hour
	default:
		iv = time.Duration(cfg.PushUs) * time.Microsecond
	}
	s.PushInterval.Store(&iv)
	w.Srv = s
	worlds.Store(s, w)

	opts := &rpc.ClientOpts{
		Parent:            src,
		NoSchema:          !cfg.Schema,
		AllowedStates:     cfg.Allowed,
		SkippedStates:     cfg.Skipped,
		SyncMutations:     cfg.Mutations,
		SyncShallowClocks: cfg.Shallow,
		DebugDisable:      true,
	}
	var schema am.Schema
	if cfg.Schema {
		schema = src.Schema()
	}
	c, err := rpc.NewClient(ctx, "", name, schema, opts)
	if err != nil {
		cancel()
		return nil, err
	}
	// fast reconnects ("writable when stopped")
	c.ConnRetryDelay = 10 * time.Millisecond
	c.ConnRetryBackoff = 40 * time.Millisecond
	c.ConnRetries = 1000
	c.CallRetryDelay = 10 * time.Millisecond
	c.CallRetryBackoff = 50 * time.Millisecond
	c.CallTimeout = time.Second
	if cfg.CallTimeoutMs > 0 {
		c.CallTimeout = time.Duration(cfg.CallTimeoutMs) * time.Millisecond
	}
	c.CallRetries = 1
	if cfg.CallRetries > 0 {
		c.CallRetries = cfg.CallRetries
	}
	w.Cli = c
	worlds.Store(c, w)

	w.log(Event{Ev: "init", Who: "drv", Cfg: &cfg, Names: SrcNames})
	return w, nil
}

// Dispose tears everything down.
func (w *World) Dispose() {
	w.autoConn.Store(false)
	w.mu.Lock()
	for _, g := range w.gates {
		g.once.Do(func() { close(g.release) })
	}
	links := w.links
	w.mu.Unlock()
	for _, l := range links {
		l.Release("c2s")
		l.Release("s2c")
		l.Cut()
	}
	w.stop()
	if w.autoDone != nil {
		select {
		case <-w.autoDone:
		case <-time.After(time.Second):
		}
	}
	worlds.Delete(w.Srv)
	worlds.Delete(w.Cli)
	w.lis.Close()
	w.Cli.Mach.Dispose()
	if w.Cli.NetMach != nil {
		w.Cli.NetMach.Dispose()
	}
	w.Srv.Mach.Dispose()
	w.Src.Dispose()
}

// recoverCall keeps a panic of the code under test inside a client call (e.g.
// callFailsafe -> Machine.When1 on a machine disposed meanwhile) from killing
// the driver: the call counts as never returned.
func (w *World) recoverCall(call *cliCall) {
	if r := recover(); r != nil {
		w.log(Event{Ev: "cli.panic", Who: "drv", Note: fmt.Sprint(r)})
	}
}

// Events returns a copy of the log.
func (w *World) Events() []Event {
	w.mu.Lock()
	defer w.mu.Unlock()
	return slices.Clone(w.events)
}

// Lines renders the log as ndjson lines.
func (w *World) Lines() []string {
	evs := w.Events()
	out := make([]string, len(evs))
	for i := range evs {
		b, _ := json.Marshal(&evs[i])
		out[i] = string(b)
	}
	return out
}

// ---------------------------------------------------------------------------
// network

// Connect creates a new link and hands its ends to the listener and to the
// client (Client.Conn seam).
func (w *World) Connect() *Link { return w.connect(false) }

func (w *World) connect(held bool) *Link {
	w.mu.Lock()
	l := NewLink(fmt.Sprintf("%s-%d", w.Name, len(w.links)), held)
	w.link = l
	w.links = append(w.links, l)
	w.mu.Unlock()
	_ = w.lis.Push(l.Srv)
	conn := l.Cli
	w.Cli.Conn.Store(&conn)
	w.log(Event{Ev: "connect", Who: "drv"})
	return l
}

func (w *World) Link() *Link {
	w.mu.Lock()
	defer w.mu.Unlock()
	return w.link
}

// Start starts server and client and waits for both to be Ready.
func (w *World) Start(timeout time.Duration) error {
	w.Srv.Start(nil)
	if err := waitState(w.ctx, w.Srv.Mach, ssS.RpcReady, timeout); err != nil {
		return fmt.Errorf("server RpcReady: %w", err)
	}
	w.Connect()
	w.Cli.Start(nil)
	return w.WaitReady(timeout)
}

// WaitReady waits for client Ready and server Ready.
func (w *World) WaitReady(timeout time.Duration) error {
	if err := waitState(w.ctx, w.Cli.Mach, ssC.Ready, timeout); err != nil {
		return fmt.Errorf("client Ready: %w", err)
	}
	if err := waitState(w.ctx, w.Srv.Mach, ssS.Ready, timeout); err != nil {
		return fmt.Errorf("server Ready: %w", err)
	}
	return nil
}

func waitState(
	ctx context.Context, m am.Api, state string, timeout time.Duration,
) error {
	ctx2, cancel := context.WithTimeout(ctx, timeout)
	defer cancel()
	select {
	case <-m.When1(state, ctx2):
		return nil
	case <-ctx2.Done():
		return fmt.Errorf("timeout waiting for %s (active: %v)", state,
			m.ActiveStates(nil))
	}
}

func waitNotState(
	ctx context.Context, m am.Api, state string, timeout time.Duration,
) error {
	ctx2, cancel := context.WithTimeout(ctx, timeout)
	defer cancel()
	select {
	case <-m.WhenNot1(state, ctx2):
		return nil
	case <-ctx2.Done():
		return fmt.Errorf("timeout waiting for !%s (active: %v)", state,
			m.ActiveStates(nil))
	}
}

// ---------------------------------------------------------------------------
// gates

// ---------------------------------------------------------------------------
// observations

// SrcSnap is the source's clock now.
func (w *World) SrcSnap() *Snap {
	return &Snap{T: slices.Clone(w.Src.Time(nil)), Q: w.Src.QueueTick(),
		M: w.Src.MachineTick()}
}

// MirrorSnap is the network machine's clock now, through the public API.
func (w *World) MirrorSnap() (*Snap, []string) {
	nm := w.Cli.NetMach
	if nm == nil {
		return &Snap{Nil: true}, nil
	}
	return &Snap{T: slices.Clone(nm.Time(nil)), Q: nm.QueueTick(),
		M: nm.MachineTick()}, nm.StateNames()
}
