package main

import (
	"bufio"
	"encoding/json"
	"flag"
	"fmt"
	"math/rand"
	"os"
	"sync"
	"time"

	"verifharness/gen"
	"verifharness/seqdrv"
)

// cmdSeq generates cases, runs them on the real machine and writes ndjson
// trace shards <out>.<k>.ndjson for TLC.
func cmdSeq(args []string) int {
	fs := flag.NewFlagSet("seq", flag.ExitOnError)
	mode := fs.String("mode", "s2", "s2|s2after|rnd|chain")
	faults := fs.Bool("faults", false, "generate faulty calls (panic / stall) followed by probes")
	seed := fs.Int64("seed", 1, "seed")
	n := fs.Int("n", 100, "number of cases")
	calls := fs.Int("calls", 4, "calls per case")
	out := fs.String("out", "trace", "output prefix")
	shards := fs.Int("shards", 1, "number of output shards")
	views := fs.Bool("views", true, "sample all views after every call")
	maxStates := fs.Int("maxstates", 6, "rnd: max user states")
	vetoP := fs.Float64("vetop", 0.5, "probability a call carries vetoes")
	nestP := fs.Float64("nestp", 0.0, "probability a call carries handler-issued mutations")
	backoffP := fs.Float64("backoffp", 0.0, "probability a history contains a stretch of machine backoff")
	formsP := fs.Float64("forms", 0.0, "probability a binding is bound as a struct (HandlersBind) instead of maps")
	fs.Parse(args)
	// the binding forms have their own stream: the cases are the same with and without them
	rf := rand.New(rand.NewSource(*seed ^ 0x5f0f))
	gen.NestP = *nestP
	gen.BackoffP = *backoffP

	cases := make([]*gen.Case, 0, *n)
	r := rand.New(rand.NewSource(*seed))
	for i := 0; i < *n; i++ {
		c := &gen.Case{}
		switch *mode {
		case "s2", "s2after":
			after := *mode == "s2after"
			for {
				k := i
				if *n < gen.S2Count(after) {
					k = r.Intn(gen.S2Count(after))
				}
				c.Names, c.Schema = gen.S2Schema(k%gen.S2Count(after), after)
				c.Label = fmt.Sprintf("%s#%d", *mode, k%gen.S2Count(after))
				if !gen.HasRequireRemoveConflict(c.Schema) {
					break
				}
				if *n >= gen.S2Count(after) {
					c = nil
					break
				}
			}
			if c == nil {
				continue
			}
		case "rnd":
			ns := 3 + r.Intn(*maxStates-2)
			c.Names, c.Schema = gen.RandSchema(r, ns, 0.15+0.25*r.Float64(), true, true)
			c.Label = fmt.Sprintf("rnd#%d", i)
		case "auto":
			c.Names, c.Schema = gen.AutoSchema(r)
			c.Label = fmt.Sprintf("auto#%d", i)
		case "dag":
			c.Names, c.Schema = gen.DagSchema(r, 4+r.Intn(3), 0.35)
			c.Label = fmt.Sprintf("dag#%d", i)
		case "chain":
			c.Names, c.Schema = gen.ChainSchema(r, 2+r.Intn(4))
			c.Label = fmt.Sprintf("chain#%d", i)
		}
		index := gen.Index(c)
		switch r.Intn(4) {
		case 0:
			c.On = false
		case 1, 2:
			c.On = true
			c.Binds = append(c.Binds, gen.FullBinding(index))
		default:
			c.On = true
			c.Binds = append(c.Binds, gen.RandBinding(r, index, 0.6), gen.RandBinding(r, index, 0.5))
		}
		if *formsP > 0 && !*faults {
			for bi := range c.Binds {
				c.Binds[bi].Form = gen.PickForm(rf, index, c.Binds[bi], *formsP)
			}
		}
		if *faults {
			if !c.On {
				c.On = true
				c.Binds = append(c.Binds, gen.FullBinding(index))
			}
			c.Calls = gen.FaultCalls(r, c, *calls)
		} else if *mode == "auto" {
			if !c.On {
				c.On = true
				c.Binds = append(c.Binds, gen.FullBinding(index))
			}
			c.Calls = gen.AutoCalls(r, c, *calls)
		} else {
			c.Calls = gen.RandCalls(r, c, *calls, *vetoP, 2)
		}
		cases = append(cases, c)
	}

	files := make([]*bufio.Writer, *shards)
	var fhs []*os.File
	for k := 0; k < *shards; k++ {
		f, err := os.Create(fmt.Sprintf("%s.%d.ndjson", *out, k))
		if err != nil {
			fmt.Fprintln(os.Stderr, err)
			return 2
		}
		fhs = append(fhs, f)
		files[k] = bufio.NewWriterSize(f, 1<<20)
	}
	type res struct {
		k     int
		lines []any
		err   error
	}
	var wg sync.WaitGroup
	results := make([]res, len(cases))
	sem := make(chan struct{}, 16)
	for i, c := range cases {
		wg.Add(1)
		sem <- struct{}{}
		go func(i int, c *gen.Case) {
			defer wg.Done()
			defer func() { <-sem }()
			o := seqdrv.Opts{Views: *views}
			if *faults {
				o.HandlerTimeout = 150 * time.Millisecond
			}
			lines, err := seqdrv.Run(c, o)
			results[i] = res{i % *shards, lines, err}
		}(i, c)
	}
	wg.Wait()
	total := 0
	for _, rs := range results {
		if rs.err != nil {
			fmt.Fprintln(os.Stderr, "case error:", rs.err)
			return 2
		}
		enc := json.NewEncoder(files[rs.k])
		for _, l := range rs.lines {
			if err := enc.Encode(l); err != nil {
				fmt.Fprintln(os.Stderr, err)
				return 2
			}
			total++
		}
	}
	for k := range files {
		files[k].Flush()
		fhs[k].Close()
	}
	fmt.Printf("{\"cases\":%d,\"lines\":%d}\n", len(cases), total)
	return 0
}

func init() { commands["seq"] = cmdSeq }
