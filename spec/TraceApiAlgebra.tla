-------------------------- MODULE TraceApiAlgebra --------------------------
(* Validation of what the REAL public API did (harness/apidrv) against        *)
(* ApiAlgebra.tla.  One ndjson line per call:                                 *)
(*   alg    {fn, a, r | p}        a pure helper on enumerated arguments       *)
(*   snap   {mach}                abstract state of a fresh driver machine    *)
(*   mutret {getter, deep, mach}  the driver scribbled over the value the     *)
(*                                getter returned, then re-read the machine   *)
(*   help   {fn, sc, ret}         a wait/ask helper in a known scenario       *)
(*   helpl  {fn, base, sc, list, before, after, acc, ret}  a Sync helper on a *)
(*                                list of members (active before / vetoing),  *)
(*                                their activity read before and after        *)
(*   wait   {fn, chans, ctx, ret} WaitForAll / WaitForAny                     *)
(*   async  {fn, sc, t0, te, t1, mut, expired, ret}  an async helper in one   *)
(*                                scenario, with the ticks of the wait state  *)
(*                                read from the machine                       *)
(*   call   {fn, phase, cls, outcome}   one call of the totality sweep        *)
(* `viol`  = the property's formula is FALSE on the logged values (verdict),  *)
(* `drift` = the logged value matches neither the as-found nor the repaired   *)
(*           code model (conformance).                                        *)
EXTENDS ApiAlgebra, Json

CONSTANT TraceFile

Trace == ndJsonDeserialize(TraceFile)

VARIABLES l, viol, drift, mach, stats

tvars == <<l, viol, drift, mach, stats>>

Batch == 2000

(* ---- alg lines (stateless, consumed in batches) ---------------------------*)
AlgViol(x) ==
  IF x.p # "" THEN {"panic:" \o x.fn}
  ELSE IF x.fn \in NamedFns /\ ~LawOk(x.fn, x.a, x.r) THEN {"law:" \o x.fn} ELSE {}

Conforms(x, fix) ==
  x.fn \in AlgFns /\
  SameRes(x.fn, fix, x.a, CodeRes(x.fn, fix, x.a), x.p # "", IF x.p # "" THEN FALSE ELSE x.r)

AlgRun(from) ==   \* last line of the run of alg lines starting at `from`
  LET hi == Min2(Len(Trace), from + Batch - 1)
      stop == {k \in from..hi : Trace[k].ev # "alg"}
  IN IF stop = {} THEN hi ELSE (CHOOSE k \in stop : \A j \in stop : k <= j) - 1

EvAlg ==
  /\ Trace[l].ev = "alg"
  /\ LET to == AlgRun(l)
         rng == l..to
         asf == {k \in rng : Conforms(Trace[k], FALSE)}
         fxd == {k \in rng : Conforms(Trace[k], TRUE)}
     IN /\ viol' = viol \cup UNION {{<<k, t>> : t \in AlgViol(Trace[k])} : k \in rng}
        /\ drift' = drift \cup {<<k, "code:" \o Trace[k].fn>> : k \in rng \ (asf \cup fxd)}
        /\ stats' = [stats EXCEPT !.alg = @ + (to - l + 1),
                                  !.onlyAsFound = @ + Cardinality(asf \ fxd),
                                  !.onlyFixed = @ + Cardinality(fxd \ asf)]
        /\ l' = to + 1
  /\ UNCHANGED mach

(* ---- copy semantics --------------------------------------------------------*)
EvSnap ==
  /\ Trace[l].ev = "snap"
  /\ mach' = Trace[l].mach
  /\ l' = l + 1
  /\ UNCHANGED <<viol, drift, stats>>

(* MutateReturned(getter): the specification's step is a stutter on the       *)
(* machine; the log must show the same machine as before                      *)
EvMutRet ==
  /\ Trace[l].ev = "mutret"
  /\ LET x == Trace[l]
         ok == x.mach = mach
     IN /\ viol' = IF ok \/ x.getter \notin Getters \/ x.deep THEN viol
                   ELSE viol \cup {<<l, "copy:" \o x.getter>>}
        \* getters the property does not list (StateNames is documented as
        \* SHARED) and writes through pointers inside the copy: drift only
        /\ drift' = IF ~ok /\ (x.getter \notin Getters \/ x.deep)
                    THEN drift \cup {<<l, "copy:" \o x.getter>>} ELSE drift
        /\ mach' = x.mach
        /\ stats' = [stats EXCEPT !.copy = @ + 1]
  /\ l' = l + 1

(* ---- wait / ask helpers ---------------------------------------------------*)
EvHelp ==
  /\ Trace[l].ev = "help"
  /\ LET x == Trace[l]
         base == IF x.fn \in HelperFns THEN x.fn ELSE x.base
     IN /\ viol' = IF HelperLaw(base, x.sc, x.ret) THEN viol
                   ELSE viol \cup {<<l, "helper:" \o x.fn>>}
        /\ drift' = IF x.ret \in {HelperCode(FALSE, base, x.sc), HelperCode(TRUE, base, x.sc)}
                    THEN drift ELSE drift \cup {<<l, "code:" \o x.fn>>}
        /\ stats' = [stats EXCEPT !.help = @ + 1,
                       !.onlyAsFound = @ + (IF x.ret = HelperCode(FALSE, base, x.sc)
                                               /\ x.ret # HelperCode(TRUE, base, x.sc) THEN 1 ELSE 0),
                       !.onlyFixed = @ + (IF x.ret = HelperCode(TRUE, base, x.sc)
                                             /\ x.ret # HelperCode(FALSE, base, x.sc) THEN 1 ELSE 0)]
  /\ l' = l + 1
  /\ UNCHANGED mach

(* a Sync helper on a list of members (ApiAlgebra Part 3a).  The law is       *)
(* judged on the activity of the members READ FROM THE REAL MACHINE after the *)
(* call; the model of the code must give the same answer, leave the same      *)
(* activity and agree with the tracer on whether the mutation was accepted    *)
EvHelpList ==
  /\ Trace[l].ev = "helpl"
  /\ LET x == Trace[l]
         isAdd == x.base = "AddSync"
         known == /\ x.base \in ListFns /\ x.sc \in ListSc /\ Len(x.list) >= 1
                  /\ \A i \in 1..Len(x.list) : x.list[i] \in ListMember
                  /\ Len(x.after) = Len(x.list)
                  /\ \A i \in 1..Len(x.list) : x.list[i].pre = x.before[i]
         conf(fix) == /\ x.ret = ListCode(fix, x.base, x.sc, x.list)
                      /\ (~x.sc.disposed =>
                            /\ \A i \in 1..Len(x.list) :
                                 x.after[i] = ListAfter(isAdd, x.sc, x.list)[i]
                            /\ x.acc = ListSeenAccepted(isAdd, x.sc, x.list))
     IN /\ viol' = IF ListLaw(x.base, x.sc, x.after, x.ret) THEN viol
                   ELSE viol \cup {<<l, "helperlist:" \o x.fn>>}
        /\ drift' = IF known /\ (conf(TRUE) \/ conf(FALSE)) THEN drift
                    ELSE drift \cup {<<l, "code:" \o x.fn>>}
        /\ stats' = [stats EXCEPT !.help = @ + 1,
                       !.lists = IF known THEN @ \cup {<<x.base, x.sc, x.list>>} ELSE @,
                       !.onlyAsFound = @ + (IF known /\ conf(FALSE) /\ ~conf(TRUE) THEN 1 ELSE 0),
                       !.onlyFixed = @ + (IF known /\ conf(TRUE) /\ ~conf(FALSE) THEN 1 ELSE 0)]
  /\ l' = l + 1
  /\ UNCHANGED mach

EvWait ==
  /\ Trace[l].ev = "wait"
  /\ LET x == Trace[l] IN
     /\ viol' = IF WaitLaw(x.fn, x.chans, x.ctx, x.ret) THEN viol
                ELSE viol \cup {<<l, "helper:" \o x.fn>>}
     /\ stats' = [stats EXCEPT !.help = @ + 1]
  /\ l' = l + 1
  /\ UNCHANGED <<drift, mach>>

(* the law is judged on the ticks the real machine showed, what happened to   *)
(* the helper's mutation (seen by a tracer) and what the helper answered; the *)
(* step model of the code must be able to produce the same answer and leave   *)
(* the same tick behind                                                       *)
EvAsync ==
  /\ Trace[l].ev = "async"
  /\ LET x == Trace[l]
         sc == x.sc
         cancel == sc.mode = "disposed" \/ (sc.mode = "direct" /\ x.mut = "refused")
         o == [t0 |-> x.t0, t1 |-> x.t1, te |-> x.te, cancel |-> cancel, expired |-> x.expired]
         known == x.fn \in AsyncFns /\ sc \in AsyncScenarios
         conf == /\ known
                 /\ x.t0 = AsyncInit("bind-mutate", sc).t0
                 /\ <<x.ret, x.t1>> \in AsyncOutcomes("bind-mutate", sc)
     IN /\ viol' = IF AsyncLaw(sc, o, x.ret) THEN viol ELSE viol \cup {<<l, "async:" \o x.fn>>}
        /\ drift' = IF conf THEN drift ELSE drift \cup {<<l, "code:" \o x.fn>>}
        /\ stats' = [stats EXCEPT !.help = @ + 1,
                                  !.async = IF known THEN @ \cup {sc} ELSE @]
  /\ l' = l + 1
  /\ UNCHANGED mach

(* ---- totality -------------------------------------------------------------*)
EvCall ==
  /\ Trace[l].ev = "call"
  /\ LET x == Trace[l] IN
     /\ viol' = IF TotalLaw(x.outcome) THEN viol ELSE viol \cup {<<l, "total">>}
     /\ drift' = IF x.phase \in Phases /\ x.cls \in ArgClasses /\ x.outcome \in Outcomes
                 THEN drift ELSE drift \cup {<<l, "cell">>}
     /\ stats' = [stats EXCEPT !.calls = @ + 1,
                               !.cells = @ \cup {<<x.phase, x.cls>>}]
  /\ l' = l + 1
  /\ UNCHANGED mach

Done ==
  /\ l = Len(Trace) + 1
  /\ PrintT(<<"RESULT", ToJson([lines |-> Len(Trace), viol |-> viol, drift |-> drift,
                                alg |-> stats.alg, copy |-> stats.copy, help |-> stats.help,
                                calls |-> stats.calls, cells |-> Cardinality(stats.cells),
                                allcells |-> Cardinality(Phases \X ArgClasses),
                                asyncsc |-> Cardinality(stats.async),
                                asyncall |-> Cardinality(AsyncScenarios),
                                listsc |-> Cardinality(stats.lists),
                                onlyAsFound |-> stats.onlyAsFound,
                                onlyFixed |-> stats.onlyFixed])>>)
  /\ l' = l + 1
  /\ UNCHANGED <<viol, drift, mach, stats>>

TraceInit ==
  /\ l = 1 /\ viol = {} /\ drift = {} /\ mach = [none |-> TRUE]
  /\ stats = [alg |-> 0, copy |-> 0, help |-> 0, calls |-> 0, cells |-> {}, async |-> {},
              lists |-> {},
              onlyAsFound |-> 0, onlyFixed |-> 0]

TraceNext ==
  \/ /\ l <= Len(Trace)
     /\ (EvAlg \/ EvSnap \/ EvMutRet \/ EvHelp \/ EvHelpList \/ EvWait \/ EvAsync \/ EvCall)
  \/ Done

TraceSpec == TraceInit /\ [][TraceNext]_tvars

(* every line must be consumed: the search must reach l = Len(Trace) + 2      *)
TraceView == <<l>>
=============================================================================
