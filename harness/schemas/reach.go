package schemas

import (
	"bufio"
	"context"
	"encoding/json"
	"fmt"
	"io"
	"math/rand"
	"os"
	"runtime"
	"sort"
	"strings"
	"sync"

	am "github.com/pancsta/asyncmachine-go/pkg/machine"
)

// StateJ is one state of a dumped schema.
type StateJ struct {
	Auto    bool     `json:"auto"`
	Multi   bool     `json:"multi"`
	Require []string `json:"require"`
	Add     []string `json:"add"`
	Remove  []string `json:"remove"`
	After   []string `json:"after"`
}

// GroupJ is one declared group.
type GroupJ struct {
	Name    string   `json:"name"`
	Members []string `json:"members"`
}

// Input is the record both TLC (MCSchemas.tla) and the real machine read.
type Input struct {
	ID string `json:"id"`
	// "full" | "core" | "comp" | "sim"; Label names the component
	Mode  string `json:"mode"`
	Label string `json:"label"`
	// bounds of the real machine's own search (0 = none)
	Max      int               `json:"max"`
	MaxEdges int64             `json:"max_edges"`
	Sch      map[string]StateJ `json:"sch"`
	Idx      []string          `json:"idx"`
	Sorted   []string          `json:"sorted"`
	Callable []string          `json:"callable"`
	Groups   []GroupJ          `json:"groups"`
}

// ReadInputs reads the ndjson input file, one record per exploration.
func ReadInputs(path string) ([]*Input, error) {
	f, err := os.Open(path)
	if err != nil {
		return nil, err
	}
	defer f.Close()
	var out []*Input
	sc := bufio.NewScanner(f)
	sc.Buffer(make([]byte, 1<<20), 1<<28)
	for sc.Scan() {
		line := strings.TrimSpace(sc.Text())
		if line == "" {
			continue
		}
		in := &Input{}
		if err := json.Unmarshal([]byte(line), in); err != nil {
			return nil, err
		}
		if len(in.Idx) > MaxStates {
			return nil, fmt.Errorf("schema %s has %d states, the bitset holds %d", in.ID, len(in.Idx), MaxStates)
		}
		out = append(out, in)
	}
	return out, sc.Err()
}

// MaxStates is the capacity of Set.
const MaxStates = 256

// Set is an active set as a bitset over index positions (0-based).
type Set [4]uint64

func (s Set) Has(i int) bool { return s[i>>6]&(1<<(uint(i)&63)) != 0 }
func (s *Set) Put(i int)     { s[i>>6] |= 1 << (uint(i) & 63) }
func (s Set) IsEmpty() bool  { return s == Set{} }
func (s Set) Pos1() []int { // 1-based positions, ascending
	out := []int{}
	for i := 0; i < MaxStates; i++ {
		if s.Has(i) {
			out = append(out, i+1)
		}
	}
	return out
}

// Mach is a REAL am.Machine built from the dumped schema, no handlers bound.
type Mach struct {
	M   *am.Machine
	Idx []string
	pos map[string]int
	tm  am.Time
	// the schema has MachineRestored: Import would mutate
	NoImport bool
}

func toSchema(in *Input) am.Schema {
	sch := am.Schema{}
	for n, s := range in.Sch {
		sch[n] = am.State{Auto: s.Auto, Multi: s.Multi, Require: am.S(s.Require), Add: am.S(s.Add),
			Remove: am.S(s.Remove), After: am.S(s.After)}
	}
	return sch
}

// NewMach builds the machine exactly as a user of the schema would:
// am.New + VerifyStates(names).
func NewMach(in *Input) (*Mach, error) {
	m := am.New(context.Background(), toSchema(in), &am.Opts{Id: "c19"})
	if m.IsErr() {
		return nil, fmt.Errorf("machine in Exception after New: %v", m.Err())
	}
	if err := m.VerifyStates(am.S(in.Idx)); err != nil {
		return nil, err
	}
	x := &Mach{M: m, Idx: in.Idx, pos: map[string]int{}, tm: make(am.Time, len(in.Idx))}
	for i, n := range in.Idx {
		x.pos[n] = i
	}
	_, x.NoImport = in.Sch[am.StateMachineRestored]
	return x, nil
}

// Inject makes `s` the active set through Machine.Import of a crafted
// Serialized: tick 1 for active states, 0 for the others.
func (x *Mach) Inject(s Set) error {
	for i := range x.tm {
		if s.Has(i) {
			x.tm[i] = 1
		} else {
			x.tm[i] = 0
		}
	}
	return x.M.Import(&am.Serialized{ID: "c19", StateNames: am.S(x.Idx), Time: x.tm})
}

// Active reads the active set (and the real order).
func (x *Mach) Active() (Set, []string) {
	act := x.M.ActiveStates(nil)
	var s Set
	for _, n := range act {
		s.Put(x.pos[n])
	}
	return s, act
}

// Apply runs one public mutation: op > 0 Add1(idx[op-1]), op < 0 Remove1.
func (x *Mach) Apply(op int) {
	if op > 0 {
		x.M.Add1(x.Idx[op-1], nil)
	} else {
		x.M.Remove1(x.Idx[-op-1], nil)
	}
}

// Succ = Inject + Apply + Active.
func (x *Mach) Succ(s Set, op int) (Set, error) {
	if err := x.Inject(s); err != nil {
		return Set{}, err
	}
	x.Apply(op)
	d, _ := x.Active()
	return d, nil
}

// Ops lists the operations over the callable states.
func Ops(in *Input) []int {
	pos := map[string]int{}
	for i, n := range in.Idx {
		pos[n] = i
	}
	var ops []int
	for _, n := range in.Callable {
		ops = append(ops, pos[n]+1, -(pos[n] + 1))
	}
	return ops
}

// Graph is the result of the breadth-first search on the real machine.
type Graph struct {
	States []Set
	ID     map[Set]int32
	Parent []int32
	ParOp  []int16
	Depth  []int16
	Edges  int64
	// the search stopped at Max states
	Truncated bool
}

// BFS explores from the empty machine with `workers` real machines.
func BFS(in *Input, max int, workers int) (*Graph, error) {
	if workers <= 0 {
		workers = runtime.NumCPU()
	}
	ops := Ops(in)
	// machines are created on demand: small graphs need one
	machs := make([]*Mach, workers)
	getMach := func(w int) (*Mach, error) {
		if machs[w] != nil {
			return machs[w], nil
		}
		m, err := NewMach(in)
		if err != nil {
			return nil, err
		}
		if m.NoImport {
			return nil, fmt.Errorf("schema defines MachineRestored: Import mutates, not supported")
		}
		machs[w] = m
		return m, nil
	}
	if _, err := getMach(0); err != nil {
		return nil, err
	}
	defer func() {
		for _, m := range machs {
			if m != nil {
				m.M.Dispose()
			}
		}
	}()
	g := &Graph{ID: map[Set]int32{}}
	g.States = append(g.States, Set{})
	g.ID[Set{}] = 0
	g.Parent = append(g.Parent, -1)
	g.ParOp = append(g.ParOp, 0)
	g.Depth = append(g.Depth, 0)
	const block = 2048
	succ := make([]Set, block*len(ops))
	lo := 0
	for lo < len(g.States) && !g.Truncated {
		if in.MaxEdges > 0 && g.Edges >= in.MaxEdges {
			g.Truncated = true
			break
		}
		hi := len(g.States)
		if hi-lo > block {
			hi = lo + block
		}
		frontier := g.States[lo:hi]
		var wg sync.WaitGroup
		var errMu sync.Mutex
		var firstErr error
		chunk := (len(frontier) + workers - 1) / workers
		if chunk < 32 {
			chunk = 32
		}
		for w := 0; w < workers; w++ {
			a, b := w*chunk, (w+1)*chunk
			if b > len(frontier) {
				b = len(frontier)
			}
			if a >= b {
				continue
			}
			mw, err := getMach(w)
			if err != nil {
				return nil, err
			}
			wg.Add(1)
			go func(m *Mach, a, b int) {
				defer wg.Done()
				for i := a; i < b; i++ {
					for k, op := range ops {
						d, err := m.Succ(frontier[i], op)
						if err != nil {
							errMu.Lock()
							if firstErr == nil {
								firstErr = err
							}
							errMu.Unlock()
							return
						}
						succ[i*len(ops)+k] = d
					}
				}
			}(mw, a, b)
		}
		wg.Wait()
		if firstErr != nil {
			return nil, firstErr
		}
		n := len(frontier)
		for i := 0; i < n; i++ {
			for k, op := range ops {
				d := succ[i*len(ops)+k]
				g.Edges++
				if _, ok := g.ID[d]; !ok {
					if max > 0 && len(g.States) >= max {
						g.Truncated = true
						continue
					}
					g.ID[d] = int32(len(g.States))
					g.States = append(g.States, d)
					g.Parent = append(g.Parent, int32(lo+i))
					g.ParOp = append(g.ParOp, int16(op))
					g.Depth = append(g.Depth, g.Depth[lo+i]+1)
				}
			}
		}
		lo = hi
	}
	return g, nil
}

// PathTo returns the operations of the BFS tree from the empty machine.
func (g *Graph) PathTo(id int32) []int {
	var rev []int
	for id > 0 {
		rev = append(rev, int(g.ParOp[id]))
		id = g.Parent[id]
	}
	for i, j := 0, len(rev)-1; i < j; i, j = i+1, j-1 {
		rev[i], rev[j] = rev[j], rev[i]
	}
	return rev
}

// EdgeJ is one step of a path executed on a fresh machine WITHOUT Import: the
// real active order before and after, for TLC's trace validation.
type EdgeJ struct {
	Ev string   `json:"ev"`
	A  []string `json:"a"`
	Op string   `json:"op"`
	S  string   `json:"s"`
	D  []string `json:"d"`
}

func nonNil(s []string) []string {
	if s == nil {
		return []string{}
	}
	return s
}

// ReplayPath executes the path on a fresh machine and compares every
// intermediate set with the sets the Import-based search assigned.
func ReplayPath(in *Input, g *Graph, id int32, sink func(EdgeJ)) (string, error) {
	m, err := NewMach(in)
	if err != nil {
		return "", err
	}
	defer m.M.Dispose()
	path := g.PathTo(id)
	// the states along the tree path
	chain := []int32{id}
	for p := g.Parent[id]; p >= 0; p = g.Parent[p] {
		chain = append(chain, p)
	}
	for i, j := 0, len(chain)-1; i < j; i, j = i+1, j-1 {
		chain[i], chain[j] = chain[j], chain[i]
	}
	for k, op := range path {
		_, before := m.Active()
		m.Apply(op)
		got, after := m.Active()
		if sink != nil {
			e := EdgeJ{Ev: "edge", A: nonNil(before), Op: "add", D: nonNil(after)}
			if op < 0 {
				e.Op, e.S = "remove", in.Idx[-op-1]
			} else {
				e.S = in.Idx[op-1]
			}
			sink(e)
		}
		if got != g.States[chain[k+1]] {
			return fmt.Sprintf("path %v step %d (op %d): fresh machine reached %v, Import-based search %v",
				path, k, op, got.Pos1(), g.States[chain[k+1]].Pos1()), nil
		}
	}
	return "", nil
}

// RunOps executes operations on a fresh machine from the empty set.
func RunOps(in *Input, ops []int) ([]EdgeJ, error) {
	m, err := NewMach(in)
	if err != nil {
		return nil, err
	}
	defer m.M.Dispose()
	var out []EdgeJ
	for _, op := range ops {
		if op == 0 || op > len(in.Idx) || -op > len(in.Idx) {
			return nil, fmt.Errorf("operation %d out of range", op)
		}
		_, before := m.Active()
		m.Apply(op)
		_, after := m.Active()
		e := EdgeJ{Ev: "edge", A: nonNil(before), Op: "add", D: nonNil(after)}
		if op < 0 {
			e.Op, e.S = "remove", in.Idx[-op-1]
		} else {
			e.S = in.Idx[op-1]
		}
		out = append(out, e)
	}
	return out, nil
}

// NeverActive lists the states that are active in no reachable set.
func (g *Graph) NeverActive(in *Input) []string {
	var all Set
	for _, s := range g.States {
		for i := range all {
			all[i] |= s[i]
		}
	}
	out := []string{}
	for i, n := range in.Idx {
		if !all.Has(i) {
			out = append(out, n)
		}
	}
	return out
}

// ---------------------------------------------------------------------------
// the replayer of TLC's edges

// Mismatch is one edge on which the two transition functions disagree.
type Mismatch struct {
	Src  []string `json:"src"`
	Op   string   `json:"op"`
	Spec []string `json:"spec"`
	Code []string `json:"code"`
}

// ReplayStats is what `schemas-replay` prints per input record.
type ReplayStats struct {
	K             int        `json:"k"`
	ID            string     `json:"id"`
	Mode          string     `json:"mode"`
	Label         string     `json:"label"`
	Lines         int64      `json:"edge_lines"`
	Repeated      int64      `json:"repeated_lines"`
	Mismatches    int64      `json:"mismatches"`
	MismatchList  []Mismatch `json:"mismatch_list"`
	NonTrivial    int64      `json:"nontrivial_edges"`
	SpecStates    int        `json:"spec_states"`
	SpecExpanded  int        `json:"spec_expanded"`
	CodeStates    int        `json:"code_states"`
	CodeEdges     int64      `json:"code_edges"`
	CodeTruncated bool       `json:"code_truncated"`
	CodeOnly      int        `json:"code_only"`
	SpecOnly      int        `json:"spec_only"`
	MaxDepth      int        `json:"max_depth"`
	NeverActive   []string   `json:"never_active"`
	PathsChecked  int        `json:"paths_checked"`
	PathSteps     int        `json:"path_steps"`
	PathMismatch  []string   `json:"path_mismatch"`
	Samples       []any      `json:"samples"`
	Incomplete    []string   `json:"incomplete_sample,omitempty"`
}

func toSet(p []int) Set {
	var s Set
	for _, x := range p {
		s.Put(x - 1)
	}
	return s
}

// parseEdge decodes the TLA-string-quoted JSON line "[k,[1,2],5,[1,2,7]]".
func parseEdge(line string) (k int, src []int, op int, dst []int, ok bool) {
	if len(line) < 4 || line[0] != '"' || line[1] != '[' || line[len(line)-1] != '"' {
		return 0, nil, 0, nil, false
	}
	body := line[1 : len(line)-1]
	var raw []json.RawMessage
	if json.Unmarshal([]byte(body), &raw) != nil || len(raw) != 4 {
		return 0, nil, 0, nil, false
	}
	if json.Unmarshal(raw[0], &k) != nil || json.Unmarshal(raw[1], &src) != nil ||
		json.Unmarshal(raw[2], &op) != nil || json.Unmarshal(raw[3], &dst) != nil {
		return 0, nil, 0, nil, false
	}
	return k, src, op, dst, true
}

type perRec struct {
	in       *Input
	st       *ReplayStats
	nops     int
	states   map[Set]bool
	expanded map[Set]int
}

// Replay consumes TLC's output: every edge line is executed on the real
// machine (source injected with Import) and the successor sets are compared;
// every other line goes to `other`.  For the records explored exhaustively
// the set of states TLC visited is then compared with the real machine's own
// breadth-first search, and a seeded sample of its tree paths is executed on
// fresh machines without Import (written to <tracePrefix>.<k>.ndjson together
// with the states only the real machine reached).
func Replay(ins []*Input, r io.Reader, other io.Writer, paths int, seed int64,
	tracePrefix string) ([]*ReplayStats, error) {

	recs := make([]*perRec, len(ins))
	for i, in := range ins {
		recs[i] = &perRec{in: in, nops: len(Ops(in)),
			st: &ReplayStats{K: i + 1, ID: in.ID, Mode: in.Mode, Label: in.Label,
				MismatchList: []Mismatch{}, PathMismatch: []string{}, NeverActive: []string{},
				Samples: []any{}},
			states: map[Set]bool{{}: true}, expanded: map[Set]int{}}
	}
	workers := runtime.NumCPU()
	type job struct {
		k        int
		src, dst Set
		op       int
	}
	type res struct {
		j    job
		code Set
		err  error
	}
	jobs := make(chan []job, 4*workers)
	results := make(chan []res, 4*workers)
	var wg sync.WaitGroup
	for w := 0; w < workers; w++ {
		wg.Add(1)
		go func() {
			defer wg.Done()
			machs := map[int]*Mach{}
			defer func() {
				for _, m := range machs {
					m.M.Dispose()
				}
			}()
			for batch := range jobs {
				out := make([]res, len(batch))
				for i, j := range batch {
					m := machs[j.k]
					if m == nil {
						var err error
						m, err = NewMach(ins[j.k])
						if err == nil && m.NoImport {
							err = fmt.Errorf("schema %s defines MachineRestored: Import mutates", ins[j.k].ID)
						}
						if err != nil {
							out[i] = res{j, Set{}, err}
							continue
						}
						machs[j.k] = m
					}
					c, err := m.Succ(j.src, j.op)
					out[i] = res{j, c, err}
				}
				results <- out
			}
		}()
	}
	var firstErr error
	done := make(chan struct{})
	go func() {
		for out := range results {
			for _, x := range out {
				if x.err != nil {
					if firstErr == nil {
						firstErr = x.err
					}
					continue
				}
				rc := recs[x.j.k]
				st, in := rc.st, rc.in
				if x.j.src != x.j.dst {
					st.NonTrivial++
				}
				if x.code != x.j.dst {
					st.Mismatches++
					if len(st.MismatchList) < 20 {
						st.MismatchList = append(st.MismatchList, Mismatch{names(in, x.j.src),
							opName(in, x.j.op), names(in, x.j.dst), names(in, x.code)})
					}
				} else if len(st.Samples) < 2 && !x.j.src.IsEmpty() {
					// an edge that does more than flip the called state
					var diff int
					for i := range x.code {
						diff += popcount(x.code[i] ^ x.j.src[i])
					}
					if diff >= 2 {
						st.Samples = append(st.Samples, map[string]any{
							"schema": in.ID, "src": names(in, x.j.src), "op": opName(in, x.j.op),
							"dst_spec": names(in, x.j.dst), "dst_code": names(in, x.code)})
					}
				}
			}
		}
		close(done)
	}()

	sc := bufio.NewScanner(r)
	sc.Buffer(make([]byte, 1<<20), 1<<26)
	batch := make([]job, 0, 256)
	for sc.Scan() {
		line := sc.Text()
		k, src, op, dst, ok := parseEdge(line)
		if !ok || k < 1 || k > len(recs) {
			if other != nil {
				fmt.Fprintln(other, line)
			}
			continue
		}
		rc := recs[k-1]
		rc.st.Lines++
		s, d := toSet(src), toSet(dst)
		// every state is expanded once: nops lines per source; TLC may
		// evaluate an action again (lines repeat), those are replayed again
		rc.expanded[s]++
		if rc.expanded[s] > rc.nops {
			rc.st.Repeated++
		}
		rc.states[s] = true
		rc.states[d] = true
		batch = append(batch, job{k - 1, s, d, op})
		if len(batch) == cap(batch) {
			jobs <- batch
			batch = make([]job, 0, 256)
		}
	}
	if len(batch) > 0 {
		jobs <- batch
	}
	close(jobs)
	wg.Wait()
	close(results)
	<-done
	if err := sc.Err(); err != nil {
		return nil, err
	}
	if firstErr != nil {
		return nil, firstErr
	}
	var out []*ReplayStats
	for _, rc := range recs {
		rc.st.SpecStates = len(rc.states)
		rc.st.SpecExpanded = len(rc.expanded)
		if rc.in.Mode != "sim" {
			if err := rc.compare(workers, paths, seed, tracePrefix); err != nil {
				return nil, err
			}
		}
		out = append(out, rc.st)
	}
	return out, nil
}

// compare: the real machine's own search; the two state sets must be the same.
func (rc *perRec) compare(workers, paths int, seed int64, tracePrefix string) error {
	st, in := rc.st, rc.in
	for s, n := range rc.expanded {
		if n < rc.nops {
			st.Incomplete = names(in, s)
			break
		}
	}
	g, err := BFS(in, in.Max, workers)
	if err != nil {
		return err
	}
	st.CodeStates = len(g.States)
	st.CodeEdges = g.Edges
	st.CodeTruncated = g.Truncated
	st.NeverActive = g.NeverActive(in)
	for _, d := range g.Depth {
		if int(d) > st.MaxDepth {
			st.MaxDepth = int(d)
		}
	}
	var enc *json.Encoder
	if tracePrefix != "" {
		f, err := os.Create(fmt.Sprintf("%s.%d.ndjson", tracePrefix, st.K))
		if err != nil {
			return err
		}
		defer f.Close()
		bw := bufio.NewWriter(f)
		defer bw.Flush()
		enc = json.NewEncoder(bw)
	}
	var only [][]int
	for _, s := range g.States {
		if !rc.states[s] {
			st.CodeOnly++
			only = append(only, s.Pos1())
		}
	}
	if enc != nil && len(only) > 0 {
		WriteStates(enc, only)
	}
	for s := range rc.states {
		if _, ok := g.ID[s]; !ok {
			st.SpecOnly++
		}
	}
	// path replay on fresh machines (no Import): a seeded sample of the
	// search tree plus its deepest state
	rng := rand.New(rand.NewSource(seed + int64(st.K)))
	ids := rng.Perm(len(g.States))
	if len(ids) > paths {
		ids = ids[:paths]
	}
	deep := 0
	for i, d := range g.Depth {
		if d > g.Depth[deep] {
			deep = i
		}
	}
	ids = append(ids, deep)
	sort.Ints(ids)
	var mu sync.Mutex
	var pw sync.WaitGroup
	var firstErr error
	sem := make(chan struct{}, workers)
	for _, id := range ids {
		if id == 0 {
			continue
		}
		pw.Add(1)
		sem <- struct{}{}
		go func(id int32) {
			defer pw.Done()
			defer func() { <-sem }()
			var steps []EdgeJ
			msg, err := ReplayPath(in, g, id, func(e EdgeJ) { steps = append(steps, e) })
			mu.Lock()
			defer mu.Unlock()
			if err != nil {
				if firstErr == nil {
					firstErr = err
				}
				return
			}
			st.PathsChecked++
			st.PathSteps += len(steps)
			if msg != "" && len(st.PathMismatch) < 10 {
				st.PathMismatch = append(st.PathMismatch, msg)
			}
			if enc != nil {
				_ = enc.Encode(map[string]any{"ev": "reset"})
				for _, e := range steps {
					_ = enc.Encode(e)
				}
			}
		}(int32(id))
	}
	pw.Wait()
	return firstErr
}

// WriteStates writes active sets in batches of 500 per "states" event.
func WriteStates(enc *json.Encoder, ps [][]int) {
	for len(ps) > 0 {
		n := len(ps)
		if n > 500 {
			n = 500
		}
		_ = enc.Encode(map[string]any{"ev": "states", "ps": ps[:n]})
		ps = ps[n:]
	}
}

func popcount(x uint64) int {
	n := 0
	for x != 0 {
		x &= x - 1
		n++
	}
	return n
}

func names(in *Input, s Set) []string {
	out := []string{}
	for i, n := range in.Idx {
		if s.Has(i) {
			out = append(out, n)
		}
	}
	return out
}

func opName(in *Input, op int) string {
	if op > 0 {
		return "Add1(" + in.Idx[op-1] + ")"
	}
	return "Remove1(" + in.Idx[-op-1] + ")"
}
