------------------------------ MODULE RpcDiff ------------------------------
(* The clock-diff codec of pkg/rpc, transcribed function by function:        *)
(*                                                                            *)
(*   Tracked        sourceTracer.calcTrackedStates     rpc.go:923-935         *)
(*   CliNames/Idx   Client.updateStatesSchema          rpc_client.go:801-812  *)
(*   Hello          Server.RemoteHello (clock part)    rpc_server.go:870-910  *)
(*   Snapshot       sourceTracer.TransitionEnd         rpc.go:800-824         *)
(*   GenDeep        genDeepUpdate                      rpc_server.go:1286     *)
(*   GenShallow     genShallowUpdate                   rpc_server.go:1321     *)
(*   CalcUpdate     calcUpdate                         rpc_server.go:1243     *)
(*   CalcMuts       calcUpdateMutations                rpc_server.go:1265     *)
(*   ClockFromUpdate Client.clockFromUpdate            rpc_client.go:819      *)
(*   ClientCheck    checksum part of Client.clockUpdate rpc_client.go:927-931 *)
(*   Checksum       Checksum                           rpc.go:1291            *)
(*                                                                            *)
(* Index spaces (all 0-based like in Go; TLA+ sequences are 1-based, so an    *)
(* index i reads element i+1):                                                *)
(*   source index  position of a state in the source machine's names          *)
(*   tracked index position of a state in the list of tracked states          *)
(*   pushed index  index written into the message = index in the mirror:      *)
(*                 the source index when the schema is synced, the tracked    *)
(*                 index otherwise                                            *)
(*                                                                            *)
(* Numbers: TLC integers are 32 bit, Go's are uint64 / uint32 / uint16 /      *)
(* uint8.  A number is a tuple of 4 limbs base 2^16, little endian; all       *)
(* arithmetic is modulo 2^64 and the Go conversions uint32(), uint16(),       *)
(* uint8() are T32, T16, T8.                                                  *)
(*                                                                            *)
(* Repair flags (FALSE = the code as it is):                                  *)
(*   FixFirstPush  genDeepUpdate's first-push branch uses the pushed index    *)
(*                 for its length test and zero test (as genShallowUpdate)    *)
(*   FixShallowSum both sides checksum the number of ACTIVE TRACKED states    *)
(*   WideFields    the message's tick / queue tick / machine tick fields are  *)
(*                 as wide as the values they are computed from               *)
EXTENDS Integers, Sequences, FiniteSets

CONSTANTS FixFirstPush, FixShallowSum, WideFields

---------------------------------------------------------------------------
(* unsigned 64 bit arithmetic                                                 *)
B == 65536
L(v, i) == IF i <= Len(v) THEN v[i] ELSE 0
U(v) == <<L(v, 1), L(v, 2), L(v, 3), L(v, 4)>>      \* trimmed limb list -> number
Z == <<0, 0, 0, 0>>
One == <<1, 0, 0, 0>>
OfInt(k) == <<k % B, (k \div B) % B, 0, 0>>         \* 0 <= k < 2^31

UAdd(a, b) ==
  LET s1 == a[1] + b[1]
      s2 == a[2] + b[2] + s1 \div B
      s3 == a[3] + b[3] + s2 \div B
      s4 == a[4] + b[4] + s3 \div B
  IN  <<s1 % B, s2 % B, s3 % B, s4 % B>>

USub(a, b) ==                                        \* a + ~b + 1
  LET s1 == a[1] + (B - 1 - b[1]) + 1
      s2 == a[2] + (B - 1 - b[2]) + s1 \div B
      s3 == a[3] + (B - 1 - b[3]) + s2 \div B
      s4 == a[4] + (B - 1 - b[4]) + s3 \div B
  IN  <<s1 % B, s2 % B, s3 % B, s4 % B>>

T8(a) == <<a[1] % 256, 0, 0, 0>>
T16(a) == <<a[1], 0, 0, 0>>
T32(a) == <<a[1], a[2], 0, 0>>
Odd(a) == a[1] % 2 = 1                               \* am.IsActiveTick
Mod256(a) == a[1] % 256

USum(s) ==                                           \* Time.Sum(nil)
  LET RECURSIVE G(_)
      G(k) == IF k = 0 THEN Z ELSE UAdd(G(k - 1), s[k])
  IN  G(Len(s))

UTime(s) == [i \in 1..Len(s) |-> U(s[i])]
UClock(c) == [t |-> UTime(c.t), q |-> U(c.q), m |-> U(c.m)]

InSeq(s, x) == \E i \in 1..Len(s) : s[i] = x
Parity(t) == [i \in 1..Len(t) |-> IF Odd(t[i]) THEN One ELSE Z]   \* NewTime(t, t.ActiveStates)

---------------------------------------------------------------------------
(* configuration: state names are the numbers 0..n-1 (= source indexes);      *)
(* cfg = [allowedNil, allowed, skipped, schema, shallow]                      *)

(* calcTrackedStates: StatesShared(names, allowed) then StatesDiff(.., skipped)*)
(* keep the order of the names; the tracked idxs are slices.Index(names, name) *)
Tracked(cfg, n) ==
  SelectSeq([i \in 1..n |-> i - 1],
            LAMBDA s : (cfg.allowedNil \/ InSeq(cfg.allowed, s)) /\ ~InSeq(cfg.skipped, s))

(* names the client learns from the hello                                     *)
CliNames(cfg, n) == IF cfg.schema THEN [i \in 1..n |-> i - 1] ELSE Tracked(cfg, n)

(* Client.updateStatesSchema: same filter over the client's names, then the   *)
(* index of each tracked name in the client's names                           *)
CliIdx(cfg, n) ==
  LET names == CliNames(cfg, n)
      tr == SelectSeq(names,
              LAMBDA s : (cfg.allowedNil \/ InSeq(cfg.allowed, s)) /\ ~InSeq(cfg.skipped, s))
  IN  [k \in 1..Len(tr) |-> (CHOOSE i \in 1..Len(names) : names[i] = tr[k]) - 1]

Filter(t, idx) == [k \in 1..Len(idx) |-> IF idx[k] >= Len(t) THEN Z ELSE t[idx[k] + 1]]

EmptyPush == [nil |-> TRUE, t |-> <<>>, q |-> Z, m |-> Z]       \* NewServer: &tracerData{}

(* RemoteHello: the exported time (non-tracked zeroed, or filtered), what the *)
(* server memorises as its last push and what the client's mirror becomes.    *)
(* lastPushData.machTick is not touched, the mirror's machine tick neither.   *)
Hello(cfg, n, c, lastM, mirM) ==
  LET idx == Tracked(cfg, n)
      et == IF cfg.schema
            THEN [i \in 1..n |-> IF InSeq(idx, i - 1) THEN c.t[i] ELSE Z]
            ELSE Filter(c.t, idx)
  IN  [last |-> [nil |-> FALSE, t |-> et, q |-> c.q, m |-> lastM],
       mirror |-> [t |-> et, q |-> c.q, m |-> mirM]]

Checksum(sum, q, m) == T8(UAdd(UAdd(sum, q), m))

(* sourceTracer.TransitionEnd                                                 *)
Snapshot(cfg, n, c) ==
  LET idx == Tracked(cfg, n)
      filt == Filter(c.t, idx)
      mt0 == IF cfg.schema THEN c.t ELSE filt
      mt == IF cfg.shallow THEN Parity(mt0) ELSE mt0
      sum == IF cfg.shallow
             THEN (IF FixShallowSum THEN USum(Parity(filt)) ELSE USum(mt))
             ELSE USum(filt)
  IN  [nil |-> FALSE, t |-> mt, q |-> c.q, m |-> c.m, sum |-> sum,
       ck |-> Checksum(sum, c.q, c.m), idx |-> idx]

(* what the server remembers as its last push and what the mirror holds       *)
(* before the successive snapshot(s) are taken                                *)
(*   hello  the first snapshot was delivered by the handshake                 *)
(*   next   ... and then by an (accepted) push: the last push is a tracer     *)
(*          snapshot, the machine tick is known to the mirror                 *)
(*   nil    fresh server (empty last push), all-zero mirror: first push       *)
(*   short  the last push is a tracer snapshot of an older schema with n1 < n *)
(*          states; the mirror has the new layout and zeros in the new states *)
Premise(kind, cfg, n, n1, first) ==
  LET zero == [t |-> [i \in 1..n |-> Z], q |-> Z, m |-> Z]
      padded == [first EXCEPT !.t = [i \in 1..n |-> IF i <= Len(first.t) THEN first.t[i] ELSE Z]]
  IN  CASE kind = "hello" -> Hello(cfg, n, first, Z, Z)
        [] kind = "next" ->
             LET s == Snapshot(cfg, n, first)
             IN  [last |-> [nil |-> FALSE, t |-> s.t, q |-> s.q, m |-> s.m],
                  mirror |-> [Hello(cfg, n, first, Z, Z).mirror EXCEPT !.m = first.m]]
        [] kind = "nil" ->
             [last |-> EmptyPush, mirror |-> Hello(cfg, n, zero, Z, Z).mirror]
        [] kind = "short" ->
             LET s == Snapshot(cfg, n1, first)
             IN  [last |-> [nil |-> FALSE, t |-> s.t, q |-> s.q, m |-> s.m],
                  mirror |-> [Hello(cfg, n, padded, Z, Z).mirror EXCEPT !.m = first.m]]

---------------------------------------------------------------------------
(* encoder                                                                    *)
Tk32(a) == IF WideFields THEN a ELSE T32(a)

(* one iteration of genDeepUpdate's loop for tracked index k (0-based)        *)
DeepStep(schema, data, last, k) ==
  LET si == data.idx[k + 1]
      p == IF schema THEN si ELSE k                  \* pushedIdx
      now == data.t
      lp == IF last.nil THEN 0 ELSE Len(last.t)
      g == IF FixFirstPush THEN p ELSE k             \* the code tests trackedIdx
  IN  IF last.nil \/ g >= lp
      THEN IF g >= Len(now) THEN [kind |-> "panic"]
           ELSE IF now[g + 1] = Z THEN [kind |-> "skip"]
           ELSE IF p >= Len(now) THEN [kind |-> "panic"]
           ELSE [kind |-> "push", i |-> p, t |-> Tk32(now[p + 1])]
      ELSE IF p >= lp \/ p >= Len(now) THEN [kind |-> "panic"]     \* index out of range
           ELSE IF last.t[p + 1] # now[p + 1]
                THEN [kind |-> "push", i |-> p, t |-> Tk32(USub(now[p + 1], last.t[p + 1]))]
                ELSE [kind |-> "skip"]

(* one iteration of genShallowUpdate's loop                                   *)
ShallowStep(schema, data, last, k) ==
  LET si == data.idx[k + 1]
      p == IF schema THEN si ELSE k
      now == data.t
      lp == IF last.nil THEN 0 ELSE Len(last.t)
  IN  IF last.nil \/ p >= lp
      THEN IF p >= Len(now) THEN [kind |-> "panic"]
           ELSE IF now[p + 1] = Z THEN [kind |-> "skip"]
           ELSE [kind |-> "push", i |-> p, t |-> IF Odd(now[p + 1]) THEN One ELSE Z]
      ELSE IF p >= Len(now) THEN [kind |-> "panic"]
           ELSE IF Odd(last.t[p + 1]) # Odd(now[p + 1])
                THEN [kind |-> "push", i |-> p, t |-> One]
                ELSE [kind |-> "skip"]

Gen(schema, shallow, data, last) ==
  LET RECURSIVE G(_)
      G(k) == IF k = 0 THEN [ix |-> <<>>, tk |-> <<>>, panic |-> FALSE]
              ELSE LET r == G(k - 1)
                       s == IF shallow THEN ShallowStep(schema, data, last, k - 1)
                                       ELSE DeepStep(schema, data, last, k - 1)
                   IN  IF r.panic THEN r
                       ELSE IF s.kind = "panic" THEN [r EXCEPT !.panic = TRUE]
                       ELSE IF s.kind = "skip" THEN r
                       ELSE [ix |-> Append(r.ix, s.i), tk |-> Append(r.tk, s.t), panic |-> FALSE]
  IN  G(Len(data.idx))

(* calcUpdate; the machine tick is a uint32, its difference is taken modulo   *)
(* 2^32 and then cut to 8 bits                                                *)
CalcUpdate(schema, data, last, shallow) ==
  LET g == Gen(schema, shallow, data, last)
  IN  [ix |-> g.ix, tk |-> g.tk, panic |-> g.panic,
       q |-> IF WideFields THEN USub(data.q, last.q) ELSE T16(USub(data.q, last.q)),
       m |-> IF WideFields THEN T32(USub(data.m, last.m)) ELSE T8(USub(data.m, last.m)),
       ck |-> data.ck]

(* calcUpdateMutations: always deep, each update against the previous data    *)
CalcMuts(schema, datas, last) ==
  [j \in 1..Len(datas) |->
     CalcUpdate(schema, datas[j], IF j = 1 THEN last ELSE datas[j - 1], FALSE)]

(* what Server.newMsgMutation sends for the tracer data collected             *)
Encode(cfg, muts, datas, last) ==
  IF muts THEN CalcMuts(cfg.schema, datas, last)
  ELSE <<CalcUpdate(cfg.schema, datas[Len(datas)], last, cfg.shallow)>>

---------------------------------------------------------------------------
(* decoder                                                                    *)
ClockFromUpdate(msg, st) ==
  LET RECURSIVE G(_)
      G(k) == IF k = 0 THEN st.t
              ELSE LET t == G(k - 1)
                       i == msg.ix[k]
                   IN  IF i >= Len(t) THEN t
                       ELSE [t EXCEPT ![i + 1] = UAdd(@, msg.tk[k])]
  IN  [t |-> G(Len(msg.ix)), q |-> UAdd(st.q, msg.q), m |-> T32(UAdd(st.m, msg.m))]

(* the checksum the client compares with the message's: for shallow clocks    *)
(* am.NewTime(time, trackedStateIdxs) is a vector with a 1 at EVERY tracked   *)
(* index, so its sum is the number of tracked states                          *)
ClientCheck(cfg, cidx, st) ==
  LET sum == IF cfg.shallow
             THEN (IF FixShallowSum THEN USum(Parity(Filter(st.t, cidx)))
                   ELSE OfInt(Cardinality({cidx[k] : k \in 1..Len(cidx)})))
             ELSE USum(st.t)
  IN  Checksum(sum, st.q, st.m)

(* Client.clockUpdate / clockUpdateMutations: apply the messages in order,    *)
(* stop at the first checksum mismatch                                        *)
Apply(cfg, cidx, msgs, st) ==
  LET RECURSIVE G(_)
      G(k) == IF k = 0 THEN [acc |-> TRUE, st |-> st, dec |-> <<>>]
              ELSE LET r == G(k - 1)
                       base == IF r.dec = <<>> THEN st ELSE r.dec[Len(r.dec)]
                       d == ClockFromUpdate(msgs[k], base)
                       ck == ClientCheck(cfg, cidx, d)
                       dd == [t |-> d.t, q |-> d.q, m |-> d.m, ck |-> ck]
                   IN  [acc |-> r.acc /\ ck = msgs[k].ck,
                        st |-> IF r.acc /\ ck = msgs[k].ck THEN d ELSE r.st,
                        dec |-> Append(r.dec, dd)]
  IN  G(Len(msgs))

---------------------------------------------------------------------------
(* the property                                                               *)

(* the mirror state `st` shows source clock `c` on every synchronised state   *)
(* (its parity for shallow clocks), with the right queue and machine ticks    *)
Shows(cfg, n, c, st) ==
  LET idx == Tracked(cfg, n)
  IN  /\ \A k \in 1..Len(idx) :
           LET ci == IF cfg.schema THEN idx[k] ELSE k - 1
           IN  /\ ci < Len(st.t)
               /\ IF cfg.shallow THEN Odd(st.t[ci + 1]) = Odd(c.t[idx[k] + 1])
                                 ELSE st.t[ci + 1] = c.t[idx[k] + 1]
      /\ st.q = c.q
      /\ st.m = c.m

(* RoundTrip: the message(s) derived from successive snapshots, applied to a  *)
(* mirror holding the first one, are accepted and yield the last one; for a   *)
(* chain every intermediate decode shows the corresponding snapshot           *)
RoundTrip(cfg, n, snaps, panic, acc, dec, after) ==
  /\ ~panic
  /\ acc
  /\ Len(dec) = Len(snaps)
  /\ \A j \in 1..Len(snaps) : Shows(cfg, n, snaps[j], dec[j])
  /\ Shows(cfg, n, snaps[Len(snaps)], after)

(* a message is either applied as decoded or not at all                       *)
Applied(acc, mirror, dec, after) ==
  IF acc THEN dec # <<>> /\ LET d == dec[Len(dec)] IN
              after.t = d.t /\ after.q = d.q /\ after.m = d.m
  ELSE \/ after = mirror
       \/ \E j \in 1..Len(dec) - 1 :
            after.t = dec[j].t /\ after.q = dec[j].q /\ after.m = dec[j].m

StateSum(st) == Mod256(UAdd(UAdd(USum(st.t), st.q), st.m))
ActiveSum(cidx, st) == Mod256(UAdd(UAdd(USum(Parity(Filter(st.t, cidx))), st.q), st.m))

(* the drifted mirror differs from the first snapshot in (tick sum + queue    *)
(* tick + machine tick) mod 256.  For shallow clocks the statement admits two *)
(* readings of "tick sum" (the ticks the mirror holds / the 0-1 clocks that   *)
(* are synchronised); the weaker reading is taken: both must differ.          *)
Drifted(cfg, cidx, mirror, probe) ==
  /\ StateSum(probe) # StateSum(mirror)
  /\ cfg.shallow => ActiveSum(cidx, probe) # ActiveSum(cidx, mirror)

DriftRejected(cfg, cidx, mirror, probe, pacc, pafter) ==
  Drifted(cfg, cidx, mirror, probe) => (~pacc /\ pafter = probe)
=============================================================================
