// Package queuedrv forces caller interleavings on the mutation queue of a real
// machine (C04) and records the gate sequence for TLC (spec/TraceQueue.tla).
package queuedrv

import (
	"context"
	"fmt"
	"slices"
	"sort"
	"sync"
	"time"

	am "github.com/pancsta/asyncmachine-go/pkg/machine"

	"verifharness/gate"
)

// Scenario: N callers, each issues MutsPer Adds one after another; Nest lists
// the <caller, k> mutations whose State handler nests one more Add; Veto lists
// the mutations whose Enter handler returns false.
type Scenario struct {
	Callers int      `json:"callers"`
	MutsPer int      `json:"mutsPer"`
	Nest    [][2]int `json:"nest"`
	Veto    [][2]int `json:"veto"`
	// Prep: <caller, k> operations that are Eval (k odd) / CanAdd (k even): PrependMut
	Prep [][2]int `json:"prep"`
	// Noop: mutations that are accepted but change nothing (no clock tick
	// moves): the state is not Multi and already active when the scenario
	// starts. <caller, k> - that Add of a caller; <caller, k, 1> - the Add nested
	// by the handler of <caller, k>.  (A Remove of an inactive state is the other
	// member of the class, but Machine.Remove answers it without queueing when
	// the queue is empty inside a transition; the free-running part issues those.)
	Noop [][]int `json:"noop"`
}

func stateOf(c, k int) string    { return fmt.Sprintf("S%d_%d", c, k) }
func nestedOf(c, k int) string   { return fmt.Sprintf("N%d_%d", c, k) }

type GateEv struct {
	Ev    string `json:"ev"`
	Role  int    `json:"role"`
	Point string `json:"point"`
	Qlen  int    `json:"qlen"`
	Qtick uint64 `json:"qtick"`
	Proc  bool   `json:"proc"`
	Res   string `json:"res,omitempty"`
	Tick  uint64 `json:"tick,omitempty"`
	K     int    `json:"k,omitempty"`
	// ticks whose WhenQueue channel (subscribed right after the mutation was
	// queued) is still open; read AFTER Qtick
	WqOpen []uint64 `json:"wqopen"`
}

type HandlerEv struct {
	Ev    string `json:"ev"` // hstart | hend
	Name  string `json:"name"`
	Open  int    `json:"open"` // handlers open after this event
}

type EndEv struct {
	Ev       string            `json:"ev"`
	Qlen     int               `json:"qlen"`
	Qtick    uint64            `json:"qtick"`
	Proc     bool              `json:"proc"`
	Active   am.S              `json:"active"`
	Returned []Returned        `json:"returned"`
	Popped   []string          `json:"popped"` // tracer order of processed mutations (state names)
	Stuck    bool              `json:"stuck"`
	Sched    []int             `json:"sched"`
	Free     bool              `json:"free"`
}

type Returned struct {
	Role   int    `json:"role"`
	K      int    `json:"k"`
	State  string `json:"state"`
	Res    string `json:"res"`
	Tick   uint64 `json:"tick"`
	WqOpen bool   `json:"wqOpen"` // WhenQueue(tick) still open at quiescence
	Active bool   `json:"active"` // its state is active at quiescence
	Vetoed bool   `json:"vetoed"`
}

type popTracer struct {
	*am.TracerNoOp
	mu     sync.Mutex
	popped []string
	open   int
	maxOpen int
}

func (t *popTracer) TransitionStart(tx *am.Transition) {
	t.mu.Lock()
	defer t.mu.Unlock()
	t.open++
	if t.open > t.maxOpen {
		t.maxOpen = t.open
	}
	c := tx.CalledStates()
	if len(c) > 0 && !tx.Mutation.IsAuto {
		t.popped = append(t.popped, c[0])
	}
}

func (t *popTracer) TransitionEnd(tx *am.Transition) {
	t.mu.Lock()
	defer t.mu.Unlock()
	t.open--
}

var Gates = []string{"qm.done", "pq.enter", "pq.casLost", "pq.casWon", "pq.popped",
	"pq.loopExit", "pq.released", "pq.queueEnd", "start", "return", "eval.in"}

// Run executes the scenario under the schedule `prefix` (role ids; once the
// prefix is exhausted the lowest enabled role runs). It returns the recorded
// lines, the schedule actually taken and, per step, the roles that were enabled.
func Run(sc Scenario, prefix []int) (lines []any, taken []int, enabled [][]int) {
	schema := am.Schema{}
	var names am.S
	nestOf := map[string]string{}
	vetoed := map[string]bool{}
	for c := 1; c <= sc.Callers; c++ {
		for k := 1; k <= sc.MutsPer; k++ {
			schema[stateOf(c, k)] = am.State{Multi: true}
			names = append(names, stateOf(c, k))
		}
	}
	for _, n := range sc.Nest {
		schema[nestedOf(n[0], n[1])] = am.State{Multi: true}
		names = append(names, nestedOf(n[0], n[1]))
		nestOf[stateOf(n[0], n[1])] = nestedOf(n[0], n[1])
	}
	for _, v := range sc.Veto {
		vetoed[stateOf(v[0], v[1])] = true
	}
	prep := map[[2]int]bool{}
	for _, v := range sc.Prep {
		prep[v] = true
	}
	// accepted no-ops: add of an active non-Multi state
	var preset am.S
	for _, v := range sc.Noop {
		st := stateOf(v[0], v[1])
		if len(v) == 3 {
			st = nestedOf(v[0], v[1])
		}
		if _, ok := schema[st]; ok {
			schema[st] = am.State{}
			preset = append(preset, st)
		}
	}
	names = append(names, am.StateException)
	tr := &popTracer{TracerNoOp: &am.TracerNoOp{Id: "pop"}}
	m := am.New(context.Background(), schema, &am.Opts{Id: "q", Tracers: []am.Tracer{tr},
		HandlerTimeout: 5 * time.Second})
	_ = m.VerifyStates(names)
	defer m.Dispose()
	if len(preset) > 0 {
		// start with the preset states active, without spending a queue tick
		data, _, err := m.Export()
		if err == nil {
			for i, n := range data.StateNames {
				if slices.Contains(preset, n) {
					data.Time[i] = 1
				}
			}
			err = m.Import(data)
		}
		if err != nil || !m.Is(preset) {
			panic(fmt.Sprint("queuedrv: preset failed: ", err))
		}
	}

	var mu sync.Mutex
	add := func(l any) { mu.Lock(); lines = append(lines, l); mu.Unlock() }
	hopen := 0
	// handlers: <S>Enter (veto), <S>State (nest)
	neg := map[string]am.HandlerNegotiation{}
	fin := map[string]am.HandlerFinal{}
	nestedRes := map[string]am.Result{}
	whenq := map[string]<-chan struct{}{}
	whenqTick := map[string]uint64{}
	for _, s := range names {
		s := s
		if s == am.StateException {
			continue
		}
		neg[s+"Enter"] = func(e *am.Event) bool {
			mu.Lock(); hopen++; lines = append(lines, HandlerEv{"hstart", s + "Enter", hopen}); mu.Unlock()
			mu.Lock(); hopen--; lines = append(lines, HandlerEv{"hend", s + "Enter", hopen}); mu.Unlock()
			return !vetoed[s]
		}
		fin[s+"State"] = func(e *am.Event) {
			mu.Lock(); hopen++; lines = append(lines, HandlerEv{"hstart", s + "State", hopen}); mu.Unlock()
			if n, ok := nestOf[s]; ok {
				r := e.Machine().Add1(n, nil)
				mu.Lock(); nestedRes[n] = r; mu.Unlock()
				if r != am.Executed && r != am.Canceled {
					ch := e.Machine().WhenQueue(r)
					mu.Lock(); whenq[n] = ch; whenqTick[n] = uint64(r); mu.Unlock()
				}
			}
			mu.Lock(); hopen--; lines = append(lines, HandlerEv{"hend", s + "State", hopen}); mu.Unlock()
		}
	}
	_, _ = m.HandlersBindMaps(neg, fin)

	s := gate.New(Gates...)
	s.Attach(m)
	defer s.Detach()
	snap := func(role int, point string) GateEv {
		ev := GateEv{Ev: "gate", Role: role, Point: point, Qlen: int(m.QueueLen()),
			Qtick: m.QueueTick(), Proc: am.VerifQueueProcessing(m), WqOpen: []uint64{}}
		mu.Lock()
		for n, ch := range whenq {
			select {
			case <-ch:
			default:
				ev.WqOpen = append(ev.WqOpen, whenqTick[n])
			}
		}
		mu.Unlock()
		sort.Slice(ev.WqOpen, func(i, j int) bool { return ev.WqOpen[i] < ev.WqOpen[j] })
		return ev
	}
	results := map[[2]int]am.Result{}
	curK := map[int]int{}
	for c := 1; c <= sc.Callers; c++ {
		c := c
		s.Go(c, func() {
			for k := 1; k <= sc.MutsPer; k++ {
				mu.Lock(); curK[c] = k; mu.Unlock()
				s.Gate("start")
				if prep[[2]int{c, k}] {
					var r am.Result = am.Executed
					if k%2 == 1 {
						ok := m.Eval("verif", func() {
							mu.Lock(); hopen++; lines = append(lines, HandlerEv{"hstart", "eval", hopen}); mu.Unlock()
							s.Gate("eval.in")
							mu.Lock(); hopen--; lines = append(lines, HandlerEv{"hend", "eval", hopen}); mu.Unlock()
						}, nil)
						if !ok {
							r = am.Canceled
						}
					} else {
						r = m.CanAdd1(stateOf(c, k), nil)
						if r != am.Canceled {
							r = am.Executed
						}
					}
					mu.Lock(); results[[2]int{c, k}] = r; mu.Unlock()
					s.Gate("return")
					continue
				}
				r := m.Add1(stateOf(c, k), nil)
				mu.Lock(); results[[2]int{c, k}] = r; mu.Unlock()
				if r != am.Executed && r != am.Canceled {
					// subscribe right away, before the mutation gets processed
					ch := m.WhenQueue(r)
					mu.Lock(); whenq[stateOf(c, k)] = ch; whenqTick[stateOf(c, k)] = uint64(r); mu.Unlock()
				}
				s.Gate("return")
			}
		})
	}
	// first step of every role brings it to its first "start" gate
	alive := map[int]bool{}
	at := map[int]string{}
	for c := 1; c <= sc.Callers; c++ {
		p := s.Step(c)
		at[c] = p
		alive[c] = p != "end" && p != "stuck"
	}
	stuck := false
	for step := 0; ; step++ {
		var en []int
		for c := 1; c <= sc.Callers; c++ {
			if alive[c] {
				en = append(en, c)
			}
		}
		if len(en) == 0 {
			break
		}
		sort.Ints(en)
		choice := en[0]
		if step < len(prefix) {
			ok := false
			for _, e := range en {
				if e == prefix[step] {
					ok = true
				}
			}
			if ok {
				choice = prefix[step]
			}
		}
		enabled = append(enabled, en)
		taken = append(taken, choice)
		p := s.Step(choice)
		if p == "stuck" {
			stuck = true
			alive[choice] = false
			add(GateEv{Ev: "gate", Role: choice, Point: "stuck", WqOpen: []uint64{}})
			continue
		}
		if p == "end" {
			alive[choice] = false
			continue
		}
		at[choice] = p
		ev := snap(choice, p)
		mu.Lock()
		ev.K = curK[choice]
		if p == "return" {
			r := results[[2]int{choice, ev.K}]
			ev.Res = resStr(r)
			if r != am.Executed && r != am.Canceled {
				ev.Tick = uint64(r)
			}
		}
		mu.Unlock()
		add(ev)
	}
	// quiescence: nothing is running (all roles ended); give forked work a moment
	time.Sleep(2 * time.Millisecond)
	end := EndEv{Ev: "qend", Qlen: int(m.QueueLen()), Qtick: m.QueueTick(),
		Proc: am.VerifQueueProcessing(m), Active: m.ActiveStates(nil), Stuck: stuck, Sched: taken}
	if end.Active == nil {
		end.Active = am.S{}
	}
	tr.mu.Lock()
	end.Popped = append([]string{}, tr.popped...)
	tr.mu.Unlock()
	if end.Popped == nil {
		end.Popped = []string{}
	}
	open := func(r am.Result) bool {
		if r == am.Executed || r == am.Canceled {
			return false
		}
		select {
		case <-m.WhenQueue(r):
			return false
		case <-time.After(20 * time.Millisecond):
			return true
		}
	}
	for c := 1; c <= sc.Callers; c++ {
		for k := 1; k <= sc.MutsPer; k++ {
			r, ok := results[[2]int{c, k}]
			if !ok {
				continue
			}
			rt := Returned{Role: c, K: k, State: stateOf(c, k), Res: resStr(r),
				Active: m.Is1(stateOf(c, k)), Vetoed: vetoed[stateOf(c, k)]}
			if prep[[2]int{c, k}] {
				continue
			}
			if r != am.Executed && r != am.Canceled {
				rt.Tick = uint64(r)
				rt.WqOpen = open(r)
				if ch, ok := whenq[stateOf(c, k)]; ok {
					select {
					case <-ch:
					case <-time.After(20 * time.Millisecond):
						rt.WqOpen = true
					}
				}
			}
			end.Returned = append(end.Returned, rt)
		}
	}
	for n, r := range nestedRes {
		rt := Returned{Role: 0, State: n, Res: resStr(r), Active: m.Is1(n)}
		if r != am.Executed && r != am.Canceled {
			rt.Tick = uint64(r)
			rt.WqOpen = open(r)
			if ch, ok := whenq[n]; ok {
				select {
				case <-ch:
				case <-time.After(20 * time.Millisecond):
					rt.WqOpen = true
				}
			}
		}
		end.Returned = append(end.Returned, rt)
	}
	if end.Returned == nil {
		end.Returned = []Returned{}
	}
	sort.Slice(end.Returned, func(i, j int) bool { return end.Returned[i].State < end.Returned[j].State })
	add(end)
	return
}

func resStr(r am.Result) string {
	switch r {
	case am.Executed:
		return "executed"
	case am.Canceled:
		return "canceled"
	}
	return "queued"
}

// RunFree: real concurrency, no gates. `callers` goroutines each issue `muts`
// operations (Add / Remove / CanAdd / Eval) on their own states while handlers
// nest further mutations; after quiescence the end state is reported like in
// Run (one qend line preceded by handler events).
func RunFree(callers, muts int, seed int64) (lines []any) {
	schema := am.Schema{}
	var names am.S
	for c := 1; c <= callers; c++ {
		schema[stateOf(c, 1)] = am.State{Multi: true}
		schema[nestedOf(c, 1)] = am.State{Multi: true}
		names = append(names, stateOf(c, 1), nestedOf(c, 1))
	}
	names = append(names, am.StateException)
	tr := &popTracer{TracerNoOp: &am.TracerNoOp{Id: "pop"}}
	m := am.New(context.Background(), schema, &am.Opts{Id: "qf", Tracers: []am.Tracer{tr},
		HandlerTimeout: 5 * time.Second})
	_ = m.VerifyStates(names)
	defer m.Dispose()
	var mu sync.Mutex
	hopen, hmax := 0, 0
	evalOpen, evalMax := 0, 0
	neg := map[string]am.HandlerNegotiation{}
	fin := map[string]am.HandlerFinal{}
	for c := 1; c <= callers; c++ {
		s, n := stateOf(c, 1), nestedOf(c, 1)
		fin[s+"State"] = func(e *am.Event) {
			mu.Lock(); hopen++; if hopen+evalOpen > hmax { hmax = hopen + evalOpen }; mu.Unlock()
			e.Machine().Add1(n, nil)
			runtimeGosched()
			mu.Lock(); hopen--; mu.Unlock()
		}
		neg[s+"Enter"] = func(e *am.Event) bool {
			mu.Lock(); hopen++; if hopen+evalOpen > hmax { hmax = hopen + evalOpen }; mu.Unlock()
			runtimeGosched()
			mu.Lock(); hopen--; mu.Unlock()
			return true
		}
	}
	_, _ = m.HandlersBindMaps(neg, fin)
	type rr struct {
		res  am.Result
		ch   <-chan struct{}
		st   string
	}
	var wg sync.WaitGroup
	rets := make([][]rr, callers+1)
	last := make([]string, callers+1)
	for c := 1; c <= callers; c++ {
		c := c
		wg.Add(1)
		go func() {
			defer wg.Done()
			x := uint64(seed)*2654435761 + uint64(c)*40503
			for i := 0; i < muts; i++ {
				x = x*6364136223846793005 + 1442695040888963407
				switch (x >> 33) % 5 {
				case 0, 1:
					r := m.Add1(stateOf(c, 1), nil)
					e := rr{res: r, st: stateOf(c, 1)}
					if r != am.Executed && r != am.Canceled {
						e.ch = m.WhenQueue(r)
					}
					rets[c] = append(rets[c], e)
					last[c] = "add"
				case 2:
					r := m.Remove1(stateOf(c, 1), nil)
					e := rr{res: r, st: stateOf(c, 1)}
					if r != am.Executed && r != am.Canceled {
						e.ch = m.WhenQueue(r)
					}
					rets[c] = append(rets[c], e)
					last[c] = "remove"
				case 3:
					m.CanAdd1(stateOf(c, 1), nil)
				case 4:
					m.Eval("verif", func() {
						mu.Lock(); evalOpen++; if hopen+evalOpen > hmax { hmax = hopen + evalOpen }; if evalOpen > evalMax { evalMax = evalOpen }; mu.Unlock()
						runtimeGosched()
						mu.Lock(); evalOpen--; mu.Unlock()
					}, nil)
				}
			}
		}()
	}
	wg.Wait()
	// quiescence
	deadline := time.Now().Add(3 * time.Second)
	for (m.QueueLen() > 0 || am.VerifQueueProcessing(m)) && time.Now().Before(deadline) {
		time.Sleep(time.Millisecond)
	}
	time.Sleep(2 * time.Millisecond)
	end := EndEv{Ev: "qend", Qlen: int(m.QueueLen()), Qtick: m.QueueTick(),
		Proc: am.VerifQueueProcessing(m), Active: m.ActiveStates(nil), Popped: []string{}, Sched: []int{}, Free: true}
	if end.Active == nil {
		end.Active = am.S{}
	}
	for c := 1; c <= callers; c++ {
		for i, e := range rets[c] {
			rt := Returned{Role: c, K: i + 1, State: e.st, Res: resStr(e.res), Active: true}
			if e.ch != nil {
				rt.Tick = uint64(e.res)
				select {
				case <-e.ch:
				case <-time.After(50 * time.Millisecond):
					rt.WqOpen = true
				}
			}
			end.Returned = append(end.Returned, rt)
		}
	}
	if end.Returned == nil {
		end.Returned = []Returned{}
	}
	mu.Lock()
	lines = append(lines, HandlerEv{"hstart", "max-concurrent-handlers-or-evals", hmax})
	mu.Unlock()
	tr.mu.Lock()
	lines = append(lines, HandlerEv{"hstart", "max-concurrent-transitions", tr.maxOpen})
	tr.mu.Unlock()
	lines = append(lines, end)
	return
}

func runtimeGosched() { time.Sleep(0) }
