----------------------------- MODULE MCMachine -----------------------------
(* Bounded model of Machine.tla: every schema of a small space, every call    *)
(* history up to MaxCalls, every veto assignment up to MaxVeto handlers.      *)
EXTENDS Machine

CONSTANTS Names,        \* user state names, a sequence, e.g. <<"A","B">>
          MaxCalls, MaxVeto, MaxRel,
          UseAfter,     \* include After relations in the schema space
          UseFlags,     \* include Auto / Multi flags
          FaultMode,    \* first call carries one handler fault (panic or stall), no vetoes
          ShardMod, ShardIdx   \* shard the schema space over TLC processes

NameSet == SSet(Names)
Index == Names \o <<"Exception">>

RelLists(n) == {s \in SSubsetSeqs(NameSet \ {n}) : Len(s) <= MaxRel}

StateDefs(n) ==
  [auto    : IF UseFlags THEN BOOLEAN ELSE {FALSE},
   multi   : IF UseFlags THEN BOOLEAN ELSE {FALSE},
   require : RelLists(n),
   add     : RelLists(n),
   remove  : RelLists(n),
   after   : IF UseAfter THEN RelLists(n) ELSE {<<>>}]

ExceptionDef == [auto |-> FALSE, multi |-> TRUE, require |-> <<>>, add |-> <<>>,
                 remove |-> <<>>, after |-> <<>>]

(* the schema space is built as a product, state by state, and the shard is   *)
(* selected while it is built (the hash of SchemaHash below, accumulated):     *)
(* nothing outside the shard is ever constructed                               *)
DefW(d) == Len(d.require) + 3 * Len(d.add) + 7 * Len(d.remove)
           + 11 * Len(d.after) + (IF d.auto THEN 13 ELSE 0)
           + (IF d.multi THEN 17 ELSE 0)

RECURSIVE DefSeqs(_, _)
DefSeqs(i, a) ==
  IF i > Len(Names)
  THEN (IF a % ShardMod = ShardIdx THEN {<<>>} ELSE {})
  ELSE UNION {{<<d>> \o r : r \in DefSeqs(i + 1, a * 31 + DefW(d))} : d \in StateDefs(Names[i])}

RawSchemas ==
  {[n \in NameSet |-> q[SIndex(Names, n)]] : q \in DefSeqs(1, 7)}

WithException(s) == [n \in NameSet \cup {"Exception"} |->
                       IF n = "Exception" THEN ExceptionDef ELSE s[n]]

Parsed(s) == [n \in DOMAIN s |-> ParseState(DOMAIN s, n, s[n]).st]
HasConflict(s) == \E n \in DOMAIN s : ParseState(DOMAIN s, n, s[n]).conflict

(* a cheap deterministic hash to shard the schema space                       *)
SchemaHash(s) ==
  LET W(n) == Len(s[n].require) + 3 * Len(s[n].add) + 7 * Len(s[n].remove)
              + 11 * Len(s[n].after) + (IF s[n].auto THEN 13 ELSE 0)
              + (IF s[n].multi THEN 17 ELSE 0)
      RECURSIVE Go(_, _)
      Go(i, a) == IF i > Len(Names) THEN a ELSE Go(i + 1, a * 31 + W(Names[i]))
  IN Go(1, 7)

SchemaSpace ==
  {Parsed(WithException(s)) : s \in
     {r \in RawSchemas : ~HasConflict(WithException(r))
                         /\ SchemaHash(r) % ShardMod = ShardIdx}}

NegNames ==
  UNION {{<<"exit", n>> : n \in SSet(Index)},
         {<<"enter", n>> : n \in SSet(Index)},
         {<<"self", n>> : n \in SSet(Index)},
         {<<"ss", a, b>> : a \in SSet(Index), b \in SSet(Index)}
            \ {<<"ss", n, n>> : n \in SSet(Index)},
         {<<"anyenter">>}}
FinNames ==
  UNION {{<<"end", n>> : n \in SSet(Index)},
         {<<"state", n>> : n \in SSet(Index)},
         {<<"anystate">>}}

FullBinding == [neg |-> NegNames, fin |-> FinNames]

HandlerSpace ==
  {[on |-> FALSE, binds |-> <<>>], [on |-> TRUE, binds |-> <<FullBinding>>]}

VetoSpace == {v \in SUBSET {<<1, h>> : h \in NegNames} : Cardinality(v) <= MaxVeto}

CalledLists == {SelectSeq(Names, LAMBDA n : n \in T) : T \in (SUBSET NameSet) \ {{}}}

MCInit ==
  \E s \in SchemaSpace : \E t \in TopoSet(s, Index) : \E h \in HandlerSpace :
     InitWith(s, Index, t, h)

FaultSpace == {<<1, h>> : h \in NegNames \cup FinNames}

MCNext ==
  \/ /\ ncalls < MaxCalls
     /\ \E type \in {"add", "remove", "set"} :
        \* fault runs also call the Exception state directly (AddErr): a fault
        \* inside an Exception handler needs no earlier fault then
        \E called \in (IF FaultMode THEN CalledLists \cup {<<"Exception">>} ELSE CalledLists) :
        \E check \in BOOLEAN :
           /\ (check => type # "set")
           /\ IF FaultMode /\ ncalls = 0 /\ hs.on
              THEN /\ ~check
                   /\ \E f \in FaultSpace : \E kind \in {"pan", "stall", "dead"} :
                        CallFD(type, called, FALSE, {}, <<>>,
                               IF kind = "pan" THEN {f} ELSE {},
                               IF kind \in {"stall", "dead"} THEN {f} ELSE {},
                               IF kind = "dead" THEN {f} ELSE {})
              ELSE Call(type, called, check, {}, <<>>)
  \/ \E v \in {w \in SUBSET NegCandidates : Cardinality(w) <= MaxVeto} : StepV(v)
  \/ Return
  \* a handler deadline was hit between two calls: the next call is refused
  \/ (UseFlags /\ ~FaultMode /\ ncalls = 1 /\ ~backoff /\ SetBackoff(TRUE))
  \* the backoff that a handler deadline started is over: the probe call runs
  \/ (FaultMode /\ backoff /\ SetBackoff(FALSE))

MCSpec == MCInit /\ [][MCNext]_vars

(* The exhaustive search identifies states by the machine, the verdict vector *)
(* and the few observation fields later formulas read (prev/obs projections); *)
(* the bulky observation records themselves are hidden from the fingerprint.  *)
ObsProj(x) == IF x.kind = "tx" THEN <<x.accepted, x.mut, x.tb, x.ta, x.after>> ELSE <<x.kind>>
MCView == <<sch, topo, hs, active, clock, qtick, queue, running, first, pan, stall, dead, wedged, backoff,
            atCall, ncalls, verdict, ObsProj(obs), ObsProj(prev),
            IF firstTx = None THEN <<>> ELSE <<firstTx.after, firstTx.target>>>>

NamesAB == <<"A", "B">>
NamesABC == <<"A", "B", "C">>
=============================================================================
