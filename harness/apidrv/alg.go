package apidrv

import (
	"bufio"
	"context"
	"encoding/json"
	"fmt"
	"os"
	"reflect"
	"sync"
	"time"

	am "github.com/pancsta/asyncmachine-go/pkg/machine"
)

// ---------------------------------------------------------------------------
// ndjson output, sharded round-robin in blocks so that every TLC process gets
// the same amount of work

type Out struct {
	mx    sync.Mutex
	ws    []*bufio.Writer
	fs    []*os.File
	Lines int
	block int
	cur   int
	Stats map[string]int
}

func NewOut(prefix string, shards int) (*Out, error) {
	o := &Out{Stats: map[string]int{}}
	for i := 0; i < shards; i++ {
		f, err := os.Create(fmt.Sprintf("%s.%d.ndjson", prefix, i))
		if err != nil {
			return nil, err
		}
		o.fs = append(o.fs, f)
		o.ws = append(o.ws, bufio.NewWriterSize(f, 1<<20))
	}
	return o, nil
}

// Emit writes one line; lines of one `group` stay in one shard when keep is
// set (stateful sequences must not be split).
func (o *Out) Emit(v any) { o.emit(v, false) }

func (o *Out) emit(v any, keep bool) {
	b, err := json.Marshal(v)
	if err != nil {
		panic(err)
	}
	o.mx.Lock()
	defer o.mx.Unlock()
	if !keep {
		o.block++
		if o.block >= 256 {
			o.block = 0
			o.cur = (o.cur + 1) % len(o.ws)
		}
	}
	o.ws[o.cur].Write(b)
	o.ws[o.cur].WriteByte('\n')
	o.Lines++
}

// EmitGroup writes lines that must stay together and in order.
func (o *Out) EmitGroup(vs ...any) {
	o.mx.Lock()
	o.block = 0
	o.cur = (o.cur + 1) % len(o.ws)
	o.mx.Unlock()
	for _, v := range vs {
		o.emit(v, true)
	}
}

func (o *Out) Close() {
	for i := range o.ws {
		o.ws[i].Flush()
		o.fs[i].Close()
	}
}

// norm makes a value JSON-friendly for TLC: nil slices become [], named
// slice types become plain lists.
func norm(v any) any {
	if v == nil {
		return []any{}
	}
	rv := reflect.ValueOf(v)
	switch rv.Kind() {
	case reflect.Slice, reflect.Array:
		out := make([]any, rv.Len())
		for i := range out {
			out[i] = norm(rv.Index(i).Interface())
		}
		return out
	case reflect.Ptr:
		if rv.IsNil() {
			return []any{}
		}
		return norm(rv.Elem().Interface())
	}
	return v
}

type AlgLine struct {
	Ev string `json:"ev"`
	Fn string `json:"fn"`
	A  []any  `json:"a"`
	R  any    `json:"r,omitempty"`
	P  string `json:"p"`
}

// callAlg runs f on the real code, recovering a panic, and logs the line.
func callAlg(o *Out, fn string, args []any, f func() any) {
	l := AlgLine{Ev: "alg", Fn: fn, A: make([]any, len(args))}
	for i, a := range args {
		l.A[i] = norm(a)
	}
	func() {
		defer func() {
			if r := recover(); r != nil {
				l.P = fmt.Sprint(r)
				l.R = nil
			}
		}()
		l.R = norm(f())
	}()
	o.Emit(l)
	o.mx.Lock()
	o.Stats[fn]++
	if l.P != "" {
		o.Stats["panic:"+fn]++
	}
	o.mx.Unlock()
}

// ---------------------------------------------------------------------------
// input spaces

var Names = am.S{"A", "B", "C"}

const Unknown = "X"

// Lists returns every list over alphabet of length <= maxLen (with
// duplicates), the nil/empty list first.
func Lists(alphabet []string, maxLen int) []am.S {
	out := []am.S{{}}
	prev := []am.S{{}}
	for l := 1; l <= maxLen; l++ {
		var next []am.S
		for _, p := range prev {
			for _, a := range alphabet {
				n := append(append(am.S{}, p...), a)
				next = append(next, n)
			}
		}
		out = append(out, next...)
		prev = next
	}
	return out
}

func IntLists(alphabet []int, maxLen int) [][]int {
	out := [][]int{{}}
	prev := [][]int{{}}
	for l := 1; l <= maxLen; l++ {
		var next [][]int
		for _, p := range prev {
			for _, a := range alphabet {
				next = append(next, append(append([]int{}, p...), a))
			}
		}
		out = append(out, next...)
		prev = next
	}
	return out
}

func Times(n int, maxTick uint64) []am.Time {
	out := []am.Time{{}}
	for i := 0; i < n; i++ {
		var next []am.Time
		for _, p := range out {
			for t := uint64(0); t <= maxTick; t++ {
				next = append(next, append(append(am.Time{}, p...), t))
			}
		}
		out = next
	}
	return out
}

type AlgOpts struct {
	MaxLen     int // binary / unary list functions
	MaxLenVar  int // lists of the variadic functions (receiver and each list)
	MaxVar     int // number of variadic lists
	MaxQueue   int
	QueueFull  bool // full IsQueued query space per queue
	Only       string
	SkipQueue  bool
	SkipTime   bool
	SkipLists  bool
	SingleCase *AlgLine // replay of one line
}

// RunAlgebra enumerates the input space of part (1) on the real functions.
func RunAlgebra(o *Out, opt AlgOpts) {
	alpha := append(append([]string{}, Names...), Unknown)
	if !opt.SkipLists {
		runLists(o, alpha, opt)
	}
	if !opt.SkipTime {
		runTime(o)
	}
	if !opt.SkipQueue {
		runQueue(o, opt)
	}
}

func runLists(o *Out, alpha []string, opt AlgOpts) {
	ls := Lists(alpha, opt.MaxLen)
	lv := Lists(alpha, opt.MaxLenVar)

	// a machine whose schema has exactly Names (+ Exception)
	m := am.New(context.Background(), am.Schema{"A": {}, "B": {}, "C": {}}, nil)
	defer m.Dispose()
	index := m.StateNames()

	for _, s := range ls {
		callAlg(o, "S.Unique", []any{s}, func() any { return s.Unique() })
		callAlg(o, "M.ParseStates", []any{index, s}, func() any { return m.ParseStates(s) })
		callAlg(o, "M.Has", []any{index, s}, func() any { return m.Has(s) })
		callAlg(o, "M.Index", []any{index, s}, func() any { return m.Index(s) })
		for _, n := range alpha {
			callAlg(o, "S.Has", []any{s, n}, func() any { return s.Has(n) })
		}
		for _, t := range ls {
			callAlg(o, "S.Sub", []any{s, t}, func() any { return s.Sub(t) })
			callAlg(o, "S.Shared", []any{s, t}, func() any { return s.Shared(t) })
			callAlg(o, "S.Equal", []any{s, t}, func() any { return s.Equal(t) })
			callAlg(o, "S.EqualOrder", []any{s, t}, func() any { return s.EqualOrder(t) })
			callAlg(o, "S.Index", []any{s, t}, func() any { return s.Index(t) })
			callAlg(o, "S.Delete1", []any{s, t}, func() any { return s.Delete1(t...) })
			callAlg(o, "S.Add1", []any{s, t}, func() any { return s.Add1(t...) })
			callAlg(o, "StatesDiff", []any{s, t}, func() any { return am.StatesDiff(s, t) })
			callAlg(o, "StatesShared", []any{s, t}, func() any { return am.StatesShared(s, t) })
			callAlg(o, "StatesEqual", []any{s, t}, func() any { return am.StatesEqual(s, t) })
			callAlg(o, "StatesToIndex", []any{s, t}, func() any { return am.StatesToIndex(s, t) })
		}
	}
	// variadic: 0..MaxVar lists
	var varargs [][]am.S
	varargs = append(varargs, []am.S{})
	prev := [][]am.S{{}}
	for k := 1; k <= opt.MaxVar; k++ {
		var next [][]am.S
		for _, p := range prev {
			for _, l := range lv {
				next = append(next, append(append([]am.S{}, p...), l))
			}
		}
		varargs = append(varargs, next...)
		prev = next
	}
	for _, v := range varargs {
		callAlg(o, "SAdd", []any{v}, func() any { return am.SAdd(cloneLists(v)...) })
		for _, s := range lv {
			callAlg(o, "S.Delete", []any{s, v}, func() any { return s.Delete(cloneLists(v)...) })
			callAlg(o, "S.Add", []any{s, v}, func() any { return s.Add(cloneLists(v)...) })
			callAlg(o, "SRem", []any{s, v}, func() any { return am.SRem(s, cloneLists(v)...) })
		}
	}
}

func cloneLists(v []am.S) []am.S {
	out := make([]am.S, len(v))
	for i := range v {
		out[i] = append(am.S{}, v[i]...)
	}
	return out
}

// runTime: Time / TimeIndex over 3 states, ticks 0..2.  Index arguments are
// indexes of existing states (0..2), plus -1 for the methods that document
// "-1 is not found"; a second Time is of the same length or shorter.
func runTime(o *Out) {
	ts := Times(3, 2)
	t2s := append(append([]am.Time{}, ts...), Times(2, 2)...)
	idx := IntLists([]int{0, 1, 2}, 2)
	idxNeg := IntLists([]int{-1, 0, 1, 2}, 2)
	bools := []bool{false, true}
	index := am.S{"A", "B", "C"}
	known := Lists(index, 2)
	withUnknown := Lists(append(append([]string{}, index...), Unknown), 2)

	for _, ix := range idx {
		callAlg(o, "NewTime", []any{am.Time{0, 0, 0}, ix}, func() any { return am.NewTime(am.Time{0, 0, 0}, ix) })
		callAlg(o, "NewTimeIndex", []any{index, ix}, func() any { return am.NewTimeIndex(index, ix).Time })
	}
	for _, t := range ts {
		callAlg(o, "T.String", []any{t}, func() any { return t.String() })
		callAlg(o, "T.NonZeroStates", []any{t}, func() any { return t.NonZeroStates() })
		callAlg(o, "T.Sum", []any{t, true, []int{}}, func() any { return t.Sum(nil) })
		for i := 0; i < 3; i++ {
			callAlg(o, "T.Increment", []any{t, i}, func() any { return t.Increment(i) })
			callAlg(o, "T.Tick", []any{t, i}, func() any { return t.Tick(i) })
		}
		for i := -1; i < 3; i++ {
			callAlg(o, "T.Is1", []any{t, i}, func() any { return t.Is1(i) })
			callAlg(o, "T.Not1", []any{t, i}, func() any { return t.Not1(i) })
		}
		for _, ix := range idx {
			callAlg(o, "T.Filter", []any{t, ix}, func() any { return t.Filter(ix) })
			callAlg(o, "T.Sum", []any{t, false, ix}, func() any { return t.Sum(ix) })
			callAlg(o, "T.ActiveStates", []any{t, false, ix}, func() any { return t.ActiveStates(ix) })
		}
		callAlg(o, "T.ActiveStates", []any{t, true, []int{}}, func() any { return t.ActiveStates(nil) })
		for _, ix := range idxNeg {
			callAlg(o, "T.Is", []any{t, ix}, func() any { return t.Is(ix) })
			callAlg(o, "T.Not", []any{t, ix}, func() any { return t.Not(ix) })
			callAlg(o, "T.Any1", []any{t, ix}, func() any { return t.Any1(ix...) })
			callAlg(o, "T.Any", []any{t, [][]int{ix}}, func() any { return t.Any(ix) })
			callAlg(o, "T.Any", []any{t, [][]int{ix, {0}}}, func() any { return t.Any(ix, []int{0}) })
		}
		callAlg(o, "T.Any", []any{t, [][]int{}}, func() any { return t.Any() })
		for _, t2 := range t2s {
			callAlg(o, "T.Add", []any{t, t2}, func() any { return t.Add(t2) })
			le := len(t) == len(t2)
			for i := range t2 {
				if i < len(t) && t2[i] > t[i] {
					le = false
				}
			}
			if le || len(t) != len(t2) {
				// "ticks since": the earlier time is component-wise <= (no uint64 wrap)
				callAlg(o, "T.DiffSince", []any{t, t2}, func() any { return t.DiffSince(t2) })
			}
			for _, b := range bools {
				callAlg(o, "T.After", []any{t, b, t2}, func() any { return t.After(b, t2) })
				callAlg(o, "T.Before", []any{t, b, t2}, func() any { return t.Before(b, t2) })
				callAlg(o, "T.Equal", []any{t, b, t2}, func() any { return t.Equal(b, t2) })
			}
		}
		ti := t.ToIndex(index)
		callAlg(o, "TI.String", []any{index, t}, func() any { return ti.String() })
		callAlg(o, "TI.NonZeroStates", []any{index, t}, func() any { return ti.NonZeroStates() })
		callAlg(o, "TI.ActiveStates", []any{index, t, true, am.S{}}, func() any { return ti.ActiveStates(nil) })
		for i := 0; i < 3; i++ {
			callAlg(o, "TI.StateName", []any{index, t, i}, func() any { return ti.StateName(i) })
		}
		for _, st := range known {
			callAlg(o, "TI.Sum", []any{index, t, st}, func() any { return ti.Sum(st) })
			callAlg(o, "TI.Filter", []any{index, t, st}, func() any {
				f := ti.Filter(st)
				return []any{f.Index, f.Time}
			})
			callAlg(o, "TI.ActiveStates", []any{index, t, false, st}, func() any { return ti.ActiveStates(st) })
		}
		for _, st := range withUnknown {
			callAlg(o, "TI.Is", []any{index, t, st}, func() any { return ti.Is(st) })
			callAlg(o, "TI.Not", []any{index, t, st}, func() any { return ti.Not(st) })
			callAlg(o, "TI.Any", []any{index, t, st}, func() any { return ti.Any(st...) })
			callAlg(o, "TI.Any1", []any{index, t, st}, func() any { return ti.Any1(st...) })
		}
		for _, n := range append(append([]string{}, index...), Unknown) {
			callAlg(o, "TI.Is1", []any{index, t, n}, func() any { return ti.Is1(n) })
			callAlg(o, "TI.Not1", []any{index, t, n}, func() any { return ti.Not1(n) })
		}
	}
}

// ---------------------------------------------------------------------------
// queue queries: a real machine whose queue holds 0..MaxQueue mutations,
// queried from inside the handler that queued them

type QMut struct {
	Type   string `json:"type"`
	Called am.S   `json:"called"`
	Check  bool   `json:"check"`
	Args   bool   `json:"args"`
	Tick   int    `json:"tick"`
}

type qSpec struct {
	typ    am.MutationType
	states am.S
	check  bool
	args   bool
}

var qAlphabet = []qSpec{
	{am.MutationAdd, am.S{"A"}, false, false},
	{am.MutationAdd, am.S{"A", "B"}, false, true},
	{am.MutationRemove, am.S{"A"}, false, false},
	{am.MutationSet, am.S{"B"}, false, false},
	{am.MutationAdd, am.S{"A"}, true, false},
	{am.MutationRemove, am.S{"B", "A"}, false, true},
}

type qHandlers struct {
	fn func(e *am.Event)
}

func (h *qHandlers) QState(e *am.Event) { h.fn(e) }

func mutTypes() []am.MutationType {
	return []am.MutationType{am.MutationAdd, am.MutationRemove, am.MutationSet}
}

func readQueue(m *am.Machine) []QMut {
	index := m.StateNames()
	var out []QMut
	for _, mu := range m.Queue() {
		out = append(out, QMut{
			Type: mu.Type.String(), Called: am.IndexToStates(index, mu.Called),
			Check: mu.IsCheck, Args: len(mu.Args) > 0, Tick: int(mu.QueueTick),
		})
	}
	if out == nil {
		out = []QMut{}
	}
	return out
}

func runQueue(o *Out, opt AlgOpts) {
	// all queues of length <= MaxQueue over the alphabet
	specs := [][]int{{}}
	prev := [][]int{{}}
	for l := 1; l <= opt.MaxQueue; l++ {
		var next [][]int
		for _, p := range prev {
			for a := range qAlphabet {
				next = append(next, append(append([]int{}, p...), a))
			}
		}
		specs = append(specs, next...)
		prev = next
	}
	stateArgs := []am.S{{}, {"A"}, {"B"}, {"A", "B"}, {"B", "A"}, {Unknown}}
	bools := []bool{false, true}
	positions := []am.Position{am.PositionAny, am.PositionFirst, am.PositionLast}

	query := func(m *am.Machine, full bool) {
		index := m.StateNames()
		q := readQueue(m)
		ticks := []uint64{0}
		if len(q) >= 2 {
			ticks = append(ticks, uint64(q[1].Tick))
		} else {
			ticks = append(ticks, 2)
		}
		for _, mt := range mutTypes() {
			for _, st := range stateArgs {
				for _, pos := range positions {
					for _, woa := range bools {
						for _, strict := range bools {
							for _, chk := range bools {
								for _, mq := range ticks {
									if !full && (woa || strict) && mq != 0 {
										continue
									}
									callAlg(o, "M.IsQueued",
										[]any{index, q, mt.String(), st, woa, strict, int(mq), chk, int(pos)},
										func() any {
											f, i, t := m.IsQueued(mt, st, woa, strict, mq, chk, pos)
											return []any{f, int(i), int(t)}
										})
								}
							}
						}
					}
				}
				for _, woa := range bools {
					for _, strict := range bools {
						for _, thr := range []int{0, 1, 2} {
							for _, mq := range ticks {
								callAlg(o, "M.IsQueuedAbove",
									[]any{index, q, thr, mt.String(), st, woa, strict, int(mq)},
									func() any { return m.IsQueuedAbove(thr, mt, st, woa, strict, mq) })
							}
						}
					}
				}
			}
		}
		for _, st := range stateArgs {
			callAlg(o, "M.WillBe", []any{index, q, st, false, 0}, func() any { return m.WillBe(st) })
			callAlg(o, "M.WillBeRemoved", []any{index, q, st, false, 0}, func() any { return m.WillBeRemoved(st) })
			callAlg(o, "M.WillBeAny", []any{index, q, st}, func() any { return m.WillBeAny(st) })
			for _, pos := range positions {
				callAlg(o, "M.WillBe", []any{index, q, st, true, int(pos)}, func() any { return m.WillBe(st, pos) })
				callAlg(o, "M.WillBeRemoved", []any{index, q, st, true, int(pos)},
					func() any { return m.WillBeRemoved(st, pos) })
			}
		}
		for _, n := range []string{"A", "B", "C"} {
			callAlg(o, "M.WillBe1", []any{index, q, n, false, 0}, func() any { return m.WillBe1(n) })
			callAlg(o, "M.WillBeRemoved1", []any{index, q, n, false, 0}, func() any { return m.WillBeRemoved1(n) })
			for _, pos := range positions {
				callAlg(o, "M.WillBe1", []any{index, q, n, true, int(pos)}, func() any { return m.WillBe1(n, pos) })
				callAlg(o, "M.WillBeRemoved1", []any{index, q, n, true, int(pos)},
					func() any { return m.WillBeRemoved1(n, pos) })
			}
		}
	}

	// (a) never-used machine: the queue slice is nil
	{
		m := am.New(context.Background(), am.Schema{"A": {}, "B": {}, "C": {}, "Q": {}}, nil)
		query(m, true)
		m.Dispose()
	}
	// (b) queues built from inside a handler; spec [] = drained queue of a
	// machine that has already processed mutations
	var wg sync.WaitGroup
	sem := make(chan struct{}, 8)
	for _, spec := range specs {
		wg.Add(1)
		sem <- struct{}{}
		go func(spec []int) {
			defer wg.Done()
			defer func() { <-sem }()
			m := am.New(context.Background(), am.Schema{"A": {}, "B": {}, "C": {}, "Q": {}},
				&am.Opts{HandlerTimeout: time.Hour})
			h := &qHandlers{}
			done := make(chan struct{})
			h.fn = func(e *am.Event) {
				defer close(done)
				for _, a := range spec {
					s := qAlphabet[a]
					var args am.A
					if s.args {
						args = am.A{"k": 1}
					}
					switch {
					case s.check && s.typ == am.MutationAdd:
						m.CanAdd(s.states, args)
					case s.check:
						m.CanRemove(s.states, args)
					case s.typ == am.MutationAdd:
						m.Add(s.states, args)
					case s.typ == am.MutationRemove:
						m.Remove(s.states, args)
					default:
						m.Set(s.states, args)
					}
				}
				query(m, opt.QueueFull || len(spec) <= 1)
			}
			if _, err := m.HandlersBind(h); err != nil {
				panic(err)
			}
			if len(spec) == 0 {
				// drained queue: process two mutations first, then query from outside
				h.fn = func(e *am.Event) { close(done) }
				m.Add1("Q", nil)
				m.Add1("A", nil)
				<-done
				query(m, true)
			} else {
				m.Add1("Q", nil)
				<-done
			}
			m.Dispose()
		}(spec)
	}
	wg.Wait()
}
