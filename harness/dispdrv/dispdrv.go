// Package dispdrv lands Dispose / DisposeForce / parent-context cancellation
// at chosen points of a running workload on a real machine and reports what
// is true once disposal has completed (C13).
package dispdrv

import (
	"context"
	"fmt"
	"sync"
	"sync/atomic"
	"time"

	am "github.com/pancsta/asyncmachine-go/pkg/machine"

	"verifharness/gate"
)

type Scenario struct {
	// idle|queue|queueLong|negotiation|final|eval|evalQueued|fromHandler|fromFinal|
	// subsCollect (the queue goroutine is inside processSubscriptions of an
	// accepted transition: the matched bindings are out of the indexes, their
	// channels not closed yet)
	Landing  string `json:"landing"`
	How      string `json:"how"`      // dispose|force|ctx|twice|disposeThenForce
	Handlers bool   `json:"handlers"` // machine has handlers bound
	Subs     bool   `json:"subs"`     // outstanding subscriptions / contexts
	// Detach: the handlers are bound, used, and all detached again before the
	// disposal lands (the handler loop keeps running: it must still exit)
	Detach bool `json:"detach"`
}

type StageEv struct {
	Ev    string `json:"ev"`
	G     int64  `json:"g"` // goroutine tag (small int per goroutine)
	Point string `json:"point"`
}

type PostCall struct {
	Fn      string `json:"fn"`
	Outcome string `json:"outcome"` // ok | panic | blocked
	Neutral bool   `json:"neutral"`
	Val     string `json:"val,omitempty"`
}

type EndEv struct {
	Ev            string         `json:"ev"`
	Completed     bool           `json:"completed"`     // WhenDisposed closed within the bound
	IsDisposed    bool           `json:"isDisposed"`
	Open          []string       `json:"open"`          // subscription channels still open
	// channels of waiters whose condition was met by the transition in flight
	// when the disposal landed (landing subsCollect) and which are still open
	OpenMatched   []string       `json:"openMatched"`
	CtxAlive      []string       `json:"ctxAlive"`      // state contexts not cancelled
	MachCtxAlive  bool           `json:"machCtxAlive"`
	DisposeRuns   []int          `json:"disposeRuns"`   // runs per registered dispose handler
	LoopExits     int            `json:"loopExits"`
	LoopExpected  int            `json:"loopExpected"`
	CallerPanic   string         `json:"callerPanic"`   // panic seen by a workload / dispose caller
	CallerBlocked bool           `json:"callerBlocked"` // the workload call never returned
	Post          []PostCall     `json:"post"`
}

var sink atomic.Value

// Run executes one scenario.
func Run(sc Scenario) (lines []any) {
	var mu sync.Mutex
	add := func(l any) { mu.Lock(); lines = append(lines, l); mu.Unlock() }
	add(map[string]any{"ev": "dinit", "scenario": sc})

	parent, cancelParent := context.WithCancel(context.Background())
	defer cancelParent()
	schema := am.Schema{"A": {}, "B": {}, "C": {Multi: true}, "W": {}, "Start": {}}
	names := am.S{"A", "B", "C", "W", "Start", am.StateException}
	m := am.New(parent, schema, &am.Opts{Id: "d", HandlerTimeout: 3 * time.Second})
	_ = m.VerifyStates(names)
	m.DisposeTimeout = 150 * time.Millisecond

	// stage events of doDispose (whatever goroutine runs it)
	gids := map[int64]int64{}
	loopExits := int32(0)
	s := gate.New() // no gates: record only
	s.OnPoint = func(g int64, point string) {
		if point == "hl.exit" {
			atomic.AddInt32(&loopExits, 1)
			return
		}
		if len(point) > 3 && point[:3] == "dd." {
			mu.Lock()
			t, ok := gids[g]
			if !ok {
				t = int64(len(gids) + 1)
				gids[g] = t
			}
			lines = append(lines, StageEv{"stage", t, point})
			mu.Unlock()
		}
	}
	s.Attach(m)
	defer s.Detach()

	inHandler := make(chan struct{}, 4)
	release := make(chan struct{})
	var callerPanic atomic.Value
	callerPanic.Store("")
	how := func() {
		defer func() {
			if r := recover(); r != nil {
				callerPanic.Store(fmt.Sprint(r))
			}
		}()
		switch sc.How {
		case "dispose":
			m.Dispose()
		case "force":
			m.DisposeForce()
		case "ctx":
			cancelParent()
		case "twice":
			go m.Dispose()
			m.Dispose()
		case "disposeThenForce":
			m.Dispose()
			m.DisposeForce()
		}
	}
	var hid string
	if sc.Handlers {
		neg := map[string]am.HandlerNegotiation{
			"AEnter": func(e *am.Event) bool {
				if sc.Landing == "negotiation" || sc.Landing == "evalQueued" {
					inHandler <- struct{}{}
					<-release
				}
				if sc.Landing == "fromHandler" {
					how()
				}
				return true
			},
		}
		fin := map[string]am.HandlerFinal{
			"StartState": func(e *am.Event) {},
			"StartEnd":   func(e *am.Event) {},
			"AState": func(e *am.Event) {
				if sc.Landing == "final" {
					inHandler <- struct{}{}
					<-release
				}
				if sc.Landing == "fromFinal" {
					how()
				}
			},
		}
		hid, _ = m.HandlersBindMaps(neg, fin)
	}
	m.Add1("B", nil)
	m.Add1("Start", nil)
	if sc.Handlers && sc.Detach {
		_ = m.HandlersDetach(hid)
	}

	// outstanding waiters
	chans := map[string]<-chan struct{}{}
	ctxs := map[string]context.Context{}
	if sc.Subs {
		chans["When(W)"] = m.When1("W", nil)
		chans["WhenNot(B)"] = m.WhenNot1("B", nil)
		chans["WhenTime(W,9)"] = m.WhenTime1("W", 9, nil)
		chans["WhenTicks(B,4)"] = m.WhenTicks("B", 4, nil)
		chans["WhenNextActive(B)"] = m.WhenNextActive("B", nil)
		chans["WhenQuery(never)"] = m.WhenQuery(func(c am.Clock) bool { return false }, nil)
		cctx, cc := context.WithCancel(context.Background())
		defer cc()
		chans["WhenQuery(never,ctx)"] = m.WhenQuery(func(c am.Clock) bool { return false }, cctx)
		chans["When(W,ctx)"] = m.When1("W", cctx)
		chans["WhenArgs(C)"] = m.WhenArgs("C", am.A{"x": 1}, nil)
		chans["WhenQueue(+50)"] = m.WhenQueue(am.Result(m.QueueTick() + 50))
		ctxs["StateCtx(B)"] = m.NewStateCtx("B")
		ctxs["StateCtx(W)"] = m.NewStateCtx("W")
	}
	// landing subsCollect: waiters the workload's transition (Add A) satisfies,
	// and a WhenQuery predicate as the landing point - it is evaluated by the
	// queue goroutine in ProcessWhenQuery, i.e. after ProcessWhen / WhenTime /
	// WhenQueue (and the earlier WhenQuery bindings) were collected, before
	// any collected channel is closed
	matched := map[string]<-chan struct{}{}
	var gateArmed atomic.Bool
	var gateOnce sync.Once
	if sc.Landing == "subsCollect" {
		if sc.Subs {
			matched["When(A)"] = m.When1("A", nil)
			matched["WhenTime(A,1)"] = m.WhenTime1("A", 1, nil)
			matched["WhenTicks(A,1)"] = m.WhenTicks("A", 1, nil)
			matched["WhenQueue(+1)"] = m.WhenQueue(am.Result(m.QueueTick() + 1))
			matched["WhenQuery(A)"] = m.WhenQuery(func(c am.Clock) bool { return c["A"]%2 == 1 }, nil)
		}
		chans["WhenQuery(gate)"] = m.WhenQuery(func(c am.Clock) bool {
			if gateArmed.Load() {
				gateOnce.Do(func() {
					add(map[string]any{"ev": "q", "point": "q.collected"})
					inHandler <- struct{}{}
					select {
					case <-release:
					case <-time.After(3 * time.Second):
					}
				})
			}
			return false
		}, nil)
	}
	chans["WhenDisposed"] = m.WhenDisposed()
	machCtx := m.Context()
	runs := []*int32{new(int32), new(int32)}
	for _, r := range runs {
		r := r
		m.OnDispose(func(id string, ctx context.Context) { atomic.AddInt32(r, 1) })
	}

	// the workload
	workDone := make(chan struct{})
	startWork := func(fn func()) {
		go func() {
			defer func() {
				if r := recover(); r != nil {
					callerPanic.Store(fmt.Sprint(r))
				}
				close(workDone)
			}()
			fn()
		}()
	}
	switch sc.Landing {
	case "idle":
		close(workDone)
		how()
	case "queue":
		// keep the queue busy with mutations while disposing
		startWork(func() {
			for i := 0; i < 200; i++ {
				m.Add1("C", nil)
				m.Toggle1("A", nil)
			}
		})
		time.Sleep(time.Duration(200+len(sc.How)*37) * time.Microsecond)
		how()
	case "queueLong":
		// mutations keep coming for longer than DisposeTimeout
		startWork(func() {
			t0 := time.Now()
			for time.Since(t0) < 500*time.Millisecond {
				m.Add1("C", nil)
				m.Toggle1("A", nil)
				m.Is1("A")
				_ = m.Time(nil)
			}
		})
		time.Sleep(5 * time.Millisecond)
		how()
	case "negotiation", "final":
		if !sc.Handlers {
			close(workDone)
			how()
			break
		}
		startWork(func() { m.Add1("A", nil) })
		select {
		case <-inHandler:
		case <-time.After(2 * time.Second):
		}
		how()
		time.Sleep(30 * time.Millisecond)
		close(release)
	case "subsCollect":
		gateArmed.Store(true)
		startWork(func() {
			m.Add1("A", nil)
			// back from processQueue: the closing loop of processSubscriptions ran
			add(map[string]any{"ev": "q", "point": "q.closed"})
		})
		select {
		case <-inHandler:
		case <-time.After(2 * time.Second):
		}
		// Dispose() waits for the queue (WhenQueueEnds needs the subscriptions
		// lock the predicate runs under): do not wait for it here
		howDone := make(chan struct{})
		go func() { defer close(howDone); how() }()
		select {
		case <-howDone:
		case <-time.After(300 * time.Millisecond):
		}
		time.Sleep(30 * time.Millisecond)
		close(release)
	case "eval":
		evalIn := make(chan struct{})
		startWork(func() {
			m.Eval("verif", func() { close(evalIn); <-release }, nil)
		})
		select {
		case <-evalIn:
		case <-time.After(2 * time.Second):
		}
		how()
		time.Sleep(30 * time.Millisecond)
		close(release)
	case "evalQueued":
		// an Eval with a live caller context waits in the queue behind a blocked handler
		if !sc.Handlers {
			close(workDone)
			how()
			break
		}
		sc2 := sc
		sc2.Landing = "negotiation"
		_ = sc2
		go func() {
			defer func() { recover() }()
			m.Add1("A", nil)
		}()
		select {
		case <-inHandler:
		case <-time.After(2 * time.Second):
		}
		live, cancelLive := context.WithCancel(context.Background())
		defer cancelLive()
		startWork(func() {
			m.Eval("verif-queued", func() {}, live)
		})
		time.Sleep(20 * time.Millisecond)
		how()
		time.Sleep(30 * time.Millisecond)
		close(release)
	case "fromHandler", "fromFinal":
		if !sc.Handlers {
			close(workDone)
			how()
			break
		}
		startWork(func() { m.Add1("A", nil) })
	}

	end := EndEv{Ev: "dend", Open: []string{}, OpenMatched: []string{}, CtxAlive: []string{}, Post: []PostCall{}}
	select {
	case <-m.WhenDisposed():
		end.Completed = true
	case <-time.After(6 * time.Second):
	}
	select {
	case <-workDone:
	case <-time.After(3 * time.Second):
		end.CallerBlocked = true
	}
	// the handler loop leaves within its grace period (2 x DisposeTimeout); on a
	// loaded host its goroutine may be scheduled late: wait for the exit hook up
	// to a generous bound before the loop is called alive
	time.Sleep(450 * time.Millisecond)
	if sc.Handlers && end.Completed {
		for t := 0; t < 1000 && atomic.LoadInt32(&loopExits) == 0; t++ {
			time.Sleep(10 * time.Millisecond)
		}
	}
	end.IsDisposed = m.IsDisposed()
	for k, ch := range chans {
		select {
		case <-ch:
		default:
			end.Open = append(end.Open, k)
		}
	}
	for k, ch := range matched {
		select {
		case <-ch:
		default:
			end.OpenMatched = append(end.OpenMatched, k)
		}
	}
	for k, c := range ctxs {
		if c.Err() == nil {
			end.CtxAlive = append(end.CtxAlive, k)
		}
	}
	end.MachCtxAlive = machCtx.Err() == nil
	for _, r := range runs {
		end.DisposeRuns = append(end.DisposeRuns, int(atomic.LoadInt32(r)))
	}
	end.LoopExits = int(atomic.LoadInt32(&loopExits))
	if sc.Handlers {
		end.LoopExpected = 1
	}
	end.CallerPanic = callerPanic.Load().(string)
	if end.Completed {
		end.Post = PostCalls(m)
	}
	sortStrings(end.Open)
	sortStrings(end.OpenMatched)
	sortStrings(end.CtxAlive)
	add(end)
	return
}

func sortStrings(s []string) {
	for i := 1; i < len(s); i++ {
		for j := i; j > 0 && s[j] < s[j-1]; j-- {
			s[j], s[j-1] = s[j-1], s[j]
		}
	}
}

// PostCalls exercises the machine's API after disposal: every call must
// return promptly with a neutral value.
func PostCalls(m *am.Machine) []PostCall {
	type call struct {
		name string
		fn   func() (string, bool)
	}
	closed := func(ch <-chan struct{}) (string, bool) {
		select {
		case <-ch:
			return "closed", true
		case <-time.After(50 * time.Millisecond):
			return "open", false
		}
	}
	resN := func(r am.Result) (string, bool) { return r.String(), r == am.Canceled }
	b := func(v bool) (string, bool) { return fmt.Sprint(v), !v }
	calls := []call{
		{"Add1", func() (string, bool) { return resN(m.Add1("A", nil)) }},
		{"Add", func() (string, bool) { return resN(m.Add(am.S{"A", "B"}, nil)) }},
		{"Remove1", func() (string, bool) { return resN(m.Remove1("B", nil)) }},
		{"Set", func() (string, bool) { return resN(m.Set(am.S{"A"}, nil)) }},
		{"Toggle1", func() (string, bool) { return resN(m.Toggle1("A", nil)) }},
		{"AddErr", func() (string, bool) { return resN(m.AddErr(fmt.Errorf("x"), nil)) }},
		{"CanAdd1", func() (string, bool) { return resN(m.CanAdd1("A", nil)) }},
		{"CanRemove1", func() (string, bool) { return resN(m.CanRemove1("B", nil)) }},
		{"EvAdd1", func() (string, bool) { return resN(m.EvAdd1(nil, "A", nil)) }},
		{"EvRemove1", func() (string, bool) { return resN(m.EvRemove1(nil, "B", nil)) }},
		{"Eval", func() (string, bool) { return b(m.Eval("x", func() {}, nil)) }},
		{"Is1", func() (string, bool) { return b(m.Is1("B")) }},
		{"Is", func() (string, bool) { return b(m.Is(am.S{"B"})) }},
		{"Not1", func() (string, bool) { v := m.Not1("A"); return fmt.Sprint(v), true }},
		{"Any1", func() (string, bool) { return b(m.Any1("A", "B")) }},
		{"IsErr", func() (string, bool) { return b(m.IsErr()) }},
		{"ActiveStates", func() (string, bool) { v := m.ActiveStates(nil); return fmt.Sprint(v), len(v) == 0 }},
		{"Time", func() (string, bool) { v := m.Time(nil); return fmt.Sprint(v), len(v) == 0 }},
		{"Clock", func() (string, bool) { v := m.Clock(nil); return fmt.Sprint(v), len(v) == 0 }},
		{"Tick", func() (string, bool) { v := m.Tick("B"); return fmt.Sprint(v), v == 0 }},
		{"String", func() (string, bool) { v := m.String(); return v, v == "" }},
		{"StringAll", func() (string, bool) { v := m.StringAll(); return v, v == "" }},
		{"Inspect", func() (string, bool) { v := m.Inspect(nil); return "", v == "" }},
		{"Switch", func() (string, bool) { v := m.Switch(am.S{"A", "B"}); return v, v == "" }},
		{"When1", func() (string, bool) { return closed(m.When1("A", nil)) }},
		{"WhenNot1", func() (string, bool) { return closed(m.WhenNot1("A", nil)) }},
		{"WhenTime1", func() (string, bool) { return closed(m.WhenTime1("A", 5, nil)) }},
		{"WhenTicks", func() (string, bool) { return closed(m.WhenTicks("A", 2, nil)) }},
		{"WhenNextActive", func() (string, bool) { return closed(m.WhenNextActive("A", nil)) }},
		{"WhenQuery", func() (string, bool) { return closed(m.WhenQuery(func(am.Clock) bool { return false }, nil)) }},
		{"WhenArgs", func() (string, bool) { return closed(m.WhenArgs("C", am.A{"x": 1}, nil)) }},
		{"WhenQueue", func() (string, bool) { return closed(m.WhenQueue(am.Result(99))) }},
		{"WhenQueueEnds", func() (string, bool) { return closed(m.WhenQueueEnds()) }},
		{"WhenErr", func() (string, bool) { return closed(m.WhenErr(nil)) }},
		{"WhenDisposed", func() (string, bool) { return closed(m.WhenDisposed()) }},
		{"NewStateCtx", func() (string, bool) { c := m.NewStateCtx("B"); return "", c != nil }},
		{"QueueLen", func() (string, bool) { v := m.QueueLen(); return fmt.Sprint(v), true }},
		{"QueueTick", func() (string, bool) { v := m.QueueTick(); return fmt.Sprint(v), true }},
		{"Queue", func() (string, bool) { v := m.Queue(); return "", len(v) == 0 }},
		{"IsQueued", func() (string, bool) { f, _, _ := m.IsQueued(am.MutationAdd, am.S{"A"}, false, false, 0, false, am.PositionAny); return fmt.Sprint(f), !f }},
		{"WillBe1", func() (string, bool) { return b(m.WillBe1("A")) }},
		{"WillBeRemoved1", func() (string, bool) { return b(m.WillBeRemoved1("A")) }},
		{"Has1", func() (string, bool) { v := m.Has1("A"); return fmt.Sprint(v), true }},
		{"StateNames", func() (string, bool) { _ = m.StateNames(); return "", true }},
		{"Schema", func() (string, bool) { _ = m.Schema(); return "", true }},
		{"Index1", func() (string, bool) { v := m.Index1("A"); return fmt.Sprint(v), true }},
		{"Export", func() (string, bool) { _, _, _ = m.Export(); return "", true }},
		{"Err", func() (string, bool) { _ = m.Err(); return "", true }},
		{"Transition", func() (string, bool) { return "", m.Transition() == nil || true }},
		{"HandlersBindMaps", func() (string, bool) {
			_, err := m.HandlersBindMaps(map[string]am.HandlerNegotiation{}, map[string]am.HandlerFinal{})
			return "", err == nil
		}},
		{"HandlersDetach", func() (string, bool) { _ = m.HandlersDetach("nope"); return "", true }},
		{"Handlers", func() (string, bool) { _ = m.Handlers(); return "", true }},
		{"TracerBind", func() (string, bool) { _, _ = m.TracerBind(&am.TracerNoOp{Id: "t"}); return "", true }},
		{"Tracers", func() (string, bool) { _ = m.Tracers(); return "", true }},
		{"Log", func() (string, bool) { m.Log("x"); return "", true }},
		{"SemLogger", func() (string, bool) { m.SemLogger().SetLevel(am.LogOps); return "", true }},
		{"Tags", func() (string, bool) { _ = m.Tags(); return "", true }},
		{"SetTags", func() (string, bool) { m.SetTags([]string{"a"}); return "", true }},
		{"IsClock", func() (string, bool) { v := m.IsClock(am.Clock{"A": 0}); return fmt.Sprint(v), !v }},
		{"WasClock", func() (string, bool) { v := m.WasClock(am.Clock{"A": 0}); return fmt.Sprint(v), !v }},
		{"IsTime", func() (string, bool) { v := m.IsTime(am.Time{0}, am.S{"A"}); return fmt.Sprint(v), !v }},
		{"ParseStates", func() (string, bool) { v := m.ParseStates(am.S{"A"}); return fmt.Sprint(v), len(v) == 0 }},
		{"OnDispose", func() (string, bool) { m.OnDispose(func(string, context.Context) {}); return "", true }},
		{"OnChange", func() (string, bool) { m.OnChange(func(*am.Machine, am.Time, am.Time) {}); return "", true }},
		{"OnError", func() (string, bool) { m.OnError(func(*am.Machine, error) {}); return "", true }},
		{"Dispose", func() (string, bool) { m.Dispose(); return "", true }},
		{"DisposeForce", func() (string, bool) { m.DisposeForce(); return "", true }},
		{"PanicToErr", func() (string, bool) { func() { defer m.PanicToErr(nil) }(); return "", true }},
		{"MachineTick", func() (string, bool) { _ = m.MachineTick(); return "", true }},
		{"Backoff", func() (string, bool) { return b(m.Backoff()) }},
		{"Groups", func() (string, bool) { _, _ = m.Groups(); return "", true }},
		{"Context", func() (string, bool) { return "", m.Context().Err() != nil }},
		{"ErrInternal", func() (string, bool) { select { case _, ok := <-m.ErrInternal(): return fmt.Sprint(ok), !ok; default: return "open", false } }},
	}
	var out []PostCall
	for _, c := range calls {
		c := c
		res := make(chan PostCall, 1)
		go func() {
			pc := PostCall{Fn: c.name, Outcome: "ok"}
			defer func() {
				if r := recover(); r != nil {
					pc.Outcome = "panic"
					pc.Val = fmt.Sprint(r)
				}
				res <- pc
			}()
			pc.Val, pc.Neutral = c.fn()
		}()
		select {
		case pc := <-res:
			out = append(out, pc)
		case <-time.After(1500 * time.Millisecond):
			out = append(out, PostCall{Fn: c.name, Outcome: "blocked"})
		}
	}
	return out
}
