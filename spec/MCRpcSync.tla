----------------------------- MODULE MCRpcSync -----------------------------
(* Bounded model of RpcSync.tla.                                              *)
(*  - verification: the property formulas as invariants over ALL              *)
(*    interleavings (VIEW MCView hides the history), EventuallyConverged      *)
(*    under FairSpec                                                          *)
(*  - schedule generation (Emit = TRUE): every state that violates a formula  *)
(*    prints the action history that led to it (CEX line, JSON); tools/       *)
(*    rpcsynccheck.py turns the histories into schedules that                 *)
(*    harness/rpcdrv forces on the real Server + Client (B3)                  *)
EXTENDS RpcSync, Json, TLC

CONSTANTS Emit, MaxEmit

VARIABLES hist

mcvars == <<vars, hist>>

TrackedAB == {"A", "B"}
SkippedC == {"C"}
NoStates == {}

Log(x) == hist' = Append(hist, x)

MCInit == Init /\ hist = <<>> /\ TLCSet(7, 0)

MCNext ==
  \/ \E s \in Targets : SrcMutate(s) /\ Log([a |-> "SrcMutate", s |-> s])
  \/ \E s \in Targets : CliCall(s) /\ Log([a |-> "CliCall", s |-> s])
  \/ Drop /\ Log([a |-> "Drop", s |-> ""])
  \/ PushTry /\ Log([a |-> "PushTry", s |-> ""])
  \/ PushSend /\ Log([a |-> "PushSend", s |-> ""])
  \/ RemoteMutCompute /\ Log([a |-> "RemoteMutCompute", s |-> ""])
  \/ ReplySend /\ Log([a |-> "ReplySend", s |-> ""])
  \/ RemoteSync /\ Log([a |-> "RemoteSync", s |-> ""])
  \/ Deliver /\ Log([a |-> "Deliver", s |-> Head(s2c).k])
  \/ CliApplyReply /\ Log([a |-> "CliApplyReply", s |-> ""])
  \/ CliSyncSend /\ Log([a |-> "CliSyncSend", s |-> ""])
  \/ CliSyncApply /\ Log([a |-> "CliSyncApply", s |-> ""])
  \/ CliSyncFail /\ Log([a |-> "CliSyncFail", s |-> ""])
  \/ CliSyncInHandler /\ Log([a |-> "CliSyncInHandler", s |-> ""])
  \/ SrvSeesConnect /\ Log([a |-> "SrvSeesConnect", s |-> ""])
  \/ SrvSeesDrop /\ Log([a |-> "SrvSeesDrop", s |-> ""])
  \/ Connect /\ Log([a |-> "Connect", s |-> ""])
  \/ SrvHello /\ Log([a |-> "SrvHello", s |-> ""])
  \/ SrvHandshake /\ Log([a |-> "SrvHandshake", s |-> ""])
  \/ CliHandshakeDone /\ Log([a |-> "CliHandshakeDone", s |-> ""])
  \/ CliRetry /\ Log([a |-> "CliRetry", s |-> ""])

MCSpec == MCInit /\ [][MCNext]_mcvars
MCFairSpec == MCSpec /\ WF_mcvars(Proto /\ hist' = hist)

MCView == vars

(* the formulas, named as the check reports them                              *)
Violated ==
  {n \in {"ConvergedAtQuiescence", "ResyncAfterDrift", "NoForeverBlock", "ReadYourWrite",
          "PushDeliveredAtQuiescence"} :
     CASE n = "ConvergedAtQuiescence" -> ~ConvergedAtQuiescence
       [] n = "ResyncAfterDrift" -> ~ResyncAfterDrift
       [] n = "NoForeverBlock" -> ~NoForeverBlock
       [] n = "ReadYourWrite" -> ~ReadYourWrite
       [] n = "PushDeliveredAtQuiescence" -> ~PushDeliveredAtQuiescence}

(* schedule emission: one CEX line per QUIESCENT violating state (BFS: a        *)
(* shortest history; quiescent, so that what the harness observes after        *)
(* forcing the history is comparable), at most MaxEmit per run                *)
EmitCex ==
  (Emit /\ Quiescent /\ Violated # {} /\ TLCGet(7) < MaxEmit) =>
     /\ TLCSet(7, TLCGet(7) + 1)
     /\ PrintT(<<"CEX", ToJson([viol |-> Violated, hist |-> hist,
                                src |-> src.t, mirror |-> mirror.t])>>)

Holds == Violated = {}
=============================================================================
